(** * Async/StreamOp.v — model of the stream write / read operations of wit-bindgen's Rust guest
    runtime (crates/guest-rust/src/rt/async_support/stream_support.rs, futures_stream.rs) running
    against a stream host whose choices are inputs.  Definitions only (proofs: StreamOpProofs*.v).

    ** What is modelled
    - [StreamWriteOp] / [StreamReadOp]: [start] (with the writer's / reader's [done] flag and the
      [MAX_LENGTH] clamp), [in_progress_update] (all arms, [assert!]s become [Panic]),
      [start_cancelled], [in_progress_cancel];
    - the contract of [WaitableOperation] they plug into (waitable.rs; modelled in detail by C18):
      [poll_complete] (Start -> start -> code; InProgress -> take the delivered code),
      [cancel] (Start -> start_cancelled; delivered code -> update; else the cancel intrinsic),
      [Drop] (= cancel unless done, result dropped);
    - [AbiBuffer] (AbiBuf.v) and the reader's vector + Cleanup area;
    - the loops [write_all], [write_one], [next], [collect] and the futures-stream adapter
      [RawStreamReaderStream::poll_next] as explicit state machines of the async fns;
    - [Vec]'s amortised growth for [collect] ([reserve(1)] when full).

    ** The host (own model: [Async/Host.v] carries item counts only, C19 needs the items)
    One stream.  The writer's end and the reader's end are decoupled by a FIFO of items in flight
    (a superset of what a rendezvous host can show to either end).  Every choice of the host is an
    input: the answer of [stream.write]/[stream.read] ([BLOCKED], [COMPLETED(k)], [DROPPED(k)]),
    the event that later resolves a blocked operation, whether and when that event is delivered,
    and the answer of [stream.cancel-*] when no event is pending ([CANCELLED(k)], or a completion
    that won the race).  The host moves exactly the [k] items it reports: for a write the first [k]
    items it sees at the pointer it was given, for a read [k <= min(capacity, in flight)].

    ** Scenario = payload kind + list of actions ([act]); every action belongs to one end. *)
From Coq Require Import NArith List Bool.
From WB Require Import Async.AbiBuf.
Import ListNotations.
Local Open Scope N_scope.

Inductive res (A : Type) := Ok (a : A) | Invalid | Panic (t : list tok).
Arguments Ok {A} a. Arguments Invalid {A}. Arguments Panic {A} t.

Definition is_some {A} (o : option A) : bool := match o with Some _ => true | None => false end.
Definition sres_count (r : sres) : N := match r with SComplete n => n | _ => 0 end.
Definition min_len (n : nat) : N := N.min (N.of_nat n) MAX_LENGTH.
Definition is_dropped (r : rcode) : bool := match r with RDropped _ => true | _ => false end.
Definition is_cancelled (r : rcode) : bool := match r with RCancelled _ => true | _ => false end.

(** What the host moves when it gives answer / event [a] to an operation that exposes [avail]
    items (writer: the offered slice; reader: the first [capacity] items in flight).
    [strict]: only answers a component-model host can give (count within bounds, known code,
    [CANCELLED] only as the answer of a cancel intrinsic: [incancel]); otherwise [None] = invalid
    scenario.  Non-strict (malformed-host stream): out-of-range counts are clamped for the data
    movement but the code is passed on unchanged so that the runtime's own checks are reached
    ([limit]: the length the runtime passed; a count within it that exceeds what can be moved is
    never valid: the host always moves what it reports). *)
Definition host_moves (strict incancel : bool) (limit : nat) (avail : list N) (a : N) : option (list N) :=
  if N.eqb a BLOCKED then Some []
  else match decode a with
       | None => if strict then None else Some []
       | Some r =>
           if strict && is_cancelled r && negb incancel then None
           else
             let k := rcode_count r in
             if k <=? N.of_nat (length avail) then Some (firstn (N.to_nat k) avail)
             else if strict then None
             else if k <=? N.of_nat limit then None      (* a host that reports more than it moved *)
             else Some avail
       end.

Definition tw (l : list N) : list tok := match l with [] => [] | _ => [KTw l] end.
Definition tr (l : list N) : list tok := match l with [] => [] | _ => [KTr l] end.

(** ** Writer end *)
Record wop := mkWop { wo_inprog : bool; wo_buf : abuf; wo_code : option N }.

Inductive wfut :=
| WFOp (o : wop)                               (* a [StreamWrite] future *)
| WFInit (one : bool) (items : list N)         (* [write_all] / [write_one], not yet polled *)
| WFAll (one first : bool) (o : wop).          (* … suspended at the await of a write *)

Record wst := mkW {
  w_alive : bool;               (* the [StreamWriter] exists *)
  w_done : bool;                (* its [done] flag *)
  w_fut : option wfut;
  w_buf : option abuf;          (* an [AbiBuffer] held by the caller *)
  w_busy : option (list N);     (* host: write outstanding, these items are visible at its pointer *)
  w_ev : option N;              (* host: event ready, not yet delivered *)
  w_moved : N;                  (* ghost: items the host moved for the outstanding operation *)
  w_next : N;                   (* next fresh payload id *)
  w_sent : list N;              (* every item the host took, in order *)
  w_ret : list N;               (* ghost: items handed back to the caller *)
  w_drop : list N;              (* ghost: items dropped by the runtime on the writer side *)
 w_rep : list (N * N);         (* ghost: per resolved write (moved by host, count reported) *)
  w_lg : ledger;                (* ghost: ledger of the writer end = fold of [lg_tok_w] over every token emitted *)
  w_ans : list N;               (* answers available to this action *)
  w_out : list tok              (* tokens of this action *)
}.

Definition w_init : wst := mkW true false None None None None 0 0 [] [] [] [] lg_empty [] [].

Definition wset_alive x w := mkW x (w_done w) (w_fut w) (w_buf w) (w_busy w) (w_ev w) (w_moved w) (w_next w) (w_sent w) (w_ret w) (w_drop w) (w_rep w) (w_lg w) (w_ans w) (w_out w).
Definition wset_done x w := mkW (w_alive w) x (w_fut w) (w_buf w) (w_busy w) (w_ev w) (w_moved w) (w_next w) (w_sent w) (w_ret w) (w_drop w) (w_rep w) (w_lg w) (w_ans w) (w_out w).
Definition wset_fut x w := mkW (w_alive w) (w_done w) x (w_buf w) (w_busy w) (w_ev w) (w_moved w) (w_next w) (w_sent w) (w_ret w) (w_drop w) (w_rep w) (w_lg w) (w_ans w) (w_out w).
Definition wset_buf x w := mkW (w_alive w) (w_done w) (w_fut w) x (w_busy w) (w_ev w) (w_moved w) (w_next w) (w_sent w) (w_ret w) (w_drop w) (w_rep w) (w_lg w) (w_ans w) (w_out w).
Definition wset_host b e m w := mkW (w_alive w) (w_done w) (w_fut w) (w_buf w) b e m (w_next w) (w_sent w) (w_ret w) (w_drop w) (w_rep w) (w_lg w) (w_ans w) (w_out w).
Definition wset_next x w := mkW (w_alive w) (w_done w) (w_fut w) (w_buf w) (w_busy w) (w_ev w) (w_moved w) x (w_sent w) (w_ret w) (w_drop w) (w_rep w) (w_lg w) (w_ans w) (w_out w).
Definition wadd_sent x w := mkW (w_alive w) (w_done w) (w_fut w) (w_buf w) (w_busy w) (w_ev w) (w_moved w) (w_next w) (w_sent w ++ x) (w_ret w) (w_drop w) (w_rep w) (w_lg w) (w_ans w) (w_out w).
Definition wadd_ret x w := mkW (w_alive w) (w_done w) (w_fut w) (w_buf w) (w_busy w) (w_ev w) (w_moved w) (w_next w) (w_sent w) (w_ret w ++ x) (w_drop w) (w_rep w) (w_lg w) (w_ans w) (w_out w).
Definition wadd_drop x w := mkW (w_alive w) (w_done w) (w_fut w) (w_buf w) (w_busy w) (w_ev w) (w_moved w) (w_next w) (w_sent w) (w_ret w) (w_drop w ++ x) (w_rep w) (w_lg w) (w_ans w) (w_out w).
Definition wadd_rep x w := mkW (w_alive w) (w_done w) (w_fut w) (w_buf w) (w_busy w) (w_ev w) (w_moved w) (w_next w) (w_sent w) (w_ret w) (w_drop w) (w_rep w ++ [x]) (w_lg w) (w_ans w) (w_out w).
Definition wset_ans x w := mkW (w_alive w) (w_done w) (w_fut w) (w_buf w) (w_busy w) (w_ev w) (w_moved w) (w_next w) (w_sent w) (w_ret w) (w_drop w) (w_rep w) (w_lg w) x (w_out w).
Definition wemit (k : kind) x w := mkW (w_alive w) (w_done w) (w_fut w) (w_buf w) (w_busy w) (w_ev w) (w_moved w) (w_next w) (w_sent w) (w_ret w) (w_drop w) (w_rep w) (lg_toks_w k x (w_lg w)) (w_ans w) (w_out w ++ x).
Definition wclear w := mkW (w_alive w) (w_done w) (w_fut w) (w_buf w) (w_busy w) (w_ev w) (w_moved w) (w_next w) (w_sent w) (w_ret w) (w_drop w) (w_rep w) (w_lg w) [] [].

(** Next scripted answer; [BLOCKED] when the script is exhausted. *)
Definition wpop (w : wst) : N * wst :=
  match w_ans w with
  | [] => (BLOCKED, w)
  | a :: r => (a, wset_ans r w)
  end.

(** Fresh payload ids [next, next+n). *)
Fixpoint nseq (start : N) (n : nat) : list N :=
  match n with O => [] | S m => start :: nseq (start + 1) m end.

(** [StreamWriteOp::in_progress_update] *)
Inductive wupd := WUBlocked | WUOk (r : sres) (b : abuf) (set_done : bool) (t : list tok) | WUPanic.

Definition wop_update (k : kind) (b : abuf) (code : N) : wupd :=
  match decode code with
  | None => WUPanic
  | Some RBlocked => WUBlocked
  | Some (RDropped 0) => WUOk SDropped b false []
  | Some (RCancelled 0) => WUOk SCancelled b false []
  | Some r =>
      let amt := rcode_count r in
      if amt <=? N.of_nat (length (ab_items b)) then
        match ab_advance k b (N.to_nat amt) with
        | Some (b', t) => WUOk (SComplete amt) b' (is_dropped r) t
        | None => WUPanic
        end
      else WUPanic
  end.

Inductive wpoll := WPending (o : wop) | WReady (r : sres) (b : abuf).

(** A code [code] has been obtained for the in-progress operation ([poll_complete_with_code]). *)
Definition wop_with_code (k : kind) (b : abuf) (code : N) (w : wst) : res (wst * wpoll) :=
  match wop_update k b code with
  | WUPanic => Panic (w_out w)
  | WUBlocked => Ok (w, WPending (mkWop true b None))
  | WUOk r b' sd t =>
      let w := wemit k t w in
      let w := if sd then wset_done true w else w in
      let w := wadd_rep (w_moved w, sres_count r) w in
      let w := wset_host (w_busy w) (w_ev w) 0 w in
      Ok (w, WReady r b')
  end.

(** [poll_complete]. *)
Definition wop_poll (strict : bool) (k : kind) (o : wop) (w : wst) : res (wst * wpoll) :=
  if wo_inprog o then
    match wo_code o with
    | Some c => wop_with_code k (wo_buf o) c w
    | None => Ok (w, WPending o)
    end
  else
    let b := wo_buf o in
    if w_done w then wop_with_code k b DROPPED w      (* [start] answers DROPPED without a host call *)
    else
      let off := ab_offered b in
      let (a, w) := wpop w in
      match host_moves strict false (length off) off a with
      | None => Invalid
      | Some mv =>
          let w := wemit k (tw mv ++ [KWrite (min_len (length off)) a]) w in
          let w := wadd_sent mv w in
          let w := wset_host (if N.eqb a BLOCKED then Some off else None) None (N.of_nat (length mv)) w in
          wop_with_code k b a w
      end.

(** [cancel] of an operation (also what [Drop] does when not done). *)
Definition wop_cancel (strict : bool) (k : kind) (o : wop) (w : wst) : res (wst * sres * abuf) :=
  let b := wo_buf o in
  if negb (wo_inprog o) then Ok (w, SCancelled, b)           (* start_cancelled *)
  else
    let finish (code : N) (w : wst) :=
      match wop_with_code k b code w with
      | Ok (w, WReady r b') => Ok (w, r, b')
      | Ok (_, WPending _) => Panic (w_out w)                 (* unreachable!() *)
      | Invalid => Invalid
      | Panic t => Panic t
      end in
    match wo_code o with
    | Some c => finish c w
    | None =>
        match w_busy w with
        | None => Invalid
        | Some off =>
            match w_ev w with
            | Some c =>
                let w := wemit k [KCancelW c] w in
                finish c (wset_host None None (w_moved w) w)
            | None =>
                let (a, w) := match w_ans w with [] => (CANCELLED, w) | a :: r => (a, wset_ans r w) end in
                if strict && N.eqb a BLOCKED then Invalid else
                match host_moves strict true (length off) off a with
                | None => Invalid
                | Some mv =>
                    let w := wemit k (tw mv ++ [KCancelW a]) w in
                    let w := wadd_sent mv w in
                    finish a (wset_host None None (N.of_nat (length mv)) w)
                end
            end
        end
    end.

(** Drop of an [AbiBuffer]. *)
Definition w_drop_buf (k : kind) (b : abuf) (w : wst) : wst :=
  wadd_drop (ab_offered b) (wemit k (ab_drop k b) w).

(** [into_vec]. *)
Definition w_into_vec (k : kind) (b : abuf) (w : wst) : wst * list N :=
  let (v, t) := ab_take_vec k b in (wadd_ret v (wemit k t w), v).

(** The body of [write_all] from the point where a write resolved with [(r, b)]; [fuel] bounds the
    number of writes started by this poll (each consumes an answer; see [wall_fuel]). *)
Fixpoint wall_loop (fuel : nat) (strict : bool) (k : kind) (one first : bool) (r : sres) (b : abuf) (w : wst)
  : res (wst * option wfut) :=
  let r := if negb first && match r with SCancelled => true | _ => false end then SComplete 0 else r in
  let continue_ := match r with SComplete _ => negb (Nat.eqb (ab_remaining b) 0) | _ => false end in
  if continue_ then
    match fuel with
    | O => Invalid
    | S fuel =>
        match wop_poll strict k (mkWop false b None) w with
        | Ok (w, WPending o) => Ok (w, Some (WFAll one false o))
        | Ok (w, WReady r b) => wall_loop fuel strict k one false r b w
        | Invalid => Invalid
        | Panic t => Panic t
        end
    end
  else
    (* assert!(buf.remaining() == 0 || matches!(status, Dropped)) *)
    if negb (Nat.eqb (ab_remaining b) 0) && negb (match r with SDropped => true | _ => false end)
    then Panic (w_out w)
    else
      let (w, v) := w_into_vec k b w in
      Ok (wemit k [if one then KOne (hd_error v) else KAll v] w, None).

(** Every write started after the first one consumes a scripted answer unless the writer is [done],
    in which case the loop ends at once; [2 + answers] iterations are always enough. *)
Definition wall_fuel (w : wst) : nat := S (S (length (w_ans w))).

(** Poll of the writer-side future. *)
Definition w_poll (strict : bool) (k : kind) (w : wst) : res wst :=
  match w_fut w with
  | None => Invalid
  | Some (WFOp o) =>
      match wop_poll strict k o w with
      | Ok (w, WPending o) => Ok (wset_fut (Some (WFOp o)) w)
      | Ok (w, WReady r b) =>
          Ok (wemit k [KResW r (N.of_nat (ab_remaining b))] (wset_buf (Some b) (wset_fut None w)))
      | Invalid => Invalid
      | Panic t => Panic t
      end
  | Some (WFInit one items) =>
      let (b, t) := ab_new k items in
      let w := wemit k t w in
      match wop_poll strict k (mkWop false b None) w with
      | Ok (w, WPending o) => Ok (wset_fut (Some (WFAll one true o)) w)
      | Ok (w, WReady r b) =>
          match wall_loop (wall_fuel w) strict k one true r b w with
          | Ok (w, f) => Ok (wset_fut f w)
          | Invalid => Invalid
          | Panic t => Panic t
          end
      | Invalid => Invalid
      | Panic t => Panic t
      end
  | Some (WFAll one first o) =>
      match wop_poll strict k o w with
      | Ok (w, WPending o) => Ok (wset_fut (Some (WFAll one first o)) w)
      | Ok (w, WReady r b) =>
          match wall_loop (wall_fuel w) strict k one first r b w with
          | Ok (w, f) => Ok (wset_fut f w)
          | Invalid => Invalid
          | Panic t => Panic t
          end
      | Invalid => Invalid
      | Panic t => Panic t
      end
  end.

Inductive wact :=
| AWrite (n : nat)            (* writer.write(n fresh items) *)
| AWriteBuf                   (* writer.write_buf(held buffer) *)
| AWriteAll (n : nat)         (* writer.write_all(n fresh items) *)
| AWriteOne                   (* writer.write_one(fresh item) *)
| AWPoll (ans : list N)       (* poll the writer-side future; host answers for the calls it makes *)
| AWEvent (code : N)          (* host: resolve the blocked write, event becomes ready *)
| AWDeliver                   (* the task hands the ready event to the operation *)
| AWCancel (ans : list N)     (* StreamWrite::cancel *)
| AWDropFut (ans : list N)    (* drop the writer-side future *)
| AWIntoVec                   (* held buffer .into_vec() *)
| AWDropBuf                   (* drop the held buffer *)
| AWDropEnd.                  (* drop the StreamWriter *)

Definition fut_op (f : wfut) : option wop :=
  match f with WFOp o | WFAll _ _ o => Some o | WFInit _ _ => None end.
Definition fut_with_op (f : wfut) (o : wop) : wfut :=
  match f with WFOp _ => WFOp o | WFAll a b _ => WFAll a b o | WFInit a b => WFInit a b end.

Definition wstep (strict : bool) (k : kind) (a : wact) (w0 : wst) : res wst :=
  let w := wclear w0 in
  let idle := negb (is_some (w_fut w)) && negb (is_some (w_buf w)) in
  match a with
  | AWrite n =>
      if w_alive w && idle then
        let items := nseq (w_next w) n in
        let (b, t) := ab_new k items in
        Ok (wset_fut (Some (WFOp (mkWop false b None))) (wset_next (w_next w + N.of_nat n) (wemit k t w)))
      else Invalid
  | AWriteBuf =>
      match w_buf w with
      | Some b => if w_alive w && negb (is_some (w_fut w))
                  then Ok (wset_fut (Some (WFOp (mkWop false b None))) (wset_buf None w)) else Invalid
      | None => Invalid
      end
  | AWriteAll n =>
      if w_alive w && idle then
        Ok (wset_fut (Some (WFInit false (nseq (w_next w) n))) (wset_next (w_next w + N.of_nat n) w))
      else Invalid
  | AWriteOne =>
      if w_alive w && idle then
        Ok (wset_fut (Some (WFInit true [w_next w])) (wset_next (w_next w + 1) w))
      else Invalid
  | AWPoll ans => w_poll strict k (wset_ans ans w)
  | AWEvent code =>
      match w_busy w, w_ev w with
      | Some off, None =>
          if N.eqb code BLOCKED then Invalid else
          match host_moves strict false (length off) off code with
          | None => Invalid
          | Some mv =>
              let w := wemit k (tw mv) w in
              Ok (wset_host (Some off) (Some code) (N.of_nat (length mv)) (wadd_sent mv w))
          end
      | _, _ => Invalid
      end
  | AWDeliver =>
      match w_ev w, w_fut w with
      | Some c, Some f =>
          match fut_op f with
          | Some o => Ok (wset_fut (Some (fut_with_op f (mkWop (wo_inprog o) (wo_buf o) (Some c))))
                                   (wset_host None None (w_moved w) w))
          | None => Invalid
          end
      | _, _ => Invalid
      end
  | AWCancel ans =>
      match w_fut w with
      | Some (WFOp o) =>
          match wop_cancel strict k o (wset_ans ans w) with
          | Ok (w, r, b) => Ok (wemit k [KResW r (N.of_nat (ab_remaining b))] (wset_buf (Some b) (wset_fut None w)))
          | Invalid => Invalid
          | Panic t => Panic t
          end
      | _ => Invalid
      end
  | AWDropFut ans =>
      match w_fut w with
      | None => Invalid
      | Some (WFInit _ items) =>
          Ok (wadd_drop items (wemit k (drop_vals k items) (wset_fut None w)))
      | Some f =>
          match fut_op f with
          | None => Invalid
          | Some o =>
              match wop_cancel strict k o (wset_ans ans w) with
              | Ok (w, _, b) => Ok (w_drop_buf k b (wset_fut None w))
              | Invalid => Invalid
              | Panic t => Panic t
              end
          end
      end
  | AWIntoVec =>
      match w_buf w with
      | Some b => let (w, v) := w_into_vec k b (wset_buf None w) in Ok (wemit k [KRet v] w)
      | None => Invalid
      end
  | AWDropBuf =>
      match w_buf w with
      | Some b => Ok (w_drop_buf k b (wset_buf None w))
      | None => Invalid
      end
  | AWDropEnd =>
      if w_alive w && negb (is_some (w_fut w)) then Ok (wemit k [KDropW] (wset_alive false w)) else Invalid
  end.

(** ** Reader end *)
(** A [Vec<T>]: its items and its capacity. *)
Record rvec := mkV { v_items : list N; v_cap : nat }.
Definition v_spare (v : rvec) : nat := v_cap v - length (v_items v).

(** A read operation: the vector, whether a Cleanup area exists, what the host stored so far. *)
Record rop := mkRop { ro_inprog : bool; ro_vec : rvec; ro_area : bool; ro_code : option N }.

Inductive rfut :=
| RFOp (o : rop)                     (* a [StreamRead] future *)
| RFNextInit                         (* [next()], not yet polled *)
| RFNext (o : rop)
| RFCollInit                         (* [collect()], not yet polled (owns the reader) *)
| RFColl (o : rop).

(** [RawStreamReaderStream] state. *)
Inductive adapter := AdIdle | AdReading (o : rop) | AdComplete | AdGone.
(* [AdReading]: the boxed [next()] future is suspended at its read; [AdGone]: the adapter was dropped. *)

Record rst := mkR {
  r_alive : bool;               (* a [StreamReader] exists (possibly inside collect / the adapter) *)
  r_done : bool;
  r_fut : option rfut;
  r_ad : option adapter;        (* [Some]: the reader was converted with [into_stream] *)
  r_vec : option rvec;          (* a vector held by the caller *)
  r_busy : option nat;          (* host: read outstanding with this capacity *)
  r_inbuf : list N;             (* host: items stored into the outstanding read's buffer *)
  r_ev : option N;
  r_taken : list N;             (* every item the host handed to the reader end, in order *)
  r_log : list N;               (* ghost: every item that entered a reader vector, in order *)
  r_got : list N;               (* ghost: items handed to the caller *)
  r_dropped : list N;           (* ghost: items dropped by the runtime on the reader side *)
  r_rep : list (N * N);
  r_lg : ledger;                (* ghost: ledger of the reader end = fold of [lg_tok_r] over every token emitted *)
  r_ans : list N;
  r_out : list tok
}.

Definition r_init : rst := mkR true false None None None None [] None [] [] [] [] [] lg_empty [] [].

Definition rset_alive x r := mkR x (r_done r) (r_fut r) (r_ad r) (r_vec r) (r_busy r) (r_inbuf r) (r_ev r) (r_taken r) (r_log r) (r_got r) (r_dropped r) (r_rep r) (r_lg r) (r_ans r) (r_out r).
Definition rset_done x r := mkR (r_alive r) x (r_fut r) (r_ad r) (r_vec r) (r_busy r) (r_inbuf r) (r_ev r) (r_taken r) (r_log r) (r_got r) (r_dropped r) (r_rep r) (r_lg r) (r_ans r) (r_out r).
Definition rset_fut x r := mkR (r_alive r) (r_done r) x (r_ad r) (r_vec r) (r_busy r) (r_inbuf r) (r_ev r) (r_taken r) (r_log r) (r_got r) (r_dropped r) (r_rep r) (r_lg r) (r_ans r) (r_out r).
Definition rset_ad x r := mkR (r_alive r) (r_done r) (r_fut r) x (r_vec r) (r_busy r) (r_inbuf r) (r_ev r) (r_taken r) (r_log r) (r_got r) (r_dropped r) (r_rep r) (r_lg r) (r_ans r) (r_out r).
Definition rset_vec x r := mkR (r_alive r) (r_done r) (r_fut r) (r_ad r) x (r_busy r) (r_inbuf r) (r_ev r) (r_taken r) (r_log r) (r_got r) (r_dropped r) (r_rep r) (r_lg r) (r_ans r) (r_out r).
Definition rset_host b i e r := mkR (r_alive r) (r_done r) (r_fut r) (r_ad r) (r_vec r) b i e (r_taken r) (r_log r) (r_got r) (r_dropped r) (r_rep r) (r_lg r) (r_ans r) (r_out r).
Definition radd_taken x r := mkR (r_alive r) (r_done r) (r_fut r) (r_ad r) (r_vec r) (r_busy r) (r_inbuf r) (r_ev r) (r_taken r ++ x) (r_log r) (r_got r) (r_dropped r) (r_rep r) (r_lg r) (r_ans r) (r_out r).
Definition radd_log x r := mkR (r_alive r) (r_done r) (r_fut r) (r_ad r) (r_vec r) (r_busy r) (r_inbuf r) (r_ev r) (r_taken r) (r_log r ++ x) (r_got r) (r_dropped r) (r_rep r) (r_lg r) (r_ans r) (r_out r).
Definition radd_got x r := mkR (r_alive r) (r_done r) (r_fut r) (r_ad r) (r_vec r) (r_busy r) (r_inbuf r) (r_ev r) (r_taken r) (r_log r) (r_got r ++ x) (r_dropped r) (r_rep r) (r_lg r) (r_ans r) (r_out r).
Definition radd_dropped x r := mkR (r_alive r) (r_done r) (r_fut r) (r_ad r) (r_vec r) (r_busy r) (r_inbuf r) (r_ev r) (r_taken r) (r_log r) (r_got r) (r_dropped r ++ x) (r_rep r) (r_lg r) (r_ans r) (r_out r).
Definition radd_rep x r := mkR (r_alive r) (r_done r) (r_fut r) (r_ad r) (r_vec r) (r_busy r) (r_inbuf r) (r_ev r) (r_taken r) (r_log r) (r_got r) (r_dropped r) (r_rep r ++ [x]) (r_lg r) (r_ans r) (r_out r).
Definition rset_ans x r := mkR (r_alive r) (r_done r) (r_fut r) (r_ad r) (r_vec r) (r_busy r) (r_inbuf r) (r_ev r) (r_taken r) (r_log r) (r_got r) (r_dropped r) (r_rep r) (r_lg r) x (r_out r).
Definition remit (k : kind) x r := mkR (r_alive r) (r_done r) (r_fut r) (r_ad r) (r_vec r) (r_busy r) (r_inbuf r) (r_ev r) (r_taken r) (r_log r) (r_got r) (r_dropped r) (r_rep r) (lg_toks_r k x (r_lg r)) (r_ans r) (r_out r ++ x).
Definition rclear r := mkR (r_alive r) (r_done r) (r_fut r) (r_ad r) (r_vec r) (r_busy r) (r_inbuf r) (r_ev r) (r_taken r) (r_log r) (r_got r) (r_dropped r) (r_rep r) (r_lg r) [] [].

Definition rpop (r : rst) : N * rst :=
  match r_ans r with
  | [] => (BLOCKED, r)
  | a :: t => (a, rset_ans t r)
  end.

(** [StreamReadOp::in_progress_update]: [inbuf] is what the host stored into the buffer. *)
Inductive rupd := RUBlocked | RUOk (r : sres) (v : rvec) (set_done : bool) (got : list N) (t : list tok) | RUPanic.

Definition rop_update (k : kind) (v : rvec) (area : bool) (inbuf : list N) (code : N) : rupd :=
  let free := if area then [KAreaFree] else [] in
  match decode code with
  | None => RUPanic
  | Some RBlocked => RUBlocked
  | Some (RDropped 0) => RUOk SDropped v false [] free
  | Some (RCancelled 0) => RUOk SCancelled v false [] free
  | Some r =>
      let amt := rcode_count r in
      if amt <=? N.of_nat (v_spare v) then
        let got := firstn (N.to_nat amt) inbuf in
        RUOk (SComplete amt) (mkV (v_items v ++ got) (v_cap v)) (is_dropped r) got
             ((if lifted k then map KLiftR got else []) ++ free)
      else RUPanic
  end.

Inductive rpoll := RPending (o : rop) | RReady (r : sres) (v : rvec).

Definition rop_with_code (k : kind) (v : rvec) (area : bool) (code : N) (r : rst) : res (rst * rpoll) :=
  match rop_update k v area (r_inbuf r) code with
  | RUPanic => Panic (r_out r)
  | RUBlocked => Ok (r, RPending (mkRop true v area None))
  | RUOk s v' sd got t =>
      let r := remit k t r in
      let r := if sd then rset_done true r else r in
      let r := radd_log got r in
      let r := radd_rep (N.of_nat (length (r_inbuf r)), sres_count s) r in
      let r := rset_host (r_busy r) [] (r_ev r) r in
      Ok (r, RReady s v')
  end.

(** [avail]: the items in flight when the action starts; the reader has taken
    [length (r_taken r) - base] of them during this action. *)
Definition r_avail (base : nat) (avail : list N) (r : rst) : list N :=
  skipn (length (r_taken r) - base) avail.

Definition rop_poll (strict : bool) (k : kind) (base : nat) (avail : list N) (o : rop) (r : rst)
  : res (rst * rpoll) :=
  if ro_inprog o then
    match ro_code o with
    | Some c => rop_with_code k (ro_vec o) (ro_area o) c r
    | None => Ok (r, RPending o)
    end
  else
    let v := ro_vec o in
    if r_done r then rop_with_code k v false DROPPED r
    else
      let cap := v_spare v in
      let area := lifted k && negb (Nat.eqb cap 0) in
      let r := remit k (if area then [KAreaNew] else []) r in
      let (a, r) := rpop r in
      match host_moves strict false cap (firstn cap (r_avail base avail r)) a with
      | None => Invalid
      | Some mv =>
          let r := remit k (tr mv ++ [KRead (min_len cap) a]) r in
          let r := radd_taken mv r in
          let r := rset_host (if N.eqb a BLOCKED then Some cap else None) mv None r in
          rop_with_code k v area a r
      end.

Definition rop_cancel (strict : bool) (k : kind) (base : nat) (avail : list N) (o : rop) (r : rst)
  : res (rst * sres * rvec) :=
  let v := ro_vec o in
  if negb (ro_inprog o) then Ok (r, SCancelled, v)
  else
    let finish (code : N) (r : rst) :=
      match rop_with_code k v (ro_area o) code r with
      | Ok (r, RReady s v') => Ok (r, s, v')
      | Ok (_, RPending _) => Panic (r_out r)
      | Invalid => Invalid
      | Panic t => Panic t
      end in
    match ro_code o with
    | Some c => finish c r
    | None =>
        match r_busy r with
        | None => Invalid
        | Some cap =>
            match r_ev r with
            | Some c =>
                let r := remit k [KCancelR c] r in
                finish c (rset_host None (r_inbuf r) None r)
            | None =>
                let (a, r) := match r_ans r with [] => (CANCELLED, r) | a :: t => (a, rset_ans t r) end in
                if strict && N.eqb a BLOCKED then Invalid else
                match host_moves strict true cap (firstn cap (r_avail base avail r)) a with
                | None => Invalid
                | Some mv =>
                    let r := remit k (tr mv ++ [KCancelR a]) r in
                    let r := radd_taken mv r in
                    finish a (rset_host None mv None r)
                end
            end
        end
    end.

(** Drop of a reader vector. *)
Definition r_drop_vec (k : kind) (v : rvec) (r : rst) : rst :=
  radd_dropped (v_items v) (remit k (drop_vals k (v_items v)) r).

(** [RawVec::grow_amortized] as used by [ret.reserve(1)] when [len == capacity]. *)
Definition min_non_zero_cap (k : kind) : nat := match k with KCanon => 8 | _ => 4 end.
Definition v_reserve1 (k : kind) (v : rvec) : rvec :=
  if Nat.eqb (length (v_items v)) (v_cap v)
  then mkV (v_items v) (Nat.max (min_non_zero_cap k) (Nat.max (v_cap v * 2) (length (v_items v) + 1)))
  else v.

(** The reader itself is dropped ([stream.drop-readable]). *)
Definition r_drop_end (k : kind) (r : rst) : rst := remit k [KDropR] (rset_alive false r).

(** [collect]'s loop from the point where a read resolved with [(s, v)]. *)
Fixpoint coll_loop (fuel : nat) (strict : bool) (k : kind) (base : nat) (avail : list N)
                   (s : sres) (v : rvec) (r : rst) : res (rst * option rfut) :=
  match s with
  | SCancelled => Panic (r_out r)               (* unreachable!() *)
  | SDropped =>
      let r := r_drop_end k r in
      Ok (radd_got (v_items v) (remit k [KColl (v_items v)] r), None)
  | SComplete _ =>
      match fuel with
      | O => Invalid
      | S fuel =>
          match rop_poll strict k base avail (mkRop false (v_reserve1 k v) false None) r with
          | Ok (r, RPending o) => Ok (r, Some (RFColl o))
          | Ok (r, RReady s v) => coll_loop fuel strict k base avail s v r
          | Invalid => Invalid
          | Panic t => Panic t
          end
      end
  end.

Definition coll_fuel (r : rst) : nat := S (S (length (r_ans r))).

(** [next]: the read resolved. *)
Definition next_done (k : kind) (v : rvec) (r : rst) : rst * option N :=
  match rev (v_items v) with
  | [] => (r, None)
  | x :: rest => (radd_got [x] (r_drop_vec k (mkV (rev rest) (v_cap v)) r), Some x)
  end.

Definition lift_res {A B} (x : res A) (f : A -> res B) : res B :=
  match x with Ok a => f a | Invalid => Invalid | Panic t => Panic t end.

(** Poll of the reader-side future. *)
Definition r_poll (strict : bool) (k : kind) (avail : list N) (r : rst) : res rst :=
  let base := length (r_taken r) in
  match r_fut r with
  | None => Invalid
  | Some (RFOp o) =>
      lift_res (rop_poll strict k base avail o r) (fun '(r, p) =>
        match p with
        | RPending o => Ok (rset_fut (Some (RFOp o)) r)
        | RReady s v => Ok (remit k [KResR s (v_items v)] (rset_vec (Some v) (rset_fut None r)))
        end)
  | Some RFNextInit =>
      lift_res (rop_poll strict k base avail (mkRop false (mkV [] 1) false None) r) (fun '(r, p) =>
        match p with
        | RPending o => Ok (rset_fut (Some (RFNext o)) r)
        | RReady _ v => let (r, x) := next_done k v r in Ok (remit k [KNext x] (rset_fut None r))
        end)
  | Some (RFNext o) =>
      lift_res (rop_poll strict k base avail o r) (fun '(r, p) =>
        match p with
        | RPending o => Ok (rset_fut (Some (RFNext o)) r)
        | RReady _ v => let (r, x) := next_done k v r in Ok (remit k [KNext x] (rset_fut None r))
        end)
  | Some RFCollInit =>
      lift_res (coll_loop (S (coll_fuel r)) strict k base avail (SComplete 0) (mkV [] 0) r)
               (fun '(r, f) => Ok (rset_fut f r))
  | Some (RFColl o) =>
      lift_res (rop_poll strict k base avail o r) (fun '(r, p) =>
        match p with
        | RPending o => Ok (rset_fut (Some (RFColl o)) r)
        | RReady s v =>
            lift_res (coll_loop (coll_fuel r) strict k base avail s v r) (fun '(r, f) => Ok (rset_fut f r))
        end)
  end.

(** [RawStreamReaderStream::poll_next]. *)
Definition ad_poll (strict : bool) (k : kind) (avail : list N) (r : rst) : res rst :=
  let base := length (r_taken r) in
  let run (o : rop) :=
    lift_res (rop_poll strict k base avail o r) (fun '(r, p) =>
      match p with
      | RPending o => Ok (rset_ad (Some (AdReading o)) r)
      | RReady _ v =>
          let (r, x) := next_done k v r in
          match x with
          | Some _ => Ok (remit k [KSn x] (rset_ad (Some AdIdle) r))
          | None => Ok (remit k [KSn None] (r_drop_end k (rset_ad (Some AdComplete) r)))
          end
      end) in
  match r_ad r with
  | Some AdIdle => run (mkRop false (mkV [] 1) false None)
  | Some (AdReading o) => run o
  | Some AdComplete => Ok (remit k [KSn None] r)
  | Some AdGone | None => Invalid
  end.

Inductive ract :=
| ARead (cap : nat)          (* reader.read(held vector or a new one, with exactly [cap] spare slots) *)
| ANext                      (* reader.next() *)
| ACollect                   (* reader.collect() *)
| AIntoStream                (* reader.into_stream() *)
| ARPoll (ans : list N)      (* poll the reader-side future / poll_next of the adapter *)
| AREvent (code : N)
| ARDeliver
| ARCancel (ans : list N)    (* StreamRead::cancel *)
| ARDropFut (ans : list N)   (* drop the reader-side future / the adapter *)
| ATakeVec                   (* the caller takes (and keeps) the held vector *)
| ARDropEnd.                 (* drop the StreamReader *)

Definition rfut_op (f : rfut) : option rop :=
  match f with RFOp o | RFNext o | RFColl o => Some o | _ => None end.
Definition rfut_with_op (f : rfut) (o : rop) : rfut :=
  match f with RFOp _ => RFOp o | RFNext _ => RFNext o | RFColl _ => RFColl o | x => x end.

(** The operation in flight on the reader side, wherever it lives. *)
Definition r_cur_op (r : rst) : option rop :=
  match r_fut r, r_ad r with
  | Some f, _ => rfut_op f
  | None, Some (AdReading o) => Some o
  | _, _ => None
  end.
Definition r_put_op (o : rop) (r : rst) : rst :=
  match r_fut r, r_ad r with
  | Some f, _ => rset_fut (Some (rfut_with_op f o)) r
  | None, Some (AdReading _) => rset_ad (Some (AdReading o)) r
  | _, _ => r
  end.

Definition rstep (strict : bool) (k : kind) (avail : list N) (a : ract) (r0 : rst) : res rst :=
  let r := rclear r0 in
  let base := length (r_taken r) in
  let plain := r_alive r && negb (is_some (r_ad r)) && negb (is_some (r_fut r)) in
  match a with
  | ARead cap =>
      if plain then
        let items := match r_vec r with Some v => v_items v | None => [] end in
        Ok (rset_fut (Some (RFOp (mkRop false (mkV items (length items + cap)) false None))) (rset_vec None r))
      else Invalid
  | ANext => if plain then Ok (rset_fut (Some RFNextInit) r) else Invalid
  | ACollect => if plain then Ok (rset_fut (Some RFCollInit) r) else Invalid
  | AIntoStream => if plain then Ok (rset_ad (Some AdIdle) r) else Invalid
  | ARPoll ans =>
      let r := rset_ans ans r in
      if is_some (r_fut r) then r_poll strict k avail r
      else if is_some (r_ad r) then ad_poll strict k avail r
      else Invalid
  | AREvent code =>
      match r_busy r, r_ev r with
      | Some cap, None =>
          if N.eqb code BLOCKED then Invalid else
          match host_moves strict false cap (firstn cap avail) code with
          | None => Invalid
          | Some mv =>
              Ok (rset_host (Some cap) mv (Some code) (radd_taken mv (remit k (tr mv) r)))
          end
      | _, _ => Invalid
      end
  | ARDeliver =>
      match r_ev r, r_cur_op r with
      | Some c, Some o =>
          Ok (r_put_op (mkRop (ro_inprog o) (ro_vec o) (ro_area o) (Some c)) (rset_host None (r_inbuf r) None r))
      | _, _ => Invalid
      end
  | ARCancel ans =>
      match r_fut r with
      | Some (RFOp o) =>
          lift_res (rop_cancel strict k base avail o (rset_ans ans r)) (fun '(r, s, v) =>
            Ok (remit k [KResR s (v_items v)] (rset_vec (Some v) (rset_fut None r))))
      | _ => Invalid
      end
  | ARDropFut ans =>
      let r := rset_ans ans r in
      match r_fut r, r_ad r with
      | Some RFNextInit, _ => Ok (rset_fut None r)
      | Some RFCollInit, _ => Ok (r_drop_end k (rset_fut None r))
      | Some (RFOp o), _ | Some (RFNext o), _ =>
          lift_res (rop_cancel strict k base avail o r) (fun '(r, _, v) =>
            Ok (r_drop_vec k v (rset_fut None r)))
      | Some (RFColl o), _ =>
          lift_res (rop_cancel strict k base avail o r) (fun '(r, _, v) =>
            Ok (r_drop_end k (r_drop_vec k v (rset_fut None r))))
      | None, Some AdIdle => Ok (r_drop_end k (rset_ad (Some AdGone) r))
      | None, Some (AdReading o) =>
          lift_res (rop_cancel strict k base avail o r) (fun '(r, _, v) =>
            Ok (r_drop_end k (r_drop_vec k v (rset_ad (Some AdGone) r))))
      | None, Some AdComplete => Ok (rset_ad (Some AdGone) r)
      | None, Some AdGone | None, None => Invalid
      end
  | ATakeVec =>
      match r_vec r with
      | Some v => Ok (radd_got (v_items v) (remit k [KGot (v_items v)] (rset_vec None r)))
      | None => Invalid
      end
  | ARDropEnd =>
      if plain then Ok (r_drop_end k r) else Invalid
  end.

(** ** Both ends *)
Inductive act := AW (a : wact) | AR (a : ract).

Record st := mkSt { s_w : wst; s_r : rst }.
Definition st_init : st := mkSt w_init r_init.

(** Items in flight: taken from the writer, not yet stored into a reader buffer. *)
Definition pipe (s : st) : list N := skipn (length (r_taken (s_r s))) (w_sent (s_w s)).

Definition step (strict : bool) (k : kind) (a : act) (s : st) : res (st * list tok) :=
  match a with
  | AW a =>
      match wstep strict k a (s_w s) with
      | Ok w => Ok (mkSt w (s_r s), w_out w)
      | Invalid => Invalid
      | Panic t => Panic t
      end
  | AR a =>
      match rstep strict k (pipe s) a (s_r s) with
      | Ok r => Ok (mkSt (s_w s) r, r_out r)
      | Invalid => Invalid
      | Panic t => Panic t
      end
  end.

Definition ad_live (r : rst) : bool :=
  match r_ad r with Some AdGone | None => false | Some _ => true end.
Definition fut_owns_reader (r : rst) : bool :=
  match r_fut r with Some RFCollInit | Some (RFColl _) => true | _ => false end.

(** What the driver does when the script ends: drop whatever is still alive, writer side first. *)
Definition wrapup (s : st) : list act :=
  let w := s_w s in let r := s_r s in
  (if is_some (w_fut w) then [AW (AWDropFut [])] else []) ++
  (if is_some (w_buf w) then [AW AWDropBuf] else []) ++
  (if w_alive w then [AW AWDropEnd] else []) ++
  (if is_some (r_fut r) || ad_live r then [AR (ARDropFut [])] else []) ++
  (if is_some (r_vec r) then [AR ATakeVec] else []) ++
  (if r_alive r && negb (is_some (r_ad r)) && negb (fut_owns_reader r) then [AR ARDropEnd] else []).

Inductive outcome := OEnd | OInvalid (i : nat) | OPanic.

(** Run a list of actions; one token list per action. *)
Fixpoint run_acts (strict : bool) (k : kind) (i : nat) (acts : list act) (s : st)
  : st * list (list tok) * outcome :=
  match acts with
  | [] => (s, [], OEnd)
  | a :: rest =>
      match step strict k a s with
      | Ok (s', t) => let '(s'', ts, o) := run_acts strict k (S i) rest s' in (s'', t :: ts, o)
      | Invalid => (s, [], OInvalid i)
      | Panic t => (s, [t], OPanic)
      end
  end.

(** A scenario: the script, then the wrap-up (skipped after a panic / an invalid action). *)
Definition run (strict : bool) (k : kind) (acts : list act) : st * list (list tok) * outcome :=
  let '(s, ts, o) := run_acts strict k 0 acts st_init in
  match o with
  | OEnd => let '(s', ts', o') := run_acts strict k (length acts) (wrapup s) s in (s', ts ++ ts', o')
  | _ => (s, ts, o)
  end.
