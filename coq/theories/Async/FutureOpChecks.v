(** * Async/FutureOpChecks.v — the boolean checks behind C20 and their evaluation over the reachable
    per-future state space (FutureOpReach.v).  Each [..._ok] lemma is a [vm_compute] over every reachable
    state, every core action and both values of "the task's waitable set exists". *)
From Coq Require Import NArith ZArith List Bool Lia.
From WB Require Import Async.FutureOp Async.FutureOpReach.
Import ListNotations.
Notation "a ||| b" := (if a then true else b) (at level 50, left associativity).

(** The future is (or may be) registered with the task: then the task's waitable set exists. *)
Definition needs_set (c : fut) : bool :=
  e_joined (hw (fh c)) || e_joined (hr (fh c)) || regw (fr c) || regr (fr c).

(** ** What [cancel] must answer *)
Definition the_out (toks : list (tok sval)) : option (outcome sval) :=
  match filter (fun t => match t with KOut _ => true | _ => false end) toks with
  | [KOut o] => Some o
  | _ => None
  end.
Definition cancel_code (e : endk) (toks : list (tok sval)) : option N :=
  match filter (fun t => match t with KCancel _ _ => true | _ => false end) toks with
  | [] => None
  | KCancel e' c :: _ => match e, e' with EW, EW | ER, ER => Some c | _, _ => None end
  | _ => None
  end.
Definition out_eqb (a b : outcome sval) : bool :=
  match a, b with
  | OAlreadySent, OAlreadySent | ORErr, ORErr | OSkip, OSkip => true
  | ODropped x, ODropped y | OCancelled x, OCancelled y | OROk x, OROk y => sval_eqb x y
  | OPanic PRecancel, OPanic PRecancel => true
  | _, _ => false
  end.

(** [FutureWrite::cancel] on future [c], having produced [toks]: with [v] the value being written,
    - never polled: [Cancelled v], no intrinsic called;
    - a completion code [k] had already been delivered to the operation: no [future.cancel-write]
      call, the answer is the one [k] stands for;
    - otherwise exactly one [future.cancel-write] call, and the answer is the one its return code [k]
      stands for: 0 (COMPLETED) = [AlreadySent], 1 (DROPPED) = [Dropped v], 2 (CANCELLED) = [Cancelled v]
      (the writer is handed back: see [wcancel_writer_back]). *)
Definition wcancel_answer (v : sval) (k : N) : option (outcome sval) :=
  if N.eqb k COMPLETED then Some OAlreadySent
  else if N.eqb k DROPPED then Some (ODropped v)
  else if N.eqb k CANCELLED then Some (OCancelled v)
  else None.
Definition wcancel_spec (c : fut) (toks : list (tok sval)) : bool :=
  match write (fr c) with
  | None => opt_eqb out_eqb (the_out toks) (Some OSkip)
  | Some (o, v) =>
      match o_st o with
      | ODone => opt_eqb out_eqb (the_out toks) (Some (OPanic PRecancel))
      | OStart => opt_eqb out_eqb (the_out toks) (Some (OCancelled v)) &&& is_none (cancel_code EW toks)
      | OInProg =>
          match o_code o with
          | Some k => is_none (cancel_code EW toks) &&& opt_eqb out_eqb (the_out toks) (wcancel_answer v k)
          | None => match cancel_code EW toks with
                    | Some k => opt_eqb out_eqb (the_out toks) (wcancel_answer v k)
                    | None => false
                    end
          end
      end
  end.
(** The [FutureWriter] is handed back exactly when the answer is [Cancelled]. *)
Definition wcancel_writer_back (c c' : fut) (toks : list (tok sval)) : bool :=
  match write (fr c) with
  | Some (o, _) =>
      match o_st o, the_out toks with
      | ODone, _ => true
      | _, Some (OCancelled _) => writer (fr c') &&& e_live (hw (fh c'))
      | _, _ => negb (writer (fr c')) &&& negb (e_live (hw (fh c')))
      end
  | None => true
  end.

(** [FutureRead::cancel]: 0 (COMPLETED) = [Ok value] (the value the host moved), 2 (CANCELLED) =
    [Err reader]. *)
Definition rcancel_answer (c : fut) (k : N) : option (outcome sval) :=
  if N.eqb k COMPLETED then match xfer (fg c) with [v] => Some (OROk v) | _ => None end
  else if N.eqb k CANCELLED then Some ORErr
  else None.
Definition rcancel_spec (c c' : fut) (toks : list (tok sval)) : bool :=
  match read (fr c) with
  | None => opt_eqb out_eqb (the_out toks) (Some OSkip)
  | Some o =>
      match o_st o with
      | ODone => opt_eqb out_eqb (the_out toks) (Some (OPanic PRecancel))
      | OStart => opt_eqb out_eqb (the_out toks) (Some ORErr) &&& is_none (cancel_code ER toks)
      | OInProg =>
          match o_code o with
          | Some k => is_none (cancel_code ER toks) &&& opt_eqb out_eqb (the_out toks) (rcancel_answer c' k)
          | None => match cancel_code ER toks with
                    | Some k => opt_eqb out_eqb (the_out toks) (rcancel_answer c' k)
                    | None => false
                    end
          end
      end
  end.

(** ** One transition *)
Definition trans_ok (v2 : bool) (c : fut) (s : bool) (a : fact) : bool :=
  let '(ok, c', s', toks) := cstep v2 s c a in
  clean_toks toks
  &&& implb s s'
  &&& (if ok then hmem c' (ridx v2) &&& (if implb (needs_set c) s then implb (needs_set c') s' else true) else true)
  &&& match a with
      | FWCancel => wcancel_spec c toks &&& (if ok then wcancel_writer_back c c' toks else true)
      | FRCancel => rcancel_spec c c' toks
      | _ => true
      end.

Definition closed (v2 : bool) : bool :=
  forallb (fun c => forallb (fun s => forallb (trans_ok v2 c s) facts) [true; false]) (reach v2).

Lemma closed_ok : forall v2, closed v2 = true.
Proof. destruct v2; vm_compute; reflexivity. Qed.

Lemma inits_ok : forall v2 heap imp, In (fut0 heap imp) (reach v2).
Proof.
  intros v2 heap imp. apply hmem_reach. destruct v2, heap, imp; vm_compute; reflexivity.
Qed.

Lemma trans_ok_reach : forall v2 c s a, In c (reach v2) -> trans_ok v2 c s a = true.
Proof.
  intros v2 c s a Hc. pose proof (closed_ok v2) as H. unfold closed in H.
  rewrite forallb_forall in H. specialize (H c Hc). rewrite forallb_forall in H.
  assert (Hs : In s [true; false]) by (destruct s; cbn; tauto).
  specialize (H s Hs). rewrite forallb_forall in H. apply H, facts_all.
Qed.

(** ** Per-state facts *)
Definition is_nil {A} (l : list A) : bool := match l with [] => true | _ => false end.
Definition prefix1 (l x : list sval) : bool := is_nil l ||| list_eqb sval_eqb l x.
Definition provenance_ok (c : fut) (v : sval) : bool :=
  match v with
  | VUser => wv_user (fg c) &&& negb (f_imp c)
  | VDefault => wv_dflt (fg c) &&& negb (f_imp c)
  | VPeer => f_imp c
  | VJunk => false
  end.

Definition state_ok (c : fut) : bool :=
  let g := fg c in
  (* at most one value ever crosses the future; what the reading side obtained and what the writing
     side was told are that value *)
  Nat.leb (length (xfer g)) 1
  &&& prefix1 (got g ++ peer_recv (fh c)) (xfer g)
  &&& prefix1 (sent g) (xfer g)
  &&& forallb (provenance_ok c) (xfer g)
  (* handle ends: dropped at most once; exactly once as soon as they are gone *)
  &&& Nat.eqb (n_dropw g + b2n (e_live (hw (fh c)))) (b2n (negb (f_imp c)))
  &&& Nat.eqb (n_dropr g + n_taker g + b2n (e_live (hr (fh c)))) 1
  (* ledger never negative (no double free / double drop) *)
  &&& Z.leb 0 (g_low g) &&& Z.leb 0 (g_area g) &&& Z.leb 0 (g_live g)
  (* a user write is accepted only while nothing has been moved: [VUser] is unambiguous *)
  &&& (if write_ready c then is_nil (xfer g) else true)
  &&& Nat.leb (n_default g) 1.

Lemma state_ok_reach : forall v2, forallb state_ok (reach v2) = true.
Proof. destruct v2; vm_compute; reflexivity. Qed.

Lemma state_ok_In : forall v2 c, In c (reach v2) -> state_ok c = true.
Proof. intros v2 c H. pose proof (state_ok_reach v2) as A. rewrite forallb_forall in A. auto. Qed.

(** ** The clean-up suffix, block by block *)
Definition blk1 : list fact := [FWDropOp; FDropWriter; FRDropOp; FDropReader].
Definition blk2 : list fact := [FPeerRead].
Definition blk3 : list fact := [FDeliver EW; FDeliver ER].
Definition blk4 : list fact := [FPeerDrop].

(** Run a block of actions on one future, threading "the set exists"; [None] = some action panicked. *)
Fixpoint run_block (v2 s : bool) (c : fut) (blk : list fact) : option (fut * bool * bool) :=
  match blk with
  | [] => Some (c, s, true)
  | a :: r =>
      let '(ok, c1, s1, toks) := cstep v2 s c a in
      if ok then
        match run_block v2 s1 c1 r with
        | Some (c2, s2, cl) => Some (c2, s2, clean_toks toks &&& cl)
        | None => None
        end
      else None
  end.

Definition image (v2 : bool) (R : list fut) (blk : list fact) : list fut :=
  fold_right (fun c acc =>
    fold_right (fun s acc =>
      if implb (needs_set c) s then
        match run_block v2 s c blk with
        | Some (c1, _, _) => if memb c1 acc then acc else c1 :: acc
        | None => acc
        end
      else acc) acc [true; false]) [] R.

Definition block_ok (v2 : bool) (R : list fut) (I1 : hset) (blk : list fact) : bool :=
  forallb (fun c => forallb (fun s =>
    if implb (needs_set c) s then
      match run_block v2 s c blk with
      | Some (c1, s1, cl) => cl &&& hmem c1 I1 &&& implb s s1 &&& implb (needs_set c1) s1
      | None => false
      end
    else true) [true; false]) R.

Definition R1_v2 : list fut := Eval vm_compute in image true reach_v2 blk1.
Definition R1_v1 : list fut := Eval vm_compute in image false reach_v1 blk1.
Definition R2_v2 : list fut := Eval vm_compute in image true R1_v2 blk2.
Definition R2_v1 : list fut := Eval vm_compute in image false R1_v1 blk2.
Definition R3_v2 : list fut := Eval vm_compute in image true R2_v2 blk3.
Definition R3_v1 : list fut := Eval vm_compute in image false R2_v1 blk3.
Definition R4_v2 : list fut := Eval vm_compute in image true R3_v2 blk4.
Definition R4_v1 : list fut := Eval vm_compute in image false R3_v1 blk4.
Definition R5_v2 : list fut := Eval vm_compute in image true R4_v2 blk3.
Definition R5_v1 : list fut := Eval vm_compute in image false R4_v1 blk3.
Definition Rk (k : nat) (v2 : bool) : list fut :=
  match k with
  | 0 => reach v2
  | 1 => if v2 then R1_v2 else R1_v1
  | 2 => if v2 then R2_v2 else R2_v1
  | 3 => if v2 then R3_v2 else R3_v1
  | 4 => if v2 then R4_v2 else R4_v1
  | _ => if v2 then R5_v2 else R5_v1
  end.
Definition blk_of (k : nat) : list fact :=
  match k with 0 => blk1 | 1 => blk2 | 2 => blk3 | 3 => blk4 | _ => blk3 end.

Lemma blocks_ok : forall v2 k, (k < 5)%nat -> block_ok v2 (Rk k v2) (index (Rk (S k) v2)) (blk_of k) = true.
Proof.
  intros v2 k Hk. destruct v2; do 5 (destruct k as [|k]; [vm_compute; reflexivity | ]); lia.
Qed.

(** After the clean-up suffix nothing is left of the future: both handle ends are gone (each dropped
    or handed to the peer exactly once), nothing is registered, no operation is alive, the ledger is at
    zero; the reading side obtained exactly what the host moved and the writing side was told so; and
    unless the reading side gave its end up before any value had been moved, exactly one value was
    moved (the user's, or the default value written on behalf of a dropped writer / write). *)
Definition final_ok (c : fut) : bool :=
  let g := fg c in
  quiescent_fut c
  &&& Nat.eqb (n_dropw g) (b2n (negb (f_imp c)))
  &&& Nat.eqb (n_dropr g + n_taker g) 1
  &&& list_eqb sval_eqb (got g ++ peer_recv (fh c)) (xfer g)
  &&& (if f_imp c then is_nil (sent g) else list_eqb sval_eqb (sent g) (xfer g))
  &&& (if negb (f_imp c) &&& negb (r_gaveup g) then Nat.eqb (length (xfer g)) 1 else true).

Lemma final_ok_R5 : forall v2, forallb final_ok (Rk 5 v2) = true.
Proof. destruct v2; vm_compute; reflexivity. Qed.

Definition sizes := Eval vm_compute in
  (map (fun k => (length (Rk k true), length (Rk k false))) [0;1;2;3;4;5]%nat).
Print sizes.
