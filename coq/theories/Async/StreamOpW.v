(** * Async/StreamOpW.v — invariant of the writer end and its preservation by every writer action
    (for a well-behaved host, [strict = true]). *)
From Coq Require Import NArith Arith List Bool Lia Permutation Sorted.
From WB Require Import Async.AbiBuf Async.AbiBufProofs Async.StreamOp Async.StreamOpBase.
Import ListNotations.
Local Open Scope N_scope.

Ltac wsimp :=
  unfold wemit, wset_done, wadd_rep, wset_host, wadd_sent, wadd_ret, wadd_drop, wset_fut, wset_buf,
         wset_ans, wset_next, wset_alive, wclear in *;
  cbn [w_alive w_done w_fut w_buf w_busy w_ev w_moved w_next w_sent w_ret w_drop w_rep w_lg w_ans w_out] in *.

(** The live buffer of the writer end, wherever it is. *)
Inductive wcfg := CNone | CItems (items : list N) | COp (o : wop) | CBuf (b : abuf).

Definition cfg_of (w : wst) : wcfg :=
  match w_fut w with
  | Some (WFInit _ items) => CItems items
  | Some (WFOp o) | Some (WFAll _ _ o) => COp o
  | None => match w_buf w with Some b => CBuf b | None => CNone end
  end.

(** Items of the live buffer that the host has not taken ([m] = taken for the operation in flight). *)
Definition buf_live (m : nat) (b : abuf) : list N := skipn (ab_cur b + m) (ab_items b).
Definition cfg_live (m : nat) (c : wcfg) : list N :=
  match c with CNone => [] | CItems l => l | COp o => buf_live m (wo_buf o) | CBuf b => buf_live m b end.
Definition cfg_low (c : wcfg) : list N :=
  match c with COp o => ab_offered (wo_buf o) | CBuf b => ab_offered b | _ => [] end.
Definition cfg_area (c : wcfg) : bool :=
  match c with COp o => ab_area (wo_buf o) | CBuf b => ab_area b | _ => false end.

Definition wfb (k : kind) (b : abuf) : Prop :=
  (ab_cur b <= length (ab_items b))%nat /\ ab_area b = lifted k && negb (is_nil (ab_items b)).

Definition WBase (k : kind) (w : wst) (live low : list N) (area : bool) : Prop :=
  Permutation (nseq 0 (N.to_nat (w_next w))) (w_sent w ++ w_ret w ++ w_drop w ++ live)
  /\ StronglySorted N.lt (w_sent w ++ live)
  /\ Forall (fun p => fst p = snd p) (w_rep w)
  /\ w_lg w = mkLg (if has_lists k then low else []) (if area then 1 else 0)%nat false.

(** Host / operation coherence. *)
Definition wcoh (w : wst) (c : wcfg) : Prop :=
  match c with
  | COp o =>
      if wo_inprog o then
        match wo_code o with
        | Some code => w_busy w = None /\ w_ev w = None /\ good code (w_moved w)
        | None => w_busy w = Some (ab_offered (wo_buf o)) /\
                  match w_ev w with Some code => good code (w_moved w) | None => w_moved w = 0 end
        end
      else w_busy w = None /\ w_ev w = None /\ w_moved w = 0 /\ wo_code o = None
  | _ => w_busy w = None /\ w_ev w = None /\ w_moved w = 0
  end.

Definition cfg_wf (k : kind) (m : nat) (c : wcfg) : Prop :=
  match c with
  | COp o => wfb k (wo_buf o) /\ (ab_cur (wo_buf o) + m <= length (ab_items (wo_buf o)))%nat
  | CBuf b => wfb k b
  | _ => True
  end.

Definition WCore (k : kind) (w : wst) (c : wcfg) : Prop :=
  WBase k w (cfg_live (N.to_nat (w_moved w)) c) (cfg_low c) (cfg_area c)
  /\ wcoh w c /\ cfg_wf k (N.to_nat (w_moved w)) c.

Definition WInv (k : kind) (w : wst) : Prop :=
  WCore k w (cfg_of w) /\ (w_fut w <> None -> w_buf w = None).

(** ** [in_progress_update] on a code of a well-behaved host *)
Lemma wop_update_good k b c m :
  good c (N.of_nat m) -> (ab_cur b + m <= length (ab_items b))%nat ->
  exists r b' sd,
    wop_update k b c = WUOk r b' sd (if has_lists k then map KDealloc (firstn m (ab_offered b)) else [])
    /\ ab_items b' = ab_items b /\ ab_cur b' = (ab_cur b + m)%nat /\ ab_area b' = ab_area b
    /\ sres_count r = N.of_nat m.
Proof.
  intros [Hnb [r [D C]]] Hle. unfold wop_update. rewrite D.
  assert (Hadv : forall amt, amt = N.of_nat m ->
            (if amt <=? N.of_nat (length (ab_items b))
             then match ab_advance k b (N.to_nat amt) with
                  | Some (b', t) => WUOk (SComplete amt) b' (is_dropped r) t
                  | None => WUPanic
                  end
             else WUPanic)
            = WUOk (SComplete amt) (mkAB (ab_items b) (ab_cur b + m) (ab_area b)) (is_dropped r)
                   (if has_lists k then map KDealloc (firstn m (ab_offered b)) else [])).
  { intros amt ->. destruct (N.leb_spec (N.of_nat m) (N.of_nat (length (ab_items b)))); [|lia].
    unfold ab_advance. rewrite Nat2N.id.
    destruct (Nat.leb_spec (m + ab_cur b) (length (ab_items b))); [|lia]. reflexivity. }
  destruct r as [|n|n|n]; cbn [rcode_count] in C; cbv zeta; cbn [rcode_count].
  - apply decode_blocked_iff in D. contradiction.
  - rewrite (Hadv n C). do 3 eexists. split; [reflexivity|]. cbn. repeat split; assumption.
  - destruct n as [|p].
    + assert (m = 0%nat) by lia. subst m. exists SDropped, b, false.
      rewrite Nat.add_0_r. cbn [firstn map]. destruct (has_lists k); repeat split; reflexivity.
    + rewrite (Hadv (N.pos p) C). do 3 eexists. split; [reflexivity|]. cbn. repeat split; assumption.
  - destruct n as [|p].
    + assert (m = 0%nat) by lia. subst m. exists SCancelled, b, false.
      rewrite Nat.add_0_r. cbn [firstn map]. destruct (has_lists k); repeat split; reflexivity.
    + rewrite (Hadv (N.pos p) C). do 3 eexists. split; [reflexivity|]. cbn. repeat split; assumption.
Qed.

Lemma wop_update_blocked k b : wop_update k b BLOCKED = WUBlocked.
Proof. reflexivity. Qed.

Lemma offered_split (b : abuf) (m : nat) :
  ab_offered b = firstn m (ab_offered b) ++ buf_live m b.
Proof. unfold ab_offered, buf_live. apply skipn_split. Qed.

(** Tokens of an advance: the first [m] lowered buffers are released. *)
Lemma ledger_advance k (b : abuf) (m : nat) (a : nat) :
  lg_toks_w k (if has_lists k then map KDealloc (firstn m (ab_offered b)) else [])
            (mkLg (if has_lists k then ab_offered b else []) a false)
  = mkLg (if has_lists k then buf_live m b else []) a false.
Proof.
  destruct k; cbn [has_lists lifted]; try reflexivity.
  rewrite (offered_split b m) at 2.
  unfold lg_toks_w.
  apply (fold_release KLists (lg_tok_w KLists) KDealloc (fun g id => eq_refl)
                      (firstn m (ab_offered b)) (buf_live m b) a false).
Qed.

(** ** [poll_complete_with_code] *)
Definition wpre (k : kind) (w : wst) (b : abuf) (code : N) : Prop :=
  WBase k w (buf_live (N.to_nat (w_moved w)) b) (ab_offered b) (ab_area b)
  /\ wfb k b /\ (ab_cur b + N.to_nat (w_moved w) <= length (ab_items b))%nat
  /\ w_ev w = None
  /\ ((code = BLOCKED /\ w_busy w = Some (ab_offered b) /\ w_moved w = 0)
      \/ (w_busy w = None /\ good code (w_moved w))).

Lemma wop_with_code_spec k b code w w' p :
  wpre k w b code -> wop_with_code k b code w = Ok (w', p) ->
  w_buf w' = w_buf w /\ w_ans w' = w_ans w /\ w_fut w' = w_fut w /\
  match p with
  | WPending o' => WCore k w' (COp o') /\ wo_inprog o' = true
  | WReady r b' => WCore k w' (CBuf b')
  end.
Proof.
  intros (HB & Hwf & Hle & Hev & Hc) H. unfold wop_with_code in H.
  destruct Hc as [(-> & Hbusy & Hm) | (Hbusy & Hg)].
  - rewrite wop_update_blocked in H. injection H as <- <-.
    split; [reflexivity|]. split; [reflexivity|]. split; [reflexivity|].
    split; [|reflexivity].
    split; [exact HB|]. split.
    + cbn. rewrite Hbusy, Hev. split; [reflexivity|assumption].
    + cbn. split; assumption.
  - assert (Hg' : good code (N.of_nat (N.to_nat (w_moved w)))) by (rewrite N2Nat.id; exact Hg).
    destruct (wop_update_good k b code _ Hg' Hle) as (r & b' & sd & E & Hi & Hcur & Har & Hcnt).
    rewrite E in H. injection H as <- <-.
    destruct HB as (HP & HS & HR & HL).
    assert (Hlive : buf_live 0 b' = buf_live (N.to_nat (w_moved w)) b).
    { unfold buf_live. rewrite Hi, Hcur. f_equal. lia. }
    assert (Hoff : ab_offered b' = buf_live (N.to_nat (w_moved w)) b).
    { rewrite <- Hlive. unfold ab_offered, buf_live. f_equal. lia. }
    assert (HR' : Forall (fun p : N * N => fst p = snd p) (w_rep w ++ [(w_moved w, sres_count r)])).
    { apply Forall_app; split; [exact HR|]. constructor; [|constructor].
      cbn. rewrite Hcnt, N2Nat.id. reflexivity. }
    assert (Hwf' : wfb k b').
    { destruct Hwf as [Hw1 Hw2]. split; [rewrite Hi, Hcur; exact Hle | rewrite Har, Hi; exact Hw2]. }
    assert (HL' : lg_toks_w k (if has_lists k then map KDealloc (firstn (N.to_nat (w_moved w)) (ab_offered b)) else []) (w_lg w)
                  = mkLg (if has_lists k then ab_offered b' else []) (if ab_area b' then 1 else 0)%nat false).
    { rewrite HL, ledger_advance, Hoff, Har. reflexivity. }
    destruct sd; wsimp;
      (split; [reflexivity|]; split; [reflexivity|]; split; [reflexivity|];
       unfold WCore, WBase; wsimp; cbn [cfg_live cfg_low cfg_area wcoh cfg_wf N.to_nat];
       rewrite Hlive;
       split; [split; [exact HP|split; [exact HS|split; [exact HR'|exact HL']]]|];
       split; [split; [exact Hbusy|split; [exact Hev|reflexivity]]|exact Hwf']).
Qed.

Lemma wset_ans_eta w : w = wset_ans (w_ans w) w.
Proof. destruct w; reflexivity. Qed.

Lemma wpop_eq w a w1 : wpop w = (a, w1) -> exists l, w1 = wset_ans l w.
Proof.
  unfold wpop. destruct (w_ans w) eqn:E; intros [= <- <-].
  - exists (w_ans w). apply wset_ans_eta.
  - eexists; reflexivity.
Qed.

Lemma tw_inert k mv t g : lg_toks_w k (tw mv ++ [t]) g = lg_tok_w k g t.
Proof.
  rewrite lg_toks_w_app. rewrite (lg_w_inert k (tw mv)).
  - reflexivity.
  - intros x Hx. destruct mv; cbn in Hx; [contradiction|]. destruct Hx as [<-|[]]. exact I.
Qed.

Lemma tw_inert0 k mv g : lg_toks_w k (tw mv) g = g.
Proof.
  apply lg_w_inert. intros x Hx. destruct mv; cbn in Hx; [contradiction|]. destruct Hx as [<-|[]]. exact I.
Qed.

(** The host takes [mv] = the first items it is shown. *)
Lemma wbase_move k w b mv (w2 : wst) :
  WBase k w (buf_live 0 b) (ab_offered b) (ab_area b) ->
  mv = firstn (length mv) (ab_offered b) ->
  w_next w2 = w_next w -> w_sent w2 = w_sent w ++ mv -> w_ret w2 = w_ret w -> w_drop w2 = w_drop w ->
  w_rep w2 = w_rep w -> w_lg w2 = w_lg w ->
  WBase k w2 (buf_live (length mv) b) (ab_offered b) (ab_area b).
Proof.
  intros (HP & HS & HR & HL) Hmv E1 E2 E3 E4 E5 E6.
  assert (Hsplit : buf_live 0 b = mv ++ buf_live (length mv) b).
  { replace (buf_live 0 b) with (ab_offered b) by (unfold buf_live, ab_offered; f_equal; lia).
    rewrite Hmv at 1. apply offered_split. }
  unfold WBase. rewrite E1, E2, E3, E4, E5, E6.
  split; [|split; [|split; assumption]].
  - rewrite Hsplit in HP. eapply Permutation_trans; [exact HP|apply perm_to_sent].
  - rewrite <- app_assoc, <- Hsplit. exact HS.
Qed.

Lemma offered_length b : length (ab_offered b) = (length (ab_items b) - ab_cur b)%nat.
Proof. unfold ab_offered. apply skipn_length. Qed.

Lemma wop_poll_spec k o w w' p :
  WCore k w (COp o) -> wop_poll true k o w = Ok (w', p) ->
  w_buf w' = w_buf w /\ w_fut w' = w_fut w /\
  match p with
  | WPending o' => WCore k w' (COp o') /\ wo_inprog o' = true
  | WReady r b' => WCore k w' (CBuf b')
  end.
Proof.
  intros (HB & Hc & Hwf & Hle) H. unfold wop_poll in H. cbn [wcoh cfg_live cfg_low cfg_area] in *.
  destruct (wo_inprog o) eqn:Ei.
  - destruct (wo_code o) as [c|] eqn:Ec.
    + destruct Hc as (Hb & He & Hg).
      eapply wop_with_code_spec in H.
      * destruct H as (A & _ & B & C). auto.
      * split; [exact HB|]. split; [exact Hwf|]. split; [exact Hle|]. split; [exact He|]. right. split; assumption.
    + injection H as <- <-. split; [reflexivity|]. split; [reflexivity|].
      split; [|exact Ei]. split; [exact HB|]. split; [|cbn [cfg_wf]; split; assumption].
      cbn [wcoh]. rewrite Ei, Ec. exact Hc.
  - destruct Hc as (Hb & He & Hm & Hcode).
    destruct (w_done w).
    + eapply wop_with_code_spec in H.
      * destruct H as (A & _ & B & C). auto.
      * split; [exact HB|]. split; [exact Hwf|]. split; [exact Hle|]. split; [exact He|]. right. split; [assumption|]. rewrite Hm. exact good_dropped0.
    + destruct (wpop w) as [a w1] eqn:Ep. apply wpop_eq in Ep. destruct Ep as [l ->].
      destruct (host_moves true false (length (ab_offered (wo_buf o))) (ab_offered (wo_buf o)) a) as [mv|] eqn:Eh;
        [|discriminate].
      apply host_moves_strict in Eh.
      rewrite Hm in HB. cbn [N.to_nat] in HB.
      eapply wop_with_code_spec in H.
      * destruct H as (A & _ & B & C). wsimp. auto.
      * unfold wpre. wsimp. rewrite Nat2N.id.
        split.
        { eapply wbase_move; [exact HB| | | | | | | ]; wsimp; try reflexivity.
          - destruct Eh as [[_ ->]|(_ & E & _)]; [reflexivity|exact E].
          - rewrite tw_inert. reflexivity. }
        split; [exact Hwf|].
        assert (Hlen : (length mv <= length (ab_offered (wo_buf o)))%nat).
        { destruct Eh as [[_ ->]|(_ & _ & E)]; [cbn; lia|exact E]. }
        rewrite offered_length in Hlen.
        split; [destruct Hwf; lia|]. split; [reflexivity|].
        destruct Eh as [[-> ->]|(Hg & _ & _)].
        { left. cbn. auto. }
        { right. destruct Hg as [Hnb Hr]. destruct (N.eqb_spec a BLOCKED); [contradiction|].
          split; [reflexivity|]. split; assumption. }
Qed.

Lemma wcore_buf_op k w b :
  WCore k w (CBuf b) -> WCore k w (COp (mkWop false b None)).
Proof.
  intros (HB & (Hb & He & Hm) & Hwf). split; [exact HB|]. split.
  - cbn. auto.
  - cbn. split; [exact Hwf|]. rewrite Hm. cbn. destruct Hwf. lia.
Qed.

Lemma wop_cancel_spec k o w w' r b' :
  WCore k w (COp o) -> wop_cancel true k o w = Ok (w', r, b') ->
  w_buf w' = w_buf w /\ w_fut w' = w_fut w /\ WCore k w' (CBuf b').
Proof.
  intros HC H. pose proof HC as (HB & Hc & Hwf & Hle). unfold wop_cancel in H.
  cbn [wcoh cfg_live cfg_low cfg_area] in *.
  destruct (wo_inprog o) eqn:Ei; cbn [negb] in H.
  2:{ injection H as <- <- <-. split; [reflexivity|]. split; [reflexivity|].
      destruct Hc as (Hb & He & Hm & Hcode).
      split; [exact HB|]. split; [cbn; auto|exact Hwf]. }
  destruct (wo_code o) as [c|] eqn:Ec.
  - destruct Hc as (Hb & He & Hg).
    destruct (wop_with_code k (wo_buf o) c w) as [[w3 [o3|r3 b3]]| |] eqn:E; try discriminate.
    injection H as <- <- <-.
    eapply wop_with_code_spec in E.
    + destruct E as (A & _ & B & C). auto.
    + split; [exact HB|]. split; [exact Hwf|]. split; [exact Hle|]. split; [exact He|]. right. split; assumption.
  - destruct Hc as (Hb & Hev). rewrite Hb in H.
    destruct (w_ev w) as [c|] eqn:Ee.
    + match type of H with context [wop_with_code ?k ?b ?c ?w2] =>
        destruct (wop_with_code k b c w2) as [[w3 [o3|r3 b3]]| |] eqn:E; try discriminate end.
      injection H as <- <- <-.
      eapply wop_with_code_spec in E.
      * destruct E as (A & _ & B & C). wsimp. auto.
      * unfold wpre. wsimp.
        split.
        { destruct HB as (HP & HS & HR & HL). unfold WBase. wsimp.
          split; [exact HP|]. split; [exact HS|]. split; [exact HR|]. exact HL. }
        split; [exact Hwf|]. split; [exact Hle|]. split; [reflexivity|]. right. split; [reflexivity|exact Hev].
    + set (aw := match w_ans w with [] => (CANCELLED, w) | a :: r0 => (a, wset_ans r0 w) end) in H.
      assert (Haw : exists l, snd aw = wset_ans l w).
      { unfold aw. destruct (w_ans w) eqn:El; cbn [snd]; [exists (w_ans w); apply wset_ans_eta|eexists; reflexivity]. }
      destruct aw as [a w1]. cbn [snd] in Haw. destruct Haw as [l ->].
      cbn [andb] in H. destruct (N.eqb_spec a BLOCKED) as [|Hnb]; [discriminate|].
      destruct (host_moves true true (length (ab_offered (wo_buf o))) (ab_offered (wo_buf o)) a) as [mv|] eqn:Eh;
        [|discriminate].
      apply host_moves_strict in Eh. destruct Eh as [[-> _]|(Hg & Hmv & Hlen)]; [contradiction|].
      match type of H with context [wop_with_code ?k ?b ?c ?w2] =>
        destruct (wop_with_code k b c w2) as [[w3 [o3|r3 b3]]| |] eqn:E; try discriminate end.
      injection H as <- <- <-.
      rewrite Hev in HB. cbn [N.to_nat] in HB.
      eapply wop_with_code_spec in E.
      * destruct E as (A & _ & B & C). wsimp. auto.
      * unfold wpre. wsimp. rewrite Nat2N.id.
        split.
        { eapply wbase_move; [exact HB| | | | | | | ]; wsimp; try reflexivity.
          - exact Hmv.
          - rewrite tw_inert. reflexivity. }
        split; [exact Hwf|].
        rewrite offered_length in Hlen.
        split; [destruct Hwf; lia|]. split; [reflexivity|].
        right. split; [reflexivity|exact Hg].
Qed.

(** ** Creating and disposing of buffers *)
Lemma fold_lower k items l a e :
  lg_toks_w k (map KLower items) (mkLg (if has_lists k then l else []) a e)
  = mkLg (if has_lists k then l ++ items else []) a e.
Proof. apply (fold_add k (lg_tok_w k) KLower (fun g id => eq_refl)). Qed.

Lemma fold_liftw k pre rest a e :
  lg_toks_w k (map KLiftW pre) (mkLg (if has_lists k then pre ++ rest else []) a e)
  = mkLg (if has_lists k then rest else []) a e.
Proof. apply (fold_release k (lg_tok_w k) KLiftW (fun g id => eq_refl)). Qed.

Lemma ledger_new k items :
  lg_toks_w k (snd (ab_new k items)) (mkLg (if has_lists k then [] else []) 0 false)
  = mkLg (if has_lists k then ab_offered (fst (ab_new k items)) else [])
         (if ab_area (fst (ab_new k items)) then 1 else 0)%nat false.
Proof.
  destruct k.
  - reflexivity.
  - destruct items as [|x items]; [reflexivity|]. exact (fold_lower KLift (x :: items) [] 1%nat false).
  - destruct items as [|x items]; [reflexivity|]. exact (fold_lower KLists (x :: items) [] 1%nat false).
Qed.

Lemma ledger_take k b :
  lg_toks_w k (snd (ab_take_vec k b))
            (mkLg (if has_lists k then ab_offered b else []) (if ab_area b then 1 else 0)%nat false)
  = mkLg (if has_lists k then [] else []) 0 false.
Proof.
  unfold ab_take_vec. cbn [snd]. rewrite lg_toks_w_app.
  assert (E : lg_toks_w k (if lifted k then map KLiftW (ab_offered b) else [])
                (mkLg (if has_lists k then ab_offered b else []) (if ab_area b then 1 else 0)%nat false)
              = mkLg (if has_lists k then [] else []) (if ab_area b then 1 else 0)%nat false).
  { destruct (lifted k) eqn:El.
    - rewrite <- (app_nil_r (ab_offered b)) at 2. apply fold_liftw.
    - destruct k; try discriminate. reflexivity. }
  rewrite E. destruct (ab_area b); reflexivity.
Qed.

Lemma drop_vals_inert k v g : lg_toks_w k (drop_vals k v) g = g.
Proof.
  apply lg_w_inert. intros t Ht. unfold drop_vals in Ht. destruct (lifted k); [|contradiction].
  apply in_map_iff in Ht. destruct Ht as (x & <- & _). exact I.
Qed.

Lemma buf_live0 b : buf_live 0 b = ab_offered b.
Proof. unfold buf_live, ab_offered. f_equal. lia. Qed.

Lemma w_drop_buf_spec k b w :
  WCore k w (CBuf b) ->
  WCore k (w_drop_buf k b w) CNone /\ w_buf (w_drop_buf k b w) = w_buf w /\ w_fut (w_drop_buf k b w) = w_fut w.
Proof.
  intros ((HP & HS & HR & HL) & (Hb & He & Hm) & Hwf).
  cbn [cfg_live cfg_low cfg_area] in *. rewrite Hm in *. cbn [N.to_nat] in *. rewrite buf_live0 in *.
  unfold w_drop_buf, ab_drop. destruct (ab_take_vec k b) as [v t] eqn:Et.
  assert (Hv : v = ab_offered b) by (unfold ab_take_vec in Et; injection Et as <- _; reflexivity).
  assert (Ht : t = snd (ab_take_vec k b)) by (rewrite Et; reflexivity).
  split; [|split; reflexivity].
  unfold WCore, WBase. wsimp. rewrite Hm. cbn [N.to_nat cfg_live cfg_low cfg_area wcoh cfg_wf].
  split; [|split; [auto|exact I]].
  split; [eapply Permutation_trans; [exact HP|apply perm_to_drop]|].
  split; [rewrite app_nil_r; eapply sorted_app_inv_l; exact HS|].
  split; [exact HR|].
  rewrite lg_toks_w_app, HL, Ht, ledger_take, drop_vals_inert. reflexivity.
Qed.

Lemma w_into_vec_spec k b w w' v :
  WCore k w (CBuf b) -> w_into_vec k b w = (w', v) ->
  WCore k w' CNone /\ w_buf w' = w_buf w /\ w_fut w' = w_fut w.
Proof.
  intros ((HP & HS & HR & HL) & (Hb & He & Hm) & Hwf) H.
  cbn [cfg_live cfg_low cfg_area] in *. rewrite Hm in *. cbn [N.to_nat] in *. rewrite buf_live0 in *.
  unfold w_into_vec in H. destruct (ab_take_vec k b) as [v0 t] eqn:Et.
  assert (Hv : v0 = ab_offered b) by (unfold ab_take_vec in Et; injection Et as <- _; reflexivity).
  assert (Ht : t = snd (ab_take_vec k b)) by (rewrite Et; reflexivity).
  injection H as <- <-. split; [|split; reflexivity].
  unfold WCore, WBase. wsimp. rewrite Hm. cbn [N.to_nat cfg_live cfg_low cfg_area wcoh cfg_wf].
  split; [|split; [auto|exact I]].
  split; [rewrite Hv; eapply Permutation_trans; [exact HP|apply perm_to_ret]|].
  split; [rewrite app_nil_r; eapply sorted_app_inv_l; exact HS|].
  split; [exact HR|].
  rewrite HL, Ht, ledger_take. reflexivity.
Qed.

(** A core that ignores tokens without ledger effect. *)
Lemma wcore_emit_inert k w c ts :
  (forall g, lg_toks_w k ts g = g) -> WCore k w c -> WCore k (wemit k ts w) c.
Proof.
  intros Hi ((HP & HS & HR & HL) & Hc & Hwf). unfold WCore, WBase. wsimp. rewrite Hi.
  split; [split; [exact HP|split; [exact HS|split; [exact HR|exact HL]]]|].
  split; [|exact Hwf]. destruct c; exact Hc.
Qed.

(** ** [write_all]'s loop *)
Lemma wall_loop_spec k fuel : forall one first r b w w' f,
  WCore k w (CBuf b) -> wall_loop fuel true k one first r b w = Ok (w', f) ->
  w_buf w' = w_buf w /\
  match f with
  | Some (WFAll _ _ o) => WCore k w' (COp o)
  | None => WCore k w' CNone
  | _ => False
  end.
Proof.
  induction fuel as [|fuel IH]; intros one first r b w w' f HC H; cbn [wall_loop] in H.
  - match type of H with (if ?c then _ else _) = _ => destruct c end; [discriminate|].
    match type of H with (if ?c then _ else _) = _ => destruct c end; [discriminate|].
    destruct (w_into_vec k b w) as [w1 v] eqn:Ev. injection H as <- <-.
    eapply w_into_vec_spec in Ev; [|exact HC]. destruct Ev as (A & B & _).
    split; [exact B|]. apply wcore_emit_inert; [|exact A].
    intros g. destruct one; reflexivity.
  - match type of H with (if ?c then _ else _) = _ => destruct c end.
    + destruct (wop_poll true k (mkWop false b None) w) as [[w1 [o1|r1 b1]]| |] eqn:Ep; try discriminate.
      * injection H as <- <-. eapply wop_poll_spec in Ep; [|apply wcore_buf_op; exact HC].
        destruct Ep as (A & _ & B & _). auto.
      * eapply wop_poll_spec in Ep; [|apply wcore_buf_op; exact HC].
        destruct Ep as (A & _ & B). eapply IH in H; [|exact B]. destruct H as [H1 H2].
        split; [congruence|exact H2].
    + match type of H with (if ?c then _ else _) = _ => destruct c end; [discriminate|].
      destruct (w_into_vec k b w) as [w1 v] eqn:Ev. injection H as <- <-.
      eapply w_into_vec_spec in Ev; [|exact HC]. destruct Ev as (A & B & _).
      split; [exact B|]. apply wcore_emit_inert; [|exact A].
      intros g. destruct one; reflexivity.
Qed.

(** ** Fresh items *)
Lemma sent_lt_next k w live low area :
  WBase k w live low area -> Forall (fun x => x < w_next w) (w_sent w).
Proof.
  intros (HP & _). apply Forall_forall. intros x Hx.
  assert (Hin : In x (nseq 0 (N.to_nat (w_next w)))).
  { eapply Permutation_in; [apply Permutation_sym; exact HP|]. apply in_or_app. left. exact Hx. }
  apply nseq_in in Hin. lia.
Qed.

Lemma wcore_fresh k w n :
  WCore k w CNone -> WCore k (wset_next (w_next w + N.of_nat n) w) (CItems (nseq (w_next w) n)).
Proof.
  intros (HB & Hc & _). pose proof (sent_lt_next _ _ _ _ _ HB) as Hlt.
  destruct HB as (HP & HS & HR & HL). cbn [cfg_live cfg_low cfg_area] in *.
  unfold WCore, WBase. wsimp. cbn [cfg_live cfg_low cfg_area wcoh cfg_wf].
  split; [|split; [exact Hc|exact I]].
  split.
  { replace (N.to_nat (w_next w + N.of_nat n)) with (N.to_nat (w_next w) + n)%nat by lia.
    rewrite nseq_app. replace (0 + N.of_nat (N.to_nat (w_next w))) with (w_next w) by lia.
    apply perm_new. exact HP. }
  split; [|split; [exact HR|exact HL]].
  apply sorted_app_new; [|exact Hlt]. rewrite app_nil_r in HS. exact HS.
Qed.

Lemma wcore_lower k w items :
  WCore k w (CItems items) ->
  WCore k (wemit k (snd (ab_new k items)) w) (CBuf (fst (ab_new k items))).
Proof.
  intros ((HP & HS & HR & HL) & Hc & _). cbn [cfg_live cfg_low cfg_area] in *.
  assert (E : buf_live (N.to_nat (w_moved w)) (fst (ab_new k items)) = items).
  { destruct Hc as (_ & _ & ->). unfold ab_new. destruct (lifted k); reflexivity. }
  unfold WCore, WBase. wsimp. cbn [cfg_live cfg_low cfg_area wcoh cfg_wf]. rewrite E.
  split; [|split; [exact Hc|]].
  - split; [exact HP|]. split; [exact HS|]. split; [exact HR|]. rewrite HL. apply ledger_new.
  - unfold ab_new, wfb. destruct (lifted k); cbn; split; try reflexivity; lia.
Qed.

Lemma wcore_items_none k w items :
  WCore k w (CItems items) -> WCore k (wadd_drop items (wemit k (drop_vals k items) w)) CNone.
Proof.
  intros ((HP & HS & HR & HL) & Hc & _). cbn [cfg_live cfg_low cfg_area] in *.
  unfold WCore, WBase. wsimp. cbn [cfg_live cfg_low cfg_area wcoh cfg_wf].
  split; [|split; [exact Hc|exact I]].
  split; [eapply Permutation_trans; [exact HP|apply perm_to_drop]|].
  split; [rewrite app_nil_r; eapply sorted_app_inv_l; exact HS|].
  split; [exact HR|]. rewrite drop_vals_inert. exact HL.
Qed.

(** ** Every writer action preserves the invariant *)
Lemma winv_init k : WInv k w_init.
Proof.
  split; [|intros _; reflexivity]. unfold WCore, WBase. cbn.
  split; [|split; [auto|exact I]].
  split; [constructor|]. split; [constructor|]. split; [constructor|].
  destruct k; reflexivity.
Qed.

Lemma w_poll_spec k w w' : WInv k w -> w_poll true k w = Ok w' -> WInv k w'.
Proof.
  intros [HC Hex] H. unfold w_poll in H. unfold cfg_of in HC.
  destruct (w_fut w) as [[o|one items|one first o]|] eqn:Ef; [| | |discriminate].
  - (* StreamWrite *)
    assert (Hb : w_buf w = None) by (apply Hex; discriminate).
    destruct (wop_poll true k o w) as [[w1 [o1|r1 b1]]| |] eqn:Ep; try discriminate;
      injection H as <-; eapply wop_poll_spec in Ep; try exact HC; destruct Ep as (A & B & C).
    + split; [|intros _; cbn; congruence]. unfold cfg_of. cbn. exact (proj1 C).
    + split; [|intros Hn; exfalso; apply Hn; reflexivity]. unfold cfg_of. cbn.
      apply wcore_emit_inert; [intros g; reflexivity|]. exact C.
  - (* write_all / write_one, first poll *)
    assert (Hb : w_buf w = None) by (apply Hex; discriminate).
    destruct (ab_new k items) as [b t] eqn:En.
    assert (HC1 : WCore k (wemit k t w) (COp (mkWop false b None))).
    { apply wcore_buf_op. pose proof (wcore_lower k w items HC) as X. rewrite En in X. exact X. }
    destruct (wop_poll true k (mkWop false b None) (wemit k t w)) as [[w1 [o1|r1 b1]]| |] eqn:Ep; try discriminate;
      eapply wop_poll_spec in Ep; try exact HC1; destruct Ep as (A & B & C).
    + injection H as <-. split; [|intros _; cbn; cbn in A; congruence]. unfold cfg_of. cbn. exact (proj1 C).
    + destruct (wall_loop (wall_fuel w1) true k one true r1 b1 w1) as [[w2 f]| |] eqn:El; try discriminate.
      injection H as <-. eapply wall_loop_spec in El; [|exact C]. destruct El as [D E].
      split; [|intros _; cbn; cbn in A; congruence].
      unfold cfg_of. cbn. destruct f as [[| |]|]; try contradiction; [exact E|].
      replace (w_buf w2) with (@None abuf) by (cbn in A; congruence). exact E.
  - (* write_all / write_one, resumed *)
    assert (Hb : w_buf w = None) by (apply Hex; discriminate).
    destruct (wop_poll true k o w) as [[w1 [o1|r1 b1]]| |] eqn:Ep; try discriminate;
      eapply wop_poll_spec in Ep; try exact HC; destruct Ep as (A & B & C).
    + injection H as <-. split; [|intros _; cbn; congruence]. unfold cfg_of. cbn. exact (proj1 C).
    + destruct (wall_loop (wall_fuel w1) true k one first r1 b1 w1) as [[w2 f]| |] eqn:El; try discriminate.
      injection H as <-. eapply wall_loop_spec in El; [|exact C]. destruct El as [D E].
      split; [|intros _; cbn; congruence].
      unfold cfg_of. cbn. destruct f as [[| |]|]; try contradiction; [exact E|].
      replace (w_buf w2) with (@None abuf) by (cbn in A; congruence). exact E.
Qed.

Lemma wset_next_emit k x t w : wset_next x (wemit k t w) = wemit k t (wset_next x w).
Proof. reflexivity. Qed.

Lemma is_some_false {A} (o : option A) : is_some o = false -> o = None.
Proof. destruct o; [discriminate|reflexivity]. Qed.

Theorem wstep_inv k a w w' : WInv k w -> wstep true k a w = Ok w' -> WInv k w'.
Proof.
  intros HI H. unfold wstep in H.
  assert (HI0 : WInv k (wclear w)) by exact HI. clear HI.
  set (w0 := wclear w) in *. clearbody w0. clear w.
  destruct HI0 as [HC Hex]. unfold cfg_of in HC.
  destruct a.
  - (* write n *)
    destruct (w_alive w0); [|discriminate]. cbn [andb] in H.
    destruct (is_some (w_fut w0)) eqn:E1; [discriminate|]. destruct (is_some (w_buf w0)) eqn:E2; [discriminate|].
    apply is_some_false in E1. apply is_some_false in E2. rewrite E1, E2 in HC. cbn [negb andb] in H.
    destruct (ab_new k (nseq (w_next w0) n)) as [b t] eqn:En. injection H as <-.
    split; [|intros _; exact E2]. unfold cfg_of. cbn [w_fut wset_fut].
    rewrite wset_next_emit. apply wcore_buf_op.
    pose proof (wcore_lower k _ _ (wcore_fresh k w0 n HC)) as X. rewrite En in X. exact X.
  - (* write_buf *)
    destruct (w_buf w0) as [b|] eqn:Eb; [|discriminate].
    destruct (w_alive w0); [|discriminate]. cbn [andb] in H.
    destruct (is_some (w_fut w0)) eqn:E1; [discriminate|]. apply is_some_false in E1. rewrite E1 in HC.
    cbn [negb] in H. injection H as <-.
    split; [|intros _; reflexivity]. unfold cfg_of. cbn [w_fut wset_fut]. apply wcore_buf_op. exact HC.
  - (* write_all n *)
    destruct (w_alive w0); [|discriminate]. cbn [andb] in H.
    destruct (is_some (w_fut w0)) eqn:E1; [discriminate|]. destruct (is_some (w_buf w0)) eqn:E2; [discriminate|].
    apply is_some_false in E1. apply is_some_false in E2. rewrite E1, E2 in HC. cbn [negb andb] in H.
    injection H as <-. split; [|intros _; exact E2]. unfold cfg_of. cbn [w_fut wset_fut].
    exact (wcore_fresh k w0 n HC).
  - (* write_one *)
    destruct (w_alive w0); [|discriminate]. cbn [andb] in H.
    destruct (is_some (w_fut w0)) eqn:E1; [discriminate|]. destruct (is_some (w_buf w0)) eqn:E2; [discriminate|].
    apply is_some_false in E1. apply is_some_false in E2. rewrite E1, E2 in HC. cbn [negb andb] in H.
    injection H as <-. split; [|intros _; exact E2]. unfold cfg_of. cbn [w_fut wset_fut].
    exact (wcore_fresh k w0 1 HC).
  - (* poll *)
    eapply w_poll_spec; [|exact H]. split; [exact HC|exact Hex].
  - (* host event *)
    destruct (w_busy w0) as [off|] eqn:Eb; [|discriminate]. destruct (w_ev w0) eqn:Ee; [discriminate|].
    destruct (N.eqb_spec code BLOCKED) as [|Hnb]; [discriminate|].
    destruct (host_moves true false (length off) off code) as [mv|] eqn:Eh; [|discriminate].
    injection H as <-. apply host_moves_strict in Eh. destruct Eh as [[-> _]|(Hg & Hmv & Hlen)]; [contradiction|].
    (* only an in-progress operation without a delivered code has a busy host end *)
    assert (Hop : exists o, (match w_fut w0 with
                             | Some (WFInit _ items) => CItems items
                             | Some (WFOp o) | Some (WFAll _ _ o) => COp o
                             | None => match w_buf w0 with Some b => CBuf b | None => CNone end
                             end) = COp o /\ wo_inprog o = true /\ wo_code o = None).
    { destruct HC as (_ & Hc & _).
      destruct (w_fut w0) as [[o|? ?|? ? o]|]; cbn [wcoh] in Hc.
      - exists o. split; [reflexivity|]. destruct (wo_inprog o); [|destruct Hc; congruence].
        destruct (wo_code o); [destruct Hc; congruence|auto].
      - destruct Hc; congruence.
      - exists o. split; [reflexivity|]. destruct (wo_inprog o); [|destruct Hc; congruence].
        destruct (wo_code o); [destruct Hc; congruence|auto].
      - destruct (w_buf w0); destruct Hc; congruence. }
    destruct Hop as (o & Ecfg & Ei & Ec). rewrite Ecfg in HC.
    destruct HC as (HB & Hc & Hwf & Hle). cbn [wcoh] in Hc. rewrite Ei, Ec, Ee, Eb in Hc.
    destruct Hc as ([= ->] & Hm). cbn [cfg_live cfg_low cfg_area] in HB. rewrite Hm in HB. cbn [N.to_nat] in HB.
    split; [|exact Hex]. unfold cfg_of. wsimp. rewrite Ecfg.
    unfold WCore. wsimp. rewrite Nat2N.id. cbn [cfg_live cfg_low cfg_area].
    split.
    { eapply wbase_move; [exact HB| | | | | | | ]; wsimp; try reflexivity.
      - exact Hmv.
      - rewrite tw_inert0. reflexivity. }
    split.
    { cbn [wcoh]. rewrite Ei, Ec. wsimp. split; [reflexivity|exact Hg]. }
    cbn [cfg_wf]. split; [exact Hwf|]. rewrite offered_length in Hlen. destruct Hwf. lia.
  - (* delivery *)
    destruct (w_ev w0) as [c|] eqn:Ee; [|discriminate].
    destruct (w_fut w0) as [f|] eqn:Ef; [|discriminate].
    destruct (fut_op f) as [o|] eqn:Eo; [|discriminate]. injection H as <-.
    assert (Ecfg : match f with
                   | WFInit _ items => CItems items
                   | WFOp o | WFAll _ _ o => COp o
                   end = COp o) by (destruct f; cbn in Eo; congruence).
    rewrite Ecfg in HC. destruct HC as (HB & Hc & Hwf).
    cbn [wcoh] in Hc. rewrite Ee in Hc.
    destruct (wo_inprog o) eqn:Ei; [|destruct Hc as (_ & ? & _); discriminate].
    destruct (wo_code o) eqn:Ec; [destruct Hc as (_ & ? & _); discriminate|].
    destruct Hc as (Hb & Hg).
    split; [|intros _; cbn; apply Hex; discriminate].
    unfold cfg_of. cbn [w_fut wset_fut].
    assert (E2 : match fut_with_op f (mkWop true (wo_buf o) (Some c)) with
                 | WFInit _ items => CItems items
                 | WFOp o | WFAll _ _ o => COp o
                 end = COp (mkWop true (wo_buf o) (Some c))) by (destruct f; cbn [fut_op fut_with_op] in *; try discriminate; reflexivity).
    rewrite E2. unfold WCore. wsimp.
    split; [exact HB|]. split; [cbn; auto|exact Hwf].
  - (* cancel *)
    destruct (w_fut w0) as [[o|? ?|? ? o]|] eqn:Ef; try discriminate.
    assert (Hb : w_buf w0 = None) by (apply Hex; discriminate).
    destruct (wop_cancel true k o (wset_ans ans w0)) as [[[w1 r1] b1]| |] eqn:Ep; try discriminate.
    injection H as <-. eapply wop_cancel_spec in Ep; [|exact HC]. destruct Ep as (A & B & C).
    split; [|intros Hn; exfalso; apply Hn; reflexivity]. unfold cfg_of. cbn.
    apply wcore_emit_inert; [intros g; reflexivity|]. exact C.
  - (* drop the future *)
    destruct (w_fut w0) as [f|] eqn:Ef; [|discriminate].
    assert (Hb : w_buf w0 = None) by (apply Hex; discriminate).
    destruct f as [o|one items|one first o].
    + cbn [fut_op] in H.
      destruct (wop_cancel true k o (wset_ans ans w0)) as [[[w1 r1] b1]| |] eqn:Ep; try discriminate.
      injection H as <-. eapply wop_cancel_spec in Ep; [|exact HC]. destruct Ep as (A & B & C).
      destruct (w_drop_buf_spec k b1 (wset_fut None w1) C) as (D & E & F).
      split; [|intros Hn; exfalso; apply Hn; exact F]. unfold cfg_of. rewrite F, E. cbn. cbn in A. rewrite A, Hb. exact D.
    + injection H as <-. split; [|intros Hn; exfalso; apply Hn; reflexivity].
      unfold cfg_of. cbn. rewrite Hb. exact (wcore_items_none k w0 items HC).
    + cbn [fut_op] in H.
      destruct (wop_cancel true k o (wset_ans ans w0)) as [[[w1 r1] b1]| |] eqn:Ep; try discriminate.
      injection H as <-. eapply wop_cancel_spec in Ep; [|exact HC]. destruct Ep as (A & B & C).
      destruct (w_drop_buf_spec k b1 (wset_fut None w1) C) as (D & E & F).
      split; [|intros Hn; exfalso; apply Hn; exact F]. unfold cfg_of. rewrite F, E. cbn. cbn in A. rewrite A, Hb. exact D.
  - (* into_vec *)
    destruct (w_buf w0) as [b|] eqn:Eb; [|discriminate].
    assert (Hf : w_fut w0 = None) by (destruct (w_fut w0); [specialize (Hex ltac:(discriminate)); discriminate|reflexivity]).
    rewrite Hf in HC.
    destruct (w_into_vec k b (wset_buf None w0)) as [w1 v] eqn:Ev. injection H as <-.
    eapply w_into_vec_spec in Ev; [|exact HC]. destruct Ev as (A & B & C).
    split; [|intros Hn; exfalso; apply Hn; cbn; cbn in C; congruence].
    unfold cfg_of. cbn. cbn in B, C. rewrite C, Hf, B.
    apply wcore_emit_inert; [intros g; reflexivity|exact A].
  - (* drop the buffer *)
    destruct (w_buf w0) as [b|] eqn:Eb; [|discriminate].
    assert (Hf : w_fut w0 = None) by (destruct (w_fut w0); [specialize (Hex ltac:(discriminate)); discriminate|reflexivity]).
    rewrite Hf in HC. injection H as <-.
    destruct (w_drop_buf_spec k b (wset_buf None w0) HC) as (D & E & F).
    split; [|intros Hn; exfalso; apply Hn; rewrite F; exact Hf].
    unfold cfg_of. rewrite F, E. cbn. rewrite Hf. exact D.
  - (* drop the writer *)
    destruct (w_alive w0); [|discriminate]. cbn [andb] in H.
    destruct (is_some (w_fut w0)) eqn:E1; [discriminate|]. apply is_some_false in E1. cbn [negb] in H.
    injection H as <-. split; [|intros Hn; exfalso; apply Hn; exact E1].
    unfold cfg_of. cbn [w_fut w_buf wemit wset_alive]. rewrite E1 in *.
    apply wcore_emit_inert; [intros g; reflexivity|exact HC].
Qed.
