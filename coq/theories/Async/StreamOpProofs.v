(** * Async/StreamOpProofs.v — both ends together: the invariant of a scenario and the facts that
    Props/C19.v states (well-behaved host, [strict = true]). *)
From Coq Require Import NArith Arith List Bool Lia Permutation Sorted.
From WB Require Import Async.AbiBuf Async.AbiBufProofs Async.StreamOp Async.StreamOpBase
                       Async.StreamOpW Async.StreamOpR.
Import ListNotations.
Local Open Scope N_scope.

(** ** What a writer action does to the observable part of the writer state: it only appends to
    [w_sent], and its ledger is the fold of [lg_tok_w] over exactly the tokens it emits. *)
Definition wext (k : kind) (w w' : wst) : Prop :=
  (exists d, w_sent w' = w_sent w ++ d) /\
  (exists t, w_out w' = w_out w ++ t /\ w_lg w' = lg_toks_w k t (w_lg w)).

Lemma wext_refl k w : wext k w w.
Proof. split; [exists []; rewrite app_nil_r; reflexivity|exists []; rewrite app_nil_r; split; reflexivity]. Qed.

Lemma wext_trans k a b c : wext k a b -> wext k b c -> wext k a c.
Proof.
  intros [[d1 S1] [t1 [O1 L1]]] [[d2 S2] [t2 [O2 L2]]]. split.
  - exists (d1 ++ d2). rewrite S2, S1, app_assoc. reflexivity.
  - exists (t1 ++ t2). split; [rewrite O2, O1, app_assoc; reflexivity|].
    rewrite L2, L1, lg_toks_w_app. reflexivity.
Qed.

Lemma wext_emit k w t : wext k w (wemit k t w).
Proof. split; [exists []; rewrite app_nil_r; reflexivity|exists t; split; reflexivity]. Qed.
Lemma wext_sent k w d : wext k w (wadd_sent d w).
Proof. split; [exists d; reflexivity|exists []; rewrite app_nil_r; split; reflexivity]. Qed.

(** Setters that touch neither [w_sent], [w_out] nor [w_lg]. *)
Definition wsame (w w' : wst) : Prop := w_sent w' = w_sent w /\ w_out w' = w_out w /\ w_lg w' = w_lg w.
Lemma wext_same k w w' : wsame w w' -> wext k w w'.
Proof.
  intros (S & O & L). split; [exists []; rewrite app_nil_r; exact S|].
  exists []. rewrite app_nil_r. split; [exact O|exact L].
Qed.

Lemma wext_drop_buf k b w : wext k w (w_drop_buf k b w).
Proof.
  unfold w_drop_buf.
  apply wext_trans with (wemit k (ab_drop k b) w); [apply wext_emit|apply wext_same; repeat split].
Qed.

Ltac wext_step :=
  match goal with
  | |- wext _ ?w ?w => apply wext_refl
  | |- wext _ ?w (wemit _ ?t ?w1) => apply wext_trans with w1; [|apply wext_emit]
  | |- wext _ ?w (wadd_sent ?d ?w1) => apply wext_trans with w1; [|apply wext_sent]
  | |- wext _ ?w (wset_fut ?x ?w1) => apply wext_trans with w1; [|apply wext_same; repeat split]
  | |- wext _ ?w (wset_buf ?x ?w1) => apply wext_trans with w1; [|apply wext_same; repeat split]
  | |- wext _ ?w (wset_done ?x ?w1) => apply wext_trans with w1; [|apply wext_same; repeat split]
  | |- wext _ ?w (wset_alive ?x ?w1) => apply wext_trans with w1; [|apply wext_same; repeat split]
  | |- wext _ ?w (wset_next ?x ?w1) => apply wext_trans with w1; [|apply wext_same; repeat split]
  | |- wext _ ?w (wset_ans ?x ?w1) => apply wext_trans with w1; [|apply wext_same; repeat split]
  | |- wext _ ?w (wset_host ?a ?b ?c ?w1) => apply wext_trans with w1; [|apply wext_same; repeat split]
  | |- wext _ ?w (wadd_rep ?x ?w1) => apply wext_trans with w1; [|apply wext_same; repeat split]
  | |- wext _ ?w (wadd_ret ?x ?w1) => apply wext_trans with w1; [|apply wext_same; repeat split]
  | |- wext _ ?w (wadd_drop ?x ?w1) => apply wext_trans with w1; [|apply wext_same; repeat split]
  | |- wext _ ?w (w_drop_buf ?k ?b ?w1) => apply wext_trans with w1; [|apply wext_drop_buf]
  | H : wext _ ?x ?w1 |- wext _ ?w ?w1 => apply wext_trans with x; [|exact H]
  end.
Ltac wext_solve := repeat wext_step; try assumption.

Lemma wext_with_code k b code w w' p : wop_with_code k b code w = Ok (w', p) -> wext k w w'.
Proof.
  unfold wop_with_code. destruct (wop_update k b code) as [|r b' sd t|]; try discriminate.
  - intros [= <- _]. apply wext_refl.
  - intros [= <- _]. destruct sd; wext_solve.
Qed.

Lemma wpop_ext k w a w1 : wpop w = (a, w1) -> wext k w w1.
Proof. intros H. apply wpop_eq in H. destruct H as [l ->]. wext_solve. Qed.

Lemma wext_poll k o w w' p : wop_poll true k o w = Ok (w', p) -> wext k w w'.
Proof.
  unfold wop_poll. destruct (wo_inprog o).
  - destruct (wo_code o); [apply wext_with_code|intros [= <- _]; apply wext_refl].
  - destruct (w_done w); [apply wext_with_code|].
    destruct (wpop w) as [a w1] eqn:Ep. apply (wpop_ext k) in Ep.
    destruct (host_moves _ _ _ _ a) as [mv|]; [|discriminate].
    intros H. apply wext_with_code in H. wext_solve.
Qed.

Lemma wext_cancel k o w w' r b : wop_cancel true k o w = Ok (w', r, b) -> wext k w w'.
Proof.
  unfold wop_cancel. destruct (wo_inprog o); cbn [negb]; [|intros [= <- _ _]; apply wext_refl].
  destruct (wo_code o).
  - destruct (wop_with_code k (wo_buf o) n w) as [[w3 [o3|r3 b3]]| |] eqn:E; try discriminate.
    intros [= <- _ _]. apply wext_with_code in E. wext_solve.
  - destruct (w_busy w); [|discriminate]. destruct (w_ev w).
    + match goal with |- context [wop_with_code ?k ?b ?c ?w2] =>
        destruct (wop_with_code k b c w2) as [[w3 [o3|r3 b3]]| |] eqn:E; try discriminate end.
      intros [= <- _ _]. apply wext_with_code in E. wext_solve.
    + set (aw := match w_ans w with [] => (CANCELLED, w) | a :: r0 => (a, wset_ans r0 w) end).
      assert (Haw : wext k w (snd aw)).
      { unfold aw. destruct (w_ans w); cbn [snd]; wext_solve. }
      destruct aw as [a w1]. cbn [snd] in Haw.
      destruct (true && (a =? BLOCKED)); [discriminate|].
      destruct (host_moves _ _ _ _ a) as [mv|]; [|discriminate].
      match goal with |- context [wop_with_code ?k ?b ?c ?w2] =>
        destruct (wop_with_code k b c w2) as [[w3 [o3|r3 b3]]| |] eqn:E; try discriminate end.
      intros [= <- _ _]. apply wext_with_code in E. wext_solve.
Qed.

Lemma wext_into_vec k b w w' v : w_into_vec k b w = (w', v) -> wext k w w'.
Proof. unfold w_into_vec. destruct (ab_take_vec k b). intros [= <- _]. wext_solve. Qed.

Lemma wext_wall k fuel : forall one first r b w w' f,
  wall_loop fuel true k one first r b w = Ok (w', f) -> wext k w w'.
Proof.
  induction fuel as [|fuel IH]; intros one first r b w w' f; cbn [wall_loop].
  - match goal with |- (if ?c then _ else _) = _ -> _ => destruct c end; [discriminate|].
    match goal with |- (if ?c then _ else _) = _ -> _ => destruct c end; [discriminate|].
    destruct (w_into_vec k b w) as [w1 v] eqn:Ev. intros [= <- _].
    apply wext_into_vec in Ev. wext_solve.
  - match goal with |- (if ?c then _ else _) = _ -> _ => destruct c end.
    + destruct (wop_poll true k (mkWop false b None) w) as [[w1 [o1|r1 b1]]| |] eqn:Ep; try discriminate.
      * intros [= <- _]. apply wext_poll in Ep. wext_solve.
      * intros H. apply IH in H. apply wext_poll in Ep. wext_solve.
    + match goal with |- (if ?c then _ else _) = _ -> _ => destruct c end; [discriminate|].
      destruct (w_into_vec k b w) as [w1 v] eqn:Ev. intros [= <- _].
      apply wext_into_vec in Ev. wext_solve.
Qed.

Lemma wext_wpoll k w w' : w_poll true k w = Ok w' -> wext k w w'.
Proof.
  unfold w_poll. destruct (w_fut w) as [[o|one items|one first o]|]; [| | |discriminate].
  - destruct (wop_poll true k o w) as [[w1 [o1|r1 b1]]| |] eqn:Ep; try discriminate;
      intros [= <-]; apply wext_poll in Ep; wext_solve.
  - destruct (ab_new k items) as [b t].
    destruct (wop_poll true k (mkWop false b None) (wemit k t w)) as [[w1 [o1|r1 b1]]| |] eqn:Ep; try discriminate.
    + intros [= <-]. apply wext_poll in Ep. wext_solve.
    + destruct (wall_loop (wall_fuel w1) true k one true r1 b1 w1) as [[w2 f]| |] eqn:El; try discriminate.
      intros [= <-]. apply wext_poll in Ep. apply wext_wall in El. wext_solve.
  - destruct (wop_poll true k o w) as [[w1 [o1|r1 b1]]| |] eqn:Ep; try discriminate.
    + intros [= <-]. apply wext_poll in Ep. wext_solve.
    + destruct (wall_loop (wall_fuel w1) true k one first r1 b1 w1) as [[w2 f]| |] eqn:El; try discriminate.
      intros [= <-]. apply wext_poll in Ep. apply wext_wall in El. wext_solve.
Qed.

(** One writer action: [w_sent] grows, the ledger is the fold over the tokens of the action. *)
Theorem wstep_ext k a w w' :
  wstep true k a w = Ok w' ->
  (exists d, w_sent w' = w_sent w ++ d) /\ w_lg w' = lg_toks_w k (w_out w') (w_lg w).
Proof.
  intros H.
  assert (X : wext k (wclear w) w').
  { unfold wstep in H. set (w0 := wclear w) in *. clearbody w0.
    destruct a.
    - destruct (w_alive w0 && _); [|discriminate]. destruct (ab_new k _) as [b t]. injection H as <-. wext_solve.
    - destruct (w_buf w0); [|discriminate]. destruct (w_alive w0 && _); [|discriminate]. injection H as <-. wext_solve.
    - destruct (w_alive w0 && _); [|discriminate]. injection H as <-. wext_solve.
    - destruct (w_alive w0 && _); [|discriminate]. injection H as <-. wext_solve.
    - apply wext_wpoll in H. wext_solve.
    - destruct (w_busy w0); [|discriminate]. destruct (w_ev w0); [discriminate|].
      destruct (code =? BLOCKED); [discriminate|]. destruct (host_moves _ _ _ _ _); [|discriminate].
      injection H as <-. wext_solve.
    - destruct (w_ev w0); [|discriminate]. destruct (w_fut w0); [|discriminate].
      destruct (fut_op w1); [|discriminate]. injection H as <-. wext_solve.
    - destruct (w_fut w0) as [[o|? ?|? ? o]|]; try discriminate.
      destruct (wop_cancel true k o (wset_ans ans w0)) as [[[w1 r1] b1]| |] eqn:Ep; try discriminate.
      injection H as <-. apply wext_cancel in Ep. wext_solve.
    - destruct (w_fut w0) as [[o|one items|one first o]|]; [| | |discriminate]; cbn [fut_op] in H.
      + destruct (wop_cancel true k o (wset_ans ans w0)) as [[[w1 r1] b1]| |] eqn:Ep; try discriminate.
        injection H as <-. apply wext_cancel in Ep. wext_solve.
      + injection H as <-. wext_solve.
      + destruct (wop_cancel true k o (wset_ans ans w0)) as [[[w1 r1] b1]| |] eqn:Ep; try discriminate.
        injection H as <-. apply wext_cancel in Ep. wext_solve.
    - destruct (w_buf w0); [|discriminate].
      destruct (w_into_vec k a (wset_buf None w0)) as [w1 v] eqn:Ev. injection H as <-.
      apply wext_into_vec in Ev. wext_solve.
    - destruct (w_buf w0); [|discriminate]. injection H as <-.
      wext_solve.
    - destruct (w_alive w0 && _); [|discriminate]. injection H as <-. wext_solve. }
  destruct X as [[d S] [t [O L]]]. split; [exists d; exact S|].
  cbn in O. rewrite O. exact L.
Qed.

(** ** The same for the reader end: its ledger is the fold of [lg_tok_r] over the tokens it emits. *)
Definition rext (k : kind) (r r' : rst) : Prop :=
  exists t, r_out r' = r_out r ++ t /\ r_lg r' = lg_toks_r k t (r_lg r).

Lemma rext_refl k r : rext k r r.
Proof. exists []. rewrite app_nil_r. split; reflexivity. Qed.
Lemma rext_trans k a b c : rext k a b -> rext k b c -> rext k a c.
Proof.
  intros [t1 [O1 L1]] [t2 [O2 L2]]. exists (t1 ++ t2).
  split; [rewrite O2, O1, app_assoc; reflexivity|]. rewrite L2, L1, lg_toks_r_app. reflexivity.
Qed.
Lemma rext_emit k r t : rext k r (remit k t r).
Proof. exists t. split; reflexivity. Qed.
Lemma rext_same k r r' : r_out r' = r_out r -> r_lg r' = r_lg r -> rext k r r'.
Proof. intros O L. exists []. rewrite app_nil_r. split; assumption. Qed.
Lemma rext_drop_vec k v r : rext k r (r_drop_vec k v r).
Proof.
  unfold r_drop_vec. apply rext_trans with (remit k (drop_vals k (v_items v)) r);
    [apply rext_emit|apply rext_same; reflexivity].
Qed.
Lemma rext_drop_end k r : rext k r (r_drop_end k r).
Proof.
  unfold r_drop_end. apply rext_trans with (rset_alive false r); [apply rext_same; reflexivity|apply rext_emit].
Qed.

Ltac rext_step :=
  match goal with
  | |- rext _ ?r ?r => apply rext_refl
  | |- rext _ ?r (remit _ ?t ?r1) => apply rext_trans with r1; [|apply rext_emit]
  | |- rext _ ?r (r_drop_vec _ ?v ?r1) => apply rext_trans with r1; [|apply rext_drop_vec]
  | |- rext _ ?r (r_drop_end _ ?r1) => apply rext_trans with r1; [|apply rext_drop_end]
  | |- rext _ ?r (rset_fut ?x ?r1) => apply rext_trans with r1; [|apply rext_same; reflexivity]
  | |- rext _ ?r (rset_ad ?x ?r1) => apply rext_trans with r1; [|apply rext_same; reflexivity]
  | |- rext _ ?r (rset_vec ?x ?r1) => apply rext_trans with r1; [|apply rext_same; reflexivity]
  | |- rext _ ?r (rset_done ?x ?r1) => apply rext_trans with r1; [|apply rext_same; reflexivity]
  | |- rext _ ?r (rset_alive ?x ?r1) => apply rext_trans with r1; [|apply rext_same; reflexivity]
  | |- rext _ ?r (rset_ans ?x ?r1) => apply rext_trans with r1; [|apply rext_same; reflexivity]
  | |- rext _ ?r (rset_host ?a ?b ?c ?r1) => apply rext_trans with r1; [|apply rext_same; reflexivity]
  | |- rext _ ?r (radd_taken ?x ?r1) => apply rext_trans with r1; [|apply rext_same; reflexivity]
  | |- rext _ ?r (radd_log ?x ?r1) => apply rext_trans with r1; [|apply rext_same; reflexivity]
  | |- rext _ ?r (radd_got ?x ?r1) => apply rext_trans with r1; [|apply rext_same; reflexivity]
  | |- rext _ ?r (radd_dropped ?x ?r1) => apply rext_trans with r1; [|apply rext_same; reflexivity]
  | |- rext _ ?r (radd_rep ?x ?r1) => apply rext_trans with r1; [|apply rext_same; reflexivity]
  | H : rext _ ?x ?r1 |- rext _ ?r ?r1 => apply rext_trans with x; [|exact H]
  end.
Ltac rext_solve := repeat rext_step; try assumption.

Lemma rext_with_code k v area code r r' p : rop_with_code k v area code r = Ok (r', p) -> rext k r r'.
Proof.
  unfold rop_with_code. destruct (rop_update k v area (r_inbuf r) code) as [|s v' sd got t|]; try discriminate.
  - intros [= <- _]. apply rext_refl.
  - intros [= <- _]. destruct sd; rext_solve.
Qed.

Lemma rpop_ext k r a r1 : rpop r = (a, r1) -> rext k r r1.
Proof. intros H. apply rpop_eq in H. destruct H as [l ->]. rext_solve. Qed.

Lemma rext_poll k base avail o r r' p : rop_poll true k base avail o r = Ok (r', p) -> rext k r r'.
Proof.
  unfold rop_poll. destruct (ro_inprog o).
  - destruct (ro_code o); [apply rext_with_code|intros [= <- _]; apply rext_refl].
  - destruct (r_done r); [apply rext_with_code|].
    match goal with |- context [rpop ?x] => destruct (rpop x) as [a r1] eqn:Ep end.
    apply (rpop_ext k) in Ep.
    destruct (host_moves _ _ _ _ a) as [mv|]; [|discriminate].
    intros H. apply rext_with_code in H. rext_solve.
Qed.

Lemma rext_cancel k base avail o r r' s v : rop_cancel true k base avail o r = Ok (r', s, v) -> rext k r r'.
Proof.
  unfold rop_cancel. destruct (ro_inprog o); cbn [negb]; [|intros [= <- _ _]; apply rext_refl].
  destruct (ro_code o).
  - destruct (rop_with_code k (ro_vec o) (ro_area o) n r) as [[r3 [o3|s3 v3]]| |] eqn:E; try discriminate.
    intros [= <- _ _]. apply rext_with_code in E. rext_solve.
  - destruct (r_busy r); [|discriminate]. destruct (r_ev r).
    + match goal with |- context [rop_with_code ?k ?v ?ar ?c ?r2] =>
        destruct (rop_with_code k v ar c r2) as [[r3 [o3|s3 v3]]| |] eqn:E; try discriminate end.
      intros [= <- _ _]. apply rext_with_code in E. rext_solve.
    + set (aw := match r_ans r with [] => (CANCELLED, r) | a :: t => (a, rset_ans t r) end).
      assert (Haw : rext k r (snd aw)).
      { unfold aw. destruct (r_ans r); cbn [snd]; rext_solve. }
      destruct aw as [a r1]. cbn [snd] in Haw.
      destruct (true && (a =? BLOCKED)); [discriminate|].
      destruct (host_moves _ _ _ _ a) as [mv|]; [|discriminate].
      match goal with |- context [rop_with_code ?k ?v ?ar ?c ?r2] =>
        destruct (rop_with_code k v ar c r2) as [[r3 [o3|s3 v3]]| |] eqn:E; try discriminate end.
      intros [= <- _ _]. apply rext_with_code in E. rext_solve.
Qed.

Lemma rext_next_done k v r r' x : next_done k v r = (r', x) -> rext k r r'.
Proof.
  unfold next_done. destruct (rev (v_items v)); intros [= <- _]; rext_solve.
Qed.

Lemma rext_coll k fuel : forall base avail s v r r' f,
  coll_loop fuel true k base avail s v r = Ok (r', f) -> rext k r r'.
Proof.
  induction fuel as [|fuel IH]; intros base avail s v r r' f; cbn [coll_loop].
  - destruct s; try discriminate. intros [= <- _]. rext_solve.
  - destruct s; try discriminate.
    + destruct (rop_poll true k base avail (mkRop false (v_reserve1 k v) false None) r)
        as [[r1 [o1|s1 v1]]| |] eqn:Ep; try discriminate.
      * intros [= <- _]. apply rext_poll in Ep. rext_solve.
      * intros H. apply IH in H. apply rext_poll in Ep. rext_solve.
    + intros [= <- _]. rext_solve.
Qed.

Lemma rext_rpoll k avail r r' : r_poll true k avail r = Ok r' -> rext k r r'.
Proof.
  unfold r_poll. destruct (r_fut r) as [[o| |o| |o]|]; [| | | | |discriminate].
  - destruct (rop_poll true k _ avail o r) as [[r1 [o1|s1 v1]]| |] eqn:Ep; try discriminate;
      cbn [lift_res]; intros [= <-]; apply rext_poll in Ep; rext_solve.
  - destruct (rop_poll true k _ avail _ r) as [[r1 [o1|s1 v1]]| |] eqn:Ep; try discriminate; cbn [lift_res].
    + intros [= <-]. apply rext_poll in Ep. rext_solve.
    + destruct (next_done k v1 r1) as [r2 x] eqn:En. intros [= <-].
      apply rext_poll in Ep. apply rext_next_done in En. rext_solve.
  - destruct (rop_poll true k _ avail o r) as [[r1 [o1|s1 v1]]| |] eqn:Ep; try discriminate; cbn [lift_res].
    + intros [= <-]. apply rext_poll in Ep. rext_solve.
    + destruct (next_done k v1 r1) as [r2 x] eqn:En. intros [= <-].
      apply rext_poll in Ep. apply rext_next_done in En. rext_solve.
  - destruct (coll_loop _ true k _ avail _ _ r) as [[r1 f]| |] eqn:El; try discriminate; cbn [lift_res].
    intros [= <-]. apply rext_coll in El. rext_solve.
  - destruct (rop_poll true k _ avail o r) as [[r1 [o1|s1 v1]]| |] eqn:Ep; try discriminate; cbn [lift_res].
    + intros [= <-]. apply rext_poll in Ep. rext_solve.
    + destruct (coll_loop _ true k _ avail s1 v1 r1) as [[r2 f]| |] eqn:El; try discriminate; cbn [lift_res].
      intros [= <-]. apply rext_poll in Ep. apply rext_coll in El. rext_solve.
Qed.

Lemma rext_adpoll k avail r r' : ad_poll true k avail r = Ok r' -> rext k r r'.
Proof.
  unfold ad_poll.
  assert (Hrun : forall o,
    lift_res (rop_poll true k (length (r_taken r)) avail o r)
      (fun '(r, p) =>
         match p with
         | RPending o => Ok (rset_ad (Some (AdReading o)) r)
         | RReady _ v =>
             let (r, x) := next_done k v r in
             match x with
             | Some _ => Ok (remit k [KSn x] (rset_ad (Some AdIdle) r))
             | None => Ok (remit k [KSn None] (r_drop_end k (rset_ad (Some AdComplete) r)))
             end
         end) = Ok r' -> rext k r r').
  { intros o. destruct (rop_poll true k _ avail o r) as [[r1 [o1|s1 v1]]| |] eqn:Ep; try discriminate; cbn [lift_res].
    - intros [= <-]. apply rext_poll in Ep. rext_solve.
    - destruct (next_done k v1 r1) as [r2 x] eqn:En. apply rext_poll in Ep. apply rext_next_done in En.
      destruct x; intros [= <-]; rext_solve. }
  destruct (r_ad r) as [[|o| |]|]; try discriminate.
  - apply Hrun.
  - apply Hrun.
  - intros [= <-]. rext_solve.
Qed.

Theorem rstep_ext k avail a r r' :
  rstep true k avail a r = Ok r' -> r_lg r' = lg_toks_r k (r_out r') (r_lg r).
Proof.
  intros H.
  assert (X : rext k (rclear r) r').
  { unfold rstep in H. set (r0 := rclear r) in *. clearbody r0.
    destruct a.
    - destruct (r_alive r0 && _ && _); [|discriminate]. injection H as <-. rext_solve.
    - destruct (r_alive r0 && _ && _); [|discriminate]. injection H as <-. rext_solve.
    - destruct (r_alive r0 && _ && _); [|discriminate]. injection H as <-. rext_solve.
    - destruct (r_alive r0 && _ && _); [|discriminate]. injection H as <-. rext_solve.
    - destruct (is_some (r_fut (rset_ans ans r0))).
      + apply rext_rpoll in H. rext_solve.
      + destruct (is_some (r_ad (rset_ans ans r0))); [|discriminate]. apply rext_adpoll in H. rext_solve.
    - destruct (r_busy r0); [|discriminate]. destruct (r_ev r0); [discriminate|].
      destruct (code =? BLOCKED); [discriminate|]. destruct (host_moves _ _ _ _ _); [|discriminate].
      injection H as <-. rext_solve.
    - destruct (r_ev r0); [|discriminate]. destruct (r_cur_op r0); [|discriminate]. injection H as <-.
      unfold r_put_op. destruct (r_fut (rset_host None (r_inbuf r0) None r0)).
      + rext_solve.
      + destruct (r_ad (rset_host None (r_inbuf r0) None r0)) as [[| | |]|]; rext_solve.
    - destruct (r_fut r0) as [[o| |o| |o]|]; try discriminate.
      destruct (rop_cancel true k _ avail o (rset_ans ans r0)) as [[[r1 s1] v1]| |] eqn:Ep; try discriminate.
      cbn [lift_res] in H. injection H as <-. apply rext_cancel in Ep. rext_solve.
    - set (r1 := rset_ans ans r0) in *.
      assert (X1 : rext k r0 r1) by (unfold r1; rext_solve). clearbody r1.
      destruct (r_fut r1) as [[o| |o| |o]|].
      + destruct (rop_cancel true k _ avail o r1) as [[[r2 s2] v2]| |] eqn:Ep; try discriminate.
        cbn [lift_res] in H. injection H as <-. apply rext_cancel in Ep. rext_solve.
      + injection H as <-. rext_solve.
      + destruct (rop_cancel true k _ avail o r1) as [[[r2 s2] v2]| |] eqn:Ep; try discriminate.
        cbn [lift_res] in H. injection H as <-. apply rext_cancel in Ep. rext_solve.
      + injection H as <-. rext_solve.
      + destruct (rop_cancel true k _ avail o r1) as [[[r2 s2] v2]| |] eqn:Ep; try discriminate.
        cbn [lift_res] in H. injection H as <-. apply rext_cancel in Ep. rext_solve.
      + destruct (r_ad r1) as [[|o| |]|]; try discriminate.
        * injection H as <-. rext_solve.
        * destruct (rop_cancel true k _ avail o r1) as [[[r2 s2] v2]| |] eqn:Ep; try discriminate.
          cbn [lift_res] in H. injection H as <-. apply rext_cancel in Ep. rext_solve.
        * injection H as <-. rext_solve.
    - destruct (r_vec r0); [|discriminate]. injection H as <-. rext_solve.
    - destruct (r_alive r0 && _ && _); [|discriminate]. injection H as <-. rext_solve. }
  destruct X as [t [O L]]. cbn in O. rewrite O. exact L.
Qed.

(** ** Both ends *)
Definition Inv (k : kind) (s : st) : Prop :=
  WInv k (s_w s) /\ RInv' k (s_r s) /\ exists p, w_sent (s_w s) = r_taken (s_r s) ++ p.

Lemma inv_init k : Inv k st_init.
Proof. split; [apply winv_init|]. split; [apply rinv_init|]. exists []. reflexivity. Qed.

Lemma pipe_of s p : w_sent (s_w s) = r_taken (s_r s) ++ p -> pipe s = p.
Proof.
  intros E. unfold pipe. rewrite E, skipn_app, skipn_all, Nat.sub_diag. reflexivity.
Qed.

Lemma step_inv k a s s' t : Inv k s -> step true k a s = Ok (s', t) -> Inv k s'.
Proof.
  intros (HW & HR & [p Hp]) H. unfold step in H. destruct a as [a|a].
  - destruct (wstep true k a (s_w s)) as [w| |] eqn:E; try discriminate. injection H as <- _.
    split; [eapply wstep_inv; eassumption|]. split; [exact HR|].
    apply wstep_ext in E. destruct E as [[d S] _]. exists (p ++ d). cbn. rewrite S, Hp, app_assoc. reflexivity.
  - destruct (rstep true k (pipe s) a (s_r s)) as [r| |] eqn:E; try discriminate. injection H as <- _.
    eapply rstep_inv in E; [|exact HR]. destruct E as [HR' (d & rest & T & A)].
    split; [exact HW|]. split; [exact HR'|].
    rewrite (pipe_of s p Hp) in A. exists rest. cbn. rewrite T, Hp, A, app_assoc. reflexivity.
Qed.

Lemma run_acts_inv k : forall acts i s s' ts o,
  Inv k s -> run_acts true k i acts s = (s', ts, o) -> Inv k s'.
Proof.
  induction acts as [|a acts IH]; intros i s s' ts o HI H; cbn [run_acts] in H.
  - injection H as <- _ _. exact HI.
  - destruct (step true k a s) as [[s1 t]| |] eqn:E.
    + destruct (run_acts true k (S i) acts s1) as [[s2 ts2] o2] eqn:E2. injection H as <- _ _.
      eapply IH; [|exact E2]. eapply step_inv; eassumption.
    + injection H as <- _ _. exact HI.
    + injection H as <- _ _. exact HI.
Qed.

Lemma run_inv k acts s ts o : run true k acts = (s, ts, o) -> Inv k s.
Proof.
  unfold run. destruct (run_acts true k 0 acts st_init) as [[s1 ts1] o1] eqn:E1.
  pose proof (run_acts_inv k _ _ _ _ _ _ (inv_init k) E1) as H1.
  destruct o1.
  - destruct (run_acts true k (length acts) (wrapup s1) s1) as [[s2 ts2] o2] eqn:E2.
    intros [= <- _ _]. eapply run_acts_inv; eassumption.
  - intros [= <- _ _]. exact H1.
  - intros [= <- _ _]. exact H1.
Qed.

(** Every state a scenario can be in (after any prefix, with or without the wrap-up). *)
Definition reachable (k : kind) (s : st) : Prop :=
  (exists acts i ts o, run_acts true k i acts st_init = (s, ts, o)) \/
  (exists acts ts o, run true k acts = (s, ts, o)).

Lemma reachable_inv k s : reachable k s -> Inv k s.
Proof.
  intros [(acts & i & ts & o & H)|(acts & ts & o & H)].
  - eapply run_acts_inv; [apply inv_init|exact H].
  - eapply run_inv; exact H.
Qed.

(** *** (1) exactly once, in order *)
Definition w_live (s : st) : list N := cfg_live (N.to_nat (w_moved (s_w s))) (cfg_of (s_w s)).

Theorem once_in_order k s :
  reachable k s ->
  r_log (s_r s) ++ r_inbuf (s_r s) ++ pipe s = w_sent (s_w s)
  /\ StronglySorted N.lt (w_sent (s_w s))
  /\ NoDup (w_sent (s_w s))
  /\ Forall (fun x => x < w_next (s_w s)) (w_sent (s_w s)).
Proof.
  intros H. apply reachable_inv in H. destruct H as (((HB & _) & _) & ((((HL & _) & _) & _) & [p Hp])).
  split.
  - rewrite (pipe_of s p Hp), app_assoc, HL. symmetry. exact Hp.
  - pose proof HB as (_ & HS & _). apply sorted_app_inv_l in HS.
    split; [exact HS|]. split; [apply sorted_nodup; exact HS|]. eapply sent_lt_next; exact HB.
Qed.

(** *** (2) each resolved operation reports the count the host moved *)
Theorem counts_reported k s :
  reachable k s ->
  Forall (fun p => fst p = snd p) (w_rep (s_w s)) /\ Forall (fun p => fst p = snd p) (r_rep (s_r s)).
Proof.
  intros H. apply reachable_inv in H. destruct H as (((HB & _) & _) & ((((_ & _ & HR & _) & _) & _) & _)).
  destruct HB as (_ & _ & HRw & _). split; assumption.
Qed.

(** *** (3) every handed value is transferred, returned, dropped, or still in the live buffer *)
Theorem values_accounted k s :
  reachable k s ->
  Permutation (nseq 0 (N.to_nat (w_next (s_w s))))
              (w_sent (s_w s) ++ w_ret (s_w s) ++ w_drop (s_w s) ++ w_live s)
  /\ (w_fut (s_w s) = None -> w_buf (s_w s) = None -> w_live s = []).
Proof.
  intros H. apply reachable_inv in H. destruct H as (((HB & _) & _) & _).
  destruct HB as (HP & _). split; [exact HP|].
  intros Hf Hb. unfold w_live, cfg_of. rewrite Hf, Hb. reflexivity.
Qed.

(** *** (4) the ledger: never a double release, empty at quiescence *)
Definition quiescent (s : st) : Prop :=
  w_fut (s_w s) = None /\ w_buf (s_w s) = None /\ r_cur_op (s_r s) = None.

Theorem ledger_balanced k s :
  reachable k s ->
  lg_err (w_lg (s_w s)) = false /\ lg_err (r_lg (s_r s)) = false
  /\ (quiescent s -> w_lg (s_w s) = lg_empty /\ r_lg (s_r s) = lg_empty).
Proof.
  intros H. apply reachable_inv in H.
  destruct H as (((HB & _) & _) & (((HR & Hc) & _) & _)).
  destruct HB as (_ & _ & _ & HLw). destruct HR as (_ & _ & _ & HLr).
  split; [rewrite HLw; reflexivity|]. split; [rewrite HLr; reflexivity|].
  intros (Hf & Hb & Ho). unfold cfg_of in HLw. rewrite Hf, Hb in HLw. unfold rcfg_of in HLr, Hc. rewrite Ho in HLr, Hc.
  cbn in HLw, HLr. destruct Hc as (_ & _ & Hin). rewrite Hin in HLr.
  split; [rewrite HLw|rewrite HLr]; destruct (has_lists k); reflexivity.
Qed.

(** *** (5) every value that entered a reader vector is handed to the caller, dropped once, or still held *)
Theorem reader_values_accounted k s :
  reachable k s ->
  Permutation (r_log (s_r s))
              (r_got (s_r s) ++ r_dropped (s_r s) ++ rc_items (rcfg_of (s_r s)) ++ held_of (s_r s)).
Proof.
  intros H. apply reachable_inv in H. destruct H as (_ & (((_ & HP & _) & _) & _) & _). exact HP.
Qed.

(** *** The ghost ledgers are the folds of the observable tokens *)
Theorem ledger_is_fold_of_trace k a s s' t :
  step true k a s = Ok (s', t) ->
  match a with
  | AW _ => w_lg (s_w s') = lg_toks_w k t (w_lg (s_w s)) /\ s_r s' = s_r s
  | AR _ => r_lg (s_r s') = lg_toks_r k t (r_lg (s_r s)) /\ s_w s' = s_w s
  end.
Proof.
  unfold step. destruct a as [a|a].
  - destruct (wstep true k a (s_w s)) as [w| |] eqn:E; try discriminate. intros [= <- <-].
    apply wstep_ext in E. destruct E as [_ L]. split; [exact L|reflexivity].
  - destruct (rstep true k (pipe s) a (s_r s)) as [r| |] eqn:E; try discriminate. intros [= <- <-].
    apply rstep_ext in E. split; [exact E|reflexivity].
Qed.

(** ** A completed scenario ends quiescent (the wrap-up drops whatever is alive) *)
Lemma run_acts_app k : forall l1 l2 i s s' ts,
  run_acts true k i (l1 ++ l2) s = (s', ts, OEnd) ->
  exists s1 ts1 ts2, run_acts true k i l1 s = (s1, ts1, OEnd) /\
                     run_acts true k (i + length l1) l2 s1 = (s', ts2, OEnd).
Proof.
  induction l1 as [|a l1 IH]; intros l2 i s s' ts H; cbn [app] in H.
  - exists s, [], ts. split; [reflexivity|]. cbn. rewrite Nat.add_0_r. exact H.
  - cbn [run_acts] in H |- *. destruct (step true k a s) as [[s1 t]| |]; try discriminate.
    destruct (run_acts true k (S i) (l1 ++ l2) s1) as [[s2 ts2] o2] eqn:E. injection H as <- <- ->.
    apply IH in E. destruct E as (s3 & ta & tb & E1 & E2).
    rewrite E1. exists s3, (t :: ta), tb. split; [reflexivity|].
    cbn [length]. replace (i + S (length l1))%nat with (S i + length l1)%nat by lia. exact E2.
Qed.

Lemma run_acts_one k a i s s' ts :
  run_acts true k i [a] s = (s', ts, OEnd) -> exists t, step true k a s = Ok (s', t).
Proof.
  cbn [run_acts]. destruct (step true k a s) as [[s1 t]| |]; try discriminate.
  intros [= <- _]. exists t. reflexivity.
Qed.

Lemma run_acts_opt k (c : bool) a i s s' ts :
  run_acts true k i (if c then [a] else []) s = (s', ts, OEnd) ->
  if c then exists t, step true k a s = Ok (s', t) else s' = s.
Proof.
  destruct c; [apply run_acts_one|]. cbn. intros [= <- _]. reflexivity.
Qed.

Lemma wdropfut_quiet k w w' :
  WInv k w -> wstep true k (AWDropFut []) w = Ok w' -> w_fut w' = None /\ w_buf w' = w_buf w.
Proof.
  intros [HC Hex] H. unfold wstep in H.
  change (w_fut (wclear w)) with (w_fut w) in H.
  unfold cfg_of in HC. destruct (w_fut w) as [[o|one items|one first o]|] eqn:Ef; [| | |discriminate];
    cbn [fut_op] in H.
  - destruct (wop_cancel true k o (wset_ans [] (wclear w))) as [[[w1 r1] b1]| |] eqn:Ep; try discriminate.
    injection H as <-. eapply wop_cancel_spec in Ep; [|exact HC]. destruct Ep as (A & B & C).
    split; [reflexivity|]. cbn. exact A.
  - injection H as <-. split; reflexivity.
  - destruct (wop_cancel true k o (wset_ans [] (wclear w))) as [[[w1 r1] b1]| |] eqn:Ep; try discriminate.
    injection H as <-. eapply wop_cancel_spec in Ep; [|exact HC]. destruct Ep as (A & B & C).
    split; [reflexivity|]. cbn. exact A.
Qed.

Lemma wdropbuf_quiet k w w' :
  wstep true k AWDropBuf w = Ok w' -> w_buf w' = None /\ w_fut w' = w_fut w.
Proof.
  unfold wstep. change (w_buf (wclear w)) with (w_buf w). destruct (w_buf w); [|discriminate].
  intros [= <-]. split; reflexivity.
Qed.

Lemma wdropend_quiet k w w' :
  wstep true k AWDropEnd w = Ok w' -> w_buf w' = w_buf w /\ w_fut w' = w_fut w.
Proof.
  unfold wstep. destruct (w_alive (wclear w) && _); [|discriminate]. intros [= <-]. split; reflexivity.
Qed.

Lemma rdropfut_quiet k avail r r' :
  RInv' k r -> rstep true k avail (ARDropFut []) r = Ok r' -> r_cur_op r' = None /\ r_vec r' = r_vec r.
Proof.
  intros HI H. unfold rstep in H.
  assert (HI1 : RInv' k (rset_ans [] (rclear r))) by exact HI.
  change (length (r_taken (rclear r))) with (length (r_taken (rset_ans [] (rclear r)))) in H.
  change (r_vec r) with (r_vec (rset_ans [] (rclear r))).
  set (r1 := rset_ans [] (rclear r)) in *. clearbody r1. clear HI.
  destruct HI1 as (HC & Hex & Hvec). unfold RInv, rcfg_of, r_cur_op in HC.
  assert (Hc : forall o r2 s2 v2,
            RCore k r1 (RCOp o) (held_of r1) ->
            rop_cancel true k (length (r_taken r1)) avail o r1 = Ok (r2, s2, v2) ->
            r_vec r2 = r_vec r1 /\ r_fut r2 = r_fut r1 /\ r_ad r2 = r_ad r1).
  { intros o r2 s2 v2 HCo Ep. eapply rop_cancel_spec in Ep; [|exact HCo|apply rgrow_refl].
    destruct Ep as (A & B & C & _). auto. }
  destruct (r_fut r1) as [[o| |o| |o]|] eqn:Ef; cbn [rfut_op] in HC.
  - assert (Had : r_ad r1 = None) by (apply Hex; discriminate).
    destruct (rop_cancel true k _ avail o r1) as [[[r2 s2] v2]| |] eqn:Ep; try discriminate.
    cbn [lift_res] in H. injection H as <-. destruct (Hc _ _ _ _ HC Ep) as (A & B & C).
    unfold r_cur_op. cbn. rewrite C, Had. auto.
  - assert (Had : r_ad r1 = None) by (apply Hex; discriminate).
    injection H as <-. unfold r_cur_op. cbn. rewrite Had. auto.
  - assert (Had : r_ad r1 = None) by (apply Hex; discriminate).
    destruct (rop_cancel true k _ avail o r1) as [[[r2 s2] v2]| |] eqn:Ep; try discriminate.
    cbn [lift_res] in H. injection H as <-. destruct (Hc _ _ _ _ HC Ep) as (A & B & C).
    unfold r_cur_op. cbn. rewrite C, Had. auto.
  - assert (Had : r_ad r1 = None) by (apply Hex; discriminate).
    injection H as <-. unfold r_cur_op. cbn. rewrite Had. auto.
  - assert (Had : r_ad r1 = None) by (apply Hex; discriminate).
    destruct (rop_cancel true k _ avail o r1) as [[[r2 s2] v2]| |] eqn:Ep; try discriminate.
    cbn [lift_res] in H. injection H as <-. destruct (Hc _ _ _ _ HC Ep) as (A & B & C).
    unfold r_cur_op. cbn. rewrite C, Had. auto.
  - destruct (r_ad r1) as [[|o| |]|] eqn:Ea; try discriminate.
    + injection H as <-. unfold r_cur_op. cbn. rewrite Ef. auto.
    + destruct (rop_cancel true k _ avail o r1) as [[[r2 s2] v2]| |] eqn:Ep; try discriminate.
      cbn [lift_res] in H. injection H as <-. destruct (Hc _ _ _ _ HC Ep) as (A & B & C).
      unfold r_cur_op. cbn. rewrite B. try rewrite Ef. auto.
    + injection H as <-. unfold r_cur_op. cbn. rewrite Ef. auto.
Qed.

Lemma rtake_quiet k avail r r' :
  rstep true k avail ATakeVec r = Ok r' -> r_cur_op r' = r_cur_op r.
Proof.
  unfold rstep. destruct (r_vec (rclear r)); [|discriminate]. intros [= <-]. reflexivity.
Qed.

Lemma rdropend_quiet k avail r r' :
  rstep true k avail ARDropEnd r = Ok r' -> r_cur_op r' = r_cur_op r.
Proof.
  unfold rstep. destruct (r_alive (rclear r) && _ && _); [|discriminate]. intros [= <-]. reflexivity.
Qed.

Lemma step_w k a s s' t : step true k (AW a) s = Ok (s', t) -> wstep true k a (s_w s) = Ok (s_w s') /\ s_r s' = s_r s.
Proof.
  unfold step. destruct (wstep true k a (s_w s)); try discriminate. intros [= <- _]. split; reflexivity.
Qed.
Lemma step_r k a s s' t : step true k (AR a) s = Ok (s', t) -> rstep true k (pipe s) a (s_r s) = Ok (s_r s') /\ s_w s' = s_w s.
Proof.
  unfold step. destruct (rstep true k (pipe s) a (s_r s)); try discriminate. intros [= <- _]. split; reflexivity.
Qed.

Theorem completed_run_quiescent k acts s ts :
  run true k acts = (s, ts, OEnd) -> quiescent s.
Proof.
  unfold run. destruct (run_acts true k 0 acts st_init) as [[s1 ts1] o1] eqn:E1.
  pose proof (run_acts_inv k _ _ _ _ _ _ (inv_init k) E1) as HI1.
  destruct o1; [|discriminate|discriminate].
  destruct (run_acts true k (length acts) (wrapup s1) s1) as [[s2 ts2] o2] eqn:E2.
  intros [= -> _ ->]. unfold wrapup in E2.
  apply run_acts_app in E2. destruct E2 as (sa & ? & ? & Ea & E2).
  apply run_acts_app in E2. destruct E2 as (sb & ? & ? & Eb & E2).
  apply run_acts_app in E2. destruct E2 as (sc & ? & ? & Ec & E2).
  apply run_acts_app in E2. destruct E2 as (sd & ? & ? & Ed & E2).
  apply run_acts_app in E2. destruct E2 as (se & ? & ? & Ee & Ef).
  apply run_acts_opt in Ea, Eb, Ec, Ed, Ee, Ef.
  pose proof HI1 as (HW1 & HR1 & _).
  (* writer side *)
  assert (Wa : w_fut (s_w sa) = None /\ w_buf (s_w sa) = w_buf (s_w s1) /\ s_r sa = s_r s1 /\ Inv k sa).
  { destruct (is_some (w_fut (s_w s1))) eqn:C.
    - destruct Ea as [t Ea]. pose proof (step_inv _ _ _ _ _ HI1 Ea) as HIa. apply step_w in Ea.
      destruct Ea as [Ea Er]. apply wdropfut_quiet in Ea; [|exact HW1]. destruct Ea. auto.
    - subst sa. apply is_some_false in C. auto. }
  destruct Wa as (Wa1 & Wa2 & Wa3 & HIa).
  assert (Wb : w_fut (s_w sb) = None /\ w_buf (s_w sb) = None /\ s_r sb = s_r s1 /\ Inv k sb).
  { destruct (is_some (w_buf (s_w s1))) eqn:C.
    - destruct Eb as [t Eb]. pose proof (step_inv _ _ _ _ _ HIa Eb) as HIb. apply step_w in Eb.
      destruct Eb as [Eb Er]. apply wdropbuf_quiet in Eb. destruct Eb as [B1 B2].
      split; [congruence|]. split; [exact B1|]. split; [congruence|exact HIb].
    - subst sb. apply is_some_false in C. split; [exact Wa1|]. split; [congruence|]. auto. }
  destruct Wb as (Wb1 & Wb2 & Wb3 & HIb).
  assert (Wc : w_fut (s_w sc) = None /\ w_buf (s_w sc) = None /\ s_r sc = s_r s1 /\ Inv k sc).
  { destruct (w_alive (s_w s1)).
    - destruct Ec as [t Ec]. pose proof (step_inv _ _ _ _ _ HIb Ec) as HIc. apply step_w in Ec.
      destruct Ec as [Ec Er]. apply wdropend_quiet in Ec. destruct Ec as [C1 C2].
      split; [congruence|]. split; [congruence|]. split; [congruence|exact HIc].
    - subst sc. auto. }
  destruct Wc as (Wc1 & Wc2 & Wc3 & HIc).
  (* reader side *)
  assert (Rd : r_cur_op (s_r sd) = None /\ s_w sd = s_w sc /\ Inv k sd).
  { destruct (is_some (r_fut (s_r s1)) || ad_live (s_r s1)) eqn:C.
    - destruct Ed as [t Ed]. pose proof (step_inv _ _ _ _ _ HIc Ed) as HId. apply step_r in Ed.
      destruct Ed as [Ed Ew]. apply rdropfut_quiet in Ed; [|destruct HIc as (_ & X & _); exact X].
      destruct Ed. auto.
    - subst sd. split; [|auto]. rewrite Wc3. apply orb_false_iff in C. destruct C as [C1 C2].
      apply is_some_false in C1. unfold r_cur_op. rewrite C1. unfold ad_live in C2.
      destruct (r_ad (s_r s1)) as [[| | |]|]; try discriminate; reflexivity. }
  destruct Rd as (Rd1 & Rd2 & HId).
  assert (Re : r_cur_op (s_r se) = None /\ s_w se = s_w sc /\ Inv k se).
  { destruct (is_some (r_vec (s_r s1))).
    - destruct Ee as [t Ee]. pose proof (step_inv _ _ _ _ _ HId Ee) as HIe. apply step_r in Ee.
      destruct Ee as [Ee Ew]. apply rtake_quiet in Ee. split; [congruence|]. split; [congruence|exact HIe].
    - subst se. auto. }
  destruct Re as (Re1 & Re2 & HIe).
  assert (Rf : r_cur_op (s_r s) = None /\ s_w s = s_w sc).
  { match type of Ef with (if ?c then _ else _) => destruct c end.
    - destruct Ef as [t Ef]. apply step_r in Ef. destruct Ef as [Ef Ew]. apply rdropend_quiet in Ef.
      split; congruence.
    - subst s. auto. }
  destruct Rf as (Rf1 & Rf2).
  split; [rewrite Rf2; exact Wc1|]. split; [rewrite Rf2; exact Wc2|exact Rf1].
Qed.

Theorem completed_run_ledger_empty k acts s ts :
  run true k acts = (s, ts, OEnd) -> w_lg (s_w s) = lg_empty /\ r_lg (s_r s) = lg_empty.
Proof.
  intros H. apply (ledger_balanced k s).
  - right. exists acts, ts, OEnd. exact H.
  - eapply completed_run_quiescent; exact H.
Qed.

Theorem completed_run_balanced : forall k acts s ts,
  run true k acts = (s, ts, OEnd) ->
  quiescent s /\ w_lg (s_w s) = lg_empty /\ r_lg (s_r s) = lg_empty
  /\ Permutation (nseq 0 (N.to_nat (w_next (s_w s)))) (w_sent (s_w s) ++ w_ret (s_w s) ++ w_drop (s_w s)).
Proof.
  intros k acts s ts H.
  pose proof (completed_run_quiescent k acts s ts H) as Q.
  pose proof (completed_run_ledger_empty k acts s ts H) as [L1 L2].
  assert (R : reachable k s) by (right; exists acts, ts, OEnd; exact H).
  destruct (values_accounted k s R) as [P E]. destruct Q as (Q1 & Q2 & Q3).
  rewrite (E Q1 Q2), app_nil_r in P. repeat split; assumption.
Qed.
