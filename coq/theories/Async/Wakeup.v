(** * Async/Wakeup.v — cross-task wakeups (C23): vocabulary over the executor model (definitions only).

    The wakeup machinery itself ([wake_task] = [SharedTaskState::wake_by_ref], [itw_wake] =
    [WakerState::wake], [read_itw] = [read_inter_task_stream], [cancel_itw_read] =
    [cancel_inter_task_stream_read], the [consume_waitable_event] branch of [deliver], the calls
    from [task_cb] / [task_drop]) is part of Async/Task.v; the unit stream is a stream of Async/Host.v. *)
From Coq Require Import NArith List Bool.
From WB Require Import Async.Host Async.Task Async.TaskSpec.
Import ListNotations.
Local Open Scope N_scope.

Definition POLLING := 0.
Definition WOKEN := 1.
Definition SLEEPING := 2.

Definition itw_on (e : env) : Prop := cf_itw (e_cfg e) = true.

(** Unit-stream calls in a host log (newest first), for the stream ends [wh] / [r]. *)
Definition writes_on (wh : N) (l : list hostcall) : list N :=
  flat_map (fun c => match c with HWrite false h _ rc => if N.eqb h wh then [rc] else [] | _ => [] end) l.
Definition reads_on (r : N) (l : list hostcall) : list N :=
  flat_map (fun c => match c with HRead false h _ rc => if N.eqb h r then [rc] else [] | _ => [] end) l.

(** The scenario of the finding: a task sleeping on a Rust-only event is cancelled, then the event
    is signalled through the waker that outlived it. *)
Definition sc_stale_wake : scenario :=
  mkSc (mkEnv (mkCfg false true) true [] [[SFlag 0]] [0] 200) [AStart 0; ACancel 0; AWake 0].

(** Two tasks: task 1 sleeps on event 0; task 0's body signals it while being polled. *)
Definition sc_cross_wake : scenario :=
  mkSc (mkEnv (mkCfg false true) true [] [[SWake 0]; [SFlag 0; SCtx]] [0; 1] 300)
       [AStart 1; AStart 0; AEvent 1].

(** Coalescing: two signals for two events the same sleeping task waits on (join of an import call and
    event 0, then event 1 ...): here one task, woken twice from outside before it is polled. *)
Definition sc_coalesce : scenario :=
  mkSc (mkEnv (mkCfg true true) true [] [[SSpawn 1; SFlag 0]; [SFlag 1]] [0] 400)
       [AStart 0; ANone 0; AWake 0; AWake 1; AEvent 0].
