(** * Async/Task.v — the export task executor of wit-bindgen's Rust guest runtime (definitions only).

    Transcription of [crates/guest-rust/src/rt/async_support.rs] ([TaskState::{new, callback,
    remaining_work, deliver_waitable_event, Drop}], [SharedTaskState::{add_waitable,
    waitable_register, waitable_unregister, wake_by_ref}], [start_task], [callback], [block_on],
    [CallbackCode::encode], [yield_async], [TaskCancelOnDrop]), of [spawn.rs] / [spawn_disabled.rs]
    ([Tasks::poll_next] incl. the polling discipline of [futures_util::FuturesUnordered] 0.3.32 and the
    global [SPAWNED] queue), of [inter_task_wakeup.rs] / [inter_task_wakeup_disabled.rs], and of
    the generic [WaitableOperation] state machine ([waitable.rs]) instantiated for the five
    operations the driver uses (import call, stream read/write, future read/write).

    The host is [Async/Host.v] (the Coq twin of rtmock).  Task bodies are finite scripts; the
    harness ([harness/crates/rtmock/src/bin/tasks.rs]) has an interpreter turning the same script
    into a real [async] block.  Everything observable goes into the host log (driver observations
    as [HNote]), so a run of the model predicts the complete log of the real run.

    Shared by C22 ([Props/C22.v]) and C23 ([Async/Wakeup.v], [Props/C23.v]). *)
From Coq Require Import NArith List Bool.
From WB Require Import Async.Host.
Import ListNotations.
Local Open Scope N_scope.

(** ** Static part of a scenario *)
Record config := mkCfg { cf_spawn : bool; cf_itw : bool }.

Inductive okind := KSub | KSRead | KSWrite | KFRead | KFWrite.
(** [od_imm]: the host completes the operation at once (no waitable is ever registered);
    [od_starting] (import calls): the call answers STARTING instead of STARTED. *)
Record opdecl := mkOp { od_kind : okind; od_imm : bool; od_starting : bool }.

Inductive step :=
| SAwait (k : N)        (* await operation k *)
| SYield                (* yield_async().await *)
| SSpawn (b : N)        (* spawn_local(body b) *)
| SFlag (j : N)         (* await the Rust-only event j *)
| SWake (j : N)         (* signal the Rust-only event j: wake whoever waits for it *)
| SJoin (k j : N)       (* await operation k and event j concurrently *)
| SCtx                  (* observe context slot 0 *)
| SDetach (k : N).      (* start operation k and leak it: its waitable stays registered with the task
                           although no Rust work waits for it (what a foreign C-ABI client does) *)

Inductive action :=
| AStart (t : N)                (* start_task(root body of t) *)
| ANone (t : N)                 (* callback(EVENT_NONE, 0, 0) *)
| AEvent (t : N)                (* poll the set named by the last Wait code, deliver what it answers *)
| ACancel (t : N)               (* callback(EVENT_CANCEL, 0, 0) *)
| AResolve (i : N)              (* host completes the i-th pending operation *)
| ADropPeer (i : N)             (* the peer drops its end of the i-th pending operation *)
| AProgress (i : N)             (* a STARTING import call becomes STARTED *)
| AWake (j : N)                 (* event j is signalled from outside every task *)
| AWakeC (j : N)                (* the same, from inside a C-ABI waitable callback (an extern "C" frame) *)
| ARaw (t e0 e1 e2 : N)         (* malformed stream only: an arbitrary event *)
| ACleanup.                     (* the harness drops every waker it still stores *)

Record env := mkEnv {
  e_cfg : config;
  e_start : bool;                 (* true: start_task/callback driver; false: block_on *)
  e_ops : list opdecl;
  e_bodies : list (list step);
  e_roots : list N;               (* root body of task t = nth t *)
  e_fuel : nat
}.

(** ** Dynamic state *)
Inductive wref := WTask (t : N) | WInner (t b : N).

Inductive await_st :=
| AwNone | AwYield | AwOp (k : N) | AwFlag (j : N) | AwJoin (k j : N) (opdone flagdone : bool).

Record body := mkB { b_id : N; b_root : bool; b_cur : await_st; b_rest : list step }.

Record opst := mkOpst { o_w : N; o_ch : N; o_code : option N; o_wk : option wref; o_started : bool }.
Inductive opstate := OIdle | OProg (s : opst) | ODone (wt : N).

(** [FuturesUnordered]: [fu_all] = linked tasks, head first; [fu_q] = ready-to-run queue (may
    name released tasks); [fu_queued]/[fu_woken] = the per-task flags; [fu_outer] = the
    [AtomicWaker] holds the executor's waker; [fu_live] = the ready-to-run queue still exists. *)
Record fu := mkFu { fu_all : list body; fu_q : list N; fu_queued : list N; fu_woken : list N;
                    fu_outer : bool; fu_live : bool }.

Record task := mkTk {
  tk_alive : bool;            (* the TaskState exists *)
  tk_shared : bool;           (* the SharedTaskState exists *)
  tk_exited : bool;
  tk_sleep : N;               (* 0 POLLING, 1 WOKEN, 2 SLEEPING *)
  tk_waitables : list (N * N);(* waitable -> operation id *)
  tk_set : option N;
  tk_itw_w : option N;        (* SharedTaskState.inter_task_stream *)
  tk_itw_r : option N;        (* TaskState.inter_task_wakeup.stream *)
  tk_reading : bool;
  tk_root : option body;      (* spawn_disabled::Tasks *)
  tk_fu : fu;                 (* spawn::Tasks *)
  tk_orphans : N;             (* deferred default writes of cancelled future writes *)
  tk_lastset : option N       (* driver side: the set named by the last Wait code *)
}.

(** Driver-level observations.  Each is recorded in [w_trace] and, in the same step, written to
    the host log in rtmock's token format ([emit]), so [w_trace] is the structured form of the
    driver's part of the log. *)
Inductive tev :=
| VPreStart (t : N) | VBoxNew (t : N) | VBoxFree (t : N)
| VStart (t code : N) | VCb (t e0 e1 e2 code : N) | VBon (t : N)
| VSpawn (b : N) | VFin (b : N) | VEnd (b : N) (finished : bool) | VReturn (b : N)
| VOpDone (k : N) | VCall (k p : N) | VLift (k : N)
| VFwait (j b : N) | VWflag (j : N) | VXwake (j : N) | VYieldStep (b : N) | VOpStart (k : N) | VKwake (j : N)
| VCtxGet (t : N) (null : bool) | VCtxSet (t : N) (null : bool) | VCtxObs (t : N) (null : bool).

Record world := mkW {
  w_host : host;
  w_tasks : list (N * task);
  w_ops : list (N * opstate);
  w_flags : list N;
  w_waiters : list (N * (N * wref));
  w_spawned : list body;
  w_cur : option N;
  w_script : list action;
  w_deadlocks : N;
  w_err : option (N * list hostcall);
  w_created : list N;                     (* body ids whose future has been created *)
  w_trace : list tev                      (* the driver-level observations, newest first *)
}.

(** Runtime panics (class numbers; the log is frozen at the first one). *)
Definition E_NOITW_SLEEP := 1.     (* documented: sleeping on Rust-only events needs inter-task-wakeup *)
Definition E_NOITW_WAKE := 2.      (* documented: cross-task wakeup needs inter-task-wakeup *)
Definition E_DELIVER_UNWRAP := 3.  (* deliver_waitable_event: waitables.remove(..).unwrap() *)
Definition E_SET_UNWRAP := 4.      (* callback: waitable_set unwrap *)
Definition E_CTX_NULL := 5.        (* callback: assert!(!state.is_null()) *)
Definition E_CTX_NOTNULL := 6.     (* start_task: assert!(get().is_null()) *)
Definition E_ITW_READ := 7.        (* read_inter_task_stream: assert_eq!(rc, BLOCKED) *)
Definition E_ITW_WRITE := 8.       (* WakerState::wake: assert_eq!(rc, COMPLETED | 1 << 4) *)
Definition E_ITW_STATE := 9.       (* inter-task stream unwrap / assert on its Option state *)
Definition E_TASKS_ASSERT := 10.   (* assert!(tasks.is_empty()) / assert!(!tasks.is_empty()) / spawn asserts *)
Definition E_UNREACHABLE := 11.    (* unknown event code *)
Definition E_BLOCKON_YIELD := 12.  (* block_on: Yield arm unwraps a waitable set that was never created *)
Definition E_OP := 13.             (* a panic inside an operation (C18-C21 territory) *)
Definition E_FUEL := 14.           (* model artefact *)
Definition E_DEADLOCK := 15.       (* block_on waits for ever (the harness aborts) *)

(** Driver notes. *)
Definition T_START := 100.   (* start:T=code *)
Definition T_CB := 101.      (* cb:T:e0,e1,e2=code *)
Definition T_BFIN := 102.
Definition T_BDROP := 103.
Definition T_SPAWN := 104.
Definition T_OPDONE := 105.
Definition T_CALL := 106.
Definition T_LIFT := 107.
Definition T_TRETURN := 108.
Definition T_TNEW := 109.
Definition T_TFREE := 110.
Definition T_BON := 111.
Definition T_FWAIT := 112.
Definition T_WFLAG := 113.
Definition T_XWAKE := 114.
Definition T_PRESTART := 115.
Definition T_YSTEP := 116.
Definition T_OPSTART := 117.
Definition T_KWAKE := 118.

(** ** Updates *)
Definition set_host x w := mkW x (w_tasks w) (w_ops w) (w_flags w) (w_waiters w) (w_spawned w) (w_cur w) (w_script w) (w_deadlocks w) (w_err w) (w_created w) (w_trace w).
Definition set_tasks x w := mkW (w_host w) x (w_ops w) (w_flags w) (w_waiters w) (w_spawned w) (w_cur w) (w_script w) (w_deadlocks w) (w_err w) (w_created w) (w_trace w).
Definition set_ops x w := mkW (w_host w) (w_tasks w) x (w_flags w) (w_waiters w) (w_spawned w) (w_cur w) (w_script w) (w_deadlocks w) (w_err w) (w_created w) (w_trace w).
Definition set_flags x w := mkW (w_host w) (w_tasks w) (w_ops w) x (w_waiters w) (w_spawned w) (w_cur w) (w_script w) (w_deadlocks w) (w_err w) (w_created w) (w_trace w).
Definition set_waiters x w := mkW (w_host w) (w_tasks w) (w_ops w) (w_flags w) x (w_spawned w) (w_cur w) (w_script w) (w_deadlocks w) (w_err w) (w_created w) (w_trace w).
Definition set_spawned x w := mkW (w_host w) (w_tasks w) (w_ops w) (w_flags w) (w_waiters w) x (w_cur w) (w_script w) (w_deadlocks w) (w_err w) (w_created w) (w_trace w).
Definition set_cur x w := mkW (w_host w) (w_tasks w) (w_ops w) (w_flags w) (w_waiters w) (w_spawned w) x (w_script w) (w_deadlocks w) (w_err w) (w_created w) (w_trace w).
Definition set_script x w := mkW (w_host w) (w_tasks w) (w_ops w) (w_flags w) (w_waiters w) (w_spawned w) (w_cur w) x (w_deadlocks w) (w_err w) (w_created w) (w_trace w).
Definition set_deadlocks x w := mkW (w_host w) (w_tasks w) (w_ops w) (w_flags w) (w_waiters w) (w_spawned w) (w_cur w) (w_script w) x (w_err w) (w_created w) (w_trace w).
Definition set_err x w := mkW (w_host w) (w_tasks w) (w_ops w) (w_flags w) (w_waiters w) (w_spawned w) (w_cur w) (w_script w) (w_deadlocks w) x (w_created w) (w_trace w).
Definition set_created x w := mkW (w_host w) (w_tasks w) (w_ops w) (w_flags w) (w_waiters w) (w_spawned w) (w_cur w) (w_script w) (w_deadlocks w) (w_err w) x (w_trace w).
Definition set_trace x w := mkW (w_host w) (w_tasks w) (w_ops w) (w_flags w) (w_waiters w) (w_spawned w) (w_cur w) (w_script w) (w_deadlocks w) (w_err w) (w_created w) x.

Definition fail (e : N) (w : world) : world :=
  match w_err w with Some _ => w | None => set_err (Some (e, hlog (w_host w))) w end.
Definition failed (w : world) : bool := match w_err w with Some _ => true | None => false end.

Definition hostf (f : host -> host) (w : world) : world := set_host (f (w_host w)) w.
Definition hostr {A} (f : host -> host * A) (w : world) : world * A :=
  let (h, a) := f (w_host w) in (set_host h w, a).
Definition ev_call (x : tev) : hostcall :=
  match x with
  | VPreStart t => HNote T_PRESTART [t]
  | VBoxNew t => HNote T_TNEW [t]
  | VBoxFree t => HNote T_TFREE [t]
  | VStart t c => HNote T_START [t; c]
  | VCb t e0 e1 e2 c => HNote T_CB [t; e0; e1; e2; c]
  | VBon t => HNote T_BON [t]
  | VSpawn b => HNote T_SPAWN [b]
  | VFin b => HNote T_BFIN [b]
  | VEnd b _ => HNote T_BDROP [b]
  | VReturn b => HNote T_TRETURN [b]
  | VOpDone k => HNote T_OPDONE [k]
  | VCall k p => HNote T_CALL [k; p]
  | VLift k => HNote T_LIFT [k]
  | VFwait j b => HNote T_FWAIT [j; b]
  | VWflag j => HNote T_WFLAG [j]
  | VXwake j => HNote T_XWAKE [j]
  | VYieldStep b => HNote T_YSTEP [b]
  | VOpStart k => HNote T_OPSTART [k]
  | VKwake j => HNote T_KWAKE [j]
  | VCtxGet t n | VCtxObs t n => HCtxGet t n
  | VCtxSet t n => HCtxSet t n
  end.
Definition emit (x : tev) (w : world) : world :=
  set_trace (x :: w_trace w) (hostf (h_emit (ev_call x)) w).

Definition tk_with_alive x k := mkTk x (tk_shared k) (tk_exited k) (tk_sleep k) (tk_waitables k) (tk_set k) (tk_itw_w k) (tk_itw_r k) (tk_reading k) (tk_root k) (tk_fu k) (tk_orphans k) (tk_lastset k).
Definition tk_with_shared x k := mkTk (tk_alive k) x (tk_exited k) (tk_sleep k) (tk_waitables k) (tk_set k) (tk_itw_w k) (tk_itw_r k) (tk_reading k) (tk_root k) (tk_fu k) (tk_orphans k) (tk_lastset k).
Definition tk_with_exited x k := mkTk (tk_alive k) (tk_shared k) x (tk_sleep k) (tk_waitables k) (tk_set k) (tk_itw_w k) (tk_itw_r k) (tk_reading k) (tk_root k) (tk_fu k) (tk_orphans k) (tk_lastset k).
Definition tk_with_sleep x k := mkTk (tk_alive k) (tk_shared k) (tk_exited k) x (tk_waitables k) (tk_set k) (tk_itw_w k) (tk_itw_r k) (tk_reading k) (tk_root k) (tk_fu k) (tk_orphans k) (tk_lastset k).
Definition tk_with_waitables x k := mkTk (tk_alive k) (tk_shared k) (tk_exited k) (tk_sleep k) x (tk_set k) (tk_itw_w k) (tk_itw_r k) (tk_reading k) (tk_root k) (tk_fu k) (tk_orphans k) (tk_lastset k).
Definition tk_with_set x k := mkTk (tk_alive k) (tk_shared k) (tk_exited k) (tk_sleep k) (tk_waitables k) x (tk_itw_w k) (tk_itw_r k) (tk_reading k) (tk_root k) (tk_fu k) (tk_orphans k) (tk_lastset k).
Definition tk_with_itw_w x k := mkTk (tk_alive k) (tk_shared k) (tk_exited k) (tk_sleep k) (tk_waitables k) (tk_set k) x (tk_itw_r k) (tk_reading k) (tk_root k) (tk_fu k) (tk_orphans k) (tk_lastset k).
Definition tk_with_itw_r x k := mkTk (tk_alive k) (tk_shared k) (tk_exited k) (tk_sleep k) (tk_waitables k) (tk_set k) (tk_itw_w k) x (tk_reading k) (tk_root k) (tk_fu k) (tk_orphans k) (tk_lastset k).
Definition tk_with_reading x k := mkTk (tk_alive k) (tk_shared k) (tk_exited k) (tk_sleep k) (tk_waitables k) (tk_set k) (tk_itw_w k) (tk_itw_r k) x (tk_root k) (tk_fu k) (tk_orphans k) (tk_lastset k).
Definition tk_with_root x k := mkTk (tk_alive k) (tk_shared k) (tk_exited k) (tk_sleep k) (tk_waitables k) (tk_set k) (tk_itw_w k) (tk_itw_r k) (tk_reading k) x (tk_fu k) (tk_orphans k) (tk_lastset k).
Definition tk_with_fu x k := mkTk (tk_alive k) (tk_shared k) (tk_exited k) (tk_sleep k) (tk_waitables k) (tk_set k) (tk_itw_w k) (tk_itw_r k) (tk_reading k) (tk_root k) x (tk_orphans k) (tk_lastset k).
Definition tk_with_orphans x k := mkTk (tk_alive k) (tk_shared k) (tk_exited k) (tk_sleep k) (tk_waitables k) (tk_set k) (tk_itw_w k) (tk_itw_r k) (tk_reading k) (tk_root k) (tk_fu k) x (tk_lastset k).
Definition tk_with_lastset x k := mkTk (tk_alive k) (tk_shared k) (tk_exited k) (tk_sleep k) (tk_waitables k) (tk_set k) (tk_itw_w k) (tk_itw_r k) (tk_reading k) (tk_root k) (tk_fu k) (tk_orphans k) x.

Definition fu_with_all x f := mkFu x (fu_q f) (fu_queued f) (fu_woken f) (fu_outer f) (fu_live f).
Definition fu_with_q x f := mkFu (fu_all f) x (fu_queued f) (fu_woken f) (fu_outer f) (fu_live f).
Definition fu_with_queued x f := mkFu (fu_all f) (fu_q f) x (fu_woken f) (fu_outer f) (fu_live f).
Definition fu_with_woken x f := mkFu (fu_all f) (fu_q f) (fu_queued f) x (fu_outer f) (fu_live f).
Definition fu_with_outer x f := mkFu (fu_all f) (fu_q f) (fu_queued f) (fu_woken f) x (fu_live f).

Definition fu_dead := mkFu [] [] [] [] false false.
Definition fu_new := mkFu [] [] [] [] false true.
Definition task0 := mkTk false false false 0 [] None None None false None fu_dead 0 None.

Definition get_task (t : N) (w : world) : task :=
  match alookup t (w_tasks w) with Some x => x | None => task0 end.
(** In-place update of the first binding of [t] (appended if absent). *)
Fixpoint tset (t : N) (x : task) (l : list (N * task)) : list (N * task) :=
  match l with
  | [] => [(t, x)]
  | (t', y) :: r => if N.eqb t t' then (t', x) :: r else (t', y) :: tset t x r
  end.
Definition put_task (t : N) (x : task) (w : world) : world := set_tasks (tset t x (w_tasks w)) w.
Definition upd_task (t : N) (f : task -> task) (w : world) : world := put_task t (f (get_task t w)) w.
Definition put_fu (t : N) (f : fu) (w : world) : world := upd_task t (tk_with_fu f) w.
Definition get_fu (t : N) (w : world) : fu := tk_fu (get_task t w).

Definition get_op (k : N) (w : world) : opstate :=
  match alookup k (w_ops w) with Some s => s | None => OIdle end.
Definition put_op (k : N) (s : opstate) (w : world) : world := set_ops (aset k s (w_ops w)) w.
Definition decl (e : env) (k : N) : opdecl := nth (N.to_nat k) (e_ops e) (mkOp KSub true false).

Definition nmem (x : N) (l : list N) : bool := existsb (N.eqb x) l.
Definition nadd (x : N) (l : list N) : list N := if nmem x l then l else x :: l.
Definition nrem (x : N) (l : list N) : list N := filter (fun y => negb (N.eqb x y)) l.
Definition is_nil {A} (l : list A) : bool := match l with [] => true | _ => false end.
Definition opt_eqb (o : option N) (x : N) : bool := match o with Some y => N.eqb x y | None => false end.
Definition is_none {A} (o : option A) : bool := match o with None => true | Some _ => false end.

Definition is_write (kd : okind) : bool := match kd with KSWrite | KFWrite => true | _ => false end.
Definition is_future (kd : okind) : bool := match kd with KFRead | KFWrite => true | _ => false end.

(** ** Wakers *)
(** [WakerState::wake] *)
Definition itw_wake (e : env) (t : N) (w : world) : world :=
  if negb (cf_itw (e_cfg e)) then fail E_NOITW_WAKE w
  else match tk_itw_w (get_task t w) with
       | None => fail E_ITW_STATE w
       | Some wh =>
           let (w, c) := hostr (h_chan_write wh 1) w in
           if N.eqb c 16 then w else fail E_ITW_WRITE w
       end.

(** [SharedTaskState::wake_by_ref] *)
Definition wake_task (e : env) (t : N) (w : world) : world :=
  let old := tk_sleep (get_task t w) in
  let w := upd_task t (tk_with_sleep 1) w in
  if N.eqb old 2 then itw_wake e t w else w.

(** [Task<Fut>::wake_by_ref] of FuturesUnordered *)
Definition wake_inner (e : env) (t b : N) (w : world) : world :=
  let f := get_fu t w in
  if negb (fu_live f) then w
  else
    let f := fu_with_woken (nadd b (fu_woken f)) f in
    if nmem b (fu_queued f) then put_fu t f w
    else
      let f := fu_with_q (fu_q f ++ [b]) (fu_with_queued (b :: fu_queued f) f) in
      if fu_outer f then wake_task e t (put_fu t (fu_with_outer false f) w)
      else put_fu t f w.

Definition wake (e : env) (r : wref) (w : world) : world :=
  match r with WTask t => wake_task e t w | WInner t b => wake_inner e t b w end.

(** References to a SharedTaskState held outside its TaskState. *)
Definition refs_task (t : N) (p : N * (N * wref)) : bool :=
  match snd (snd p) with WTask t' => N.eqb t t' | WInner _ _ => false end.
Definition ext_refs (t : N) (w : world) : N :=
  N.of_nat (length (filter (refs_task t) (w_waiters w))) + tk_orphans (get_task t w).

(** Drop of the SharedTaskState: inter_task_stream (writer), waitables, waitable_set. *)
Definition drop_shared (t : N) (w : world) : world :=
  let tk := get_task t w in
  let w := match tk_itw_w tk with Some wh => hostf (h_chan_drop wh true) w | None => w end in
  let w := match tk_set tk with Some s => hostf (h_set_drop s) w | None => w end in
  upd_task t (tk_with_shared false) w.
Definition maybe_drop_shared (t : N) (w : world) : world :=
  let tk := get_task t w in
  if tk_shared tk && negb (tk_alive tk) && N.eqb (ext_refs t w) 0 then drop_shared t w else w.
Definition after_ref_drop (r : wref) (w : world) : world :=
  match r with WTask t => maybe_drop_shared t w | WInner _ _ => w end.

(** Rust-only events. *)
Definition remove_waiter (j b : N) (l : list (N * (N * wref))) : list (N * (N * wref)) :=
  filter (fun p => negb (N.eqb (fst p) j && N.eqb (fst (snd p)) b)) l.

Definition flag_wake_all (e : env) (j : N) (w : world) : world :=
  let ws := filter (fun p => N.eqb (fst p) j) (w_waiters w) in
  fold_left (fun w p =>
               let b := fst (snd p) in let r := snd (snd p) in
               let w := set_waiters (remove_waiter j b (w_waiters w)) w in
               let w := wake e r w in
               after_ref_drop r w) ws w.

Definition signal_flag (e : env) (j : N) (w : world) : world :=
  flag_wake_all e j (set_flags (nadd j (w_flags w)) w).

Definition flag_poll (j b : N) (wr : wref) (w : world) : world * bool :=
  if nmem j (w_flags w) then (w, true)
  else let w := emit (VFwait j b) w in
       (set_waiters (remove_waiter j b (w_waiters w) ++ [(j, (b, wr))]) w, false).

(** ** Registration with the task ([add_waitable], [waitable_register]) *)
Definition add_waitable (t wt : N) (w : world) : world :=
  match tk_set (get_task t w) with
  | Some s => hostf (h_join wt s) w
  | None =>
      let (w, s) := hostr h_set_new w in
      let w := upd_task t (tk_with_set (Some s)) w in
      hostf (h_join wt s) w
  end.
Definition register (t wt k : N) (w : world) : world :=
  let w := add_waitable t wt w in
  upd_task t (fun tk => tk_with_waitables (aset wt k (tk_waitables tk)) tk) w.
Definition unregister (t wt : N) (w : world) : world :=
  let w := hostf (h_join wt 0) w in
  upd_task t (fun tk => tk_with_waitables (aremove wt (tk_waitables tk)) tk) w.

(** ** Operations (WaitableOperation over subtask / stream / future ops) *)
Definition op_start (e : env) (k : N) (w : world) : world * N * opst :=
  let d := decl e k in
  match od_kind d with
  | KSub =>
      if od_imm d then (emit (VCall k 2) w, 2, mkOpst 0 0 None None false)
      else
        let st := if od_starting d then 0 else 1 in
        let (w, packed) := hostr (h_subtask_new st) w in
        (emit (VCall k packed) w, st, mkOpst (packed / 16) 0 None None false)
  | kd =>
      let ch := N.of_nat (length (chans (w_host w))) in
      let (w, wr) := hostr (h_chan_new (is_future kd)) w in
      let (wh, rh) := wr in
      if is_write kd then
        let w := hostf (h_peer_take rh) w in
        let w := if od_imm d then hostf (h_peer_read ch 1) w else w in
        let (w, code) := hostr (h_chan_write wh 1) w in
        (w, code, mkOpst wh ch None None false)
      else
        let w := hostf (h_peer_take wh) w in
        let w := if od_imm d then hostf (h_peer_write ch 1) w else w in
        let (w, code) := hostr (h_chan_read rh 1) w in
        (w, code, mkOpst rh ch None None false)
  end.

Definition sub_handle_drop (st : opst) (w : world) : world :=
  if N.eqb (o_w st) 0 then w else hostf (h_subtask_drop (o_w st)) w.

(** [FutureWriter::drop] after a cancelled write: [write_and_forget(default)]. *)
Definition deferred_write (wh : N) (w : world) : world :=
  let (w, code) := hostr (h_chan_write wh 1) w in
  if N.eqb code BLOCKED then
    match w_cur w with
    | None => fail E_OP w
    | Some c =>
        let w := register c wh (4294967296 + wh) w in
        upd_task c (fun tk => tk_with_orphans (tk_orphans tk + 1) tk) w
    end
  else if code <=? 2 then hostf (h_chan_drop wh true) w
  else fail E_OP w.

(** [in_progress_update]; [None] = the operation is complete (its state is disposed of here).
    [cancelling]: reached from [cancel()] (only future writes care). *)
Definition op_update (e : env) (cancelling : bool) (k : N) (st : opst) (code : N) (w : world)
  : world * option opst :=
  match od_kind (decl e k) with
  | KSub =>
      if N.eqb code 0 then ((if o_started st then fail E_OP w else w), Some st)
      else if N.eqb code 1 then
        ((if o_started st then fail E_OP w else w), Some (mkOpst (o_w st) (o_ch st) (o_code st) (o_wk st) true))
      else if N.eqb code 2 then (sub_handle_drop st (emit (VLift k) w), None)
      else if N.eqb code 3 then (sub_handle_drop st (if o_started st then fail E_OP w else w), None)
      else if N.eqb code 4 then (sub_handle_drop st w, None)
      else (fail E_OP w, None)
  | KSRead | KSWrite =>
      if N.eqb code BLOCKED then (w, Some st)
      else if 2 <? code mod 16 then (fail E_OP w, None)
      else (w, None)
  | KFRead =>
      if N.eqb code BLOCKED then (w, Some st)
      else if N.eqb code 0 || N.eqb code 2 then (hostf (h_chan_drop (o_w st) false) w, None)
      else (fail E_OP w, None)
  | KFWrite =>
      if N.eqb code BLOCKED then (w, Some st)
      else if N.eqb code 0 || N.eqb code 1 then (hostf (h_chan_drop (o_w st) true) w, None)
      else if N.eqb code 2 then
        ((if cancelling then deferred_write (o_w st) w else hostf (h_chan_drop (o_w st) true) w), None)
      else (fail E_OP w, None)
  end.

Definition opst_with (st : opst) (c : option N) (wk : option wref) : opst :=
  mkOpst (o_w st) (o_ch st) c wk (o_started st).

(** [poll_complete_with_code(Some(cx), code)] *)
Definition op_with_code (e : env) (t k : N) (st : opst) (oc : option N) (wr : wref) (w : world)
  : world * bool :=
  let reg st w := register t (o_w st) k (put_op k (OProg (opst_with st None (Some wr))) w) in
  match oc with
  | Some c =>
      let (w, r) := op_update e false k st c w in
      match r with
      | None => (put_op k (ODone (o_w st)) w, true)
      | Some st' => (reg st' w, false)
      end
  | None => (reg st w, false)
  end.

(** [poll_complete] *)
Definition op_poll (e : env) (t k : N) (wr : wref) (w : world) : world * bool :=
  match get_op k w with
  | OIdle => let '(w, code, st) := op_start e k (emit (VOpStart k) w) in op_with_code e t k st (Some code) wr w
  | OProg st => op_with_code e t k (opst_with st None (o_wk st)) (o_code st) wr w
  | ODone _ => (fail E_OP w, true)
  end.

(** The stream end is a local of the body, dropped after the operation. *)
Definition op_end_drop (e : env) (k : N) (wt : N) (w : world) : world :=
  match od_kind (decl e k) with
  | KSRead => hostf (h_chan_drop wt false) w
  | KSWrite => hostf (h_chan_drop wt true) w
  | _ => w
  end.

(** Drop of an unfinished operation ([Drop for WaitableOperation] = [cancel()]), then the end. *)
Definition op_cancel_intrinsic (e : env) (k : N) (st : opst) (w : world) : world * N :=
  match od_kind (decl e k) with
  | KSub => hostr (h_subtask_cancel (o_w st)) w
  | kd => hostr (h_chan_cancel (o_w st) (is_write kd)) w
  end.

Definition op_drop (e : env) (t k : N) (w : world) : world :=
  match get_op k w with
  | OProg st =>
      let st0 := opst_with st None None in
      let '(w, still) :=
        match o_code st with
        | Some c => op_update e true k st0 c w
        | None => (unregister t (o_w st) w, Some st0)
        end in
      let w :=
        match still with
        | None => w
        | Some st1 =>
            let (w, c) := op_cancel_intrinsic e k st1 w in
            let (w, r) := op_update e true k st1 c w in
            match r with None => w | Some _ => fail E_OP w end
        end in
      op_end_drop e k (o_w st) (put_op k (ODone (o_w st)) w)
  | _ => w
  end.

(** ** Bodies *)
Definition mk_body (b : N) (root : bool) (e : env) : body :=
  mkB b root AwNone (nth (N.to_nat b) (e_bodies e) []).

Definition ctx_get_logged (w : world) : world * option N :=
  let v := h_ctx_get (w_host w) in
  (emit (VCtxGet (cur_task (w_host w)) (is_none v)) w, v).
Definition ctx_set_logged (v : option N) (w : world) : world :=
  emit (VCtxSet (cur_task (w_host w)) (is_none v)) (hostf (h_ctx_set v) w).
Definition ctx_observe (w : world) : world :=
  emit (VCtxObs (cur_task (w_host w)) (is_none (h_ctx_get (w_host w)))) w.

(** "await operation k" as the harness writes it: poll; on completion drop the local stream end
    and note [opdone]. *)
Definition await_op_full (e : env) (t k : N) (wr : wref) (w : world) : world * bool :=
  let (w, rdy) := op_poll e t k wr w in
  if rdy then
    let wt := match get_op k w with ODone x => x | _ => 0 end in
    (emit (VOpDone k) (op_end_drop e k wt w), true)
  else (w, false).

(** An operation id is used by at most one await (a second use is skipped by the driver). *)
Definition op_fresh (e : env) (k : N) (w : world) : bool :=
  (k <? N.of_nat (length (e_ops e))) && match get_op k w with OIdle => true | _ => false end.

Fixpoint run_steps (e : env) (t : N) (bd : body) (wr : wref) (steps : list step) (w : world)
  : world * body * bool :=
  let susp c r := mkB (b_id bd) (b_root bd) c r in
  match steps with
  | [] =>
      let w := if b_root bd && e_start e then emit (VReturn (b_id bd)) w else w in
      let w := emit (VFin (b_id bd)) w in
      let w := emit (VEnd (b_id bd) true) w in
      (w, susp AwNone [], true)
  | SAwait k :: r =>
      if negb (op_fresh e k w) then run_steps e t bd wr r w else
      let (w, rdy) := await_op_full e t k wr w in
      if rdy then run_steps e t bd wr r w else (w, susp (AwOp k) r, false)
  | SYield :: r => (wake e wr (emit (VYieldStep (b_id bd)) w), susp AwYield r, false)
  | SSpawn b' :: r =>
      if nmem b' (w_created w) || negb (cf_spawn (e_cfg e)) then run_steps e t bd wr r w
      else
        let w := emit (VSpawn b') w in
        let w := set_created (b' :: w_created w) w in
        run_steps e t bd wr r (set_spawned (w_spawned w ++ [mk_body b' false e]) w)
  | SFlag j :: r =>
      let (w, rdy) := flag_poll j (b_id bd) wr w in
      if rdy then run_steps e t bd wr r w else (w, susp (AwFlag j) r, false)
  | SWake j :: r =>
      run_steps e t bd wr r (signal_flag e j (emit (VWflag j) w))
  | SJoin k j :: r =>
      let (w, od) := if op_fresh e k w then await_op_full e t k wr w else (w, true) in
      let (w, fd) := flag_poll j (b_id bd) wr w in
      if od && fd then run_steps e t bd wr r w else (w, susp (AwJoin k j od fd) r, false)
  | SCtx :: r =>
      run_steps e t bd wr r (ctx_observe w)
  | SDetach k :: r =>
      if negb (op_fresh e k w) then run_steps e t bd wr r w else
      let (w, rdy) := await_op_full e t k wr w in
      let w := if rdy then w else upd_task t (fun tk => tk_with_orphans (tk_orphans tk + 1) tk) w in
      run_steps e t bd wr r w
  end.

Definition poll_body (e : env) (t : N) (bd : body) (wr : wref) (w : world) : world * body * bool :=
  let r := b_rest bd in
  match b_cur bd with
  | AwNone | AwYield => run_steps e t bd wr r w
  | AwOp k =>
      let (w, rdy) := await_op_full e t k wr w in
      if rdy then run_steps e t bd wr r w else (w, bd, false)
  | AwFlag j =>
      let (w, rdy) := flag_poll j (b_id bd) wr w in
      if rdy then run_steps e t bd wr r w else (w, bd, false)
  | AwJoin k j od fd =>
      let (w, od) := if od then (w, true) else await_op_full e t k wr w in
      let (w, fd) := if fd then (w, true) else flag_poll j (b_id bd) wr w in
      if od && fd then run_steps e t bd wr r w
      else (w, mkB (b_id bd) (b_root bd) (AwJoin k j od fd) r, false)
  end.

(** Drop of a body future that has not finished. *)
Definition body_drop (e : env) (t : N) (bd : body) (w : world) : world :=
  let w := match b_cur bd with
           | AwOp k => op_drop e t k w
           | AwJoin k _ od _ => if od then w else op_drop e t k w
           | _ => w
           end in
  let w := if b_root bd && e_start e then hostf h_task_cancel w else w in
  emit (VEnd (b_id bd) false) w.

(** ** [spawn::Tasks] over FuturesUnordered *)
Definition find_body (b : N) (l : list body) : option body := find (fun x => N.eqb (b_id x) b) l.
Definition remove_body (b : N) (l : list body) : list body := filter (fun x => negb (N.eqb (b_id x) b)) l.

Definition fu_push (bd : body) (f : fu) : fu :=
  mkFu (bd :: fu_all f) (fu_q f ++ [b_id bd]) (b_id bd :: fu_queued f) (fu_woken f) (fu_outer f) (fu_live f).

Inductive pres := PReadyNone | PReadySome | PPending.

Fixpoint fu_poll_next (fuel : nat) (e : env) (t : N) (len polled yielded : N) (w : world) : world * pres :=
  match fuel with
  | O => (fail E_FUEL w, PPending)
  | S fuel =>
      let f := get_fu t w in
      match fu_q f with
      | [] => if is_nil (fu_all f) then (w, PReadyNone) else (w, PPending)
      | b :: q' =>
          let f := fu_with_q q' f in
          match find_body b (fu_all f) with
          | None => fu_poll_next fuel e t len polled yielded (put_fu t f w)
          | Some bd =>
              if negb (nmem b (fu_queued f)) then (fail E_TASKS_ASSERT w, PPending)
              else
                let f := fu_with_all (remove_body b (fu_all f)) f in
                let f := fu_with_woken (nrem b (fu_woken f)) (fu_with_queued (nrem b (fu_queued f)) f) in
                let '(w, bd', rdy) := poll_body e t bd (WInner t b) (put_fu t f w) in
                let polled := polled + 1 in
                let f := get_fu t w in
                if rdy then (put_fu t (fu_with_queued (nadd b (fu_queued f)) f) w, PReadySome)
                else
                  let yielded := yielded + (if nmem b (fu_woken f) then 1 else 0) in
                  let w := put_fu t (fu_with_all (bd' :: fu_all f) f) w in
                  if (2 <=? yielded) || N.eqb polled len then (wake_task e t w, PPending)
                  else fu_poll_next fuel e t len polled yielded w
          end
      end
  end.

Definition fu_poll (e : env) (t : N) (w : world) : world * pres :=
  let f := get_fu t w in
  fu_poll_next (e_fuel e) e t (N.of_nat (length (fu_all f))) 0 0 (put_fu t (fu_with_outer true f) w).

Fixpoint tasks_poll_spawn (fuel : nat) (e : env) (t : N) (w : world) : world * bool :=
  match fuel with
  | O => (fail E_FUEL w, false)
  | S fuel =>
      let (w, p) := fu_poll e t w in
      let sp := w_spawned w in
      let spawned := negb (is_nil sp) in
      let w := if spawned then set_spawned [] (put_fu t (fold_left (fun f bd => fu_push bd f) sp (get_fu t w)) w) else w in
      if failed w then (w, false) else
      match p with
      | PPending => if spawned then tasks_poll_spawn fuel e t w else (w, false)
      | PReadyNone => if spawned then (fail E_TASKS_ASSERT w, true) else (w, true)
      | PReadySome => tasks_poll_spawn fuel e t w
      end
  end.

(** [spawn_disabled::Tasks] *)
Definition tasks_poll_single (e : env) (t : N) (w : world) : world * bool :=
  match tk_root (get_task t w) with
  | Some bd =>
      (* the future is taken out of its slot while it is polled (nothing looks at the slot meanwhile) *)
      let '(w, bd', rdy) := poll_body e t bd (WTask t) (upd_task t (tk_with_root None) w) in
      if rdy then (w, true)
      else (upd_task t (tk_with_root (Some bd')) w, false)
  | None => (w, true)
  end.

Definition tasks_poll (e : env) (t : N) (w : world) : world * bool :=
  if cf_spawn (e_cfg e) then tasks_poll_spawn (e_fuel e) e t w else tasks_poll_single e t w.

(** The body futures of a task (only one of the two containers is ever in use). *)
Definition task_bodies (e : env) (tk : task) : list body :=
  match tk_root tk with Some b => [b] | None => [] end ++ fu_all (tk_fu tk).
Definition tasks_empty (e : env) (tk : task) : bool := is_nil (task_bodies e tk).

(** ** inter_task_wakeup.rs / inter_task_wakeup_disabled.rs *)
Definition read_itw (e : env) (t : N) (w : world) : world :=
  if negb (cf_itw (e_cfg e)) then
    (if is_nil (tk_waitables (get_task t w)) then fail E_NOITW_SLEEP w else w)
  else
    let tk := get_task t w in
    let w :=
      match tk_itw_r tk with
      | Some _ => w
      | None =>
          let w := if tk_reading tk then fail E_ITW_STATE w else w in
          let (w, wr) := hostr (h_chan_new false) w in
          let w := if is_none (tk_itw_w tk) then w else fail E_ITW_STATE w in
          upd_task t (fun tk => tk_with_itw_w (Some (fst wr)) (tk_with_itw_r (Some (snd wr)) tk)) w
      end in
    let tk := get_task t w in
    if tk_reading tk then w
    else match tk_itw_r tk with
         | None => fail E_ITW_STATE w
         | Some r =>
             let (w, c) := hostr (h_chan_read r 1) w in
             let w := if N.eqb c BLOCKED then w else fail E_ITW_READ w in
             let w := upd_task t (tk_with_reading true) w in
             add_waitable t r w
         end.

Definition cancel_itw_read (e : env) (t : N) (w : world) : world :=
  if negb (cf_itw (e_cfg e)) then w
  else
    let tk := get_task t w in
    if negb (tk_reading tk) then w
    else
      let w := upd_task t (tk_with_reading false) w in
      match tk_itw_r tk with
      | None => fail E_ITW_STATE w
      | Some r =>
          let w := hostf (h_join r 0) w in
          fst (hostr (h_chan_cancel r false) w)
      end.

(** ** [TaskState::deliver_waitable_event] *)
Definition deliver (e : env) (t wt code : N) (w : world) : world :=
  let w := hostf (h_join wt 0) w in
  let tk := get_task t w in
  if cf_itw (e_cfg e) && opt_eqb (tk_itw_r tk) wt then upd_task t (tk_with_reading false) w
  else match alookup wt (tk_waitables tk) with
       | None => fail E_DELIVER_UNWRAP w
       | Some k =>
           let w := upd_task t (fun tk => tk_with_waitables (aremove wt (tk_waitables tk)) tk) w in
           match get_op k w with
           | OProg st =>
               match o_wk st with
               | Some r =>
                   let w := put_op k (OProg (opst_with st (Some code) None)) w in
                   after_ref_drop r (wake e r w)
               | None => fail E_OP w
               end
           | _ => fail E_OP w
           end
       end.

(** ** [TaskState::callback] *)
Inductive cbcode := CExit | CYield | CWait (s : N).
Definition encode (c : cbcode) : N := match c with CExit => 0 | CYield => 1 | CWait s => 2 + 16 * s end.

Definition wait_code (t : N) (w : world) : world * cbcode :=
  match tk_set (get_task t w) with
  | Some s => (w, CWait s)
  | None => (fail E_SET_UNWRAP w, CExit)
  end.

Fixpoint cb_loop (fuel : nat) (e : env) (t : N) (w : world) : world * cbcode :=
  match fuel with
  | O => (fail E_FUEL w, CExit)
  | S fuel =>
      let w := upd_task t (tk_with_sleep 0) w in
      let (w, rdy) := tasks_poll e t w in
      if failed w then (w, CExit) else
      let tk := get_task t w in
      if rdy then
        if negb (tasks_empty e tk) then (fail E_TASKS_ASSERT w, CExit)
        else if is_nil (tk_waitables tk) then (w, CExit) else wait_code t w
      else
        if tasks_empty e tk then (fail E_TASKS_ASSERT w, CExit)
        else if N.eqb (tk_sleep tk) 1 then
          if is_nil (tk_waitables tk) then (w, CYield)
          else match tk_set tk with
               | None => (fail E_SET_UNWRAP w, CExit)
               | Some s =>
                   let (w, ev) := hostr (h_wait_poll false s) w in
                   let '(e0, w1, c) := ev in
                   if N.eqb e0 0 then (w, CYield)
                   else cb_loop fuel e t (deliver e t w1 c w)
               end
        else
          let w := upd_task t (tk_with_sleep 2) w in
          let w := read_itw e t w in
          if failed w then (w, CExit) else wait_code t w
  end.

Definition task_cb (e : env) (t e0 e1 e2 : N) (w : world) : world * cbcode :=
  if N.eqb e0 6 then (w, CExit)
  else if 6 <? e0 then (fail E_UNREACHABLE w, CExit)
  else
    let prev := w_cur w in
    let w := set_cur (Some t) w in
    let w := upd_task t (tk_with_sleep 1) w in
    let w := if N.eqb e0 0 then w else deliver e t e1 e2 w in
    let w := cancel_itw_read e t w in
    if failed w then (w, CExit) else
    let (w, c) := cb_loop (e_fuel e) e t w in
    (set_cur prev w, c).

(** ** [Drop for TaskState] followed by the drop of its fields *)
Definition task_drop (e : env) (t : N) (w : world) : world :=
  let w := cancel_itw_read e t w in
  let bodies := task_bodies e (get_task t w) in
  let w :=
    if is_nil bodies then w
    else
      let prev := w_cur w in
      let w := set_cur (Some t) w in
      let w := upd_task t (fun tk => tk_with_root None (tk_with_fu fu_dead tk)) w in
      let w := fold_left (fun w bd => body_drop e t bd w) bodies w in
      set_cur prev w in
  let w := upd_task t (fun tk => tk_with_alive false (tk_with_exited true (tk_with_fu fu_dead tk))) w in
  let w := maybe_drop_shared t w in
  match tk_itw_r (get_task t w) with
  | Some r => upd_task t (tk_with_itw_r None) (hostf (h_chan_drop r false) w)
  | None => w
  end.

(** ** The public entry points *)
Definition root_of (e : env) (t : N) : N := nth (N.to_nat t) (e_roots e) 0.

Definition new_task (e : env) (t : N) : task :=
  let root := mk_body (root_of e t) true e in
  mkTk true true false 0 [] None None None false
       (if cf_spawn (e_cfg e) then None else Some root)
       (if cf_spawn (e_cfg e) then fu_push root fu_new else fu_dead) 0 None.

(** [callback(event0, event1, event2)] *)
Definition rt_callback (e : env) (t e0 e1 e2 : N) (w : world) : world * N :=
  let w := hostf (set_cur_task t) w in
  let (w, v) := ctx_get_logged w in
  match v with
  | None => (fail E_CTX_NULL w, 0)
  | Some p =>
      let w := ctx_set_logged None w in
      let (w, c) := task_cb e t e0 e1 e2 w in
      if failed w then (w, 0) else
      let w := match c with
               | CExit => emit (VBoxFree t) (task_drop e t w)
               | _ => ctx_set_logged (Some p) w
               end in
      let w := match c with CWait s => upd_task t (tk_with_lastset (Some s)) w | _ => w end in
      (w, encode c)
  end.

(** [start_task(root)] *)
Definition rt_start (e : env) (t : N) (w : world) : world :=
  let w := emit (VPreStart t) w in
  let w := hostf (set_cur_task t) w in
  let w := emit (VBoxNew t) w in
  let (w, v) := ctx_get_logged w in
  match v with
  | Some _ => fail E_CTX_NOTNULL w
  | None =>
      let w := set_created (root_of e t :: w_created w) (put_task t (new_task e t) w) in
      let w := ctx_set_logged (Some (t + 1)) w in
      let (w, code) := rt_callback e t 0 0 0 w in
      if failed w then w else emit (VStart t code) w
  end.

Definition do_callback (e : env) (t e0 e1 e2 : N) (w : world) : world :=
  let (w, code) := rt_callback e t e0 e1 e2 w in
  if failed w then w else emit (VCb t e0 e1 e2 code) w.

(** ** Host-side progress *)
Fixpoint seqN (n : nat) (from : N) : list N :=
  match n with O => [] | S n => from :: seqN n (from + 1) end.

Definition eligible (e : env) (w : world) : list N :=
  filter (fun k => match get_op k w with
                   | OProg st => amem (o_w st) (joined (w_host w)) && negb (amem (o_w st) (ready (w_host w)))
                   | _ => false
                   end)
         (seqN (length (e_ops e)) 0).

Definition pick (i : N) (l : list N) : option N :=
  match l with
  | [] => None
  | _ => nth_error l (N.to_nat (i mod N.of_nat (length l)))
  end.

Definition with_pending (e : env) (i : N) (f : N -> opst -> okind -> world -> world) (w : world) : world :=
  match pick i (eligible e w) with
  | None => w
  | Some k => match get_op k w with
              | OProg st => f k st (od_kind (decl e k)) w
              | _ => w
              end
  end.

Definition host_action (e : env) (a : action) (w : world) : world :=
  match a with
  | AResolve i =>
      with_pending e i (fun _ st kd w =>
        match kd with
        | KSub => hostf (h_set_event (o_w st) 2) w
        | KSRead | KFRead => hostf (h_peer_write (o_ch st) 1) w
        | KSWrite | KFWrite => hostf (h_peer_read (o_ch st) 1) w
        end) w
  | ADropPeer i =>
      with_pending e i (fun _ st kd w =>
        match kd with
        | KSRead => hostf (h_peer_drop_writer (o_ch st)) w
        | KSWrite | KFWrite => hostf (h_peer_drop_reader (o_ch st)) w
        | _ => w
        end) w
  | AProgress i =>
      with_pending e i (fun _ st kd w =>
        match kd, alookup (o_w st) (table (w_host w)) with
        | KSub, Some (ESubtask 0 _ _) => hostf (h_set_event (o_w st) 1) w
        | _, _ => w
        end) w
  | AWake j => signal_flag e j (emit (VXwake j) w)
  | AWakeC j => signal_flag e j (emit (VKwake j) w)
  | _ => w
  end.

(** ** [block_on] *)
Definition flags_waited (w : world) : list N := map fst (w_waiters w).

(** The [on_block] hook of the driver: the next scripted host action, then an implicit fair
    tail (complete the lowest pending operation; with inter-task-wakeup, signal the lowest
    awaited event). *)
Definition hook_action (e : env) (w : world) : option action * world :=
  match w_script w with
  | a :: r => (Some a, set_script r w)
  | [] =>
      if negb (is_nil (eligible e w)) then (Some (AResolve 0), w)
      else if cf_itw (e_cfg e) then
        match nmin_list (flags_waited w) with
        | Some j => (Some (AWake j), w)
        | None => (None, w)
        end
      else (None, w)
  end.

Fixpoint bon_wait (fuel : nat) (e : env) (s : N) (w : world) : world * (N * N * N) :=
  match fuel with
  | O => (fail E_FUEL w, (0, 0, 0))
  | S fuel =>
      if failed w then (w, (0, 0, 0))
      else if negb (is_set (w_host w) s) || negb (is_nil (ready_in (w_host w) s)) then hostr (h_wait_poll true s) w
      else
        let (oa, w) := hook_action e w in
        match oa with
        | Some a => bon_wait fuel e s (host_action e a w)
        | None =>
            let w := set_deadlocks (w_deadlocks w + 1) w in
            if 2 <=? w_deadlocks w then (fail E_DEADLOCK w, (0, 0, 0))
            else hostr (h_wait_poll true s) w
        end
  end.

Fixpoint bon_loop (fuel : nat) (e : env) (t : N) (ev : N * N * N) (w : world) : world :=
  match fuel with
  | O => fail E_FUEL w
  | S fuel =>
      let '(e0, e1, e2) := ev in
      let (w, c) := task_cb e t e0 e1 e2 w in
      if failed w then w else
      match c with
      | CExit => emit (VBon t) (task_drop e t w)
      | CYield =>
          match tk_set (get_task t w) with
          | None => fail E_BLOCKON_YIELD w
          | Some s => let (w, ev) := hostr (h_wait_poll false s) w in bon_loop fuel e t ev w
          end
      | CWait _ =>
          match tk_set (get_task t w) with
          | None => fail E_SET_UNWRAP w
          | Some s => let (w, ev) := bon_wait (e_fuel e) e s w in bon_loop fuel e t ev w
          end
      end
  end.

Definition run_block_on (e : env) (t : N) (w : world) : world :=
  let w := hostf (set_cur_task t) w in
  let w := set_created (root_of e t :: w_created w) (put_task t (new_task e t) w) in
  bon_loop (e_fuel e) e t (0, 0, 0) w.

(** ** Scenarios *)
Definition cleanup (w : world) : world :=
  fold_left (fun w p =>
               let j := fst p in let b := fst (snd p) in let r := snd (snd p) in
               let w := set_waiters (remove_waiter j b (w_waiters w)) w in
               after_ref_drop r w) (w_waiters w) w.

(** Driver-level guards: a callback is delivered only to a task that exists, a task is started
    once ([ARaw] is unguarded: malformed stream). *)
Definition can_start (e : env) (t : N) (w : world) : bool :=
  (t <? N.of_nat (length (e_roots e))) && negb (tk_alive (get_task t w)) && negb (tk_exited (get_task t w))
  && negb (nmem (root_of e t) (w_created w)).

Definition do_action (e : env) (w : world) (a : action) : world :=
  if failed w then w else
  match a with
  | AStart t => if can_start e t w then rt_start e t w else w
  | ANone t => if tk_alive (get_task t w) then do_callback e t 0 0 0 w else w
  | AEvent t =>
      if tk_alive (get_task t w) then
        match tk_lastset (get_task t w) with
        | Some s =>
            let (w, ev) := hostr (h_wait_poll false s) w in
            let '(e0, e1, e2) := ev in do_callback e t e0 e1 e2 w
        | None => do_callback e t 0 0 0 w
        end
      else w
  | ACancel t => if tk_alive (get_task t w) then do_callback e t 6 0 0 w else w
  | ARaw t e0 e1 e2 => do_callback e t e0 e1 e2 w
  | ACleanup => cleanup w
  | a => host_action e a w
  end.

Record scenario := mkSc { sc_env : env; sc_actions : list action }.

Definition world0 : world := mkW host_init [] [] [] [] [] None [] 0 None [] [].

Definition run_actions (e : env) (acts : list action) (w : world) : world := fold_left (do_action e) acts w.

Definition run (sc : scenario) : world :=
  let e := sc_env sc in
  let w :=
    if e_start e then run_actions e (sc_actions sc) world0
    else run_block_on e 0 (set_script (sc_actions sc) world0) in
  if failed w then w else cleanup w.

(** The observable result: the log (frozen at the first panic) and the panic class. *)
Definition run_log (sc : scenario) : list hostcall * option N :=
  let w := run sc in
  match w_err w with
  | Some (c, l) => (rev l, Some c)
  | None => (h_log (w_host w), None)
  end.
