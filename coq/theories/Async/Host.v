(** * Async/Host.v — the component-model async host as seen by a guest runtime (definitions only).

    Shared by the async properties (C18–C23, C08).  This is the Coq transcription of the same
    spec text (Component Model [CanonicalABI.md] / [definitions.py], restricted to what the Rust
    guest runtime can observe) that [harness/crates/rtmock/src/host.rs] transcribes in Rust; the
    two are compared on every run by the correspondence legs of the properties that use them.

    Principles (identical to rtmock):
    - every host call appends one [hostcall] to the log [hlog] (stored newest-first; [h_log]
      gives call order);
    - the host's choices are inputs: the answer of an answering intrinsic is popped from
      [answers], the ready event a wait/poll returns from [picks]; with an empty queue the
      documented deterministic default applies;
    - guest protocol violations the CM traps on are logged as [HTrap rule] and the call returns
      a benign value (total functions, no exceptions);
    - one handle table with LIFO reuse of freed indices (CM [Table]).

    Data are [N]; finite maps are association lists keyed by [N] (they extract to plain OCaml
    lists).  Payload bytes are not modelled: streams/futures carry item counts only. *)
From Coq Require Import NArith List Bool.
Import ListNotations.
Local Open Scope N_scope.

(** ** Association lists *)
Section AList.
  Context {A : Type}.
  Fixpoint alookup (k : N) (l : list (N * A)) : option A :=
    match l with
    | [] => None
    | (k', v) :: r => if N.eqb k k' then Some v else alookup k r
    end.
  Fixpoint aremove (k : N) (l : list (N * A)) : list (N * A) :=
    match l with
    | [] => []
    | (k', v) :: r => if N.eqb k k' then aremove k r else (k', v) :: aremove k r
    end.
  Definition aset (k : N) (v : A) (l : list (N * A)) : list (N * A) := (k, v) :: aremove k l.
  Definition amem (k : N) (l : list (N * A)) : bool :=
    match alookup k l with Some _ => true | None => false end.
  Definition akeys (l : list (N * A)) : list N := map fst l.
End AList.

(** Smallest element of a list of numbers. *)
Definition nmin_list (l : list N) : option N :=
  match l with
  | [] => None
  | x :: r => Some (fold_left N.min r x)
  end.

(** ** Constants of the canonical ABI *)
Definition EVENT_NONE := 0.
Definition EVENT_SUBTASK := 1.
Definition EVENT_STREAM_READ := 2.
Definition EVENT_STREAM_WRITE := 3.
Definition EVENT_FUTURE_READ := 4.
Definition EVENT_FUTURE_WRITE := 5.
Definition EVENT_CANCEL := 6.

Definition STATUS_STARTING := 0.
Definition STATUS_STARTED := 1.
Definition STATUS_RETURNED := 2.
Definition STATUS_STARTED_CANCELLED := 3.
Definition STATUS_RETURNED_CANCELLED := 4.

Definition BLOCKED := 4294967295.   (* 0xffff_ffff *)
Definition COMPLETED := 0.
Definition DROPPED := 1.
Definition CANCELLED := 2.

(** [code | n << 4] (the low 4 bits of [code] are all it has). *)
Definition rc (code n : N) : N := code + 16 * n.
Definition rc_code (v : N) : N := v mod 16.
Definition rc_count (v : N) : N := v / 16.

(** ** Host state *)
Inductive entry :=
| ESet
| ESubtask (status : N) (resolve_delivered cancel_requested : bool)
| EEnd (chan : N) (writer future : bool) (copying : option N) (done : bool)
    (* [copying = Some len] while a guest read/write is outstanding; [done]: a future end that
       completed its single transfer *)
| EErrCtx.

Record chan := mkChan {
  c_future : bool;
  c_r_handle : option N;      (* guest handle of the readable end; None once dropped / taken by the peer *)
  c_w_handle : option N;
  c_r_dropped : bool;
  c_w_dropped : bool;
  c_peer_read : option N;     (* the scripted peer's pending read: capacity in items *)
  c_peer_write : option N;    (* the scripted peer's pending write: items left *)
  c_transferred : N           (* items moved writer -> reader so far *)
}.

(** Rules whose violation by the guest is a trap in the CM. *)
Inductive trap :=
| TJoinBadWaitable | TJoinBadSet | TSetDropBad | TSetDropNonEmpty | TWaitBadSet | TWaitDeadlock
| TSubCancelBad | TSubCancelResolved | TSubCancelTwice | TSubCancelJoined
| TSubDropBad | TSubDropUnresolved
| TRwBadHandle | TRwWrongDirection | TRwBusy | TRwFutureDone
| TCancelBadHandle | TCancelWrongDirection | TCancelNotCopying | TCancelJoined
| TDropBadHandle | TDropWrongDirection | TDropCopying | TDropFutureWriterUnwritten
| TBackpressureUnderflow | TErrCtxDropBad.

Inductive hostcall :=
| HSetNew (s : N)
| HSetDrop (s : N)
| HJoin (w s : N)
| HWait (s e w c : N)
| HPoll (s e w c : N)
| HSubCancel (h c : N)
| HSubDrop (h : N)
| HChanNew (future : bool) (w r : N)
| HWrite (future : bool) (h len c : N)
| HRead (future : bool) (h len c : N)
| HCancel (future write : bool) (h c : N)
| HDropEnd (future write : bool) (h : N)
| HYield (cancelled : bool)
| HBpInc | HBpDec | HTaskCancel
| HCtxGet (task : N) (null : bool)
| HCtxSet (task : N) (null : bool)
| HTrap (t : trap)
| HNote (tag : N) (args : list N).   (* an observation a driver adds to the same total order (rtmock [host::log]) *)

Record host := mkHost {
  table : list (N * entry);
  free : list N;
  next : N;
  joined : list (N * N);          (* waitable -> set *)
  ready : list (N * (N * N));     (* waitable -> (event kind, code): the one undelivered event *)
  chans : list chan;              (* index = channel id *)
  answers : list N;
  picks : list N;
  ctx : list (N * N);             (* component task -> abstract non-null context value; absent = null *)
  cur_task : N;
  backpressure : N;
  hlog : list hostcall            (* newest first *)
}.

Definition host_init : host :=
  mkHost [] [] 1 [] [] [] [] [] [] 0 0 [].

Definition h_log (h : host) : list hostcall := rev (hlog h).

(** Functional record updates. *)
Definition set_table t h := mkHost t (free h) (next h) (joined h) (ready h) (chans h) (answers h) (picks h) (ctx h) (cur_task h) (backpressure h) (hlog h).
Definition set_free f h := mkHost (table h) f (next h) (joined h) (ready h) (chans h) (answers h) (picks h) (ctx h) (cur_task h) (backpressure h) (hlog h).
Definition set_next n h := mkHost (table h) (free h) n (joined h) (ready h) (chans h) (answers h) (picks h) (ctx h) (cur_task h) (backpressure h) (hlog h).
Definition set_joined j h := mkHost (table h) (free h) (next h) j (ready h) (chans h) (answers h) (picks h) (ctx h) (cur_task h) (backpressure h) (hlog h).
Definition set_ready r h := mkHost (table h) (free h) (next h) (joined h) r (chans h) (answers h) (picks h) (ctx h) (cur_task h) (backpressure h) (hlog h).
Definition set_chans c h := mkHost (table h) (free h) (next h) (joined h) (ready h) c (answers h) (picks h) (ctx h) (cur_task h) (backpressure h) (hlog h).
Definition set_answers a h := mkHost (table h) (free h) (next h) (joined h) (ready h) (chans h) a (picks h) (ctx h) (cur_task h) (backpressure h) (hlog h).
Definition set_picks p h := mkHost (table h) (free h) (next h) (joined h) (ready h) (chans h) (answers h) p (ctx h) (cur_task h) (backpressure h) (hlog h).
Definition set_ctx c h := mkHost (table h) (free h) (next h) (joined h) (ready h) (chans h) (answers h) (picks h) c (cur_task h) (backpressure h) (hlog h).
Definition set_cur_task t h := mkHost (table h) (free h) (next h) (joined h) (ready h) (chans h) (answers h) (picks h) (ctx h) t (backpressure h) (hlog h).
Definition set_backpressure b h := mkHost (table h) (free h) (next h) (joined h) (ready h) (chans h) (answers h) (picks h) (ctx h) (cur_task h) b (hlog h).
Definition h_emit (c : hostcall) h := mkHost (table h) (free h) (next h) (joined h) (ready h) (chans h) (answers h) (picks h) (ctx h) (cur_task h) (backpressure h) (c :: hlog h).

Definition h_trap (t : trap) (h : host) : host := h_emit (HTrap t) h.
Definition h_trap_if (b : bool) (t : trap) (h : host) : host := if b then h_trap t h else h.
Definition h_note (tag : N) (args : list N) (h : host) : host := h_emit (HNote tag args) h.
Definition h_clear_log (h : host) : host := mkHost (table h) (free h) (next h) (joined h) (ready h) (chans h) (answers h) (picks h) (ctx h) (cur_task h) (backpressure h) [].

(** Inputs: queue an answer / a pick (rtmock [push_answer], [push_pick]). *)
Definition h_push_answer (v : N) (h : host) : host := set_answers (answers h ++ [v]) h.
Definition h_push_pick (w : N) (h : host) : host := set_picks (picks h ++ [w]) h.
Definition h_pop_answer (h : host) : option N * host :=
  match answers h with
  | [] => (None, h)
  | a :: r => (Some a, set_answers r h)
  end.

(** ** The handle table *)
(** CM [Table.add]: reuse the most recently freed index, else the next fresh one. *)
Definition h_alloc (e : entry) (h : host) : host * N :=
  match free h with
  | i :: f => (set_table (aset i e (table h)) (set_free f h), i)
  | [] => let i := next h in (set_table (aset i e (table h)) (set_next (i + 1) h), i)
  end.
Definition h_release (i : N) (h : host) : host :=
  set_free (i :: free h) (set_table (aremove i (table h)) h).

Definition is_set (h : host) (s : N) : bool :=
  match alookup s (table h) with Some ESet => true | _ => false end.
Definition is_waitable (h : host) (w : N) : bool :=
  match alookup w (table h) with Some (ESubtask _ _ _) | Some (EEnd _ _ _ _ _) => true | _ => false end.

Definition event_kind_of (h : host) (w : N) : N :=
  match alookup w (table h) with
  | Some (ESubtask _ _ _) => EVENT_SUBTASK
  | Some (EEnd _ wr fut _ _) =>
      match fut, wr with
      | false, false => EVENT_STREAM_READ
      | false, true => EVENT_STREAM_WRITE
      | true, false => EVENT_FUTURE_READ
      | true, true => EVENT_FUTURE_WRITE
      end
  | _ => EVENT_NONE
  end.

(** The guest is handed the pending event of [w] (by wait/poll or by a cancel intrinsic): the
    entry is updated — subtask status / [resolve_delivered]; a stream/future end returns to idle
    unless the code is BLOCKED, a future end whose code is COMPLETED becomes [done]. *)
Definition consume_event (w : N) (h : host) : host * option (N * N) :=
  match alookup w (ready h) with
  | None => (h, None)
  | Some (kind, code) =>
      let h := set_ready (aremove w (ready h)) h in
      let h :=
        match alookup w (table h) with
        | Some (ESubtask _ res creq) =>
            set_table (aset w (ESubtask code (res || (STATUS_RETURNED <=? code)) creq) (table h)) h
        | Some (EEnd ch wr fut cp dn) =>
            if N.eqb code BLOCKED then h
            else set_table (aset w (EEnd ch wr fut None (dn || (fut && N.eqb (rc_code code) COMPLETED))) (table h)) h
        | _ => h
        end in
      (h, Some (kind, code))
  end.

(** Ready members of [set]. *)
Definition ready_in (h : host) (set : N) : list N :=
  filter (fun w => match alookup w (joined h) with Some s => N.eqb s set | None => false end)
         (akeys (ready h)).

(** Which ready waitable of [set] is reported: the scripted pick if it is ready in this set,
    otherwise the lowest-numbered ready member. *)
Definition choose_ready (set : N) (h : host) : host * option N :=
  let cands := ready_in h set in
  match cands with
  | [] => (h, None)
  | _ =>
      match picks h with
      | p :: r => if existsb (N.eqb p) cands then (set_picks r h, Some p) else (h, nmin_list cands)
      | [] => (h, nmin_list cands)
      end
  end.

(** ** Waitable sets *)
Definition h_set_new (h : host) : host * N :=
  let (h, s) := h_alloc ESet h in (h_emit (HSetNew s) h, s).

Definition h_set_drop (s : N) (h : host) : host :=
  let h := h_emit (HSetDrop s) h in
  if negb (is_set h s) then h_trap TSetDropBad h
  else
    let h := h_trap_if (existsb (fun p => N.eqb (snd p) s) (joined h)) TSetDropNonEmpty h in
    h_release s h.

(** [waitable.join(w, set)]; [set = 0] leaves whatever set [w] is in. *)
Definition h_join (w s : N) (h : host) : host :=
  let h := h_emit (HJoin w s) h in
  if negb (is_waitable h w) then h_trap TJoinBadWaitable h
  else if N.eqb s 0 then set_joined (aremove w (joined h)) h
  else if negb (is_set h s) then h_trap TJoinBadSet h
  else set_joined (aset w s (joined h)) h.

(** [waitable-set.wait] / [poll].  With nothing ready, poll answers [(0,0,0)]; wait is a
    deadlock unless the driver makes something ready first (rtmock's [on_block] hook runs before
    this point), recorded as a trap. *)
Definition h_wait_poll (wait : bool) (s : N) (h : host) : host * (N * N * N) :=
  let mk h r := let '(e, w, c) := r in
                (h_emit (if wait then HWait s e w c else HPoll s e w c) h, r) in
  if negb (is_set h s) then mk (h_trap TWaitBadSet h) (EVENT_NONE, 0, 0)
  else
    let (h, ow) := choose_ready s h in
    match ow with
    | Some w =>
        let (h, ev) := consume_event w h in
        match ev with
        | Some (kind, code) => mk h (kind, w, code)
        | None => mk h (EVENT_NONE, 0, 0)
        end
    | None => if wait then mk (h_trap TWaitDeadlock h) (EVENT_NONE, 0, 0) else mk h (EVENT_NONE, 0, 0)
    end.

(** ** Subtasks *)
(** Host makes an event ready on [w] (kind from the entry); overwrites an undelivered one. *)
Definition h_set_event (w code : N) (h : host) : host :=
  set_ready (aset w (event_kind_of h w, code) (ready h)) h.

(** Create a subtask in [status]; returns what an [async-lower] import returns: [status | handle<<4]. *)
Definition h_subtask_new (status : N) (h : host) : host * N :=
  let (h, i) := h_alloc (ESubtask status (STATUS_RETURNED <=? status) false) h in
  (h, status + 16 * i).

(** [subtask.cancel] (synchronous).  Answer: scripted, else the undelivered event's status if it
    resolves, else STARTED_CANCELLED if the callee has not started, RETURNED_CANCELLED otherwise. *)
Definition h_subtask_cancel (hd : N) (h : host) : host * N :=
  match alookup hd (table h) with
  | Some (ESubtask status res creq) =>
      let h := h_trap_if res TSubCancelResolved h in
      let h := h_trap_if creq TSubCancelTwice h in
      let h := h_trap_if (amem hd (joined h)) TSubCancelJoined h in
      let (h, pending) := consume_event hd h in
      let (oa, h) := h_pop_answer h in
      let code :=
        match oa, pending with
        | Some a, _ => a
        | None, Some (_, c) => if STATUS_RETURNED <=? c then c else STATUS_RETURNED_CANCELLED
        | None, None => if N.eqb status STATUS_STARTING then STATUS_STARTED_CANCELLED else STATUS_RETURNED_CANCELLED
        end in
      let res' := match alookup hd (table h) with Some (ESubtask _ r _) => r | _ => res end in
      let h := set_table (aset hd (ESubtask code (res' || (STATUS_RETURNED <=? code)) true) (table h)) h in
      (h_emit (HSubCancel hd code) h, code)
  | _ =>
      let h := h_trap TSubCancelBad h in
      let (oa, h) := h_pop_answer h in
      let a := match oa with Some a => a | None => STATUS_RETURNED_CANCELLED end in
      (h_emit (HSubCancel hd a) h, a)
  end.

(** [subtask.drop]: traps unless the resolution was delivered; leaves its set. *)
Definition h_subtask_drop (hd : N) (h : host) : host :=
  let h := h_emit (HSubDrop hd) h in
  match alookup hd (table h) with
  | Some (ESubtask _ res _) =>
      let h := h_trap_if (negb res) TSubDropUnresolved h in
      let h := set_joined (aremove hd (joined h)) h in
      let h := set_ready (aremove hd (ready h)) h in
      h_release hd h
  | _ => h_trap TSubDropBad h
  end.

(** ** Streams and futures (item counts only) *)
Definition chan_default := mkChan false None None false false None None 0.
Definition get_chan (h : host) (c : N) : chan := nth (N.to_nat c) (chans h) chan_default.
Fixpoint list_set {A} (n : nat) (x : A) (l : list A) : list A :=
  match n, l with
  | _, [] => []
  | O, _ :: r => x :: r
  | S n, y :: r => y :: list_set n x r
  end.
Definition put_chan (c : N) (x : chan) (h : host) : host := set_chans (list_set (N.to_nat c) x (chans h)) h.

Definition upd_chan (c : chan) (rh wh : option N) (rd wd : bool) (pr pw : option N) (tr : N) : chan :=
  mkChan (c_future c) rh wh rd wd pr pw tr.

(** [stream.new] / [future.new]: the readable end is allocated first; returns (writer, reader). *)
Definition h_chan_new (fut : bool) (h : host) : host * (N * N) :=
  let ch := N.of_nat (length (chans h)) in
  let (h, r) := h_alloc (EEnd ch false fut None false) h in
  let (h, w) := h_alloc (EEnd ch true fut None false) h in
  let h := set_chans (chans h ++ [mkChan fut (Some r) (Some w) false false None None 0]) h in
  (h_emit (HChanNew fut w r) h, (w, r)).

Definition cnt (fut : bool) (k : N) : N := if fut then 0 else k.

(** Outstanding operation of guest end [o] that has not been completed yet: its length. *)
Definition pending_len (h : host) (o : option N) : option (N * N) :=
  match o with
  | None => None
  | Some x =>
      if amem x (ready h) then None
      else match alookup x (table h) with
           | Some (EEnd _ _ _ (Some len) _) => Some (x, len)
           | _ => None
           end
  end.

Definition finish_rw (hd len code : N) (h : host) : host :=
  match alookup hd (table h) with
  | Some (EEnd ch wr fut cp dn) =>
      if N.eqb code BLOCKED then set_table (aset hd (EEnd ch wr fut (Some len) dn) (table h)) h
      else set_table (aset hd (EEnd ch wr fut cp (dn || (fut && N.eqb (rc_code code) COMPLETED))) (table h)) h
  | _ => h
  end.

(** [stream.write] / [future.write] ([len] = 1 for futures).  Answer: scripted; else DROPPED(0)
    if the reader is gone; else a rendezvous [k = min] with a pending read (the peer's, or the
    guest's own readable end, which then gets a COMPLETED(k) event); else BLOCKED. *)
Definition h_chan_write (hd len : N) (h : host) : host * N :=
  match alookup hd (table h) with
  | Some (EEnd ch wr fut cp dn) =>
      let h := h_trap_if (negb wr) TRwWrongDirection h in
      let h := h_trap_if (match cp with Some _ => true | None => false end) TRwBusy h in
      let h := h_trap_if dn TRwFutureDone h in
      let c := get_chan h ch in
      let (oa, h) := h_pop_answer h in
      let '(h, code) :=
        match oa with
        | Some a => (h, a)
        | None =>
            if c_r_dropped c then (h, rc DROPPED 0)
            else match c_peer_read c with
                 | Some cap =>
                     let k := N.min cap len in
                     (put_chan ch (upd_chan c (c_r_handle c) (c_w_handle c) (c_r_dropped c) (c_w_dropped c)
                                            None (c_peer_write c) (c_transferred c + k)) h,
                      rc COMPLETED (cnt fut k))
                 | None =>
                     match pending_len h (c_r_handle c) with
                     | Some (r, cap) =>
                         let k := N.min cap len in
                         let h := put_chan ch (upd_chan c (c_r_handle c) (c_w_handle c) (c_r_dropped c) (c_w_dropped c)
                                                        (c_peer_read c) (c_peer_write c) (c_transferred c + k)) h in
                         (set_ready (aset r (event_kind_of h r, rc COMPLETED (cnt fut k)) (ready h)) h,
                          rc COMPLETED (cnt fut k))
                     | None => (h, BLOCKED)
                     end
                 end
        end in
      let h := finish_rw hd len code h in
      (h_emit (HWrite fut hd len code) h, code)
  | _ => (h_trap TRwBadHandle h, rc DROPPED 0)
  end.

(** [stream.read] / [future.read]; dual of [h_chan_write]. *)
Definition h_chan_read (hd len : N) (h : host) : host * N :=
  match alookup hd (table h) with
  | Some (EEnd ch wr fut cp dn) =>
      let h := h_trap_if wr TRwWrongDirection h in
      let h := h_trap_if (match cp with Some _ => true | None => false end) TRwBusy h in
      let h := h_trap_if dn TRwFutureDone h in
      let c := get_chan h ch in
      let (oa, h) := h_pop_answer h in
      let '(h, code) :=
        match oa with
        | Some a => (h, a)
        | None =>
            match c_peer_write c with
            | Some n =>
                let k := N.min n len in
                (put_chan ch (upd_chan c (c_r_handle c) (c_w_handle c) (c_r_dropped c) (c_w_dropped c)
                                       (c_peer_read c) (if k <? n then Some (n - k) else None) (c_transferred c + k)) h,
                 rc COMPLETED (cnt fut k))
            | None =>
                if c_w_dropped c then (h, rc DROPPED 0)
                else match pending_len h (c_w_handle c) with
                     | Some (w, wlen) =>
                         let k := N.min wlen len in
                         let h := put_chan ch (upd_chan c (c_r_handle c) (c_w_handle c) (c_r_dropped c) (c_w_dropped c)
                                                        (c_peer_read c) (c_peer_write c) (c_transferred c + k)) h in
                         (set_ready (aset w (event_kind_of h w, rc COMPLETED (cnt fut k)) (ready h)) h,
                          rc COMPLETED (cnt fut k))
                     | None => (h, BLOCKED)
                     end
            end
        end in
      let h := finish_rw hd len code h in
      (h_emit (HRead fut hd len code) h, code)
  | _ => (h_trap TRwBadHandle h, rc DROPPED 0)
  end.

(** [{stream,future}.cancel-{read,write}] (synchronous).  Traps: not copying; still joined to a
    set.  Answer: scripted, else the undelivered event's code, else CANCELLED(0).  Afterwards the
    end is idle and has no pending event. *)
Definition h_chan_cancel (hd : N) (write : bool) (h : host) : host * N :=
  match alookup hd (table h) with
  | Some (EEnd ch wr fut cp dn) =>
      let h := h_trap_if (negb (Bool.eqb wr write)) TCancelWrongDirection h in
      let h := h_trap_if (match cp with Some _ => false | None => true end) TCancelNotCopying h in
      let h := h_trap_if (amem hd (joined h)) TCancelJoined h in
      let (h, pending) := consume_event hd h in
      let (oa, h) := h_pop_answer h in
      let code :=
        match oa, pending with
        | Some a, _ => a
        | None, Some (_, c) => c
        | None, None => rc CANCELLED 0
        end in
      let dn' := match alookup hd (table h) with Some (EEnd _ _ _ _ d) => d | _ => dn end in
      let h := set_table (aset hd (EEnd ch wr fut None (dn' || (fut && N.eqb (rc_code code) COMPLETED))) (table h)) h in
      (h_emit (HCancel fut write hd code) h, code)
  | _ => (h_trap TCancelBadHandle h, rc CANCELLED 0)
  end.

(** [{stream,future}.drop-{readable,writable}].  Traps: copying; a future writer that never wrote
    while the reader is alive.  Leaves its set; an outstanding operation of the other guest end
    completes with DROPPED(0). *)
Definition h_chan_drop (hd : N) (write : bool) (h : host) : host :=
  match alookup hd (table h) with
  | Some (EEnd ch wr fut cp dn) =>
      let c := get_chan h ch in
      let h := h_trap_if (negb (Bool.eqb wr write)) TDropWrongDirection h in
      let h := h_trap_if (match cp with Some _ => true | None => false end) TDropCopying h in
      let h := h_trap_if (fut && wr && negb dn && negb (c_r_dropped c)) TDropFutureWriterUnwritten h in
      let h := h_emit (HDropEnd fut write hd) h in
      let h := set_joined (aremove hd (joined h)) h in
      let h := set_ready (aremove hd (ready h)) h in
      let h := h_release hd h in
      let other := if write then c_r_handle c else c_w_handle c in
      let h := put_chan ch (if write
                            then upd_chan c (c_r_handle c) None (c_r_dropped c) true (c_peer_read c) (c_peer_write c) (c_transferred c)
                            else upd_chan c None (c_w_handle c) true (c_w_dropped c) (c_peer_read c) (c_peer_write c) (c_transferred c)) h in
      match pending_len h other with
      | Some (o, _) => set_ready (aset o (event_kind_of h o, rc DROPPED 0) (ready h)) h
      | None => h
      end
  | _ => h_trap TDropBadHandle h
  end.

(** The scripted peer takes a guest end (as if passed to another component). *)
Definition h_peer_take (hd : N) (h : host) : host :=
  match alookup hd (table h) with
  | Some (EEnd ch wr _ _ _) =>
      let c := get_chan h ch in
      let h := put_chan ch (if wr
                            then upd_chan c (c_r_handle c) None (c_r_dropped c) (c_w_dropped c) (c_peer_read c) (c_peer_write c) (c_transferred c)
                            else upd_chan c None (c_w_handle c) (c_r_dropped c) (c_w_dropped c) (c_peer_read c) (c_peer_write c) (c_transferred c)) h in
      let h := set_joined (aremove hd (joined h)) h in
      let h := set_ready (aremove hd (ready h)) h in
      h_release hd h
  | _ => h
  end.

(** Peer reads up to [cap] items: rendezvous with an outstanding guest write, else stays pending. *)
Definition h_peer_read (ch cap : N) (h : host) : host :=
  let c := get_chan h ch in
  match pending_len h (c_w_handle c) with
  | Some (w, len) =>
      let k := N.min len cap in
      let h := put_chan ch (upd_chan c (c_r_handle c) (c_w_handle c) (c_r_dropped c) (c_w_dropped c)
                                     (c_peer_read c) (c_peer_write c) (c_transferred c + k)) h in
      set_ready (aset w (event_kind_of h w, rc COMPLETED (cnt (c_future c) k)) (ready h)) h
  | None => put_chan ch (upd_chan c (c_r_handle c) (c_w_handle c) (c_r_dropped c) (c_w_dropped c)
                                  (Some cap) (c_peer_write c) (c_transferred c)) h
  end.

(** Peer writes [n] items: rendezvous with an outstanding guest read, else stays pending. *)
Definition h_peer_write (ch n : N) (h : host) : host :=
  let c := get_chan h ch in
  match pending_len h (c_r_handle c) with
  | Some (r, cap) =>
      let k := N.min cap n in
      let h := put_chan ch (upd_chan c (c_r_handle c) (c_w_handle c) (c_r_dropped c) (c_w_dropped c)
                                     (c_peer_read c) (if k <? n then Some (n - k) else c_peer_write c) (c_transferred c + k)) h in
      set_ready (aset r (event_kind_of h r, rc COMPLETED (cnt (c_future c) k)) (ready h)) h
  | None => put_chan ch (upd_chan c (c_r_handle c) (c_w_handle c) (c_r_dropped c) (c_w_dropped c)
                                  (c_peer_read c) (Some n) (c_transferred c)) h
  end.

Definition h_peer_drop_reader (ch : N) (h : host) : host :=
  let c := get_chan h ch in
  let h := put_chan ch (upd_chan c (c_r_handle c) (c_w_handle c) true (c_w_dropped c) None (c_peer_write c) (c_transferred c)) h in
  match pending_len h (c_w_handle c) with
  | Some (w, _) => set_ready (aset w (event_kind_of h w, rc DROPPED 0) (ready h)) h
  | None => h
  end.

Definition h_peer_drop_writer (ch : N) (h : host) : host :=
  let c := get_chan h ch in
  let h := put_chan ch (upd_chan c (c_r_handle c) (c_w_handle c) (c_r_dropped c) true (c_peer_read c) None (c_transferred c)) h in
  match pending_len h (c_r_handle c) with
  | Some (r, _) => set_ready (aset r (event_kind_of h r, rc DROPPED 0) (ready h)) h
  | None => h
  end.

(** ** Context slot, yield, backpressure, task.cancel *)
Definition h_ctx_get (h : host) : option N := alookup (cur_task h) (ctx h).
Definition h_ctx_set (v : option N) (h : host) : host :=
  match v with
  | Some x => set_ctx (aset (cur_task h) x (ctx h)) h
  | None => set_ctx (aremove (cur_task h) (ctx h)) h
  end.

Definition h_yield (h : host) : host * bool :=
  let (oa, h) := h_pop_answer h in
  let b := match oa with Some a => negb (N.eqb a 0) | None => false end in
  (h_emit (HYield b) h, b).

Definition h_bp_inc (h : host) : host := h_emit HBpInc (set_backpressure (backpressure h + 1) h).
Definition h_bp_dec (h : host) : host :=
  let h := h_trap_if (N.eqb (backpressure h) 0) TBackpressureUnderflow h in
  h_emit HBpDec (set_backpressure (backpressure h - 1) h).
Definition h_task_cancel (h : host) : host := h_emit HTaskCancel h.

(** Number of traps recorded so far. *)
Definition h_ntraps (h : host) : nat :=
  length (filter (fun c => match c with HTrap _ => true | _ => false end) (hlog h)).

(** ** The harness-owned mock task ([rtmock::drive::MockTask])

    Not part of the host: a [wasip3_task] (C ABI v1 or v2) that the drivers own and that mirrors
    what the real [SharedTaskState] does (join on register, [join(w,0)] on unregister/deliver).
    Its actions are logged as notes in the same total order as the host calls.  The registration
    map sends a waitable to the identity of the registered callback pointer (an operation id). *)
From Coq Require Import ZArith.

Definition T_TREG := 9.       (* treg:T:W *)
Definition T_TUNREG := 10.    (* tunreg:T:W *)
Definition T_TCLONE := 11.    (* tclone:T *)
Definition T_TDROP := 12.     (* tdrop:T *)
Definition T_TDELIVER := 13.  (* tdeliver:T:W:C *)

Record mtask := mkTask {
  t_id : N;
  t_v2 : bool;
  t_map : list (N * N);
  t_set : option N;
  t_clones : Z
}.
Definition mtask_init (id : N) (v2 : bool) : mtask := mkTask id v2 [] None 0%Z.

(** [waitable_register]: returns the previous callback pointer of [w], if any. *)
Definition mt_register (w ptr : N) (th : mtask * host) : mtask * host * option N :=
  let (t, h) := th in
  let h := h_note T_TREG [t_id t; w] h in
  let '(h, s) := match t_set t with Some s => (h, s) | None => h_set_new h end in
  let h := h_join w s h in
  (mkTask (t_id t) (t_v2 t) (aset w ptr (t_map t)) (Some s) (t_clones t), h, alookup w (t_map t)).

Definition mt_unregister (w : N) (th : mtask * host) : mtask * host * option N :=
  let (t, h) := th in
  let h := h_note T_TUNREG [t_id t; w] h in
  let h := h_join w 0 h in
  (mkTask (t_id t) (t_v2 t) (aremove w (t_map t)) (t_set t) (t_clones t), h, alookup w (t_map t)).

(** [deliver]: what [TaskState::deliver_waitable_event] does; returns the callback pointer to call. *)
Definition mt_deliver (w code : N) (th : mtask * host) : mtask * host * option N :=
  let (t, h) := th in
  let h := h_note T_TDELIVER [t_id t; w; code] h in
  let h := h_join w 0 h in
  (mkTask (t_id t) (t_v2 t) (aremove w (t_map t)) (t_set t) (t_clones t), h, alookup w (t_map t)).

Definition mt_clone (th : mtask * host) : mtask * host :=
  let (t, h) := th in
  (mkTask (t_id t) (t_v2 t) (t_map t) (t_set t) (t_clones t + 1)%Z, h_note T_TCLONE [t_id t] h).
Definition mt_drop (th : mtask * host) : mtask * host :=
  let (t, h) := th in
  (mkTask (t_id t) (t_v2 t) (t_map t) (t_set t) (t_clones t - 1)%Z, h_note T_TDROP [t_id t] h).
