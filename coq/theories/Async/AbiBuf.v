(** * Async/AbiBuf.v — model of [AbiBuffer] (crates/guest-rust/src/rt/async_support/abi_buffer.rs)
    and of the observable tokens shared with [StreamOp.v].  Definitions only (proofs: AbiBufProofs.v).

    A payload is identified by a number (its id, handed out in increasing order by the scenario).
    What the real code does with memory is recorded as a list of [tok]ens, in the order in which the
    real driver ([harness/crates/rtmock/src/bin/streams.rs]) observes it: every [lower] / [lift] /
    [dealloc_lists] callback, every allocation / release of a [Cleanup] area, every Rust value that
    is dropped, every host call and every API result.

    Three vtable shapes ([StreamVtable]):
    - [KCanon]  : [lower = lift = dealloc_lists = None]   (u8: the Rust layout is the canonical one)
    - [KLift]   : [lower], [lift] present, [dealloc_lists = None]  (no lists inside)
    - [KLists]  : all three present (the payload owns a heap list; [lower] creates a heap buffer
                  that must be released by exactly one [dealloc_lists] or consumed by one [lift]). *)
From Coq Require Import NArith List Bool.
Import ListNotations.

Inductive kind := KCanon | KLift | KLists.

Definition lifted (k : kind) : bool := match k with KCanon => false | _ => true end.
Definition has_lists (k : kind) : bool := match k with KLists => true | _ => false end.

(** [StreamResult] *)
Inductive sres := SComplete (n : N) | SDropped | SCancelled.

Inductive tok :=
| KWrite (len code : N)        (* stream.write(handle, ptr, len) = code *)
| KRead (len code : N)         (* stream.read *)
| KCancelW (code : N)          (* stream.cancel-write = code *)
| KCancelR (code : N)
| KDropW | KDropR              (* stream.drop-writable / drop-readable *)
| KTw (ids : list N)           (* host took these items from the writer's buffer (what it saw at ptr) *)
| KTr (ids : list N)           (* host stored these items into the reader's buffer *)
| KLower (id : N) | KDealloc (id : N) | KLiftW (id : N) | KLiftR (id : N)
| KDropV (id : N)              (* a Rust payload value was dropped by the runtime *)
| KAreaNew | KAreaFree         (* Cleanup::new (non-empty layout) / Cleanup dropped *)
| KResW (r : sres) (rem : N)   (* StreamWrite resolved / cancelled: result, buf.remaining() *)
| KResR (r : sres) (v : list N)(* StreamRead resolved / cancelled: result, whole vector *)
| KRet (v : list N)            (* AbiBuffer::into_vec *)
| KAll (v : list N)            (* write_all returned *)
| KOne (o : option N)          (* write_one returned *)
| KNext (o : option N)         (* next returned *)
| KColl (v : list N)           (* collect returned *)
| KSn (o : option N)           (* StreamReaderStream::poll_next = Ready(o) *)
| KGot (v : list N).           (* the driver took the reader's vector *)

(** ** The buffer *)
Record abuf := mkAB {
  ab_items : list N;     (* rust_storage, by id *)
  ab_cur : nat;          (* cursor *)
  ab_area : bool         (* alloc.is_some() *)
}.

Definition is_nil {A} (l : list A) : bool := match l with [] => true | _ => false end.

(** [AbiBuffer::new]: if a [lower] is needed, one area for all items ([Cleanup::new], nothing for an
    empty layout), then every item is lowered in order. *)
Definition ab_new (k : kind) (items : list N) : abuf * list tok :=
  if lifted k then
    let area := negb (is_nil items) in
    (mkAB items 0 area, (if area then [KAreaNew] else []) ++ map KLower items)
  else (mkAB items 0 false, []).

Definition ab_remaining (b : abuf) : nat := length (ab_items b) - ab_cur b.

(** What [abi_ptr_and_len] exposes: the items from the cursor on. *)
Definition ab_offered (b : abuf) : list N := skipn (ab_cur b) (ab_items b).

(** [advance]: [None] = one of its [assert!]s fails (panic). *)
Definition ab_advance (k : kind) (b : abuf) (amt : nat) : option (abuf * list tok) :=
  if Nat.leb (amt + ab_cur b) (length (ab_items b)) then
    Some (mkAB (ab_items b) (ab_cur b + amt) (ab_area b),
          if has_lists k then map KDealloc (firstn amt (ab_offered b)) else [])
  else None.

(** Tokens of dropping Rust values of this payload type. *)
Definition drop_vals (k : kind) (v : list N) : list tok := if lifted k then map KDropV v else [].

(** [take_vec]: lift back what was not transferred, release the area, drain the transferred front. *)
Definition ab_take_vec (k : kind) (b : abuf) : list N * list tok :=
  let rest := ab_offered b in
  (rest, (if lifted k then map KLiftW rest else []) ++ (if ab_area b then [KAreaFree] else [])).

(** [Drop for AbiBuffer] = [take_vec] and drop the vector. *)
Definition ab_drop (k : kind) (b : abuf) : list tok :=
  let (v, t) := ab_take_vec k b in t ++ drop_vals k v.

(** ** The ownership ledger (ghost), one per end of the stream.
    [lg_live]: lowered heap buffers that are live — on the writer side created by [lower] and
    released by [dealloc_lists] or consumed by [lift]; on the reader side created by the host when it
    stores an item into the reader's buffer and consumed by [lift].  Only [KLists] payloads own heap
    buffers.  [lg_areas]: live Cleanup areas.  [lg_err]: a release of something that is not live
    (double free / lift of garbage / area released twice). *)
Record ledger := mkLg { lg_live : list N; lg_areas : nat; lg_err : bool }.
Definition lg_empty := mkLg [] 0 false.

Fixpoint remove1 (x : N) (l : list N) : option (list N) :=
  match l with
  | [] => None
  | y :: r => if N.eqb x y then Some r
              else match remove1 x r with Some r' => Some (y :: r') | None => None end
  end.

Definition lg_add (k : kind) (ids : list N) (g : ledger) : ledger :=
  if has_lists k then mkLg (lg_live g ++ ids) (lg_areas g) (lg_err g) else g.
Definition lg_release (k : kind) (id : N) (g : ledger) : ledger :=
  if has_lists k then
    match remove1 id (lg_live g) with
    | Some l => mkLg l (lg_areas g) (lg_err g)
    | None => mkLg (lg_live g) (lg_areas g) true
    end
  else g.
Definition lg_area_new (g : ledger) : ledger := mkLg (lg_live g) (S (lg_areas g)) (lg_err g).
Definition lg_area_free (g : ledger) : ledger :=
  match lg_areas g with
  | S n => mkLg (lg_live g) n (lg_err g)
  | O => mkLg (lg_live g) O true
  end.

(** Effect of one observed token on the ledger of the writer end / of the reader end. *)
Definition lg_tok_w (k : kind) (g : ledger) (t : tok) : ledger :=
  match t with
  | KLower id => lg_add k [id] g
  | KDealloc id | KLiftW id => lg_release k id g
  | KAreaNew => lg_area_new g
  | KAreaFree => lg_area_free g
  | _ => g
  end.
Definition lg_tok_r (k : kind) (g : ledger) (t : tok) : ledger :=
  match t with
  | KTr ids => lg_add k ids g
  | KLiftR id => lg_release k id g
  | KAreaNew => lg_area_new g
  | KAreaFree => lg_area_free g
  | _ => g
  end.
Definition lg_toks_w (k : kind) (ts : list tok) (g : ledger) : ledger := fold_left (lg_tok_w k) ts g.
Definition lg_toks_r (k : kind) (ts : list tok) (g : ledger) : ledger := fold_left (lg_tok_r k) ts g.

(** ** Return codes ([ReturnCode::decode], crates/guest-rust/src/rt/async_support.rs) *)
Local Open Scope N_scope.
Definition BLOCKED : N := 4294967295.
Definition COMPLETED : N := 0.
Definition DROPPED : N := 1.
Definition CANCELLED : N := 2.
Definition MAX_LENGTH : N := 268435455.   (* (1 << 28) - 1 *)

Inductive rcode := RBlocked | RCompleted (n : N) | RDropped (n : N) | RCancelled (n : N).

(** [None] = [panic!("unknown return code")]. *)
Definition decode (v : N) : option rcode :=
  if N.eqb v BLOCKED then Some RBlocked
  else
    let amt := N.shiftr v 4 in
    let c := N.land v 15 in
    if N.eqb c COMPLETED then Some (RCompleted amt)
    else if N.eqb c DROPPED then Some (RDropped amt)
    else if N.eqb c CANCELLED then Some (RCancelled amt)
    else None.

(** The host's encoding: [code | n << 4]. *)
Definition encode (r : rcode) : N :=
  match r with
  | RBlocked => BLOCKED
  | RCompleted n => N.lor COMPLETED (N.shiftl n 4)
  | RDropped n => N.lor DROPPED (N.shiftl n 4)
  | RCancelled n => N.lor CANCELLED (N.shiftl n 4)
  end.

Definition rcode_count (r : rcode) : N :=
  match r with RBlocked => 0 | RCompleted n | RDropped n | RCancelled n => n end.
