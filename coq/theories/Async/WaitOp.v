(** * Async/WaitOp.v — model of [WaitableOperation] under one or two tasks (definitions only).

    Transcribes [crates/guest-rust/src/rt/async_support/waitable.rs]: [WaitableOperation::{new,
    register_waker, unregister_waker, poll_complete, poll_complete_with_code, cancel, Drop}], the
    state enum, [CompletionStatus], [CabiTask::{new, unregister, Drop}]; instantiated, as the
    runtime does, by [SubtaskOps] (subtask.rs), [StreamReadOp]/[StreamWriteOp] (stream_support.rs)
    and [FutureReadOp] (future_support.rs) — only what decides "completed or still in progress" and
    which host calls are made.  The tasks are the harness-owned [mtask]s of Host.v (C ABI v1 or
    v2, mirroring [SharedTaskState::{waitable_register, waitable_unregister}] and
    [TaskState::deliver_waitable_event]); the host is Host.v.  Driven exactly like
    [harness/crates/rtmock/src/bin/waitop.rs] drives the real code.

    Ghost fields (not in the Rust code, they observe it): [w_bad] is set when a cancel intrinsic or
    a handle drop is issued while the waitable is still joined to a set or present in a task's
    registration map; [w_handed]/[w_updates] count completion codes handed to the guest and
    [in_progress_update] calls. *)
From Coq Require Import NArith ZArith List Bool.
From WB Require Import Async.Host.
Import ListNotations.
Local Open Scope N_scope.

Definition T_WCALL := 20.   (* call:<o>=P   the async import of operation o answered P *)
Definition T_RES := 21.     (* res:<o>=...  args [o; class; n]: class 0 ok, 1 C<n>, 2 D, 3 X, 4 V, 5 R *)

Inductive okind := KSt | KSr | KSw | KFr.
Inductive ophase := OStart | OProg | ODone | OGone.

Record op := mkOp {
  o_kind : okind;
  o_phase : ophase;
  o_handle : option N;            (* the waitable: stream/future end, or the subtask handle of the call *)
  o_code : option N;              (* completion_status.code *)
  o_waker : option N;             (* completion_status.waker: the task whose waker is stored *)
  o_ctask : option (N * option N);(* WaitableOperation::task: (task, registered) *)
  o_started : bool;               (* InProgress::started of a subtask *)
  o_last : option N               (* the task of the last poll *)
}.

Inductive wpanic :=
| WkRepoll            (* cannot re-poll after operation completes *)
| WkAsyncResumed      (* `async fn` resumed after completion *)
| WkCancelDone        (* cannot cancel operation after completing it *)
| WkUnknownReturnCode (* unknown return code *)
| WkUnexpectedCode    (* unexpected code (future read) *)
| WkPollAfterCancel   (* cannot poll after cancelling *)
| WkUnknownStatus     (* unknown code (subtask) *)
| WkNotStartedAssert | WkFlagStartedAssert | WkCancelNotExposed | WkUnreachable
| WkPtrAssert         (* assert_eq!(ptr, prev) in register/unregister_waker *)
| WkAbort.

Record wst := mkW {
  w_h : host;
  w_tasks : list mtask;
  w_ops : list op;
  w_wakes : list N;
  w_err : option wpanic;
  w_bad : bool;
  w_handed : N;
  w_updates : N
}.

(** ** Plumbing *)
Definition get_task (s : wst) (t : N) : mtask := nth (N.to_nat t) (w_tasks s) (mtask_init t false).
Definition get_op (s : wst) (o : N) : op := nth (N.to_nat o) (w_ops s) (mkOp KSt OGone None None None None false None).
Definition set_h (h : host) (s : wst) := mkW h (w_tasks s) (w_ops s) (w_wakes s) (w_err s) (w_bad s) (w_handed s) (w_updates s).
Definition put_task (t : N) (x : mtask) (s : wst) :=
  mkW (w_h s) (list_set (N.to_nat t) x (w_tasks s)) (w_ops s) (w_wakes s) (w_err s) (w_bad s) (w_handed s) (w_updates s).
Definition put_op (o : N) (x : op) (s : wst) :=
  mkW (w_h s) (w_tasks s) (list_set (N.to_nat o) x (w_ops s)) (w_wakes s) (w_err s) (w_bad s) (w_handed s) (w_updates s).
Definition set_werr (p : wpanic) (s : wst) := mkW (w_h s) (w_tasks s) (w_ops s) (w_wakes s) (Some p) (w_bad s) (w_handed s) (w_updates s).
Definition set_bad (s : wst) := mkW (w_h s) (w_tasks s) (w_ops s) (w_wakes s) (w_err s) true (w_handed s) (w_updates s).
Definition inc_handed (s : wst) := mkW (w_h s) (w_tasks s) (w_ops s) (w_wakes s) (w_err s) (w_bad s) (w_handed s + 1) (w_updates s).
Definition inc_updates (s : wst) := mkW (w_h s) (w_tasks s) (w_ops s) (w_wakes s) (w_err s) (w_bad s) (w_handed s) (w_updates s + 1).
Definition inc_wake (t : N) (s : wst) :=
  mkW (w_h s) (w_tasks s) (w_ops s) (list_set (N.to_nat t) (nth (N.to_nat t) (w_wakes s) 0 + 1) (w_wakes s)) (w_err s) (w_bad s) (w_handed s) (w_updates s).
Definition wnote (tag : N) (args : list N) (s : wst) : wst := set_h (h_note tag args (w_h s)) s.

(** Run a mock-task function of task [t] against the world. *)
Definition on_task {A} (t : N) (f : mtask * host -> mtask * host * A) (s : wst) : wst * A :=
  let '(t', h', a) := f (get_task s t, w_h s) in (put_task t t' (set_h h' s), a).
Definition on_task_ (t : N) (f : mtask * host -> mtask * host) (s : wst) : wst :=
  let '(t', h') := f (get_task s t, w_h s) in put_task t t' (set_h h' s).

Definition upd_op (o : N) (f : op -> op) (s : wst) : wst := put_op o (f (get_op s o)) s.
Definition op_set_phase p (x : op) := mkOp (o_kind x) p (o_handle x) (o_code x) (o_waker x) (o_ctask x) (o_started x) (o_last x).
Definition op_set_handle hd (x : op) := mkOp (o_kind x) (o_phase x) hd (o_code x) (o_waker x) (o_ctask x) (o_started x) (o_last x).
Definition op_set_code c (x : op) := mkOp (o_kind x) (o_phase x) (o_handle x) c (o_waker x) (o_ctask x) (o_started x) (o_last x).
Definition op_set_waker w (x : op) := mkOp (o_kind x) (o_phase x) (o_handle x) (o_code x) w (o_ctask x) (o_started x) (o_last x).
Definition op_set_ctask c (x : op) := mkOp (o_kind x) (o_phase x) (o_handle x) (o_code x) (o_waker x) c (o_started x) (o_last x).
Definition op_set_started b (x : op) := mkOp (o_kind x) (o_phase x) (o_handle x) (o_code x) (o_waker x) (o_ctask x) b (o_last x).
Definition op_set_last t (x : op) := mkOp (o_kind x) (o_phase x) (o_handle x) (o_code x) (o_waker x) (o_ctask x) (o_started x) t.

(** Is waitable [w] in some task's registration map? *)
Definition in_some_map (s : wst) (w : N) : bool := existsb (fun t => amem w (t_map t)) (w_tasks s).

(** Ghost check issued right before a cancel intrinsic / a handle drop of waitable [w]. *)
Definition ghost_check (w : N) (s : wst) : wst :=
  if amem w (joined (w_h s)) || in_some_map s w then set_bad s else s.

(** [if let Some(task) = task { task.registered = None }] *)
Definition clear_registered (o : N) (s : wst) : wst :=
  upd_op o (fun x => match o_ctask x with Some (t, _) => op_set_ctask (Some (t, None)) x | None => x end) s.

(** Drop of a [CabiTask] value [(t, registered)]. *)
Definition drop_cabi (c : N * option N) (s : wst) : wst :=
  let (t, reg) := c in
  let s := match reg with
           | Some w => fst (on_task t (mt_unregister w) s)
           | None => s
           end in
  on_task_ t mt_drop s.

Definition drop_ctask (o : N) (s : wst) : wst :=
  match o_ctask (get_op s o) with
  | Some c => upd_op o (op_set_ctask None) (drop_cabi c s)
  | None => s
  end.

(** ** [in_progress_update] per kind: does code [c] complete the operation? *)
Inductive upd := UDone (class n : N) | UStay | UPanic (p : wpanic).

Definition stream_update (c : N) : upd :=
  if c =? BLOCKED then UStay
  else
    let amt := c / 16 in
    let k := c mod 16 in
    if k =? COMPLETED then UDone 1 amt
    else if k =? DROPPED then (if amt =? 0 then UDone 2 0 else UDone 1 amt)
    else if k =? CANCELLED then (if amt =? 0 then UDone 3 0 else UDone 1 amt)
    else UPanic WkUnknownReturnCode.

Definition fread_update (c : N) : upd :=
  if c =? BLOCKED then UStay
  else
    let amt := c / 16 in
    let k := c mod 16 in
    if 2 <? k then UPanic WkUnknownReturnCode
    else if (k =? CANCELLED) && (amt =? 0) then UDone 5 0
    else if (k =? COMPLETED) && (amt =? 0) then UDone 4 0
    else UPanic WkUnexpectedCode.

(** class 0 = Ok(results), 6 = Err(()) (cancelled) *)
Definition subtask_update (started : bool) (c : N) : upd * bool :=
  if c =? STATUS_STARTING then (if started then (UPanic WkNotStartedAssert, started) else (UStay, started))
  else if c =? STATUS_STARTED then (if started then (UPanic WkFlagStartedAssert, started) else (UStay, true))
  else if c =? STATUS_RETURNED then (UDone 0 0, true)
  else if c =? STATUS_STARTED_CANCELLED then (if started then (UPanic WkNotStartedAssert, started) else (UDone 6 0, started))
  else if c =? STATUS_RETURNED_CANCELLED then (UDone 6 0, true)
  else (UPanic WkUnknownStatus, started).

(** Apply [in_progress_update] of operation [o] to code [c]: state changes and the host calls made when
    the in-progress state is consumed (subtask: the handle is dropped; future read with a value: the
    reader is dropped). *)
Definition update (o c : N) (s : wst) : wst * upd :=
  let s := inc_updates (clear_registered o s) in
  let x := get_op s o in
  match o_kind x with
  | KSr | KSw =>
      let u := stream_update c in
      (match u with UDone _ _ => upd_op o (op_set_phase ODone) s | UStay => s | UPanic _ => upd_op o (op_set_phase ODone) s end, u)
  | KFr =>
      let u := fread_update c in
      match u with
      | UDone cls _ =>
          let s := upd_op o (op_set_phase ODone) s in
          if cls =? 4 then
            match o_handle x with
            | Some w => (set_h (h_chan_drop w false (w_h (ghost_check w s))) (ghost_check w s), u)
            | None => (s, u)
            end
          else (s, u)
      | UStay => (s, u)
      | UPanic _ =>
          (* the in-progress state (reader) is dropped while unwinding *)
          let s := upd_op o (op_set_phase ODone) s in
          match o_handle x with
          | Some w => (set_h (h_chan_drop w false (w_h s)) s, u)
          | None => (s, u)
          end
      end
  | KSt =>
      let (u, st') := subtask_update (o_started x) c in
      let s := upd_op o (op_set_started st') s in
      match u with
      | UStay => (s, u)
      | _ =>
          let s := upd_op o (op_set_phase ODone) s in
          match o_handle x with
          | Some w => (set_h (h_subtask_drop w (w_h (ghost_check w s))) (ghost_check w s), u)
          | None => (s, u)
          end
      end
  end.

(** [register_waker(w, cx)] with the current task [t]. *)
Definition register_waker (t o w : N) (s : wst) : wst :=
  let s := upd_op o (op_set_waker (Some t)) s in
  let s :=
    if t_v2 (get_task s t) then
      let s :=
        match o_ctask (get_op s o) with
        | Some (t', _) =>
            if t' =? t then s
            else
              (* CabiTask::new(task) is evaluated first, then the old value is dropped by [insert] *)
              let old := o_ctask (get_op s o) in
              let s := on_task_ t mt_clone s in
              let s := match old with Some c => drop_cabi c s | None => s end in
              upd_op o (op_set_ctask (Some (t, None))) s
        | None => upd_op o (op_set_ctask (Some (t, None))) (on_task_ t mt_clone s)
        end in
      upd_op o (op_set_ctask (Some (t, Some w))) s
    else s in
  let (s, prev) := on_task t (mt_register w o) s in
  match prev with
  | Some o' => if o' =? o then s else set_werr WkPtrAssert s
  | None => s
  end.

(** [unregister_waker(w)] with the current task [t]. *)
Definition unregister_waker (t o w : N) (s : wst) : wst :=
  let '(s, prev) :=
    match o_ctask (get_op s o) with
    | Some (t0, _) => on_task t0 (mt_unregister w) (upd_op o (op_set_ctask (Some (t0, None))) s)
    | None => on_task t (mt_unregister w) s
    end in
  match prev with
  | Some o' => if o' =? o then s else set_werr WkPtrAssert s
  | None => s
  end.

Definition res_note (o cls n : N) (s : wst) : wst := wnote T_RES [o; cls; n] s.

(** The start intrinsic of operation [o]: returns the code. *)
Definition start_op (o : N) (s : wst) : wst * N :=
  let x := get_op s o in
  match o_kind x with
  | KSt =>
      let (oa, h) := h_pop_answer (w_h s) in
      let status := match oa with Some a => a | None => STATUS_STARTING end in
      let '(h, packed) := if (status =? STATUS_RETURNED) || (4 <? status) then (h, status) else h_subtask_new status h in
      let s := wnote T_WCALL [o; packed] (set_h h s) in
      let hd := packed / 16 in
      (upd_op o (op_set_handle (if hd =? 0 then None else Some hd)) s, packed mod 16)
  | KSr => match o_handle x with Some w => let (h, c) := h_chan_read w 4 (w_h s) in (set_h h s, c) | None => (s, BLOCKED) end
  | KSw => match o_handle x with Some w => let (h, c) := h_chan_write w 4 (w_h s) in (set_h h s, c) | None => (s, BLOCKED) end
  | KFr => match o_handle x with Some w => let (h, c) := h_chan_read w 1 (w_h s) in (set_h h s, c) | None => (s, BLOCKED) end
  end.

(** The cancel intrinsic of operation [o]. *)
Definition cancel_intrinsic (o w : N) (s : wst) : wst * N :=
  let s := ghost_check w s in
  match o_kind (get_op s o) with
  | KSt => let (h, c) := h_subtask_cancel w (w_h s) in (set_h h s, c)
  | KSr | KFr => let (h, c) := h_chan_cancel w false (w_h s) in (set_h h s, c)
  | KSw => let (h, c) := h_chan_cancel w true (w_h s) in (set_h h s, c)
  end.

(** [poll_complete_with_code(Some(cx), Some(c))] + what [Future::poll] of the wrapper does with the result. *)
Definition process_poll (t o c : N) (s : wst) : wst :=
  let (s, u) := update o c s in
  let k := o_kind (get_op s o) in
  match u with
  | UDone cls n =>
      match k with
      | KSt =>
          let s := drop_ctask o s in
          if cls =? 0 then res_note o 0 0 s else set_werr WkCancelNotExposed s
      | KFr => if cls =? 5 then set_werr WkPollAfterCancel s else res_note o cls n s
      | _ => res_note o cls n s
      end
  | UStay =>
      match o_handle (get_op s o) with
      | Some w => register_waker t o w s
      | None => set_werr WkAbort s
      end
  | UPanic p => set_werr p (match k with KSt => drop_ctask o s | _ => s end)
  end.

Definition push_ans (ans : option N) (s : wst) : wst :=
  match ans with Some a => set_h (h_push_answer a (w_h s)) s | None => s end.
Definition clear_ans (s : wst) : wst := set_h (set_answers [] (w_h s)) s.

Definition poll (t o : N) (ans : option N) (s : wst) : wst :=
  let s := push_ans ans s in
  let x := get_op s o in
  let s :=
    match o_phase x with
    | OStart =>
        let s := upd_op o (fun x => op_set_last (Some t) (op_set_phase OProg x)) s in
        let (s, c) := start_op o s in
        process_poll t o c (inc_handed s)
    | OProg =>
        let s := upd_op o (op_set_last (Some t)) s in
        match o_code x with
        | Some c => process_poll t o c (upd_op o (op_set_code None) s)
        | None =>
            match o_handle x with
            | Some w => register_waker t o w s
            | None => set_werr WkAbort s
            end
        end
    | ODone => set_werr (match o_kind x with KSt => WkAsyncResumed | _ => WkRepoll end) s
    | OGone => s
    end in
  clear_ans s.

(** Result class of [start_cancelled] / of a stream buffer: reads report the items read, writes
    the items remaining (rendered by the driver); here just the class and the count. *)
Definition start_cancelled_class (k : okind) : N :=
  match k with KFr => 5 | _ => 3 end.

(** [cancel()]: returns the state and whether a result was produced (class, n). *)
Definition cancel_core (t o : N) (s : wst) : wst * option (N * N) :=
  let x := get_op s o in
  match o_phase x with
  | OStart => (upd_op o (op_set_phase ODone) s, Some (start_cancelled_class (o_kind x), 0))
  | OProg =>
      let do_cancel (s : wst) : wst * option (N * N) :=
        match o_handle (get_op s o) with
        | None => (set_werr WkAbort s, None)
        | Some w =>
            let (s, c2) := cancel_intrinsic o w s in
            let (s, u) := update o c2 (inc_handed s) in
            match u with
            | UDone cls n => (s, Some (cls, n))
            | UStay => (set_werr WkUnreachable s, None)
            | UPanic p => (set_werr p s, None)
            end
        end in
      match o_code x with
      | Some c =>
          let (s, u) := update o c (upd_op o (op_set_code None) s) in
          match u with
          | UDone cls n => (s, Some (cls, n))
          | UStay => do_cancel s
          | UPanic p => (set_werr p s, None)
          end
      | None =>
          match o_handle x with
          | None => (set_werr WkAbort s, None)
          | Some w =>
              let s := unregister_waker t o w s in
              match w_err s with
              | Some _ => (s, None)
              | None => do_cancel s
              end
          end
      end
  | ODone => (set_werr WkCancelDone s, None)
  | OGone => (s, None)
  end.

(** The driver's [c<t>.<o>]: not available for async import calls. *)
Definition cancel (t o : N) (ans : option N) (s : wst) : wst :=
  let s := push_ans ans s in
  let s :=
    match o_kind (get_op s o), o_phase (get_op s o) with
    | KSt, _ => s
    | _, OGone => s
    | _, _ =>
        let (s, r) := cancel_core t o s in
        match r with
        | Some (cls, n) => res_note o cls n s
        | None => s
        end
    end in
  clear_ans s.

(** Dropping the Rust object: [Drop for WaitableOperation] (= [cancel()] unless done; the result is
    dropped: a future reader handed back by the cancellation is dropped too), then the fields. *)
Definition drop_op (t o : N) (ans : option N) (s : wst) : wst :=
  let s := push_ans ans s in
  let x := get_op s o in
  let s :=
    match o_phase x with
    | OGone => s
    | ODone => upd_op o (op_set_phase OGone) (drop_ctask o s)
    | OStart =>
        match o_kind x with
        | KFr =>
            let s := upd_op o (op_set_phase OGone) s in
            match o_handle x with
            | Some w => set_h (h_chan_drop w false (w_h (ghost_check w s))) (ghost_check w s)
            | None => s
            end
        | _ => upd_op o (op_set_phase OGone) s
        end
    | OProg =>
        let (s, r) := cancel_core t o s in
        match w_err s with
        | Some WkAbort => s
        | Some _ => drop_ctask o s     (* unwinding out of Drop::drop still drops the remaining fields *)
        | None =>
            let s :=
              match o_kind x, r, o_handle x with
              | KFr, Some (5, _), Some w => set_h (h_chan_drop w false (w_h (ghost_check w s))) (ghost_check w s)
              | _, _, _ => s
              end in
            upd_op o (op_set_phase OGone) (drop_ctask o s)
        end
    end in
  clear_ans s.

(** The waitable the driver's [h<o>=c] / [w<t>.<o>] refer to. *)
Definition op_waitable (s : wst) (o : N) : option N :=
  let x := get_op s o in
  match o_kind x with
  | KSt =>
      match o_handle x with
      | Some hd => match alookup hd (table (w_h s)) with Some (ESubtask _ _ _) => Some hd | _ => None end
      | None => None
      end
  | _ => o_handle x
  end.

Definition host_event (o c : N) (s : wst) : wst :=
  match op_waitable s o with
  | Some w => set_h (h_set_event w c (w_h s)) s
  | None => s
  end.

(** Task [t] polls its waitable set and delivers what it gets: [cabi_wake] stores the code and wakes
    the stored waker. *)
Definition deliver (t : N) (pick : option N) (s : wst) : wst :=
  let s := match pick with
           | Some o => match op_waitable s o with Some w => set_h (h_push_pick w (w_h s)) s | None => s end
           | None => s
           end in
  let s :=
    match t_set (get_task s t) with
    | None => s
    | Some set =>
        let '(h, (e, w, c)) := h_wait_poll false set (w_h s) in
        let s := set_h h s in
        if e =? EVENT_NONE then s
        else
          let (s, ptr) := on_task t (mt_deliver w c) s in
          match ptr with
          | None => s
          | Some o =>
              let x := get_op s o in
              match o_phase x, o_waker x with
              | OGone, _ => set_werr WkAbort s          (* dangling pointer dereferenced *)
              | _, None => set_werr WkAbort s           (* waker.take().unwrap() inside extern "C" *)
              | _, Some tw => inc_handed (inc_wake tw (upd_op o (fun x => op_set_waker None (op_set_code (Some c) x)) s))
              end
          end
    end in
  set_h (set_picks [] (w_h s)) s.

Inductive action :=
| APoll (t o : N) (ans : option N)
| ACancel (t o : N) (ans : option N)
| ADrop (t o : N) (ans : option N)
| AHost (o c : N)
| ADeliver (t : N) (pick : option N).

Definition step (s : wst) (a : action) : wst * list hostcall :=
  match w_err s with
  | Some _ => (s, [])
  | None =>
      let s := set_h (h_clear_log (w_h s)) s in
      let s := match a with
               | APoll t o ans => poll t o ans s
               | ACancel t o ans => cancel t o ans s
               | ADrop t o ans => drop_op t o ans s
               | AHost o c => host_event o c s
               | ADeliver t pick => deliver t pick s
               end in
      (set_h (h_clear_log (w_h s)) s, h_log (w_h s))
  end.

Fixpoint run (s : wst) (tr : list action) : wst * list hostcall :=
  match tr with
  | [] => (s, [])
  | a :: r =>
      let (s1, l1) := step s a in
      let (s2, l2) := run s1 r in
      (s2, l1 ++ l2)
  end.

(** ** Initial state: two tasks, the operations of the scenario (streams/futures created in order). *)
Record wcfg := mkWcfg { wc_v2_0 : bool; wc_v2_1 : bool; wc_kinds : list okind }.

Fixpoint init_ops (ks : list okind) (h : host) : host * list op :=
  match ks with
  | [] => (h, [])
  | k :: r =>
      let '(h, hd) :=
        match k with
        | KSt => (h, None)
        | KSr => let '(h, (w, rd)) := h_chan_new false h in (h, Some rd)
        | KSw => let '(h, (w, rd)) := h_chan_new false h in (h, Some w)
        | KFr => let '(h, (w, rd)) := h_chan_new true h in (h, Some rd)
        end in
      let (h, ops) := init_ops r h in
      (h, mkOp k OStart hd None None None false None :: ops)
  end.

Definition winit (c : wcfg) : wst * list hostcall :=
  let (h, ops) := init_ops (wc_kinds c) host_init in
  (mkW (h_clear_log h) [mtask_init 0 (wc_v2_0 c); mtask_init 1 (wc_v2_1 c)] ops [0; 0] None false 0 0, h_log h).

Definition model_run (c : wcfg) (tr : list action) : wst * list hostcall :=
  let (s0, l0) := winit c in
  let (s, l) := run s0 tr in (s, l0 ++ l).

(** ** Validity: Rust API contract, CM host protocol, and the v1 same-task assumption *)
Definition is_v2 (s : wst) (t : N) : bool := t_v2 (get_task s t).
Definition task_ok (t : N) : bool := t <? 2.
Definition op_ok (s : wst) (o : N) : bool := (N.to_nat o <? length (w_ops s))%nat.

(** The documented v1 assumption ("assume blindly that we're still under the same task"): an
    operation that was last polled under another task may be touched only if both tasks are v2. *)
Definition same_task_rule (s : wst) (t o : N) : bool :=
  match o_last (get_op s o) with
  | None => true
  | Some t0 => (t0 =? t) || (is_v2 s t0 && is_v2 s t)
  end.

Definition count_le4 (c : N) : bool := c / 16 <=? 4.

(** Codes a stream/future end may complete with (as start answer, event, or cancel answer). *)
Definition completion_code_ok (k : okind) (c : N) : bool :=
  match k with
  | KSr | KSw => ((c mod 16 =? COMPLETED) || (c mod 16 =? DROPPED)) && count_le4 c
  | KFr => c =? rc COMPLETED 0
  | KSt => false
  end.
Definition cancel_code_ok (k : okind) (c : N) : bool :=
  match k with
  | KSr | KSw => ((c mod 16 =? COMPLETED) || (c mod 16 =? DROPPED) || (c mod 16 =? CANCELLED)) && count_le4 c
  | KFr => (c =? rc COMPLETED 0) || (c =? rc CANCELLED 0)
  | KSt => false
  end.

(** The most advanced status of subtask [w] the host has committed to (as in SubtaskOp.v). *)
Definition sub_level (s : wst) (o w : N) : N :=
  let st0 := match alookup w (table (w_h s)) with Some (ESubtask x _ _) => x | _ => 0 end in
  let pend := match alookup w (ready (w_h s)) with Some (_, c) => c | None => 0 end in
  let code := match o_code (get_op s o) with Some c => c | None => 0 end in
  N.max st0 (N.max pend code).

Definition start_answer_ok (k : okind) (ans : option N) : bool :=
  match k, ans with
  | KSt, None => true
  | KSt, Some a => a <=? STATUS_RETURNED
  | _, None => true
  | k, Some a => (a =? BLOCKED) || completion_code_ok k a
  end.

(** Answer of the cancel intrinsic, if it gets called for [o] now. *)
Definition cancel_answer_ok (s : wst) (o : N) (ans : option N) : bool :=
  let x := get_op s o in
  match ans with
  | None => true
  | Some a =>
      match o_kind x, o_handle x with
      | KSt, Some w =>
          let l := sub_level s o w in
          ((a =? STATUS_RETURNED) || (a =? STATUS_STARTED_CANCELLED) || (a =? STATUS_RETURNED_CANCELLED))
          && (if l =? STATUS_STARTING then true
              else if l =? STATUS_STARTED then negb (a =? STATUS_STARTED_CANCELLED)
              else a =? STATUS_RETURNED)
      | k, Some w =>
          match alookup w (ready (w_h s)) with
          | Some (_, c) => a =? c            (* an undelivered completion: cancel reports exactly it *)
          | None => cancel_code_ok k a
          end
      | _, None => false                     (* no waitable: the intrinsic is not called, nothing to answer *)
      end
  end.

Definition valid_step (s : wst) (a : action) : bool :=
  match a with
  | APoll t o ans =>
      task_ok t && op_ok s o && same_task_rule s t o
      && match o_phase (get_op s o) with
         | OStart => start_answer_ok (o_kind (get_op s o)) ans
         | OProg => match ans with None => true | Some _ => false end
         | _ => false
         end
  | ACancel t o ans =>
      task_ok t && op_ok s o && same_task_rule s t o
      && match o_kind (get_op s o), o_phase (get_op s o) with
         | KSt, _ => false
         | _, OStart => match ans with None => true | Some _ => false end
         | _, OProg => cancel_answer_ok s o ans
         | _, _ => false
         end
  | ADrop t o ans =>
      task_ok t && op_ok s o && same_task_rule s t o
      && match o_phase (get_op s o) with
         | OProg => cancel_answer_ok s o ans
         | OGone => false
         | _ => match ans with None => true | Some _ => false end
         end
  | AHost o c =>
      op_ok s o
      && match o_phase (get_op s o), op_waitable s o with
         | OProg, Some w =>
             match o_kind (get_op s o) with
             | KSt =>
                 match alookup w (table (w_h s)) with
                 | Some (ESubtask _ res _) => negb res && ((c =? STATUS_STARTED) || (c =? STATUS_RETURNED)) && (sub_level s o w <? c)
                 | _ => false
                 end
             | k =>
                 (* the end is still copying and has no completion yet *)
                 match alookup w (table (w_h s)) with
                 | Some (EEnd _ _ _ (Some _) _) =>
                     negb (amem w (ready (w_h s)))
                     && match o_code (get_op s o) with None => true | Some _ => false end
                     && completion_code_ok k c
                 | _ => false
                 end
             end
         | _, _ => false
         end
  | ADeliver t pick => task_ok t && match pick with Some o => op_ok s o | None => true end
  end.

Fixpoint valid_from (s : wst) (tr : list action) : bool :=
  match tr with
  | [] => true
  | a :: r => valid_step s a && valid_from (fst (step s a)) r
  end.
Definition valid_trace (c : wcfg) (tr : list action) : bool := valid_from (fst (winit c)) tr.
