(** * Async/TaskCtx.v — context slot 0 and the pending events of the host through a callback
    (proofs for C22).

    Two instances of the generic host-relation lemmas:
    - [Rctx]: the context slots and the selected component task are untouched — by every canonical
      built-in, hence by everything [TaskState::callback] and [Drop for TaskState] execute; so the
      slot that [callback] nulled before calling them is null until it returns;
    - [Rhk]: every undelivered event of the host has a kind in 1..5 (never EVENT_CANCEL), so the
      events the drivers take from the host's own [poll]/[wait] are never cancellations. *)
From Coq Require Import NArith List Bool Lia.
From WB Require Import Async.Host Async.Task Async.TaskSpec Async.TaskLemmas Async.TaskCallback Async.TaskLinear Async.TaskHostPrims Async.TaskHostRel.
Import ListNotations.
Local Open Scope N_scope.

(** ** [Rctx] *)
Definition Rctx (h h' : host) : Prop := ctx h' = ctx h /\ cur_task h' = cur_task h.
Lemma Rctx_refl : forall h, Rctx h h.
Proof. split; reflexivity. Qed.
Lemma Rctx_trans : forall a b c, Rctx a b -> Rctx b c -> Rctx a c.
Proof. intros a b c [A1 A2] [B1 B2]. split; congruence. Qed.
Ltac rctx_side := first [exact Rctx_refl | exact Rctx_trans | (intros; split; reflexivity)].

Lemma Cx_emit : forall c h, Rctx h (h_emit c h).
Proof. intros. split; reflexivity. Qed.
Lemma Cx_join : forall w s h, Rctx h (h_join w s h).
Proof. apply (P_join Rctx); rctx_side. Qed.
Lemma Cx_set_new : forall h, Rctx h (fst (h_set_new h)).
Proof. apply (P_set_new Rctx); rctx_side. Qed.
Lemma Cx_set_drop : forall s h, Rctx h (h_set_drop s h).
Proof. apply (P_set_drop Rctx); rctx_side. Qed.
Lemma Cx_wait_poll : forall b s h, Rctx h (fst (h_wait_poll b s h)).
Proof. apply (P_wait_poll Rctx); rctx_side. Qed.
Lemma Cx_set_event : forall w c h, Rctx h (h_set_event w c h).
Proof. apply (P_set_event Rctx); rctx_side. Qed.
Lemma Cx_subtask_new : forall s h, Rctx h (fst (h_subtask_new s h)).
Proof. apply (P_subtask_new Rctx); rctx_side. Qed.
Lemma Cx_subtask_cancel : forall x h, Rctx h (fst (h_subtask_cancel x h)).
Proof. apply (P_subtask_cancel Rctx); rctx_side. Qed.
Lemma Cx_subtask_drop : forall x h, Rctx h (h_subtask_drop x h).
Proof. apply (P_subtask_drop Rctx); rctx_side. Qed.
Lemma Cx_chan_new : forall f h, Rctx h (fst (h_chan_new f h)).
Proof. apply (P_chan_new Rctx); rctx_side. Qed.
Lemma Cx_chan_read : forall x n h, Rctx h (fst (h_chan_read x n h)).
Proof. apply (P_chan_read Rctx); rctx_side. Qed.
Lemma Cx_chan_write : forall x n h, Rctx h (fst (h_chan_write x n h)).
Proof. apply (P_chan_write Rctx); rctx_side. Qed.
Lemma Cx_chan_cancel : forall x b h, Rctx h (fst (h_chan_cancel x b h)).
Proof. apply (P_chan_cancel Rctx); rctx_side. Qed.
Lemma Cx_chan_drop : forall x b h, Rctx h (h_chan_drop x b h).
Proof. apply (P_chan_drop Rctx); rctx_side. Qed.
Lemma Cx_peer_take : forall x h, Rctx h (h_peer_take x h).
Proof. apply (P_peer_take Rctx); rctx_side. Qed.
Lemma Cx_peer_read : forall c n h, Rctx h (h_peer_read c n h).
Proof. apply (P_peer_read Rctx); rctx_side. Qed.
Lemma Cx_peer_write : forall c n h, Rctx h (h_peer_write c n h).
Proof. apply (P_peer_write Rctx); rctx_side. Qed.
Lemma Cx_peer_drop_reader : forall c h, Rctx h (h_peer_drop_reader c h).
Proof. apply (P_peer_drop_reader Rctx); rctx_side. Qed.
Lemma Cx_peer_drop_writer : forall c h, Rctx h (h_peer_drop_writer c h).
Proof. apply (P_peer_drop_writer Rctx); rctx_side. Qed.
Lemma Cx_task_cancel : forall h, Rctx h (h_task_cancel h).
Proof. apply (P_task_cancel Rctx); rctx_side. Qed.

Create HintDb cx.
#[export] Hint Resolve Rctx_refl Rctx_trans Cx_emit Cx_join Cx_set_new Cx_set_drop Cx_wait_poll Cx_set_event Cx_subtask_new Cx_subtask_cancel Cx_subtask_drop Cx_chan_new Cx_chan_read Cx_chan_write Cx_chan_cancel Cx_chan_drop Cx_peer_take Cx_peer_read Cx_peer_write Cx_peer_drop_reader Cx_peer_drop_writer Cx_task_cancel : cx.

(** ** [Rhk] *)
Definition HK (h : host) : Prop := Forall (fun p => fst (snd p) <= 5) (ready h).
Definition Rhk (h h' : host) : Prop := HK h -> HK h'.
Lemma Rhk_refl : forall h, Rhk h h.
Proof. unfold Rhk. auto. Qed.
Lemma Rhk_trans : forall a b c, Rhk a b -> Rhk b c -> Rhk a c.
Proof. unfold Rhk. auto. Qed.

Lemma event_kind_le : forall h w, event_kind_of h w <= 5.
Proof.
  intros. unfold event_kind_of, EVENT_SUBTASK, EVENT_STREAM_READ, EVENT_STREAM_WRITE, EVENT_FUTURE_READ, EVENT_FUTURE_WRITE, EVENT_NONE.
  destruct (alookup w (table h)) as [[]|]; try lia. destruct future, writer; lia.
Qed.

Lemma Forall_aremove : forall A (P : N * A -> Prop) k l, Forall P l -> Forall P (aremove k l).
Proof.
  induction l as [|[k' v] r IH]; cbn; intros H; auto. inversion H; subst.
  destruct (N.eqb k k'); auto.
Qed.

Lemma Hk_ready_remove : forall w h, Rhk h (set_ready (aremove w (ready h)) h).
Proof. unfold Rhk, HK. intros. cbn. now apply Forall_aremove. Qed.
Lemma Hk_ready_event : forall w c h, Rhk h (set_ready (aset w (event_kind_of h w, c) (ready h)) h).
Proof.
  unfold Rhk, HK. intros. cbn. constructor; [cbn; apply event_kind_le|now apply Forall_aremove].
Qed.
Ltac rhk_side := first [exact Rhk_refl | exact Rhk_trans | exact Hk_ready_remove | exact Hk_ready_event | (unfold Rhk, HK; intros; assumption)].

Lemma Hk_emit : forall c h, Rhk h (h_emit c h).
Proof. unfold Rhk, HK; intros; assumption. Qed.
Lemma Hk_join : forall w s h, Rhk h (h_join w s h).
Proof. apply (P_join Rhk); rhk_side. Qed.
Lemma Hk_set_new : forall h, Rhk h (fst (h_set_new h)).
Proof. apply (P_set_new Rhk); rhk_side. Qed.
Lemma Hk_set_drop : forall s h, Rhk h (h_set_drop s h).
Proof. apply (P_set_drop Rhk); rhk_side. Qed.
Lemma Hk_wait_poll : forall b s h, Rhk h (fst (h_wait_poll b s h)).
Proof. apply (P_wait_poll Rhk); rhk_side. Qed.
Lemma Hk_set_event : forall w c h, Rhk h (h_set_event w c h).
Proof. apply (P_set_event Rhk); rhk_side. Qed.
Lemma Hk_subtask_new : forall s h, Rhk h (fst (h_subtask_new s h)).
Proof. apply (P_subtask_new Rhk); rhk_side. Qed.
Lemma Hk_subtask_cancel : forall x h, Rhk h (fst (h_subtask_cancel x h)).
Proof. apply (P_subtask_cancel Rhk); rhk_side. Qed.
Lemma Hk_subtask_drop : forall x h, Rhk h (h_subtask_drop x h).
Proof. apply (P_subtask_drop Rhk); rhk_side. Qed.
Lemma Hk_chan_new : forall f h, Rhk h (fst (h_chan_new f h)).
Proof. apply (P_chan_new Rhk); rhk_side. Qed.
Lemma Hk_chan_read : forall x n h, Rhk h (fst (h_chan_read x n h)).
Proof. apply (P_chan_read Rhk); rhk_side. Qed.
Lemma Hk_chan_write : forall x n h, Rhk h (fst (h_chan_write x n h)).
Proof. apply (P_chan_write Rhk); rhk_side. Qed.
Lemma Hk_chan_cancel : forall x b h, Rhk h (fst (h_chan_cancel x b h)).
Proof. apply (P_chan_cancel Rhk); rhk_side. Qed.
Lemma Hk_chan_drop : forall x b h, Rhk h (h_chan_drop x b h).
Proof. apply (P_chan_drop Rhk); rhk_side. Qed.
Lemma Hk_peer_take : forall x h, Rhk h (h_peer_take x h).
Proof. apply (P_peer_take Rhk); rhk_side. Qed.
Lemma Hk_peer_read : forall c n h, Rhk h (h_peer_read c n h).
Proof. apply (P_peer_read Rhk); rhk_side. Qed.
Lemma Hk_peer_write : forall c n h, Rhk h (h_peer_write c n h).
Proof. apply (P_peer_write Rhk); rhk_side. Qed.
Lemma Hk_peer_drop_reader : forall c h, Rhk h (h_peer_drop_reader c h).
Proof. apply (P_peer_drop_reader Rhk); rhk_side. Qed.
Lemma Hk_peer_drop_writer : forall c h, Rhk h (h_peer_drop_writer c h).
Proof. apply (P_peer_drop_writer Rhk); rhk_side. Qed.
Lemma Hk_task_cancel : forall h, Rhk h (h_task_cancel h).
Proof. apply (P_task_cancel Rhk); rhk_side. Qed.

Create HintDb hk.
#[export] Hint Resolve Rhk_refl Rhk_trans Hk_emit Hk_join Hk_set_new Hk_set_drop Hk_wait_poll Hk_set_event Hk_subtask_new Hk_subtask_cancel Hk_subtask_drop Hk_chan_new Hk_chan_read Hk_chan_write Hk_chan_cancel Hk_chan_drop Hk_peer_take Hk_peer_read Hk_peer_write Hk_peer_drop_reader Hk_peer_drop_writer Hk_task_cancel : hk.

(** ** World level: instances of the generic lemmas *)
Lemma RC_itw_wake : forall e t w, Rctx (w_host w) (w_host (itw_wake e t w)).
Proof. intros. apply (WR_itw_wake Rctx); eauto with cx; apply Rctx_refl. Qed.
Lemma RC_wake_task : forall e t w, Rctx (w_host w) (w_host (wake_task e t w)).
Proof. intros. apply (WR_wake_task Rctx); eauto with cx; apply Rctx_refl. Qed.
Lemma RC_wake_inner : forall e t b w, Rctx (w_host w) (w_host (wake_inner e t b w)).
Proof. intros. apply (WR_wake_inner Rctx); eauto with cx; apply Rctx_refl. Qed.
Lemma RC_wake : forall e r w, Rctx (w_host w) (w_host (wake e r w)).
Proof. intros. apply (WR_wake Rctx); eauto with cx; apply Rctx_refl. Qed.
Lemma RC_signal_flag : forall e j w, Rctx (w_host w) (w_host (signal_flag e j w)).
Proof. intros. apply (WR_signal_flag Rctx); eauto with cx; apply Rctx_refl. Qed.
Lemma RC_flag_poll : forall j b wr w, Rctx (w_host w) (w_host (fst (flag_poll j b wr w))).
Proof. intros. apply (WR_flag_poll Rctx); eauto with cx; apply Rctx_refl. Qed.
Lemma RC_await_op_full : forall e t k wr w, Rctx (w_host w) (w_host (fst (await_op_full e t k wr w))).
Proof. intros. apply (WR_await_op_full Rctx); eauto with cx; apply Rctx_refl. Qed.
Lemma RC_read_itw : forall e t w, Rctx (w_host w) (w_host (read_itw e t w)).
Proof. intros. apply (WR_read_itw Rctx); eauto with cx; apply Rctx_refl. Qed.
Lemma RC_cancel_itw_read : forall e t w, Rctx (w_host w) (w_host (cancel_itw_read e t w)).
Proof. intros. apply (WR_cancel_itw_read Rctx); eauto with cx; apply Rctx_refl. Qed.
Lemma RC_deliver : forall e t wt code w, Rctx (w_host w) (w_host (deliver e t wt code w)).
Proof. intros. apply (WR_deliver Rctx); eauto with cx; apply Rctx_refl. Qed.
Lemma RC_wait_code : forall t w, Rctx (w_host w) (w_host (fst (wait_code t w))).
Proof. intros. apply (WR_wait_code Rctx); eauto with cx; apply Rctx_refl. Qed.
Lemma RC_run_steps : forall e t bd wr steps w, Rctx (w_host w) (w_host (fst (fst (run_steps e t bd wr steps w)))).
Proof. intros. apply (WR_run_steps Rctx); eauto with cx; apply Rctx_refl. Qed.
Lemma RC_poll_body : forall e t bd wr w, Rctx (w_host w) (w_host (fst (fst (poll_body e t bd wr w)))).
Proof. intros. apply (WR_poll_body Rctx); eauto with cx; apply Rctx_refl. Qed.
Lemma RC_body_drop : forall e t bd w, Rctx (w_host w) (w_host (body_drop e t bd w)).
Proof. intros. apply (WR_body_drop Rctx); eauto with cx; apply Rctx_refl. Qed.
Lemma RC_fu_poll : forall e t w, Rctx (w_host w) (w_host (fst (fu_poll e t w))).
Proof. intros. apply (WR_fu_poll Rctx); eauto with cx; apply Rctx_refl. Qed.
Lemma RC_tasks_poll : forall e t w, Rctx (w_host w) (w_host (fst (tasks_poll e t w))).
Proof. intros. apply (WR_tasks_poll Rctx); eauto with cx; apply Rctx_refl. Qed.
Lemma RC_cb_loop : forall fuel e t w, Rctx (w_host w) (w_host (fst (cb_loop fuel e t w))).
Proof. intros. apply (WR_cb_loop Rctx); eauto with cx; apply Rctx_refl. Qed.
Lemma RC_task_cb : forall e t e0 e1 e2 w, Rctx (w_host w) (w_host (fst (task_cb e t e0 e1 e2 w))).
Proof. intros. apply (WR_task_cb Rctx); eauto with cx; apply Rctx_refl. Qed.
Lemma RC_task_drop : forall e t w, Rctx (w_host w) (w_host (task_drop e t w)).
Proof. intros. apply (WR_task_drop Rctx); eauto with cx; apply Rctx_refl. Qed.
Lemma RC_host_action : forall e a w, Rctx (w_host w) (w_host (host_action e a w)).
Proof. intros. apply (WR_host_action Rctx); eauto with cx; apply Rctx_refl. Qed.
Lemma RC_cleanup : forall w, Rctx (w_host w) (w_host (cleanup w)).
Proof. intros. apply (WR_cleanup Rctx); eauto with cx; apply Rctx_refl. Qed.
Lemma RC_bon_wait : forall fuel e s w, Rctx (w_host w) (w_host (fst (bon_wait fuel e s w))).
Proof. intros. apply (WR_bon_wait Rctx); eauto with cx; apply Rctx_refl. Qed.
Lemma RC_ctx_observe : forall w, Rctx (w_host w) (w_host (ctx_observe w)).
Proof. intros. apply (WR_ctx_observe Rctx); eauto with cx; apply Rctx_refl. Qed.
Lemma RC_ctx_get_logged : forall w, Rctx (w_host w) (w_host (fst (ctx_get_logged w))).
Proof. intros. apply (WR_ctx_get_logged Rctx); eauto with cx; apply Rctx_refl. Qed.
Lemma RK_itw_wake : forall e t w, Rhk (w_host w) (w_host (itw_wake e t w)).
Proof. intros. apply (WR_itw_wake Rhk); eauto with hk; apply Rhk_refl. Qed.
Lemma RK_wake_task : forall e t w, Rhk (w_host w) (w_host (wake_task e t w)).
Proof. intros. apply (WR_wake_task Rhk); eauto with hk; apply Rhk_refl. Qed.
Lemma RK_wake_inner : forall e t b w, Rhk (w_host w) (w_host (wake_inner e t b w)).
Proof. intros. apply (WR_wake_inner Rhk); eauto with hk; apply Rhk_refl. Qed.
Lemma RK_wake : forall e r w, Rhk (w_host w) (w_host (wake e r w)).
Proof. intros. apply (WR_wake Rhk); eauto with hk; apply Rhk_refl. Qed.
Lemma RK_signal_flag : forall e j w, Rhk (w_host w) (w_host (signal_flag e j w)).
Proof. intros. apply (WR_signal_flag Rhk); eauto with hk; apply Rhk_refl. Qed.
Lemma RK_flag_poll : forall j b wr w, Rhk (w_host w) (w_host (fst (flag_poll j b wr w))).
Proof. intros. apply (WR_flag_poll Rhk); eauto with hk; apply Rhk_refl. Qed.
Lemma RK_await_op_full : forall e t k wr w, Rhk (w_host w) (w_host (fst (await_op_full e t k wr w))).
Proof. intros. apply (WR_await_op_full Rhk); eauto with hk; apply Rhk_refl. Qed.
Lemma RK_read_itw : forall e t w, Rhk (w_host w) (w_host (read_itw e t w)).
Proof. intros. apply (WR_read_itw Rhk); eauto with hk; apply Rhk_refl. Qed.
Lemma RK_cancel_itw_read : forall e t w, Rhk (w_host w) (w_host (cancel_itw_read e t w)).
Proof. intros. apply (WR_cancel_itw_read Rhk); eauto with hk; apply Rhk_refl. Qed.
Lemma RK_deliver : forall e t wt code w, Rhk (w_host w) (w_host (deliver e t wt code w)).
Proof. intros. apply (WR_deliver Rhk); eauto with hk; apply Rhk_refl. Qed.
Lemma RK_wait_code : forall t w, Rhk (w_host w) (w_host (fst (wait_code t w))).
Proof. intros. apply (WR_wait_code Rhk); eauto with hk; apply Rhk_refl. Qed.
Lemma RK_run_steps : forall e t bd wr steps w, Rhk (w_host w) (w_host (fst (fst (run_steps e t bd wr steps w)))).
Proof. intros. apply (WR_run_steps Rhk); eauto with hk; apply Rhk_refl. Qed.
Lemma RK_poll_body : forall e t bd wr w, Rhk (w_host w) (w_host (fst (fst (poll_body e t bd wr w)))).
Proof. intros. apply (WR_poll_body Rhk); eauto with hk; apply Rhk_refl. Qed.
Lemma RK_body_drop : forall e t bd w, Rhk (w_host w) (w_host (body_drop e t bd w)).
Proof. intros. apply (WR_body_drop Rhk); eauto with hk; apply Rhk_refl. Qed.
Lemma RK_fu_poll : forall e t w, Rhk (w_host w) (w_host (fst (fu_poll e t w))).
Proof. intros. apply (WR_fu_poll Rhk); eauto with hk; apply Rhk_refl. Qed.
Lemma RK_tasks_poll : forall e t w, Rhk (w_host w) (w_host (fst (tasks_poll e t w))).
Proof. intros. apply (WR_tasks_poll Rhk); eauto with hk; apply Rhk_refl. Qed.
Lemma RK_cb_loop : forall fuel e t w, Rhk (w_host w) (w_host (fst (cb_loop fuel e t w))).
Proof. intros. apply (WR_cb_loop Rhk); eauto with hk; apply Rhk_refl. Qed.
Lemma RK_task_cb : forall e t e0 e1 e2 w, Rhk (w_host w) (w_host (fst (task_cb e t e0 e1 e2 w))).
Proof. intros. apply (WR_task_cb Rhk); eauto with hk; apply Rhk_refl. Qed.
Lemma RK_task_drop : forall e t w, Rhk (w_host w) (w_host (task_drop e t w)).
Proof. intros. apply (WR_task_drop Rhk); eauto with hk; apply Rhk_refl. Qed.
Lemma RK_host_action : forall e a w, Rhk (w_host w) (w_host (host_action e a w)).
Proof. intros. apply (WR_host_action Rhk); eauto with hk; apply Rhk_refl. Qed.
Lemma RK_cleanup : forall w, Rhk (w_host w) (w_host (cleanup w)).
Proof. intros. apply (WR_cleanup Rhk); eauto with hk; apply Rhk_refl. Qed.
Lemma RK_bon_wait : forall fuel e s w, Rhk (w_host w) (w_host (fst (bon_wait fuel e s w))).
Proof. intros. apply (WR_bon_wait Rhk); eauto with hk; apply Rhk_refl. Qed.
Lemma RK_ctx_observe : forall w, Rhk (w_host w) (w_host (ctx_observe w)).
Proof. intros. apply (WR_ctx_observe Rhk); eauto with hk; apply Rhk_refl. Qed.
Lemma RK_ctx_get_logged : forall w, Rhk (w_host w) (w_host (fst (ctx_get_logged w))).
Proof. intros. apply (WR_ctx_get_logged Rhk); eauto with hk; apply Rhk_refl. Qed.

(** ** The event a driver takes from the host is never EVENT_CANCEL *)
Lemma alookup_Forall : forall A (P : N * A -> Prop) k v l, Forall P l -> alookup k l = Some v -> exists k', P (k', v).
Proof.
  induction l as [|[k' v'] r IH]; cbn; intros F H; [discriminate|]. inversion F; subst.
  destruct (N.eqb k k'); eauto. inversion H; subst. eauto.
Qed.

Lemma wait_poll_kind : forall b s h h' e0 w1 c,
  HK h -> h_wait_poll b s h = (h', (e0, w1, c)) -> e0 <= 5.
Proof.
  intros b s h h' e0 w1 c K H. unfold h_wait_poll in H.
  destruct (negb (is_set h s)); [inversion H; subst; unfold EVENT_NONE; lia|].
  destruct (choose_ready s h) as [h1 ow] eqn:CR.
  assert (K1 : HK h1).
  { unfold choose_ready in CR.
    repeat match type of CR with context [match ?x with _ => _ end] => destruct x end;
      inversion CR; subst; exact K. }
  destruct ow as [wt|].
  - destruct (consume_event wt h1) as [h2 evo] eqn:CE.
    unfold consume_event in CE. destruct (alookup wt (ready h1)) as [[kind code]|] eqn:AL.
    + destruct (alookup_Forall _ _ _ _ _ K1 AL) as [k' Pk]. cbn in Pk.
      assert (evo = Some (kind, code)).
      { repeat match type of CE with context [match ?x with _ => _ end] => destruct x end; inversion CE; subst; auto. }
      subst. inversion H; subst. exact Pk.
    + inversion CE; subst. inversion H; subst. unfold EVENT_NONE. lia.
  - destruct b; inversion H; subst; unfold EVENT_NONE; lia.
Qed.

(** ** The slot is null, and seen null, all through [TaskState::callback] *)
Definition slot_null (w : world) : Prop := h_ctx_get (w_host w) = None.
Definition obs_ok (w : world) : Prop := Forall (fun n => n = true) (ctx_obs w).
Definition CK (w w' : world) : Prop := slot_null w -> obs_ok w -> slot_null w' /\ obs_ok w'.

Lemma CK_refl : forall w, CK w w.
Proof. unfold CK. auto. Qed.

Lemma slot_null_Rctx : forall w w', Rctx (w_host w) (w_host w') -> slot_null w -> slot_null w'.
Proof. unfold slot_null, h_ctx_get. intros w w' [A B]. now rewrite A, B. Qed.

Lemma Frame_ctx_obs : forall w w', Frame w w' -> ctx_obs w' = ctx_obs w.
Proof.
  intros w w' F. destruct (fr_trace _ _ F) as [l [E Q]]. unfold ctx_obs. rewrite E.
  apply proj_quiet; auto. now destruct x.
Qed.

Lemma CK_step : forall w w0 w1,
  Rctx (w_host w0) (w_host w1) -> ctx_obs w1 = ctx_obs w0 -> CK w w0 -> CK w w1.
Proof.
  intros w w0 w1 R O C S B. destruct (C S B) as [S0 B0]. split.
  - eapply slot_null_Rctx; eauto.
  - unfold obs_ok. now rewrite O.
Qed.

Lemma CK_frame : forall w w0 w1,
  Frame w0 w1 -> Rctx (w_host w0) (w_host w1) -> CK w w0 -> CK w w1.
Proof. intros w w0 w1 F R C. apply (CK_step w w0 w1); [exact R|now apply Frame_ctx_obs|exact C]. Qed.

Lemma CK_same_host : forall w w0 w1,
  w_host w1 = w_host w0 -> w_trace w1 = w_trace w0 -> CK w w0 -> CK w w1.
Proof.
  intros w w0 w1 H T C. apply (CK_step w w0 w1); [| |exact C].
  - rewrite H. apply Rctx_refl.
  - unfold ctx_obs. now rewrite T.
Qed.

Lemma CK_emit : forall x w w0, (forall t n, x <> VCtxObs t n) -> CK w w0 -> CK w (emit x w0).
Proof.
  intros x w w0 NE C. apply (CK_step w w0 (emit x w0)); [| |exact C].
  - cbn. apply Cx_emit.
  - unfold ctx_obs. cbn. destruct x; auto. exfalso. eapply NE; eauto.
Qed.

Lemma CK_ctx_observe : forall w w0, CK w w0 -> CK w (ctx_observe w0).
Proof.
  intros w w0 C S B. destruct (C S B) as [S0 B0]. split.
  - eapply slot_null_Rctx; [|exact S0]. apply RC_ctx_observe.
  - unfold obs_ok, ctx_observe, ctx_obs. cbn. constructor; auto.
    unfold slot_null in S0. now rewrite S0.
Qed.

Ltac ck_frame H RCL := eapply CK_frame; [eapply Frame_of_eq; [exact H|]; auto with fr | idtac | ].

Lemma eq_fst : forall A B (p : A * B) a b, p = (a, b) -> a = fst p.
Proof. intros. now subst. Qed.

Lemma CK_await_op_full : forall e t k wr w w0 w1 r,
  await_op_full e t k wr w0 = (w1, r) -> CK w w0 -> CK w w1.
Proof.
  intros. eapply CK_frame; [| |eassumption].
  - eapply Frame_of_eq; [exact H|]. auto with fr.
  - rewrite (eq_fst _ _ _ _ _ H). apply RC_await_op_full.
Qed.
Lemma CK_flag_poll : forall j b wr w w0 w1 r,
  flag_poll j b wr w0 = (w1, r) -> CK w w0 -> CK w w1.
Proof.
  intros. eapply CK_frame; [| |eassumption].
  - eapply Frame_of_eq; [exact H|]. auto with fr.
  - rewrite (eq_fst _ _ _ _ _ H). apply RC_flag_poll.
Qed.
Lemma CK_wake : forall e r w w0, CK w w0 -> CK w (wake e r w0).
Proof. intros. eapply CK_frame; [| |eassumption]; [auto with fr|apply RC_wake]. Qed.
Lemma CK_signal_flag : forall e j w w0, CK w w0 -> CK w (signal_flag e j w0).
Proof. intros. eapply CK_frame; [| |eassumption]; [auto with fr|apply RC_signal_flag]. Qed.
Lemma CK_wake_task : forall e t w w0, CK w w0 -> CK w (wake_task e t w0).
Proof. intros. eapply CK_frame; [| |eassumption]; [auto with fr|apply RC_wake_task]. Qed.
Lemma CK_deliver : forall e t a b w w0, CK w w0 -> CK w (deliver e t a b w0).
Proof. intros. eapply CK_frame; [| |eassumption]; [auto with fr|apply RC_deliver]. Qed.
Lemma CK_read_itw : forall e t w w0, CK w w0 -> CK w (read_itw e t w0).
Proof. intros. eapply CK_frame; [| |eassumption]; [auto with fr|apply RC_read_itw]. Qed.
Lemma CK_cancel_itw_read : forall e t w w0, CK w w0 -> CK w (cancel_itw_read e t w0).
Proof. intros. eapply CK_frame; [| |eassumption]; [auto with fr|apply RC_cancel_itw_read]. Qed.
Lemma CK_wait_code : forall t w w0, CK w w0 -> CK w (fst (wait_code t w0)).
Proof. intros. eapply CK_frame; [| |eassumption]; [auto with fr|apply RC_wait_code]. Qed.
Lemma CK_fail : forall c w w0, CK w w0 -> CK w (fail c w0).
Proof. intros. eapply CK_same_host; eauto; unfold fail; now destruct (w_err w0). Qed.
Lemma CK_upd : forall t f w w0, CK w w0 -> CK w (upd_task t f w0).
Proof. intros. eapply CK_same_host; eauto. Qed.
Lemma CK_put_fu : forall t f w w0, CK w w0 -> CK w (put_fu t f w0).
Proof. intros. eapply CK_same_host; eauto. Qed.
Lemma CK_set_cur : forall x w w0, CK w w0 -> CK w (set_cur x w0).
Proof. intros. eapply CK_same_host; eauto. Qed.
Lemma CK_set_spawned : forall x w w0, CK w w0 -> CK w (set_spawned x w0).
Proof. intros. eapply CK_same_host; eauto. Qed.
Lemma CK_set_created : forall x w w0, CK w w0 -> CK w (set_created x w0).
Proof. intros. eapply CK_same_host; eauto. Qed.
Lemma CK_if : forall (c : bool) w a b, CK w a -> CK w b -> CK w (if c then a else b).
Proof. destruct c; auto. Qed.
Lemma CK_hostr_poll : forall s w w0 w1 r, hostr (h_wait_poll false s) w0 = (w1, r) -> CK w w0 -> CK w w1.
Proof.
  intros. eapply CK_frame; [| |eassumption].
  - eapply Frame_of_eq; [exact H|]. auto with fr.
  - rewrite (eq_fst _ _ _ _ _ H). unfold hostr. destruct (h_wait_poll false s (w_host w0)) eqn:E. cbn.
    replace h with (fst (h_wait_poll false s (w_host w0))) by now rewrite E. apply Cx_wait_poll.
Qed.

Create HintDb ck.
#[export] Hint Resolve CK_refl CK_wake CK_signal_flag CK_wake_task CK_deliver CK_read_itw CK_cancel_itw_read CK_wait_code
  CK_fail CK_upd CK_put_fu CK_set_cur CK_set_spawned CK_set_created CK_if CK_ctx_observe : ck.
#[export] Hint Extern 2 (CK _ (emit _ _)) => apply CK_emit; [intros; discriminate|] : ck.
#[export] Hint Extern 1 (CK _ ?w1) => match goal with H : await_op_full _ _ _ _ _ = (w1, _) |- _ => eapply (CK_await_op_full _ _ _ _ _ _ _ _ H) end : ck.
#[export] Hint Extern 1 (CK _ ?w1) => match goal with H : flag_poll _ _ _ _ = (w1, _) |- _ => eapply (CK_flag_poll _ _ _ _ _ _ _ H) end : ck.
#[export] Hint Extern 1 (CK _ ?w1) => match goal with H : hostr (h_wait_poll false _) _ = (w1, _) |- _ => eapply (CK_hostr_poll _ _ _ _ _ H) end : ck.

Ltac ck_auto := intros; fr_split; cbn [fst snd]; eauto 30 with ck.

Lemma CK_of_eq3 : forall A B (p : world * A * B) w w1 a b, p = (w1, a, b) -> CK w (fst (fst p)) -> CK w w1.
Proof. intros. subst. auto. Qed.
Lemma CK_of_eq : forall A (p : world * A) w w1 a, p = (w1, a) -> CK w (fst p) -> CK w w1.
Proof. intros. subst. auto. Qed.

Lemma CK_run_steps : forall e t wr steps bd w w0, CK w w0 -> CK w (fst (fst (run_steps e t bd wr steps w0))).
Proof.
  induction steps as [|s r IH]; intros; cbn [run_steps]; [|destruct s]; ck_auto.
Qed.
#[export] Hint Resolve CK_run_steps : ck.

Lemma CK_poll_body : forall e t bd wr w w0, CK w w0 -> CK w (fst (fst (poll_body e t bd wr w0))).
Proof. unfold poll_body. ck_auto. Qed.
#[export] Hint Resolve CK_poll_body : ck.
#[export] Hint Extern 1 (CK _ ?w1) => match goal with H : poll_body _ _ _ _ _ = (w1, _, _) |- _ => eapply (CK_of_eq3 _ _ _ _ _ _ _ H) end : ck.

Lemma CK_fu_poll_next : forall e t fuel len polled yielded w w0,
  CK w w0 -> CK w (fst (fu_poll_next fuel e t len polled yielded w0)).
Proof. induction fuel as [|fuel IH]; intros; cbn [fu_poll_next]; ck_auto. Qed.
#[export] Hint Resolve CK_fu_poll_next : ck.

Lemma CK_fu_poll : forall e t w w0, CK w w0 -> CK w (fst (fu_poll e t w0)).
Proof. unfold fu_poll. ck_auto. Qed.
#[export] Hint Resolve CK_fu_poll : ck.
#[export] Hint Extern 1 (CK _ ?w1) => match goal with H : fu_poll _ _ _ = (w1, _) |- _ => eapply (CK_of_eq _ _ _ _ _ H) end : ck.

Lemma CK_tasks_poll_spawn : forall e t fuel w w0, CK w w0 -> CK w (fst (tasks_poll_spawn fuel e t w0)).
Proof. induction fuel as [|fuel IH]; intros; cbn [tasks_poll_spawn]; ck_auto. Qed.
#[export] Hint Resolve CK_tasks_poll_spawn : ck.

Lemma CK_tasks_poll_single : forall e t w w0, CK w w0 -> CK w (fst (tasks_poll_single e t w0)).
Proof. unfold tasks_poll_single. ck_auto. Qed.
#[export] Hint Resolve CK_tasks_poll_single : ck.

Lemma CK_tasks_poll : forall e t w w0, CK w w0 -> CK w (fst (tasks_poll e t w0)).
Proof. unfold tasks_poll. ck_auto. Qed.
#[export] Hint Resolve CK_tasks_poll : ck.
#[export] Hint Extern 1 (CK _ ?w1) => match goal with H : tasks_poll _ _ _ = (w1, _) |- _ => eapply (CK_of_eq _ _ _ _ _ H) end : ck.

Lemma CK_cb_loop : forall e t fuel w w0, CK w w0 -> CK w (fst (cb_loop fuel e t w0)).
Proof. induction fuel as [|fuel IH]; intros; cbn [cb_loop]; ck_auto. Qed.
#[export] Hint Resolve CK_cb_loop : ck.
#[export] Hint Extern 1 (CK _ ?w1) => match goal with H : cb_loop _ _ _ _ = (w1, _) |- _ => eapply (CK_of_eq _ _ _ _ _ H) end : ck.

(** Everything [TaskState::callback] runs sees context slot 0 null, given that [callback] nulled
    it: the slot stays null and every observation made by a body reads null. *)
Theorem CK_task_cb : forall e t e0 e1 e2 w, CK w (fst (task_cb e t e0 e1 e2 w)).
Proof. intros. unfold task_cb. ck_auto. Qed.
