(** * Async/TaskLemmas.v — algebra of the world updates and the frame of everything that does not
    move body futures around (proofs for C22/C23). *)
From Coq Require Import NArith List Bool Lia Permutation.
From WB Require Import Async.Host Async.Task Async.TaskSpec.
Import ListNotations.
Local Open Scope N_scope.

(** ** get / put *)
Lemma alookup_tset_same : forall t x l, alookup t (tset t x l) = Some x.
Proof.
  induction l as [|[t' y] r IH]; cbn.
  - now rewrite N.eqb_refl.
  - destruct (N.eqb t t') eqn:E; cbn; rewrite E; auto.
Qed.

Lemma alookup_tset_other : forall t t' x l, t <> t' -> alookup t' (tset t x l) = alookup t' l.
Proof.
  induction l as [|[t0 y] r IH]; cbn; intros.
  - destruct (N.eqb t' t) eqn:E; auto. apply N.eqb_eq in E. congruence.
  - destruct (N.eqb t t0) eqn:E; cbn.
    + apply N.eqb_eq in E. subst. destruct (N.eqb t' t0) eqn:E2; auto.
      apply N.eqb_eq in E2. congruence.
    + destruct (N.eqb t' t0); auto.
Qed.

Lemma get_put_same : forall t x w, get_task t (put_task t x w) = x.
Proof. intros. unfold get_task, put_task. cbn. now rewrite alookup_tset_same. Qed.

Lemma get_put_other : forall t t' x w, t <> t' -> get_task t' (put_task t x w) = get_task t' w.
Proof. intros. unfold get_task, put_task. cbn. now rewrite alookup_tset_other. Qed.

Lemma get_put : forall t t' x w,
  get_task t' (put_task t x w) = if N.eqb t t' then x else get_task t' w.
Proof.
  intros. destruct (N.eqb t t') eqn:E.
  - apply N.eqb_eq in E. subst. apply get_put_same.
  - apply N.eqb_neq in E. now apply get_put_other.
Qed.

Lemma get_upd : forall t t' f w,
  get_task t' (upd_task t f w) = if N.eqb t t' then f (get_task t w) else get_task t' w.
Proof. intros. unfold upd_task. apply get_put. Qed.

(** ** [tasks_ids] under an in-place update *)
Lemma tasks_ids_tset_same : forall t x l,
  task_ids x = task_ids (match alookup t l with Some y => y | None => task0 end) ->
  tasks_ids (tset t x l) = tasks_ids l.
Proof.
  induction l as [|[t' y] r IH]; cbn; intros H.
  - rewrite H. reflexivity.
  - destruct (N.eqb t t') eqn:E; cbn.
    + now rewrite H.
    + f_equal. apply IH. exact H.
Qed.

Lemma live_put_same : forall t x w,
  task_ids x = task_ids (get_task t w) -> live_bodies (put_task t x w) = live_bodies w.
Proof.
  intros. unfold live_bodies, put_task. cbn. f_equal. now apply tasks_ids_tset_same.
Qed.

(** Splitting off the bodies of one task (up to permutation). *)
Definition others (t : N) (l : list (N * task)) : list N :=
  tasks_ids (tset t task0 l).

Lemma tasks_ids_split : forall t l,
  Permutation (tasks_ids l) (task_ids (match alookup t l with Some y => y | None => task0 end) ++ others t l).
Proof.
  unfold others. induction l as [|[t' y] r IH]; cbn.
  - reflexivity.
  - destruct (N.eqb t t') eqn:E; cbn.
    + reflexivity.
    + rewrite IH. rewrite !app_assoc. apply Permutation_app_tail. apply Permutation_app_comm.
Qed.

Lemma tset_tset : forall t x y l, tset t x (tset t y l) = tset t x l.
Proof.
  induction l as [|[t' z] r IH]; cbn.
  - now rewrite N.eqb_refl.
  - destruct (N.eqb t t') eqn:E; cbn; rewrite E; auto. now rewrite IH.
Qed.

Lemma others_tset : forall t x l, others t (tset t x l) = others t l.
Proof. intros. unfold others. now rewrite tset_tset. Qed.

Lemma live_split : forall t w,
  Permutation (live_bodies w) (task_ids (get_task t w) ++ others t (w_tasks w) ++ body_ids (w_spawned w)).
Proof.
  intros. unfold live_bodies, get_task. rewrite (tasks_ids_split t). now rewrite app_assoc.
Qed.

Lemma live_put_split : forall t x w,
  Permutation (live_bodies (put_task t x w)) (task_ids x ++ others t (w_tasks w) ++ body_ids (w_spawned w)).
Proof.
  intros. rewrite (live_split t). rewrite get_put_same. unfold put_task. cbn [w_tasks w_spawned set_tasks]. now rewrite others_tset.
Qed.

(** Keys of the task table stay duplicate-free. *)
Lemma tset_keys_in : forall t x l, In t (map fst l) -> map fst (tset t x l) = map fst l.
Proof.
  induction l as [|[t' y] r IH]; cbn; intros H; [contradiction|].
  destruct (N.eqb t t') eqn:E; cbn; auto.
  f_equal. apply IH. destruct H as [H|H]; auto. subst. now rewrite N.eqb_refl in E.
Qed.
Lemma tset_keys_notin : forall t x l, ~ In t (map fst l) -> map fst (tset t x l) = map fst l ++ [t].
Proof.
  induction l as [|[t' y] r IH]; cbn; intros H; auto.
  destruct (N.eqb t t') eqn:E; cbn.
  - apply N.eqb_eq in E. subst. exfalso. auto.
  - f_equal. apply IH. auto.
Qed.
Lemma tset_keys_nodup : forall t x l, NoDup (map fst l) -> NoDup (map fst (tset t x l)).
Proof.
  intros t x l H. destruct (in_dec N.eq_dec t (map fst l)) as [I|I].
  - now rewrite tset_keys_in.
  - rewrite tset_keys_notin by auto. apply NoDup_rev in H. rewrite <- rev_involutive.
    apply NoDup_rev. rewrite rev_app_distr. cbn. constructor; auto. now rewrite <- in_rev.
Qed.

(** ** The frame *)
Record Frame (w w' : world) : Prop := mkFrame {
  fr_created : w_created w' = w_created w;
  fr_trace : exists l, w_trace w' = l ++ w_trace w /\ forallb quiet l = true;
  fr_live : live_bodies w' = live_bodies w;
  fr_others : forall t, others t (w_tasks w') = others t (w_tasks w);
  fr_task : forall t, tk_root (get_task t w') = tk_root (get_task t w)
                      /\ fu_all (tk_fu (get_task t w')) = fu_all (tk_fu (get_task t w))
                      /\ tk_alive (get_task t w') = tk_alive (get_task t w)
                      /\ tk_exited (get_task t w') = tk_exited (get_task t w);
  fr_spawned : w_spawned w' = w_spawned w;
  fr_keys : NoDup (map fst (w_tasks w)) -> NoDup (map fst (w_tasks w'))
}.

Lemma Frame_refl : forall w, Frame w w.
Proof. intros. split; auto. exists []. auto. Qed.

Lemma Frame_trans : forall a b c, Frame a b -> Frame b c -> Frame a c.
Proof.
  intros a b c [A1 [l1 [A2 A2']] A3 A4 A5 A6 A7] [B1 [l2 [B2 B2']] B3 B4 B5 B6 B7]. split; try congruence; auto.
  - exists (l2 ++ l1). rewrite B2, A2, app_assoc. split; auto. rewrite forallb_app. now rewrite A2', B2'.
  - intros t. destruct (A5 t) as (?&?&?&?), (B5 t) as (?&?&?&?). repeat split; congruence.
Qed.

(** A world update that keeps tasks, spawned queue, created set and trace. *)
Lemma Frame_same : forall w w',
  w_tasks w' = w_tasks w -> w_spawned w' = w_spawned w -> w_created w' = w_created w ->
  w_trace w' = w_trace w -> Frame w w'.
Proof.
  intros w w' H1 H2 H3 H4. split; auto.
  - exists []. auto.
  - unfold live_bodies. now rewrite H1, H2.
  - intros. now rewrite H1.
  - intros. unfold get_task. now rewrite H1.
  - now rewrite H1.
Qed.

Lemma Frame_hostf : forall f w w0, Frame w w0 -> Frame w (hostf f w0).
Proof. intros. eapply Frame_trans; eauto. apply Frame_same; reflexivity. Qed.

Lemma Frame_hostr_fst : forall A (f : host -> host * A) w w0, Frame w w0 -> Frame w (fst (hostr f w0)).
Proof.
  intros. eapply Frame_trans; eauto. unfold hostr. destruct (f (w_host w0)). apply Frame_same; reflexivity.
Qed.

Lemma Frame_fail : forall c w w0, Frame w w0 -> Frame w (fail c w0).
Proof. intros. eapply Frame_trans; eauto. unfold fail. destruct (w_err w0); [apply Frame_refl|apply Frame_same; reflexivity]. Qed.

Lemma Frame_put_op : forall k s w w0, Frame w w0 -> Frame w (put_op k s w0).
Proof. intros. eapply Frame_trans; eauto. apply Frame_same; reflexivity. Qed.
Lemma Frame_set_waiters : forall x w w0, Frame w w0 -> Frame w (set_waiters x w0).
Proof. intros. eapply Frame_trans; eauto. apply Frame_same; reflexivity. Qed.
Lemma Frame_set_flags : forall x w w0, Frame w w0 -> Frame w (set_flags x w0).
Proof. intros. eapply Frame_trans; eauto. apply Frame_same; reflexivity. Qed.
Lemma Frame_set_cur : forall x w w0, Frame w w0 -> Frame w (set_cur x w0).
Proof. intros. eapply Frame_trans; eauto. apply Frame_same; reflexivity. Qed.
Lemma Frame_set_script : forall x w w0, Frame w w0 -> Frame w (set_script x w0).
Proof. intros. eapply Frame_trans; eauto. apply Frame_same; reflexivity. Qed.
Lemma Frame_set_deadlocks : forall x w w0, Frame w w0 -> Frame w (set_deadlocks x w0).
Proof. intros. eapply Frame_trans; eauto. apply Frame_same; reflexivity. Qed.

Lemma Frame_emit : forall x w w0, quiet x = true -> Frame w w0 -> Frame w (emit x w0).
Proof.
  intros x w w0 Q H. eapply Frame_trans; eauto. split; try reflexivity.
  - exists [x]. cbn. now rewrite Q.
  - intros. repeat split.
  - auto.
Qed.

(** Updates of a task that keep its body futures and its life. *)
Definition neutral (f : task -> task) : Prop :=
  forall tk, tk_root (f tk) = tk_root tk /\ fu_all (tk_fu (f tk)) = fu_all (tk_fu tk)
             /\ tk_alive (f tk) = tk_alive tk /\ tk_exited (f tk) = tk_exited tk.

Lemma same_ids : forall x y, tk_root x = tk_root y -> fu_all (tk_fu x) = fu_all (tk_fu y) -> task_ids x = task_ids y.
Proof. intros x y A B. unfold task_ids, root_list. now rewrite A, B. Qed.

Lemma tasks_ids_cons : forall p l, tasks_ids (p :: l) = task_ids (snd p) ++ tasks_ids l.
Proof. reflexivity. Qed.

Lemma others_tset_other : forall t t' x l, t <> t' ->
  task_ids x = task_ids (match alookup t l with Some y => y | None => task0 end) ->
  others t' (tset t x l) = others t' l.
Proof.
  unfold others. induction l as [|[t0 y] r IH]; intros NE H.
  - cbn in *. destruct (N.eqb t' t) eqn:E; [apply N.eqb_eq in E; congruence|]. cbn. now rewrite H.
  - cbn [tset alookup] in *. destruct (N.eqb t t0) eqn:E0.
    + apply N.eqb_eq in E0. subst t0. cbn [tset].
      destruct (N.eqb t' t) eqn:E; [apply N.eqb_eq in E; congruence|].
      rewrite !tasks_ids_cons. cbn [snd]. now rewrite H.
    + cbn [tset]. destruct (N.eqb t' t0) eqn:E1.
      * rewrite !tasks_ids_cons. f_equal. now apply tasks_ids_tset_same.
      * rewrite !tasks_ids_cons. f_equal. now apply IH.
Qed.

Lemma others_put : forall t t' x w,
  task_ids x = task_ids (get_task t w) ->
  others t' (w_tasks (put_task t x w)) = others t' (w_tasks w).
Proof.
  intros t t' x w H. unfold put_task. cbn [w_tasks set_tasks].
  destruct (N.eqb t t') eqn:E.
  - apply N.eqb_eq in E. subst. apply others_tset.
  - apply N.eqb_neq in E. now apply others_tset_other.
Qed.

Lemma Frame_upd : forall t f w w0, neutral f -> Frame w w0 -> Frame w (upd_task t f w0).
Proof.
  intros t f w w0 N H. eapply Frame_trans; eauto. unfold upd_task.
  destruct (N (get_task t w0)) as (N0 & N1 & N2 & N3).
  pose proof (same_ids _ _ N0 N1) as I.
  split; try reflexivity.
  - exists []. auto.
  - now apply live_put_same.
  - intros. now apply others_put.
  - intros t'. rewrite get_put. destruct (N.eqb t t') eqn:E; auto.
    apply N.eqb_eq in E. subst. auto.
  - intros. unfold put_task. cbn [w_tasks set_tasks]. now apply tset_keys_nodup.
Qed.

Lemma Frame_put_fu : forall t f w w0,
  fu_all f = fu_all (get_fu t w0) -> Frame w w0 -> Frame w (put_fu t f w0).
Proof.
  intros t f w w0 E H. eapply Frame_trans; eauto. unfold put_fu, upd_task, get_fu in *.
  set (tk := get_task t w0) in *.
  assert (I : task_ids (tk_with_fu f tk) = task_ids tk) by (unfold task_ids; cbn; now rewrite E).
  split; try reflexivity.
  - exists []. auto.
  - now apply live_put_same.
  - intros. now apply others_put.
  - intros t'. rewrite get_put. destruct (N.eqb t t') eqn:E'; auto.
    apply N.eqb_eq in E'. subst. fold tk. cbn. auto.
  - intros. unfold put_task. cbn [w_tasks set_tasks]. now apply tset_keys_nodup.
Qed.

Lemma fr_ids : forall w w', Frame w w' -> forall t, task_ids (get_task t w') = task_ids (get_task t w).
Proof. intros w w' F t. destruct (fr_task _ _ F t) as (A & B & _). now apply same_ids. Qed.
Lemma fr_alive : forall w w', Frame w w' -> forall t, tk_alive (get_task t w') = tk_alive (get_task t w).
Proof. intros w w' F t. now destruct (fr_task _ _ F t) as (_ & _ & A & _). Qed.
Lemma fr_exited : forall w w', Frame w w' -> forall t, tk_exited (get_task t w') = tk_exited (get_task t w).
Proof. intros w w' F t. now destruct (fr_task _ _ F t) as (_ & _ & _ & A). Qed.
Lemma fr_root : forall w w', Frame w w' -> forall t, tk_root (get_task t w') = tk_root (get_task t w).
Proof. intros w w' F t. now destruct (fr_task _ _ F t) as (A & _). Qed.
Lemma fr_fuall : forall w w', Frame w w' -> forall t, fu_all (tk_fu (get_task t w')) = fu_all (tk_fu (get_task t w)).
Proof. intros w w' F t. now destruct (fr_task _ _ F t) as (_ & A & _). Qed.

Lemma Frame_of_eq : forall A (p : world * A) w w1 a, p = (w1, a) -> Frame w (fst p) -> Frame w w1.
Proof. intros. subst. auto. Qed.

Lemma Frame_if : forall (c : bool) w a b, Frame w a -> Frame w b -> Frame w (if c then a else b).
Proof. destruct c; auto. Qed.

Create HintDb fr.
#[export] Hint Resolve Frame_if : fr.
#[export] Hint Resolve Frame_refl Frame_hostf Frame_hostr_fst Frame_fail Frame_put_op Frame_set_waiters
  Frame_set_flags Frame_set_cur Frame_set_script Frame_set_deadlocks Frame_put_fu : fr.
#[export] Hint Extern 1 (Frame _ ?w1) =>
  match goal with H : _ = (w1, _) |- _ => eapply (Frame_of_eq _ _ _ _ _ H) end : fr.
#[export] Hint Extern 2 (Frame _ (emit _ _)) => apply Frame_emit; [reflexivity|] : fr.
#[export] Hint Extern 2 (Frame _ (upd_task _ _ _)) => apply Frame_upd; [now (intro; cbn; auto)|] : fr.

Ltac fr_split :=
  repeat match goal with
  | |- context [match ?x with _ => _ end] =>
      lazymatch x with
      | context [match _ with _ => _ end] => fail
      | _ => destruct x eqn:?
      end
  end.

Ltac fr_auto := intros; fr_split; cbn [fst snd]; eauto 30 with fr.

(** ** Frames of everything that does not own body futures *)
Lemma Frame_itw_wake : forall e t w w0, Frame w w0 -> Frame w (itw_wake e t w0).
Proof. unfold itw_wake. fr_auto. Qed.
#[export] Hint Resolve Frame_itw_wake : fr.

Lemma Frame_wake_task : forall e t w w0, Frame w w0 -> Frame w (wake_task e t w0).
Proof. unfold wake_task. fr_auto. Qed.
#[export] Hint Resolve Frame_wake_task : fr.

Lemma Frame_wake_inner : forall e t b w w0, Frame w w0 -> Frame w (wake_inner e t b w0).
Proof. unfold wake_inner. fr_auto. Qed.
#[export] Hint Resolve Frame_wake_inner : fr.

Lemma Frame_wake : forall e r w w0, Frame w w0 -> Frame w (wake e r w0).
Proof. unfold wake. fr_auto. Qed.
#[export] Hint Resolve Frame_wake : fr.

Lemma Frame_drop_shared : forall t w w0, Frame w w0 -> Frame w (drop_shared t w0).
Proof. unfold drop_shared. fr_auto. Qed.
#[export] Hint Resolve Frame_drop_shared : fr.

Lemma Frame_maybe_drop_shared : forall t w w0, Frame w w0 -> Frame w (maybe_drop_shared t w0).
Proof. unfold maybe_drop_shared. fr_auto. Qed.
#[export] Hint Resolve Frame_maybe_drop_shared : fr.

Lemma Frame_after_ref_drop : forall r w w0, Frame w w0 -> Frame w (after_ref_drop r w0).
Proof. unfold after_ref_drop. fr_auto. Qed.
#[export] Hint Resolve Frame_after_ref_drop : fr.

Lemma Frame_fold : forall A (f : world -> A -> world) l,
  (forall a w w0, Frame w w0 -> Frame w (f w0 a)) ->
  forall w w0, Frame w w0 -> Frame w (fold_left f l w0).
Proof. induction l; cbn; intros; auto. Qed.

Lemma Frame_flag_wake_all : forall e j w w0, Frame w w0 -> Frame w (flag_wake_all e j w0).
Proof. unfold flag_wake_all. intros. apply Frame_fold; auto. fr_auto. Qed.
#[export] Hint Resolve Frame_flag_wake_all : fr.

Lemma Frame_signal_flag : forall e j w w0, Frame w w0 -> Frame w (signal_flag e j w0).
Proof. unfold signal_flag. fr_auto. Qed.
#[export] Hint Resolve Frame_signal_flag : fr.

Lemma Frame_flag_poll : forall j b wr w w0, Frame w w0 -> Frame w (fst (flag_poll j b wr w0)).
Proof. unfold flag_poll. fr_auto. Qed.
#[export] Hint Resolve Frame_flag_poll : fr.

Lemma Frame_add_waitable : forall t wt w w0, Frame w w0 -> Frame w (add_waitable t wt w0).
Proof. unfold add_waitable. fr_auto. Qed.
#[export] Hint Resolve Frame_add_waitable : fr.

Lemma Frame_register : forall t wt k w w0, Frame w w0 -> Frame w (register t wt k w0).
Proof. unfold register. fr_auto. Qed.
#[export] Hint Resolve Frame_register : fr.

Lemma Frame_unregister : forall t wt w w0, Frame w w0 -> Frame w (unregister t wt w0).
Proof. unfold unregister. fr_auto. Qed.
#[export] Hint Resolve Frame_unregister : fr.

Lemma Frame_op_start : forall e k w w0, Frame w w0 -> Frame w (fst (fst (op_start e k w0))).
Proof. unfold op_start. fr_auto. Qed.

Lemma Frame_of_eq3 : forall A B (p : world * A * B) w w1 a b, p = (w1, a, b) -> Frame w (fst (fst p)) -> Frame w w1.
Proof. intros. subst. auto. Qed.
#[export] Hint Extern 1 (Frame _ ?w1) =>
  match goal with H : _ = (w1, _, _) |- _ => eapply (Frame_of_eq3 _ _ _ _ _ _ _ H) end : fr.
#[export] Hint Resolve Frame_op_start : fr.

Lemma Frame_sub_handle_drop : forall st w w0, Frame w w0 -> Frame w (sub_handle_drop st w0).
Proof. unfold sub_handle_drop. fr_auto. Qed.
#[export] Hint Resolve Frame_sub_handle_drop : fr.

Lemma Frame_deferred_write : forall wh w w0, Frame w w0 -> Frame w (deferred_write wh w0).
Proof. unfold deferred_write. fr_auto. Qed.
#[export] Hint Resolve Frame_deferred_write : fr.

Lemma Frame_op_update : forall e c k st code w w0, Frame w w0 -> Frame w (fst (op_update e c k st code w0)).
Proof. unfold op_update. fr_auto. Qed.
#[export] Hint Resolve Frame_op_update : fr.

Lemma Frame_op_with_code : forall e t k st oc wr w w0, Frame w w0 -> Frame w (fst (op_with_code e t k st oc wr w0)).
Proof. unfold op_with_code. fr_auto. Qed.
#[export] Hint Resolve Frame_op_with_code : fr.

Lemma Frame_op_poll : forall e t k wr w w0, Frame w w0 -> Frame w (fst (op_poll e t k wr w0)).
Proof. unfold op_poll. fr_auto. Qed.
#[export] Hint Resolve Frame_op_poll : fr.

Lemma Frame_op_end_drop : forall e k wt w w0, Frame w w0 -> Frame w (op_end_drop e k wt w0).
Proof. unfold op_end_drop. fr_auto. Qed.
#[export] Hint Resolve Frame_op_end_drop : fr.

Lemma Frame_op_cancel_intrinsic : forall e k st w w0, Frame w w0 -> Frame w (fst (op_cancel_intrinsic e k st w0)).
Proof. unfold op_cancel_intrinsic. fr_auto. Qed.
#[export] Hint Resolve Frame_op_cancel_intrinsic : fr.

Lemma Frame_op_drop : forall e t k w w0, Frame w w0 -> Frame w (op_drop e t k w0).
Proof. unfold op_drop. fr_auto. Qed.
#[export] Hint Resolve Frame_op_drop : fr.

Lemma Frame_ctx_get_logged : forall w w0, Frame w w0 -> Frame w (fst (ctx_get_logged w0)).
Proof. unfold ctx_get_logged. fr_auto. Qed.
Lemma Frame_ctx_set_logged : forall v w w0, Frame w w0 -> Frame w (ctx_set_logged v w0).
Proof. unfold ctx_set_logged. fr_auto. Qed.
#[export] Hint Resolve Frame_ctx_get_logged Frame_ctx_set_logged : fr.

Lemma Frame_await_op_full : forall e t k wr w w0, Frame w w0 -> Frame w (fst (await_op_full e t k wr w0)).
Proof. unfold await_op_full. fr_auto. Qed.
#[export] Hint Resolve Frame_await_op_full : fr.

Lemma Frame_read_itw : forall e t w w0, Frame w w0 -> Frame w (read_itw e t w0).
Proof. unfold read_itw. fr_auto. Qed.
Lemma Frame_cancel_itw_read : forall e t w w0, Frame w w0 -> Frame w (cancel_itw_read e t w0).
Proof. unfold cancel_itw_read. fr_auto. Qed.
#[export] Hint Resolve Frame_read_itw Frame_cancel_itw_read : fr.

Lemma Frame_deliver : forall e t wt code w w0, Frame w w0 -> Frame w (deliver e t wt code w0).
Proof. unfold deliver. fr_auto. Qed.
#[export] Hint Resolve Frame_deliver : fr.

Lemma Frame_wait_code : forall t w w0, Frame w w0 -> Frame w (fst (wait_code t w0)).
Proof. unfold wait_code. fr_auto. Qed.
#[export] Hint Resolve Frame_wait_code : fr.

Lemma Frame_with_pending : forall e i f w w0,
  (forall k st kd w w0, Frame w w0 -> Frame w (f k st kd w0)) ->
  Frame w w0 -> Frame w (with_pending e i f w0).
Proof. unfold with_pending. fr_auto. Qed.

Lemma Frame_host_action : forall e a w w0, Frame w w0 -> Frame w (host_action e a w0).
Proof.
  unfold host_action. intros. destruct a; auto; try (apply Frame_with_pending; auto; fr_auto).
  all: fr_auto.
Qed.
#[export] Hint Resolve Frame_host_action : fr.

Lemma Frame_hook_action : forall e w w0, Frame w w0 -> Frame w (snd (hook_action e w0)).
Proof. unfold hook_action. fr_auto. Qed.

Lemma Frame_cleanup : forall w w0, Frame w w0 -> Frame w (cleanup w0).
Proof. unfold cleanup. intros. apply Frame_fold; auto. fr_auto. Qed.
#[export] Hint Resolve Frame_cleanup : fr.
