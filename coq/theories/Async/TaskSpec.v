(** * Async/TaskSpec.v — what C22 says about the executor model (definitions only). *)
From Coq Require Import NArith List Bool.
From WB Require Import Async.Host Async.Task.
Import ListNotations.
Local Open Scope N_scope.

(** ** Where body futures live *)
Definition body_ids (l : list body) : list N := map b_id l.
Definition root_list (tk : task) : list body := match tk_root tk with Some b => [b] | None => [] end.
Definition task_ids (tk : task) : list N := body_ids (root_list tk) ++ body_ids (fu_all (tk_fu tk)).
Definition tasks_ids (l : list (N * task)) : list N := flat_map (fun p => task_ids (snd p)) l.
(** Every body future that exists: in some task's [Tasks], or in the global [SPAWNED] queue. *)
Definition live_bodies (w : world) : list N := tasks_ids (w_tasks w) ++ body_ids (w_spawned w).

(** ** Projections of the observation trace (newest first) *)
Definition ended (w : world) : list N :=
  flat_map (fun x => match x with VEnd b _ => [b] | _ => [] end) (w_trace w).
(** body futures destroyed before they ran to completion *)
Definition udrops (w : world) : list N :=
  flat_map (fun x => match x with VEnd b false => [b] | _ => [] end) (w_trace w).
Definition finished (w : world) : list N :=
  flat_map (fun x => match x with VFin b => [b] | _ => [] end) (w_trace w).
Definition boxnews (w : world) : list N :=
  flat_map (fun x => match x with VBoxNew t => [t] | _ => [] end) (w_trace w).
Definition boxfrees (w : world) : list N :=
  flat_map (fun x => match x with VBoxFree t => [t] | _ => [] end) (w_trace w).
Definition ctx_obs (w : world) : list bool :=
  flat_map (fun x => match x with VCtxObs _ n => [n] | _ => [] end) (w_trace w).

(** Events that are neither the destruction of a body future, nor about the task box, nor a body's
    observation of the context slot. *)
Definition quiet (x : tev) : bool :=
  match x with
  | VEnd _ _ | VBoxNew _ | VBoxFree _ | VCtxObs _ _ => false
  | _ => true
  end.

(** ** Validity of a scenario (the quantifier of C22)

    Every action list is admitted except raw, unguarded events (the malformed stream); the
    driver-level guards of [do_action] make the rest "consistent with pending operations" by
    construction (events are taken from the host's own [poll] of the task's set, callbacks go to
    tasks that exist).  Excluded are runs that end in one of the runtime's *documented* user
    errors (a body sleeping on Rust-only events / a cross-task wake without the
    inter-task-wakeup feature), and runs in which the model's own fuel or the block_on driver's
    deadlock detector gives up (model artefacts; the correspondence run shows they do not occur). *)
Definition err_class (w : world) : option N :=
  match w_err w with Some (c, _) => Some c | None => None end.
Definition user_error (c : N) : bool := N.eqb c E_NOITW_SLEEP || N.eqb c E_NOITW_WAKE.
Definition artefact (c : N) : bool := N.eqb c E_FUEL || N.eqb c E_DEADLOCK.
Definition is_raw (a : action) : bool := match a with ARaw _ _ _ _ => true | _ => false end.
Definition no_raw (acts : list action) : bool := forallb (fun a => negb (is_raw a)) acts.

Definition valid (sc : scenario) : bool :=
  no_raw (sc_actions sc) &&
  match err_class (run sc) with
  | Some c => negb (user_error c || artefact c)
  | None => true
  end.

(** The classes of runtime panic that the real code does exhibit on valid scenarios (findings;
    same keys as known-findings.txt):
    - [E_BLOCKON_YIELD]: [block_on]'s Yield arm unwraps the task's waitable set, which does not
      exist when the body yields before registering any waitable;
    - [E_ITW_WRITE]: a wake through a waker that outlived a task cancelled while SLEEPING writes
      to the inter-task stream whose reader is gone (C23, section 6 item 6 of DESIGN.md). *)
Definition known_class (c : N) : bool := N.eqb c E_BLOCKON_YIELD || N.eqb c E_ITW_WRITE.

(** Callback answers, as stated by the property, on the state in which the callback returns. *)
Definition all_gone (e : env) (tk : task) : bool := tasks_empty e tk && is_nil (tk_waitables tk).
