(** * Async/SubtaskOp.v — model of an async import call (definitions only).

    Transcribes [crates/guest-rust/src/rt/async_support/subtask.rs] ([Subtask::call],
    [SubtaskOps::{start, in_progress_update, in_progress_waitable, in_progress_cancel}],
    [InProgress::flag_started], the drop of [InProgress] = [Cleanup] of the params/results area
    then [SubtaskHandle::drop]) composed with the part of [waitable.rs] it runs under
    ([WaitableOperation::{poll_complete, poll_complete_with_code, register_waker,
    unregister_waker, cancel, Drop}], [CabiTask::{new, unregister, Drop}]), driven the way
    [harness/crates/rtmock/src/bin/subtask.rs] drives the real code: one call, polled under one
    mock task (task C ABI v1 or v2), a scripted host ([Async/Host.v]).

    Panics of the runtime are explicit ([s_err]); a step emits the host calls and instrumentation
    notes it causes, in order.  The instrumentation arguments that merely echo the scenario header
    (indirect flag, numbers of lists / owned handles) are added by [render], so the state machine
    depends on the abstract configuration [acfg] only. *)
From Coq Require Import NArith ZArith List Bool.
From WB Require Import Async.Host.
Import ListNotations.
Local Open Scope N_scope.

(** Note tags of the instrumented [Subtask] implementation (9..13 are the mock task's, Host.v). *)
Definition T_LOWER := 1.       (* params_lower                      -> lower:IND *)
Definition T_CALL := 2.        (* call_import, arg = packed answer  -> call=P *)
Definition T_DL := 3.          (* params_dealloc_lists              -> dl:NLISTS *)
Definition T_DLO := 4.         (* params_dealloc_lists_and_own      -> dlo:NLISTS:NOWN *)
Definition T_LIFT := 5.        (* results_lift, arg = result byte   -> lift:B *)
Definition T_PDROP := 6.       (* Rust drop of the never-lowered parameters -> pdrop *)
Definition T_AREA_ALLOC := 7.  (* Cleanup::new allocated the params/results area -> area+1 *)
Definition T_AREA_FREE := 8.   (* Cleanup::drop freed it            -> area-1 *)

(** What the state machine depends on. *)
Record acfg := mkAcfg {
  a_v2 : bool;          (* task C ABI version >= 2 *)
  a_area : bool;        (* abi_layout().size() != 0 *)
  a_callstatus : N;     (* status the [async-lower] import answers *)
  a_callhandle : bool   (* whether it creates a subtask handle *)
}.

(** The [InProgress<T>] struct. *)
Record ip := mkIp { ip_area : bool; ip_started : bool; ip_handle : option N }.

Inductive phase :=
| PUnpolled                 (* the [call()] future exists, never polled: parameters still owned by Rust *)
| PInProgress (i : ip)      (* WaitableOperationState::InProgress *)
| PCompleted                (* the future returned Ready *)
| PGone                     (* the future was dropped *)
| PPoisoned.                (* a panic went through it *)

Inductive panic :=
| PkNotStartedAssert        (* assert!(!state.started) in in_progress_update *)
| PkFlagStartedAssert       (* assert!(!self.started) in flag_started *)
| PkUnknownCode             (* panic!("unknown code {other:#x}") *)
| PkCancelNotExposed        (* unreachable!("cancellation is not exposed API-wise ...") in call() *)
| PkUnwrapNone              (* state.subtask.as_ref().unwrap() in in_progress_waitable *)
| PkUnreachable             (* Poll::Pending => unreachable!() at the end of cancel() *)
| PkAbort.                  (* double panic / panic across extern "C": the process aborts *)

Inductive resstate := RNone | RPending | ROk (b : N) | RGone.

Record st := mkSt {
  s_h : host;
  s_t : mtask;
  s_phase : phase;
  s_code : option N;            (* completion_status.code *)
  s_waker : bool;               (* completion_status.waker.is_some() *)
  s_ctask : option (option N);  (* WaitableOperation::task: Some registered *)
  s_wakes : N;
  s_res : resstate;
  s_err : option panic
}.

Definition st_init (c : acfg) : st :=
  mkSt host_init (mtask_init 0 (a_v2 c)) PUnpolled None false None 0 RNone None.

Definition with_h (f : host -> host) (s : st) : st :=
  mkSt (f (s_h s)) (s_t s) (s_phase s) (s_code s) (s_waker s) (s_ctask s) (s_wakes s) (s_res s) (s_err s).
Definition with_th (th : mtask * host) (s : st) : st :=
  mkSt (snd th) (fst th) (s_phase s) (s_code s) (s_waker s) (s_ctask s) (s_wakes s) (s_res s) (s_err s).
Definition set_phase p (s : st) := mkSt (s_h s) (s_t s) p (s_code s) (s_waker s) (s_ctask s) (s_wakes s) (s_res s) (s_err s).
Definition set_code c (s : st) := mkSt (s_h s) (s_t s) (s_phase s) c (s_waker s) (s_ctask s) (s_wakes s) (s_res s) (s_err s).
Definition set_waker w (s : st) := mkSt (s_h s) (s_t s) (s_phase s) (s_code s) w (s_ctask s) (s_wakes s) (s_res s) (s_err s).
Definition set_ctask c (s : st) := mkSt (s_h s) (s_t s) (s_phase s) (s_code s) (s_waker s) c (s_wakes s) (s_res s) (s_err s).
Definition set_wakes n (s : st) := mkSt (s_h s) (s_t s) (s_phase s) (s_code s) (s_waker s) (s_ctask s) n (s_res s) (s_err s).
Definition set_res r (s : st) := mkSt (s_h s) (s_t s) (s_phase s) (s_code s) (s_waker s) (s_ctask s) (s_wakes s) r (s_err s).
Definition set_err e (s : st) := mkSt (s_h s) (s_t s) (s_phase s) (s_code s) (s_waker s) (s_ctask s) (s_wakes s) (s_res s) (Some e).
Definition note (tag : N) (args : list N) (s : st) : st := with_h (h_note tag args) s.

(** Drop of [InProgress]: fields in declaration order — [params_and_results] (the [Cleanup])
    first, [subtask] (the handle) last. *)
Definition drop_ip (i : ip) (s : st) : st :=
  let s := if ip_area i then note T_AREA_FREE [1] s else s in
  match ip_handle i with
  | Some w => with_h (h_subtask_drop w) s
  | None => s
  end.

(** Drop of [Option<CabiTask>]. *)
Definition drop_ctask (s : st) : st :=
  match s_ctask s with
  | None => s
  | Some r =>
      let s := match r with
               | Some w => with_th (fst (mt_unregister w (s_t s, s_h s))) s
               | None => s
               end in
      set_ctask None (with_th (mt_drop (s_t s, s_h s)) s)
  end.

(** [if let Some(task) = task { task.registered = None }] *)
Definition clear_registered (s : st) : st :=
  match s_ctask s with Some _ => set_ctask (Some None) s | None => s end.

Inductive upd_result := UReady (ok : bool) | UPending (i : ip) | UPanic (p : panic).

(** [SubtaskOps::in_progress_update] (owns [state]: a panic inside drops it while unwinding). *)
Definition update (i : ip) (c : N) (s : st) : st * upd_result :=
  let flag s := note T_DL [] s in
  let started' := mkIp (ip_area i) true (ip_handle i) in
  if c =? STATUS_STARTING then
    if ip_started i then (drop_ip i s, UPanic PkNotStartedAssert) else (s, UPending i)
  else if c =? STATUS_STARTED then
    if ip_started i then (drop_ip i s, UPanic PkFlagStartedAssert) else (flag s, UPending started')
  else if c =? STATUS_RETURNED then
    let s := if ip_started i then s else flag s in
    let b := if ip_area i then 42 else 0 in
    let s := note T_LIFT [b] s in
    (drop_ip i s, UReady true)
  else if c =? STATUS_STARTED_CANCELLED then
    if ip_started i then (drop_ip i s, UPanic PkNotStartedAssert)
    else (drop_ip i (note T_DLO [] s), UReady false)
  else if c =? STATUS_RETURNED_CANCELLED then
    let s := if ip_started i then s else flag s in
    (drop_ip i s, UReady false)
  else (drop_ip i s, UPanic PkUnknownCode).

(** [WaitableOperation::register_waker] under the mock task. *)
Definition register_waker (w : N) (s : st) : st :=
  let s := set_waker true s in
  let s :=
    if t_v2 (s_t s) then
      let s := match s_ctask s with
               | Some _ => s
               | None => set_ctask (Some None) (with_th (mt_clone (s_t s, s_h s)) s)
               end in
      set_ctask (Some (Some w)) s
    else s in
  with_th (fst (mt_register w 0 (s_t s, s_h s))) s.

(** [WaitableOperation::unregister_waker]: through the stored task (v2) or the current task (v1). *)
Definition unregister_waker (w : N) (s : st) : st :=
  let s := clear_registered s in
  with_th (fst (mt_unregister w (s_t s, s_h s))) s.

(** After [in_progress_update] inside [poll]. *)
Definition after_update_poll (area : bool) (sr : st * upd_result) : st :=
  let (s, r) := sr in
  match r with
  | UReady true => set_res (ROk (if area then 42 else 0)) (set_phase PCompleted (drop_ctask s))
  | UReady false => set_err PkCancelNotExposed (set_phase PPoisoned (drop_ctask s))
  | UPending i' =>
      match ip_handle i' with
      | Some w => register_waker w (set_phase (PInProgress i') (set_res RPending s))
      | None => set_err PkAbort (set_phase PPoisoned s)   (* unwrap panics, then again in Drop: abort *)
      end
  | UPanic p => set_err p (set_phase PPoisoned (drop_ctask s))
  end.

Definition poll (c : acfg) (s : st) : st :=
  match s_phase s with
  | PUnpolled =>
      let s := if a_area c then note T_AREA_ALLOC [1] s else s in
      let s := note T_LOWER [] s in
      let '(s, packed) :=
        if a_callhandle c then let (h, p) := h_subtask_new (a_callstatus c) (s_h s) in (with_h (fun _ => h) s, p)
        else (s, a_callstatus c) in
      let s := note T_CALL [packed] s in
      let code := packed mod 16 in
      let hd := packed / 16 in
      let i := mkIp (a_area c) false (if hd =? 0 then None else Some hd) in
      after_update_poll (a_area c) (update i code s)
  | PInProgress i =>
      match s_code s with
      | None =>
          match ip_handle i with
          | Some w => register_waker w (set_res RPending s)
          | None => set_err PkAbort (set_phase PPoisoned s)
          end
      | Some code => after_update_poll (ip_area i) (update i code (clear_registered (set_code None s)))
      end
  | _ => s
  end.

(** The lowest-numbered subtask in the host's table (what the driver's [h<c>] acts on). *)
Definition first_subtask (h : host) : option N :=
  nmin_list (map fst (filter (fun p => match snd p with ESubtask _ _ _ => true | _ => false end) (table h))).

Definition host_event (code : N) (s : st) : st :=
  match first_subtask (s_h s) with
  | Some w => with_h (h_set_event w code) s
  | None => s
  end.

(** The task polls its waitable set and delivers what it gets ([cabi_wake]: store the code, take
    and wake the waker). *)
Definition wait_deliver (s : st) : st :=
  match t_set (s_t s) with
  | None => s
  | Some set =>
      let '(h, (e, w, c)) := h_wait_poll false set (s_h s) in
      let s := with_h (fun _ => h) s in
      if e =? EVENT_NONE then s
      else
        let '(t, h, ptr) := mt_deliver w c (s_t s, s_h s) in
        let s := with_th (t, h) s in
        match ptr with
        | None => s
        | Some _ =>
            if s_waker s then set_wakes (s_wakes s + 1) (set_waker false (set_code (Some c) s))
            else set_err PkAbort (set_phase PPoisoned s)
        end
  end.

(** Unwinding out of [cancel()] called from [Drop]: the remaining fields are still dropped. *)
Definition unwind_drop (i : option ip) (p : panic) (s : st) : st :=
  let s := match i with Some i => drop_ip i s | None => s end in
  set_err p (set_phase PPoisoned (drop_ctask s)).

Definition do_cancel (i : ip) (s : st) : st :=
  match ip_handle i with
  | None => unwind_drop (Some i) PkUnwrapNone s
  | Some w =>
      let (h, c2) := h_subtask_cancel w (s_h s) in
      let s := clear_registered (with_h (fun _ => h) s) in
      let (s, r) := update i c2 s in
      match r with
      | UReady _ => set_phase PGone (drop_ctask s)
      | UPending i' => unwind_drop (Some i') PkUnreachable s
      | UPanic p => unwind_drop None p s
      end
  end.

(** Dropping the future: [Drop for WaitableOperation] = [cancel()] unless done. *)
Definition drop_future (ans : option N) (s : st) : st :=
  let s := match ans with Some a => with_h (h_push_answer a) s | None => s end in
  let s :=
    match s_phase s with
    | PUnpolled => set_res RGone (set_phase PGone (note T_PDROP [] s))
    | PInProgress i =>
        let s := set_res RGone s in
        match s_code s with
        | Some c =>
            let (s, r) := update i c (clear_registered (set_code None s)) in
            match r with
            | UReady _ => set_phase PGone (drop_ctask s)
            | UPending i' => do_cancel i' s
            | UPanic p => unwind_drop None p s
            end
        | None =>
            match ip_handle i with
            | None => unwind_drop (Some i) PkUnwrapNone s
            | Some w => do_cancel i (unregister_waker w s)
            end
        end
    | _ => s
    end in
  with_h (set_answers []) s.

Inductive action :=
| APoll                   (* p *)
| AHost (c : N)           (* h<c>: the host makes status c ready on the subtask *)
| AWait                   (* w: the task polls its set and delivers *)
| ADrop (ans : option N). (* [a<c>] x: drop the future; ans = scripted answer of subtask.cancel *)

(** One step: the new state and what was logged, in order.  Nothing happens after a panic. *)
Definition step (c : acfg) (s : st) (a : action) : st * list hostcall :=
  match s_err s with
  | Some _ => (s, [])
  | None =>
      let s := with_h h_clear_log s in
      let s := match a with
               | APoll => poll c s
               | AHost code => host_event code s
               | AWait => wait_deliver s
               | ADrop ans => drop_future ans s
               end in
      (with_h h_clear_log s, h_log (s_h s))
  end.

Fixpoint run (c : acfg) (s : st) (tr : list action) : st * list hostcall :=
  match tr with
  | [] => (s, [])
  | a :: r =>
      let (s1, l1) := step c s a in
      let (s2, l2) := run c s1 r in
      (s2, l1 ++ l2)
  end.

(** ** Validity: CM host protocol + scenario configuration *)
Definition valid_cfg (c : acfg) : bool :=
  ((a_callstatus c =? STATUS_STARTING) && a_callhandle c)
  || ((a_callstatus c =? STATUS_STARTED) && a_callhandle c)
  || ((a_callstatus c =? STATUS_RETURNED) && negb (a_callhandle c)).

(** The most advanced status of subtask [w] the host has committed to. *)
Definition host_level (s : st) (w : N) : N :=
  let st0 := match alookup w (table (s_h s)) with Some (ESubtask x _ _) => x | _ => 0 end in
  let pend := match alookup w (ready (s_h s)) with Some (_, c) => c | None => 0 end in
  let code := match s_code s with Some c => c | None => 0 end in
  N.max st0 (N.max pend code).

Definition valid_step (s : st) (a : action) : bool :=
  match a with
  | APoll | AWait => true
  | AHost c =>
      match first_subtask (s_h s) with
      | Some w =>
          match alookup w (table (s_h s)) with
          | Some (ESubtask _ res _) =>
              negb res && ((c =? STATUS_STARTED) || (c =? STATUS_RETURNED)) && (host_level s w <? c)
          | _ => false
          end
      | None => false
      end
  | ADrop None => true
  | ADrop (Some a) =>
      ((a =? STATUS_RETURNED) || (a =? STATUS_STARTED_CANCELLED) || (a =? STATUS_RETURNED_CANCELLED))
      && match s_phase s with
         | PInProgress i =>
             match ip_handle i with
             | Some w =>
                 let l := host_level s w in
                 if l =? STATUS_STARTING then true
                 else if l =? STATUS_STARTED then negb (a =? STATUS_STARTED_CANCELLED)
                 else a =? STATUS_RETURNED
             | None => true
             end
         | _ => true
         end
  end.

Fixpoint valid_from (c : acfg) (s : st) (tr : list action) : bool :=
  match tr with
  | [] => true
  | a :: r => valid_step s a && valid_from c (fst (step c s a)) r
  end.
Definition valid_trace (c : acfg) (tr : list action) : bool := valid_cfg c && valid_from c (st_init c) tr.

Definition quiescent (s : st) : bool :=
  match s_phase s with PCompleted | PGone => true | _ => false end.

(** ** Rendering: the echo arguments of the instrumentation *)
Record cfg := mkCfg { c_a : acfg; c_ind : bool; c_nlists : N; c_nown : N }.
Definition render (c : cfg) (x : hostcall) : hostcall :=
  match x with
  | HNote tag args =>
      if tag =? T_LOWER then HNote tag [if c_ind c then 1 else 0]
      else if tag =? T_DL then HNote tag [c_nlists c]
      else if tag =? T_DLO then HNote tag [c_nlists c; c_nown c]
      else x
  | _ => x
  end.
Definition model_run (c : cfg) (tr : list action) : st * list hostcall :=
  let (s, l) := run (c_a c) (st_init (c_a c)) tr in (s, map (render c) l).
