(** * Async/WaitOpInv.v — C18's invariant for every valid action list over one operation and two tasks.

    Combines the eight VM-checked reachable-set lemmas ([WaitOpReach*.v]: the set contains the initial
    state, is closed under every valid action of the finite alphabet, satisfies [inv_ok] and [bounded]
    everywhere) with: (1) every valid action of a bounded state IS in the alphabet ([valid_in_actions]),
    (2) induction over the action list.  The result is stated for the plain [WaitOp.valid_trace]. *)
From Coq Require Import NArith ZArith List Bool Lia.
From WB Require Import Async.Host Async.WaitOp Async.WaitOpProofs.
From WB Require Import Async.WaitOpReachA1 Async.WaitOpReachA2 Async.WaitOpReachB1 Async.WaitOpReachB2
  Async.WaitOpReachC1 Async.WaitOpReachC2 Async.WaitOpReachD1 Async.WaitOpReachD2.
Import ListNotations.
Local Open Scope N_scope.

(** ** The one-operation universe *)
Definition universe1 (c : wcfg) : bool := (length (wc_kinds c) =? 1)%nat.

Lemma universe1_check c : universe1 c = true -> check_cfg c = true.
Proof.
  destruct c as [a b ks]. unfold universe1. cbn [wc_kinds]. intro H.
  destruct ks as [|k [|k2 r]]; try discriminate.
  assert (In (mkWcfg a b [k]) (cfgs1 a b (match k with KSt | KSr => true | _ => false end))).
  { destruct k; cbn; auto. }
  pose proof check_A1. pose proof check_A2. pose proof check_B1. pose proof check_B2.
  pose proof check_C1. pose proof check_C2. pose proof check_D1. pose proof check_D2.
  destruct a, b, k; cbn [cfgs1] in *;
    match goal with
    | Hc : forallb check_cfg ?l = true, Hin : In ?x ?l |- check_cfg ?x = true =>
        exact (proj1 (forallb_forall _ _) Hc _ Hin)
    end.
Qed.

(** ** Valid actions of bounded states are in the alphabet *)
Ltac inl := vm_compute; repeat (first [left; reflexivity | right]).
Lemma alookup_In {A} k (l : list (N * A)) v : alookup k l = Some v -> In (k, v) l.
Proof.
  induction l as [|[k' v'] l IH]; cbn; [discriminate|].
  destruct (N.eqb_spec k k'); intro H.
  - inversion H; subst. now left.
  - right. auto.
Qed.

Lemma codes_small c : c mod 16 <= 2 -> c / 16 <= 4 -> In c codes.
Proof.
  intros Hr Hq. pose proof (N.div_mod c 16 ltac:(discriminate)) as E.
  remember (c / 16) as q. remember (c mod 16) as r. clear Heqq Heqr. subst c.
  assert (Q : q = 0 \/ q = 1 \/ q = 2 \/ q = 3 \/ q = 4) by lia.
  assert (R : r = 0 \/ r = 1 \/ r = 2) by lia.
  destruct Q as [->|[->|[->|[->| ->]]]]; destruct R as [->|[->| ->]]; inl.
Qed.

Lemma answers_none : In None answers. Proof. now left. Qed.
Lemma answers_some c : In c codes -> In (Some c) answers.
Proof. intro H. right. now apply in_map. Qed.

Lemma task_enum t : task_ok t = true -> In t [0; 1].
Proof. unfold task_ok. intro H. apply N.ltb_lt in H. assert (E : t = 0 \/ t = 1) by lia. destruct E as [-> | ->]; inl. Qed.

Lemma op_enum s o : (length (w_ops s) =? 1)%nat = true -> op_ok s o = true -> o = 0.
Proof.
  unfold op_ok. intros H1 H2. apply Nat.eqb_eq in H1. rewrite H1 in H2.
  apply Nat.ltb_lt in H2. lia.
Qed.

Lemma pcd_in t a : In t [0; 1] -> In a answers ->
  In (APoll t 0 a) actions /\ In (ACancel t 0 a) actions /\ In (ADrop t 0 a) actions.
Proof.
  intros Ht Ha. unfold actions.
  repeat split; apply in_or_app; left; apply in_flat_map; exists t; (split; [exact Ht|]);
    apply in_flat_map; exists a; (split; [exact Ha|]); cbn; auto.
Qed.
Lemma host_in c : In c codes -> In (AHost 0 c) actions.
Proof. intro H. unfold actions. apply in_or_app. right. apply in_or_app. left. now apply in_map. Qed.
Lemma deliver_in t p : In t [0; 1] -> p = None \/ p = Some 0 -> In (ADeliver t p) actions.
Proof.
  intros Ht Hp. unfold actions. apply in_or_app. right. apply in_or_app. right.
  apply in_flat_map. exists t. split; [exact Ht|]. destruct Hp as [-> | ->]; cbn; auto.
Qed.

Ltac bsplit :=
  repeat match goal with
         | H : _ && _ = true |- _ => apply andb_prop in H as [? ?]
         end.

Lemma completion_in k c : completion_code_ok k c = true -> In c codes.
Proof.
  destruct k; cbn [completion_code_ok]; try discriminate; intro H.
  1,2: bsplit; apply codes_small;
       [ match goal with H : _ || _ = true |- _ => apply orb_prop in H as [H|H]; apply N.eqb_eq in H; rewrite H; vm_compute; discriminate end
       | unfold count_le4 in *; now apply N.leb_le ].
  apply N.eqb_eq in H. subst. inl.
Qed.

Lemma cancel_code_in k c : cancel_code_ok k c = true -> In c codes.
Proof.
  destruct k; cbn [cancel_code_ok]; try discriminate; intro H.
  1,2: bsplit; apply codes_small;
       [ match goal with H : _ || _ = true |- _ =>
           apply orb_prop in H as [H|H]; [apply orb_prop in H as [H|H]|]; apply N.eqb_eq in H; rewrite H; vm_compute; discriminate end
       | unfold count_le4 in *; now apply N.leb_le ].
  apply orb_prop in H as [H|H]; apply N.eqb_eq in H; subst; inl.
Qed.

Lemma ready_code_in (p : pst) w k c :
  bounded p = true -> alookup w (ready (w_h (fst p))) = Some (k, c) -> In c codes.
Proof.
  unfold bounded. intros H Hl. apply andb_prop in H as [_ H].
  rewrite forallb_forall in H. specialize (H _ (alookup_In _ _ _ Hl)). cbn [snd] in H.
  apply existsb_exists in H as [x [Hx He]]. apply N.eqb_eq in He. now subst.
Qed.

Lemma start_answer_in k ans : start_answer_ok k ans = true -> In ans answers.
Proof.
  destruct ans as [a|]; [|intros; apply answers_none]. intro H. apply answers_some.
  destruct k; cbn [start_answer_ok] in H.
  - apply N.leb_le in H. unfold STATUS_RETURNED in H. assert (E : a = 0 \/ a = 1 \/ a = 2) by lia.
    destruct E as [->|[->| ->]]; inl.
  - apply orb_prop in H as [H|H]; [apply N.eqb_eq in H; subst; now left | now apply completion_in in H].
  - apply orb_prop in H as [H|H]; [apply N.eqb_eq in H; subst; now left | now apply completion_in in H].
  - apply orb_prop in H as [H|H]; [apply N.eqb_eq in H; subst; now left | now apply completion_in in H].
Qed.

Lemma cancel_answer_in (p : pst) o ans :
  bounded p = true -> cancel_answer_ok (fst p) o ans = true -> In ans answers.
Proof.
  intros Hb H. destruct ans as [a|]; [|apply answers_none]. apply answers_some.
  unfold cancel_answer_ok in H.
  destruct (o_kind (get_op (fst p) o)) eqn:Ek; destruct (o_handle (get_op (fst p) o)) as [w|] eqn:Eh; try discriminate.
  - apply andb_prop in H as [H _].
    apply orb_prop in H as [H|H]; [apply orb_prop in H as [H|H]|]; apply N.eqb_eq in H; subst; inl.
  - destruct (alookup w (ready (w_h (fst p)))) as [[k c]|] eqn:Er.
    + apply N.eqb_eq in H. subst. eapply ready_code_in; eauto.
    + now apply cancel_code_in in H.
  - destruct (alookup w (ready (w_h (fst p)))) as [[k c]|] eqn:Er.
    + apply N.eqb_eq in H. subst. eapply ready_code_in; eauto.
    + now apply cancel_code_in in H.
  - destruct (alookup w (ready (w_h (fst p)))) as [[k c]|] eqn:Er.
    + apply N.eqb_eq in H. subst. eapply ready_code_in; eauto.
    + now apply cancel_code_in in H.
Qed.

Lemma valid_in_actions (p : pst) a :
  bounded p = true -> valid_step (fst p) a = true -> In a actions.
Proof.
  intros Hb Hv. pose proof Hb as Hb'. unfold bounded in Hb'. apply andb_prop in Hb' as [Hlen _].
  destruct a as [t o ans | t o ans | t o ans | o c | t pick]; cbn [valid_step] in Hv; bsplit.
  - (* poll *)
    assert (o = 0) by (eapply op_enum; eauto). subst o.
    apply pcd_in; [now apply task_enum|].
    destruct (o_phase (get_op (fst p) 0)); try discriminate.
    + now apply start_answer_in in H0.
    + destruct ans; [discriminate|apply answers_none].
  - (* cancel *)
    assert (o = 0) by (eapply op_enum; eauto). subst o.
    apply pcd_in; [now apply task_enum|].
    destruct (o_kind (get_op (fst p) 0)); try discriminate;
      (destruct (o_phase (get_op (fst p) 0)); try discriminate;
       [ destruct ans; [discriminate|apply answers_none]
       | eapply cancel_answer_in; eauto ]).
  - (* drop *)
    assert (o = 0) by (eapply op_enum; eauto). subst o.
    apply pcd_in; [now apply task_enum|].
    destruct (o_phase (get_op (fst p) 0)); try discriminate;
      try (destruct ans; [discriminate|apply answers_none]).
    eapply cancel_answer_in; eauto.
  - (* host event *)
    assert (o = 0) by (eapply op_enum; eauto). subst o.
    apply host_in.
    destruct (o_phase (get_op (fst p) 0)); try discriminate.
    destruct (op_waitable (fst p) 0) as [w|]; try discriminate.
    destruct (o_kind (get_op (fst p) 0)).
    + destruct (alookup w (table (w_h (fst p)))) as [[]|]; try discriminate. bsplit.
      match goal with H : _ || _ = true |- _ => apply orb_prop in H as [H|H]; apply N.eqb_eq in H; subst; inl end.
    + destruct (alookup w (table (w_h (fst p)))) as [[| | ? ? ? [?|] ? |]|]; try discriminate. bsplit. eapply completion_in; eauto.
    + destruct (alookup w (table (w_h (fst p)))) as [[| | ? ? ? [?|] ? |]|]; try discriminate. bsplit. eapply completion_in; eauto.
    + destruct (alookup w (table (w_h (fst p)))) as [[| | ? ? ? [?|] ? |]|]; try discriminate. bsplit. eapply completion_in; eauto.
  - (* deliver *)
    apply deliver_in; [now apply task_enum|].
    destruct pick as [o|]; [right|now left].
    f_equal. eapply op_enum; eauto.
Qed.

(** ** Induction over the action list *)
Lemma valid_from_app s tr a :
  valid_from s (tr ++ [a]) = valid_from s tr && valid_step (fst (run s tr)) a.
Proof.
  revert s. induction tr as [|b tr IH]; intro s; cbn [app valid_from run].
  - cbn. now rewrite andb_true_r.
  - rewrite IH. destruct (step s b) as [s1 l1] eqn:E. cbn [fst].
    destruct (run s1 tr) as [s2 l2]. cbn [fst]. now rewrite andb_assoc.
Qed.

Lemma run_app s tr a :
  run s (tr ++ [a]) = let (s1, l1) := run s tr in let (s2, l2) := step s1 a in (s2, l1 ++ l2).
Proof.
  revert s. induction tr as [|b tr IH]; intro s; cbn [app run].
  - destruct (step s a) as [s2 l2]. now rewrite app_nil_r.
  - destruct (step s b) as [s1 l1]. rewrite IH.
    destruct (run s1 tr) as [s2 l2]. destruct (step s2 a) as [s3 l3]. now rewrite app_assoc.
Qed.

Lemma prun_snoc c tr a : prun c (tr ++ [a]) = pstep (prun c tr) a.
Proof. unfold prun. rewrite fold_left_app. reflexivity. Qed.

Lemma prun_fst c tr : fst (prun c tr) = fst (run (fst (winit c)) tr).
Proof.
  induction tr as [|a tr IH] using rev_ind; [reflexivity|].
  rewrite prun_snoc, run_app. unfold pstep. rewrite IH.
  destruct (run (fst (winit c)) tr) as [s1 l1]. cbn [fst].
  destruct (step s1 a) as [s2 l2]. reflexivity.
Qed.

Theorem reach_invariant c tr :
  universe1 c = true -> valid_trace c tr = true ->
  In (prun c tr) (ss_all (reach_set c)).
Proof.
  intros Hu Hv. pose proof (universe1_check c Hu) as Hc. unfold check_cfg in Hc.
  apply andb_prop in Hc as [Hc Hbounded]. apply andb_prop in Hc as [Hclosed _].
  unfold closed in Hclosed. apply andb_prop in Hclosed as [Hinit Hstep].
  unfold valid_trace in Hv.
  induction tr as [|a tr IH] using rev_ind.
  - apply ss_mem_In. exact Hinit.
  - rewrite valid_from_app in Hv. apply andb_prop in Hv as [Htr Ha].
    specialize (IH Htr). rewrite <- prun_fst in Ha.
    rewrite forallb_forall in Hbounded. pose proof (Hbounded _ IH) as Hb.
    pose proof (valid_in_actions _ _ Hb Ha) as Hin.
    rewrite forallb_forall in Hstep. specialize (Hstep _ IH).
    rewrite forallb_forall in Hstep. specialize (Hstep a Hin).
    rewrite Ha in Hstep. cbn [negb orb] in Hstep.
    rewrite prun_snoc. apply ss_mem_In. exact Hstep.
Qed.

Theorem inv_holds c tr :
  universe1 c = true -> valid_trace c tr = true -> inv_ok (prun c tr) = true.
Proof.
  intros Hu Hv. pose proof (universe1_check c Hu) as Hc. unfold check_cfg in Hc.
  apply andb_prop in Hc as [Hc _]. apply andb_prop in Hc as [_ Hinv].
  rewrite forallb_forall in Hinv. apply Hinv. now apply reach_invariant.
Qed.

(** ** The invariant as a proposition *)
Definition final (c : wcfg) (tr : list action) : wst := fst (run (fst (winit c)) tr).
Definition full_log (c : wcfg) (tr : list action) : list hostcall := snd (winit c) ++ snd (run (fst (winit c)) tr).

Record Inv (s : wst) : Prop := mkInv {
  (* no runtime panic; (ii) nothing was cancelled or dropped while joined to a set or present in a map *)
  inv_no_panic : w_err s = None;
  inv_removed_before_cancel_or_drop : w_bad s = false;
  (* (iii) every completion code handed to the guest is consumed by exactly one in_progress_update
     or is still waiting in its operation's slot *)
  inv_exactly_once : w_handed s = w_updates s + pending_codes s;
  (* (i) + (iv): a registration (w -> o) in task t's map: o is a live operation in progress whose waitable
     is w, with no unconsumed code, a stored waker, and w is joined to t's waitable set *)
  inv_registered : forall t w o, In t (w_tasks s) -> In (w, o) (t_map t) ->
      (N.to_nat o < length (w_ops s))%nat
      /\ o_phase (get_op s o) = OProg /\ o_handle (get_op s o) = Some w
      /\ o_code (get_op s o) = None /\ o_waker (get_op s o) <> None
      /\ exists st, t_set t = Some st /\ alookup w (joined (w_h s)) = Some st;
  (* conversely every waitable joined to a set is registered with the task owning that set *)
  inv_joined : forall w st, In (w, st) (joined (w_h s)) ->
      exists t, In t (w_tasks s) /\ t_set t = Some st /\ amem w (t_map t) = true;
  (* once every operation has been dropped nothing is left behind *)
  inv_residue : all_gone s = true ->
      joined (w_h s) = [] /\ forall t, In t (w_tasks s) -> t_map t = [] /\ t_clones t = 0%Z
}.

Lemma inv_ok_Inv p : inv_ok p = true -> Inv (fst p) /\ snd p = false.
Proof.
  unfold inv_ok. intro H.
  repeat match type of H with _ && _ = true => let H2 := fresh "H" in apply andb_prop in H as [H H2] end.
  split; [|now destruct (snd p)].
  constructor.
  - destruct (w_err (fst p)); [discriminate|reflexivity].
  - now destruct (w_bad (fst p)).
  - now apply N.eqb_eq.
  - intros t w o Ht He. rewrite forallb_forall in H2. specialize (H2 _ Ht).
    rewrite forallb_forall in H2. specialize (H2 _ He). unfold map_entry_ok in H2.
    repeat match type of H2 with _ && _ = true => let H3 := fresh "H" in apply andb_prop in H2 as [H2 H3] end.
    split; [now apply Nat.ltb_lt|].
    destruct (o_phase (get_op (fst p) o)); try discriminate. split; [reflexivity|].
    destruct (o_handle (get_op (fst p) o)) as [w'|]; try discriminate.
    match goal with Hq : (w' =? w) = true |- _ => apply N.eqb_eq in Hq; subst w' end. split; [reflexivity|].
    destruct (o_code (get_op (fst p) o)); try discriminate. split; [reflexivity|].
    destruct (o_waker (get_op (fst p) o)); try discriminate. split; [discriminate|].
    destruct (t_set t) as [st|]; try discriminate.
    destruct (alookup w (joined (w_h (fst p)))) as [sj|]; try discriminate.
    match goal with Hq : (st =? sj) = true |- _ => apply N.eqb_eq in Hq; subst sj end.
    exists st. auto.
  - intros w st Hin. rewrite forallb_forall in H1. specialize (H1 _ Hin). cbn in H1.
    apply existsb_exists in H1 as [t [Ht He]]. exists t. split; [exact Ht|].
    destruct (t_set t) as [s'|]; try discriminate. apply andb_prop in He as [E1 E2].
    apply N.eqb_eq in E1. subst. auto.
  - intro Hg. rewrite Hg in H0. cbn [negb orb] in H0. apply andb_prop in H0 as [Ha Hb].
    split; [destruct (joined (w_h (fst p))); [reflexivity|discriminate]|].
    intros t Ht. rewrite forallb_forall in Ha. specialize (Ha _ Ht).
    destruct (t_map t); [|discriminate]. split; [reflexivity|]. now apply Z.eqb_eq.
Qed.

Lemma prun_trap c tr : snd (prun c tr) = has_trap (full_log c tr).
Proof.
  unfold full_log.
  induction tr as [|a tr IH] using rev_ind.
  - cbn [run snd]. rewrite app_nil_r. reflexivity.
  - rewrite prun_snoc, run_app. unfold pstep. rewrite IH, prun_fst.
    destruct (run (fst (winit c)) tr) as [s1 l1]. cbn [fst snd].
    destruct (step s1 a) as [s2 l2]. cbn [snd].
    unfold has_trap. rewrite !existsb_app. now rewrite orb_assoc.
Qed.

Theorem waitop_invariant c tr :
  universe1 c = true -> valid_trace c tr = true ->
  Inv (final c tr) /\ has_trap (full_log c tr) = false.
Proof.
  intros Hu Hv. pose proof (inv_holds c tr Hu Hv) as H. apply inv_ok_Inv in H as [HI Ht].
  rewrite prun_fst in HI. rewrite prun_trap in Ht. auto.
Qed.

(** ** Non-vacuity and the v1 witness *)
(** A valid action list with a race: a stream read moves from task 0 to task 1 (both v2) while its
    completion is already queued in the host, is delivered by task 1, then cancelled before being polled. *)
Example valid_move_example :
  let c := mkWcfg true true [KSr] in
  let tr := [APoll 0 0 None; AHost 0 (rc COMPLETED 3); APoll 1 0 None; ADeliver 1 None; ACancel 0 0 None; ADrop 0 0 None] in
  valid_trace c tr = true /\ universe1 c = true /\ all_gone (final c tr) = true.
Proof. vm_compute. repeat split. Qed.

(** Without the v1 same-task assumption the invariant fails: a stream read registered under a v2 task
    and then polled under a v1 task stays in the v1 task's map after it is dropped — a registration that
    points to a dropped operation (a dangling pointer in the real runtime).  [same_task_rule] is exactly
    what [valid_trace] rejects in this list. *)
Theorem v1_move_refuted :
  let c := mkWcfg true false [KSr] in
  let tr := [APoll 0 0 None; APoll 1 0 None; ADrop 1 0 None] in
  let s := final c tr in
  valid_trace c tr = false
  /\ valid_trace c [APoll 0 0 None] = true
  /\ same_task_rule (final c [APoll 0 0 None]) 1 0 = false
  /\ o_phase (get_op s 0) = OGone
  /\ t_map (get_task s 1) = [(1, 0)]
  /\ w_err s = None.
Proof. vm_compute. repeat split. Qed.

(** A second witness: the operation is NOT registered anywhere when it moves (its partial-progress event
    was delivered under the v2 task 0), it is then polled under the v1 task 1 — which registers it there
    but keeps the stale v2 [CabiTask] — and dropped: [unregister_waker] goes through the stale v2 task, so
    task 1's registration survives the operation. *)
Theorem v2_to_v1_move_after_delivery_refuted :
  let c := mkWcfg true false [KSt] in
  let tr := [APoll 0 0 (Some 0); AHost 0 1; ADeliver 0 None; APoll 1 0 None; ADrop 1 0 None] in
  let s := final c tr in
  valid_trace c tr = false
  /\ valid_trace c [APoll 0 0 (Some 0); AHost 0 1; ADeliver 0 None] = true
  /\ in_some_map (final c [APoll 0 0 (Some 0); AHost 0 1; ADeliver 0 None]) 1 = false
  /\ o_phase (get_op s 0) = OGone
  /\ t_map (get_task s 1) = [(1, 0)]
  /\ w_err s = None.
Proof. vm_compute. repeat split. Qed.
