(** * Async/SubtaskOpSpec.v — C21's statement as an executable monitor over a log (definitions only).

    The monitor reads a log (host calls + instrumentation notes, in order) of ONE async import
    call and reports the first rule of C21 it breaks.  It is evaluated by the check's search leg on
    the logs the REAL code produced (extracted to OCaml), and it is what the theorems of
    [Props/C21.v] are stated with.

    Rules while the log is read ([mon_step]):
    - the import is called at most once, parameters are lowered at most once and before the call;
    - [params_dealloc_lists] (dl) at most once, only after the guest has been told a status that
      implies the callee started (STARTED, RETURNED, RETURNED_CANCELLED), never together with
      [params_dealloc_lists_and_own] (dlo);
    - dlo at most once and only after STARTED_CANCELLED;
    - [results_lift] at most once and only after RETURNED;
    - [subtask.drop] at most once, only if a handle existed and only after the resolution;
    - [subtask.cancel] at most once and only while the call is in progress (no resolution yet);
    - no status is reported after the resolution;
    - the params/results area is allocated at most once, freed at most once, and nothing
      (lower, call, dl, dlo, lift) uses it after it was freed;
    - the never-lowered parameters are dropped by Rust (pdrop) at most once and only if never lowered;
    - the host never traps.
    Rules at quiescence ([mon_final], the future completed or was dropped): if the import was
    called then it was resolved; dl = 1 and dlo = 0 unless the resolution is STARTED_CANCELLED, in
    which case dlo = 1 and dl = 0; lift = 1 iff the resolution is RETURNED; subtask.drop = 1 iff a
    handle existed; the area was allocated iff the layout is non-empty and freed as often as
    allocated; pdrop = 0.  If the import was never called: pdrop = 1 and nothing else happened. *)
From Coq Require Import NArith List Bool.
From WB Require Import Async.Host Async.SubtaskOp.
Import ListNotations.
Local Open Scope N_scope.

Inductive violation :=
| VDoubleCall | VLowerTwice | VLowerAfterCall
| VDlTwice | VDlBeforeStart | VDlAndDlo
| VDloTwice | VDloWithoutStartedCancelled
| VLiftTwice | VLiftNotReturned
| VSubDropTwice | VSubDropNoHandle | VSubDropUnresolved
| VCancelAfterResolved | VCancelTwice
| VStatusAfterResolution
| VAreaAllocTwice | VAreaFreeUnallocated | VUseAfterFree
| VPdropAfterLower | VPdropTwice
| VTrap
| VUnresolved | VDlCount | VDloCount | VLiftCount | VSubDropCount | VAreaCount | VAreaLeak | VPdropCount | VNotCalledButActive.

Record mon := mkMon {
  m_called : bool;
  m_handle : bool;
  m_started : bool;
  m_resolution : option N;
  m_lower : N; m_dl : N; m_dlo : N; m_lift : N; m_stdrop : N; m_stcancel : N;
  m_alloc : N; m_free : N; m_pdrop : N;
  m_bad : option violation
}.

Definition mon_init : mon := mkMon false false false None 0 0 0 0 0 0 0 0 0 None.

Definition flag (b : bool) (v : violation) (m : mon) : mon :=
  match m_bad m with
  | Some _ => m
  | None => if b then mkMon (m_called m) (m_handle m) (m_started m) (m_resolution m) (m_lower m) (m_dl m) (m_dlo m)
                          (m_lift m) (m_stdrop m) (m_stcancel m) (m_alloc m) (m_free m) (m_pdrop m) (Some v)
            else m
  end.

(** The area existed and has been freed. *)
Definition area_gone (m : mon) : bool := (0 <? m_alloc m) && (m_alloc m <=? m_free m).

Definition is_resolving (c : N) : bool :=
  (c =? STATUS_RETURNED) || (c =? STATUS_STARTED_CANCELLED) || (c =? STATUS_RETURNED_CANCELLED).
Definition implies_started (c : N) : bool :=
  (c =? STATUS_STARTED) || (c =? STATUS_RETURNED) || (c =? STATUS_RETURNED_CANCELLED).

(** The guest is told status [c] (by the call, a delivered event, or subtask.cancel). *)
Definition status_seen (c : N) (m : mon) : mon :=
  let m := flag (match m_resolution m with Some _ => true | None => false end) VStatusAfterResolution m in
  mkMon (m_called m) (m_handle m) (m_started m || implies_started c)
        (match m_resolution m with Some r => Some r | None => if is_resolving c then Some c else None end)
        (m_lower m) (m_dl m) (m_dlo m) (m_lift m) (m_stdrop m) (m_stcancel m) (m_alloc m) (m_free m) (m_pdrop m) (m_bad m).

Definition upd_counts (m : mon) (called handle : bool) (lower dl dlo lift stdrop stcancel alloc free pdrop : N) : mon :=
  mkMon called handle (m_started m) (m_resolution m) lower dl dlo lift stdrop stcancel alloc free pdrop (m_bad m).

Definition mon_step (m : mon) (x : hostcall) : mon :=
  match x with
  | HNote tag args =>
      if tag =? T_LOWER then
        let m := flag (0 <? m_lower m) VLowerTwice m in
        let m := flag (m_called m) VLowerAfterCall m in
        let m := flag (area_gone m) VUseAfterFree m in
        upd_counts m (m_called m) (m_handle m) (m_lower m + 1) (m_dl m) (m_dlo m) (m_lift m) (m_stdrop m) (m_stcancel m) (m_alloc m) (m_free m) (m_pdrop m)
      else if tag =? T_CALL then
        let p := match args with p :: _ => p | [] => 0 end in
        let m := flag (m_called m) VDoubleCall m in
        let m := flag (area_gone m) VUseAfterFree m in
        let m := upd_counts m true (negb (p / 16 =? 0)) (m_lower m) (m_dl m) (m_dlo m) (m_lift m) (m_stdrop m) (m_stcancel m) (m_alloc m) (m_free m) (m_pdrop m) in
        status_seen (p mod 16) m
      else if tag =? T_TDELIVER then
        match args with
        | [_; _; c] => status_seen c m
        | _ => m
        end
      else if tag =? T_DL then
        let m := flag (0 <? m_dl m) VDlTwice m in
        let m := flag (0 <? m_dlo m) VDlAndDlo m in
        let m := flag (negb (m_started m)) VDlBeforeStart m in
        let m := flag (area_gone m) VUseAfterFree m in
        upd_counts m (m_called m) (m_handle m) (m_lower m) (m_dl m + 1) (m_dlo m) (m_lift m) (m_stdrop m) (m_stcancel m) (m_alloc m) (m_free m) (m_pdrop m)
      else if tag =? T_DLO then
        let m := flag (0 <? m_dlo m) VDloTwice m in
        let m := flag (0 <? m_dl m) VDlAndDlo m in
        let m := flag (negb (match m_resolution m with Some r => r =? STATUS_STARTED_CANCELLED | None => false end)) VDloWithoutStartedCancelled m in
        let m := flag (area_gone m) VUseAfterFree m in
        upd_counts m (m_called m) (m_handle m) (m_lower m) (m_dl m) (m_dlo m + 1) (m_lift m) (m_stdrop m) (m_stcancel m) (m_alloc m) (m_free m) (m_pdrop m)
      else if tag =? T_LIFT then
        let m := flag (0 <? m_lift m) VLiftTwice m in
        let m := flag (negb (match m_resolution m with Some r => r =? STATUS_RETURNED | None => false end)) VLiftNotReturned m in
        let m := flag (area_gone m) VUseAfterFree m in
        upd_counts m (m_called m) (m_handle m) (m_lower m) (m_dl m) (m_dlo m) (m_lift m + 1) (m_stdrop m) (m_stcancel m) (m_alloc m) (m_free m) (m_pdrop m)
      else if tag =? T_PDROP then
        let m := flag (0 <? m_pdrop m) VPdropTwice m in
        let m := flag (0 <? m_lower m) VPdropAfterLower m in
        upd_counts m (m_called m) (m_handle m) (m_lower m) (m_dl m) (m_dlo m) (m_lift m) (m_stdrop m) (m_stcancel m) (m_alloc m) (m_free m) (m_pdrop m + 1)
      else if tag =? T_AREA_ALLOC then
        let m := flag (0 <? m_alloc m) VAreaAllocTwice m in
        upd_counts m (m_called m) (m_handle m) (m_lower m) (m_dl m) (m_dlo m) (m_lift m) (m_stdrop m) (m_stcancel m) (m_alloc m + 1) (m_free m) (m_pdrop m)
      else if tag =? T_AREA_FREE then
        let m := flag (m_alloc m <=? m_free m) VAreaFreeUnallocated m in
        upd_counts m (m_called m) (m_handle m) (m_lower m) (m_dl m) (m_dlo m) (m_lift m) (m_stdrop m) (m_stcancel m) (m_alloc m) (m_free m + 1) (m_pdrop m)
      else m
  | HSubCancel _ c =>
      let m := flag (match m_resolution m with Some _ => true | None => false end) VCancelAfterResolved m in
      let m := flag (0 <? m_stcancel m) VCancelTwice m in
      let m := upd_counts m (m_called m) (m_handle m) (m_lower m) (m_dl m) (m_dlo m) (m_lift m) (m_stdrop m) (m_stcancel m + 1) (m_alloc m) (m_free m) (m_pdrop m) in
      (* the answer is a status told to the guest; it is not "after the resolution" by construction *)
      mkMon (m_called m) (m_handle m) (m_started m || implies_started c)
            (match m_resolution m with Some r => Some r | None => if is_resolving c then Some c else None end)
            (m_lower m) (m_dl m) (m_dlo m) (m_lift m) (m_stdrop m) (m_stcancel m) (m_alloc m) (m_free m) (m_pdrop m) (m_bad m)
  | HSubDrop _ =>
      let m := flag (0 <? m_stdrop m) VSubDropTwice m in
      let m := flag (negb (m_handle m)) VSubDropNoHandle m in
      let m := flag (match m_resolution m with Some _ => false | None => true end) VSubDropUnresolved m in
      upd_counts m (m_called m) (m_handle m) (m_lower m) (m_dl m) (m_dlo m) (m_lift m) (m_stdrop m + 1) (m_stcancel m) (m_alloc m) (m_free m) (m_pdrop m)
  | HTrap _ => flag true VTrap m
  | _ => m
  end.

Definition mon_run (l : list hostcall) : mon := fold_left mon_step l mon_init.

Definition b2n (b : bool) : N := if b then 1 else 0.

(** The exactly-once conditions at quiescence; [area] = the layout is non-empty. *)
Definition mon_final (area : bool) (m : mon) : option violation :=
  if m_called m then
    match m_resolution m with
    | None => Some VUnresolved
    | Some r =>
        let sc := r =? STATUS_STARTED_CANCELLED in
        if negb (m_dl m =? b2n (negb sc)) then Some VDlCount
        else if negb (m_dlo m =? b2n sc) then Some VDloCount
        else if negb (m_lift m =? b2n (r =? STATUS_RETURNED)) then Some VLiftCount
        else if negb (m_stdrop m =? b2n (m_handle m)) then Some VSubDropCount
        else if negb (m_alloc m =? b2n area) then Some VAreaCount
        else if negb (m_free m =? m_alloc m) then Some VAreaLeak
        else if negb (m_pdrop m =? 0) then Some VPdropCount
        else None
    end
  else
    if negb (m_pdrop m =? 1) then Some VPdropCount
    else if negb ((m_lower m =? 0) && (m_alloc m =? 0) && (m_dl m =? 0) && (m_dlo m =? 0) && (m_lift m =? 0)
                  && (m_stdrop m =? 0) && (m_stcancel m =? 0)) then Some VNotCalledButActive
    else None.

(** C21 on one log.  [quiescent]: the future completed or was dropped. *)
Definition c21_check (area quiescent : bool) (l : list hostcall) : option violation :=
  let m := mon_run l in
  match m_bad m with
  | Some v => Some v
  | None => if quiescent then mon_final area m else None
  end.
