(** * Async/WaitOpProofs.v — C18's invariant for every valid action list (universes of <= 2 operations).

    Method (as for C21): the model state carries no log, so for a fixed scenario configuration the
    states reachable under valid actions form a finite set, and valid actions range over a finite
    alphabet.  [explore] computes the set (hash-bucketed in a [PositiveMap]); [vm_compute] checks that
    it contains the initial state, is closed under every valid action of the alphabet and satisfies
    the invariant everywhere; induction over the action list lifts this to lists of any length. *)
From Coq Require Import NArith ZArith List Bool Lia FMapPositive.
From WB Require Import Async.Host Async.WaitOp.
Import ListNotations.
Local Open Scope N_scope.
Module PM := PositiveMap.

(** ** Decidable equality *)
Definition option_eq_dec {A} (d : forall x y : A, {x = y} + {x <> y}) : forall x y : option A, {x = y} + {x <> y}.
Proof. decide equality. Defined.
Definition prod_eq_dec {A B} (da : forall x y : A, {x = y} + {x <> y}) (db : forall x y : B, {x = y} + {x <> y})
  : forall x y : A * B, {x = y} + {x <> y}.
Proof. decide equality. Defined.
Definition trap_eq_dec : forall x y : trap, {x = y} + {x <> y}. Proof. decide equality. Defined.
Definition entry_eq_dec : forall x y : entry, {x = y} + {x <> y}.
Proof. decide equality; auto using N.eq_dec, bool_dec, (option_eq_dec N.eq_dec). Defined.
Definition chan_eq_dec : forall x y : chan, {x = y} + {x <> y}.
Proof. decide equality; auto using N.eq_dec, bool_dec, (option_eq_dec N.eq_dec). Defined.
Definition hostcall_eq_dec : forall x y : hostcall, {x = y} + {x <> y}.
Proof. decide equality; auto using N.eq_dec, bool_dec, trap_eq_dec, (list_eq_dec N.eq_dec). Defined.
Definition host_eq_dec : forall x y : host, {x = y} + {x <> y}.
Proof.
  decide equality; auto using N.eq_dec,
    (list_eq_dec N.eq_dec), (list_eq_dec hostcall_eq_dec), (list_eq_dec chan_eq_dec),
    (list_eq_dec (prod_eq_dec N.eq_dec N.eq_dec)),
    (list_eq_dec (prod_eq_dec N.eq_dec (prod_eq_dec N.eq_dec N.eq_dec))),
    (list_eq_dec (prod_eq_dec N.eq_dec entry_eq_dec)).
Defined.
Definition mtask_eq_dec : forall x y : mtask, {x = y} + {x <> y}.
Proof.
  decide equality; auto using N.eq_dec, Z.eq_dec, bool_dec, (option_eq_dec N.eq_dec),
    (list_eq_dec (prod_eq_dec N.eq_dec N.eq_dec)).
Defined.
Definition okind_eq_dec : forall x y : okind, {x = y} + {x <> y}. Proof. decide equality. Defined.
Definition ophase_eq_dec : forall x y : ophase, {x = y} + {x <> y}. Proof. decide equality. Defined.
Definition wpanic_eq_dec : forall x y : wpanic, {x = y} + {x <> y}. Proof. decide equality. Defined.
Definition op_eq_dec : forall x y : op, {x = y} + {x <> y}.
Proof.
  decide equality; auto using bool_dec, okind_eq_dec, ophase_eq_dec, (option_eq_dec N.eq_dec),
    (option_eq_dec (prod_eq_dec N.eq_dec (option_eq_dec N.eq_dec))).
Defined.
Definition wst_eq_dec : forall x y : wst, {x = y} + {x <> y}.
Proof.
  decide equality; auto using N.eq_dec, bool_dec, host_eq_dec, (list_eq_dec mtask_eq_dec), (list_eq_dec op_eq_dec),
    (list_eq_dec N.eq_dec), (option_eq_dec wpanic_eq_dec).
Defined.
Definition action_eq_dec : forall x y : action, {x = y} + {x <> y}.
Proof. decide equality; auto using N.eq_dec, (option_eq_dec N.eq_dec). Defined.

(** ** Product state: the model state and "some step trapped in the host". *)
Definition pst := (wst * bool)%type.
Definition pst_eq_dec : forall x y : pst, {x = y} + {x <> y} := prod_eq_dec wst_eq_dec bool_dec.
Definition pst_eqb (x y : pst) : bool := if pst_eq_dec x y then true else false.
Lemma pst_eqb_eq x y : pst_eqb x y = true -> x = y.
Proof. unfold pst_eqb. destruct (pst_eq_dec x y); congruence. Qed.

Definition has_trap (l : list hostcall) : bool := existsb (fun c => match c with HTrap _ => true | _ => false end) l.
Definition pstep (p : pst) (a : action) : pst :=
  let (s', l) := step (fst p) a in (s', snd p || has_trap l).
Definition pinit (c : wcfg) : pst := (fst (winit c), has_trap (snd (winit c))).
Definition prun (c : wcfg) (tr : list action) : pst := fold_left pstep tr (pinit c).

(** ** The finite alphabet of the one-operation universe: tasks 0-1, operation 0, counts 0-4 *)
Definition codes : list N :=
  BLOCKED :: 3 :: 4 :: flat_map (fun n => [16 * n; 1 + 16 * n; 2 + 16 * n]) [0; 1; 2; 3; 4].
Definition answers : list (option N) := None :: map Some codes.
Definition actions : list action :=
  flat_map (fun t => flat_map (fun a => [APoll t 0 a; ACancel t 0 a; ADrop t 0 a]) answers) [0; 1]
  ++ map (AHost 0) codes
  ++ flat_map (fun t => [ADeliver t None; ADeliver t (Some 0)]) [0; 1].
Definition in_alphabet (a : action) : bool := existsb (fun b => if action_eq_dec a b then true else false) actions.
Lemma in_alphabet_In a : in_alphabet a = true -> In a actions.
Proof.
  unfold in_alphabet. rewrite existsb_exists. intros [b [Hb He]].
  destruct (action_eq_dec a b); congruence.
Qed.

(** ** Hash-bucketed state sets *)
Definition hmix (h x : N) : N := (h * 31 + x + 7) mod 1099511627776.
Definition hopt (o : option N) : N := match o with Some x => x + 1 | None => 0 end.
Definition hash_op (h : N) (x : op) : N :=
  let h := hmix h (match o_phase x with OStart => 1 | OProg => 2 | ODone => 3 | OGone => 4 end) in
  let h := hmix h (hopt (o_handle x)) in
  let h := hmix h (hopt (o_code x)) in
  let h := hmix h (hopt (o_waker x)) in
  let h := hmix h (match o_ctask x with Some (t, r) => 10 + 5 * t + hopt r | None => 0 end) in
  hmix h (hopt (o_last x) + if o_started x then 3 else 0).
Definition hash_task (h : N) (t : mtask) : N :=
  hmix (fold_left (fun h p => hmix h (fst p + 3 * snd p)) (t_map t) h) (hopt (t_set t) + Z.to_N (t_clones t + 100)).
Definition hash_st (p : pst) : positive :=
  let s := fst p in
  let h := fold_left hash_op (w_ops s) 17 in
  let h := fold_left hash_task (w_tasks s) h in
  let h := fold_left (fun h p => hmix h (fst p + 5 * fst (snd p) + 11 * snd (snd p))) (ready (w_h s)) h in
  let h := fold_left (fun h p => hmix h (fst p + 7 * snd p)) (joined (w_h s)) h in
  let h := hmix h (w_handed s + 3 * w_updates s + next (w_h s)) in
  N.succ_pos h.

Definition sset := PM.t (list pst).
Definition ss_mem (p : pst) (m : sset) : bool :=
  match PM.find (hash_st p) m with Some b => existsb (pst_eqb p) b | None => false end.
Definition ss_add (p : pst) (m : sset) : sset :=
  PM.add (hash_st p) (p :: match PM.find (hash_st p) m with Some b => b | None => [] end) m.
Definition ss_all (m : sset) : list pst := flat_map snd (PM.elements m).

Lemma ss_mem_In p m : ss_mem p m = true -> In p (ss_all m).
Proof.
  unfold ss_mem, ss_all. destruct (PM.find (hash_st p) m) as [b|] eqn:E; [|discriminate].
  rewrite existsb_exists. intros [q [Hq He]]. apply pst_eqb_eq in He. subst q.
  apply in_flat_map. exists (hash_st p, b). split; [|exact Hq].
  now apply PM.elements_correct.
Qed.

Definition succs (p : pst) : list pst := map (pstep p) (filter (valid_step (fst p)) actions).
Fixpoint add_new (l : list pst) (m : sset) : list pst * sset :=
  match l with
  | [] => ([], m)
  | p :: r => if ss_mem p m then add_new r m
              else let (n, m') := add_new r (ss_add p m) in (p :: n, m')
  end.
Fixpoint explore (fuel : nat) (frontier : list pst) (m : sset) : sset :=
  match fuel with
  | O => m
  | S f =>
      match frontier with
      | [] => m
      | _ => let (n, m') := add_new (flat_map succs frontier) m in explore f n m'
      end
  end.
Definition reach_set (c : wcfg) : sset := explore 200 [pinit c] (ss_add (pinit c) (PM.empty _)).

(** ** Closure and the invariant on the reachable set *)
Definition closed (c : wcfg) (m : sset) : bool :=
  ss_mem (pinit c) m &&
  forallb (fun p => forallb (fun a => negb (valid_step (fst p) a) || ss_mem (pstep p a) m) actions) (ss_all m).

Definition pending_codes (s : wst) : N :=
  N.of_nat (length (filter (fun x => match o_code x with Some _ => true | None => false end) (w_ops s))).

(** (i)+(iv): a registration [(w -> o)] of task [t]. *)
Definition map_entry_ok (s : wst) (t : mtask) (e : N * N) : bool :=
  let (w, o) := e in
  let x := get_op s o in
  (N.to_nat o <? length (w_ops s))%nat
  && match o_phase x with OProg => true | _ => false end
  && match o_handle x with Some w' => w' =? w | None => false end
  && match o_code x with None => true | Some _ => false end
  && match o_waker x with Some _ => true | None => false end
  && match t_set t, alookup w (joined (w_h s)) with Some st, Some sj => st =? sj | _, _ => false end.

(** every joined waitable is registered with the task that owns the set *)
Definition joined_entry_ok (s : wst) (e : N * N) : bool :=
  let (w, st) := e in
  existsb (fun t => match t_set t with Some s' => (s' =? st) && amem w (t_map t) | None => false end) (w_tasks s).

Definition all_gone (s : wst) : bool := forallb (fun x => match o_phase x with OGone => true | _ => false end) (w_ops s).

Definition inv_ok (p : pst) : bool :=
  let s := fst p in
  negb (snd p)
  && match w_err s with None => true | Some _ => false end
  && negb (w_bad s)
  && (w_handed s =? w_updates s + pending_codes s)
  && forallb (fun t => forallb (map_entry_ok s t) (t_map t)) (w_tasks s)
  && forallb (joined_entry_ok s) (joined (w_h s))
  && (negb (all_gone s)
      || (forallb (fun t => match t_map t with [] => Z.eqb (t_clones t) 0 | _ => false end) (w_tasks s)
          && match joined (w_h s) with [] => true | _ => false end)).

(** side conditions that make every valid action a member of the alphabet *)
Definition bounded (p : pst) : bool :=
  (length (w_ops (fst p)) =? 1)%nat
  && forallb (fun e => existsb (N.eqb (snd (snd e))) codes) (ready (w_h (fst p))).

(** One configuration: explore, then check closure, invariant and boundedness on the whole set. *)
Definition check_cfg (c : wcfg) : bool :=
  let m := reach_set c in
  closed c m && forallb inv_ok (ss_all m) && forallb bounded (ss_all m).

Definition cfgs1 (a b half : bool) : list wcfg := map (fun k => mkWcfg a b [k]) (if half then [KSt; KSr] else [KSw; KFr]).

(** ** Two-operation universes: the same exploration with the alphabet over operations 0-1.
    Too large for the VM within the build budget (about 5*10^4 states per configuration); run natively
    through extraction by checks/c18.py as exhaustive model checking of the extracted model (evidence,
    not a proof). *)
Definition actions2 : list action :=
  flat_map (fun t => flat_map (fun o => flat_map (fun a => [APoll t o a; ACancel t o a; ADrop t o a]) answers) [0; 1]) [0; 1]
  ++ flat_map (fun o => map (AHost o) codes) [0; 1]
  ++ flat_map (fun t => [ADeliver t None; ADeliver t (Some 0); ADeliver t (Some 1)]) [0; 1].
Definition succs2 (p : pst) : list pst := map (pstep p) (filter (valid_step (fst p)) actions2).
Fixpoint explore2 (fuel : nat) (frontier : list pst) (m : sset) : sset :=
  match fuel with
  | O => m
  | S f =>
      match frontier with
      | [] => m
      | _ => let (n, m') := add_new (flat_map succs2 frontier) m in explore2 f n m'
      end
  end.
(** (all reachable states satisfy the invariant, number of states) *)
Definition explore_cfg2 (c : wcfg) : bool * nat :=
  let m := explore2 400 [pinit c] (ss_add (pinit c) (PM.empty _)) in
  (forallb inv_ok (ss_all m), length (ss_all m)).
