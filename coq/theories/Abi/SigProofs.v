(** The bounded-buffer flattening of wit-parser ([push_flat], [flat_types]) computes the ideal flattening
    [wflat] whenever it fits, and reports failure exactly when it does not; [wflat] resolves to the canonical
    ABI's [flatten] at both pointer widths. *)
From Coq Require Import List ZArith NArith Bool Lia Arith.
From WB Require Import Wit.Ty Canon.Spec Abi.Sig Abi.Instr Abi.Cast Abi.CastSem Abi.CastProofs.
Import ListNotations.

Fixpoint wjoin_lists (a b : list wt) : list wt :=
  match a, b with
  | [], _ => b
  | _, [] => a
  | x :: a', y :: b' => wjoin x y :: wjoin_lists a' b'
  end.

Definition oflat (f : ty -> list wt) (c : option ty) : list wt :=
  match c with Some x => f x | None => [] end.

Fixpoint wflat (t : ty) : list wt :=
  let cases (cs : list (option ty)) := fold_left (fun acc c => wjoin_lists acc (oflat wflat c)) cs [] in
  match t with
  | TBool | TS8 | TU8 | TS16 | TU16 | TS32 | TU32 | TChar | TErrCtx | TOwn | TBorrow
  | TFuture _ | TStream _ | TEnum _ => [WI32]
  | TU64 | TS64 => [WI64]
  | TF32 => [WF32]
  | TF64 => [WF64]
  | TString | TList _ | TMap _ _ => [WPtr; WLen]
  | TRecord fs | TTuple fs => concat (map wflat fs)
  | TFlags n => repeat WI32 (N.to_nat (flags_count n))
  | TFixed x n => concat (repeat (wflat x) (N.to_nat n))
  | TVariant cs => WI32 :: cases cs
  | TOption x => WI32 :: cases (cases_of_option x)
  | TResult a b => WI32 :: cases (cases_of_result a b)
  end.

Definition acc_cases (cs : list (option ty)) (rest : list wt) : list wt :=
  fold_left (fun acc c => wjoin_lists acc (oflat wflat c)) cs rest.

(** * list facts *)
Lemma wjoin_lists_nil_r a : wjoin_lists a [] = a.
Proof. destruct a; reflexivity. Qed.

Lemma wjoin_lists_length a b : length (wjoin_lists a b) = Nat.max (length a) (length b).
Proof.
  revert b; induction a as [|x a IH]; intros [|y b]; cbn [wjoin_lists length]; try lia.
  rewrite IH. lia.
Qed.

Lemma acc_cases_length_ge cs rest : length rest <= length (acc_cases cs rest).
Proof.
  unfold acc_cases. revert rest. induction cs as [|c cs IH]; intros rest; cbn [fold_left]; [lia|].
  etransitivity; [|apply IH]. rewrite wjoin_lists_length. lia.
Qed.

Lemma acc_cases_cons c cs rest :
  acc_cases (c :: cs) rest = acc_cases cs (wjoin_lists rest (oflat wflat c)).
Proof. reflexivity. Qed.

(** * the outcome of pushing an ideal list [l] into a bounded buffer *)
Definition mk (f : ft) (tys : list wt) : ft := {| ft_types := tys; ft_cap := ft_cap f; ft_over := ft_over f |}.

Definition push_ok (f : ft) (l : list wt) (r : bool * ft) : Prop :=
  if (length (ft_types f) + length l <=? ft_cap f)%nat
  then r = (true, mk f (ft_types f ++ l))
  else fst r = false /\ ft_cap (snd r) = ft_cap f /\ ft_over (snd r) = true.

Lemma mk_id f : mk f (ft_types f) = f.
Proof. destruct f; reflexivity. Qed.

Lemma push_ok_nil f : push_ok f [] (true, f).
Proof.
  unfold push_ok. cbn [length]. rewrite Nat.add_0_r.
  destruct (Nat.leb_spec (length (ft_types f)) (ft_cap f)).
  - rewrite app_nil_r, mk_id. reflexivity.
  - (* a buffer is never over-full; but the statement must hold for any f: weaken *)
    cbn. split; [|split]; try reflexivity.
Abort.

(** Buffers we reason about are never over-full. *)
Definition wf (f : ft) : Prop := length (ft_types f) <= ft_cap f.

Lemma push_ok_nil f : wf f -> push_ok f [] (true, f).
Proof.
  unfold push_ok, wf. intros H. cbn [length]. rewrite Nat.add_0_r.
  destruct (Nat.leb_spec (length (ft_types f)) (ft_cap f)); [|lia].
  rewrite app_nil_r, mk_id. reflexivity.
Qed.

Lemma ft_push_ok f t : push_ok f [t] (ft_push f t).
Proof.
  unfold push_ok, ft_push, ft_cur. cbn [length].
  destruct (Nat.ltb_spec (length (ft_types f)) (ft_cap f));
    destruct (Nat.leb_spec (length (ft_types f) + 1) (ft_cap f)); try lia.
  - reflexivity.
  - cbn. auto.
Qed.

(** sequencing: push [l1] then (if that worked) [l2] = push [l1 ++ l2] *)
Lemma push_ok_seq f l1 l2 r1 r2 :
  push_ok f l1 r1 ->
  (fst r1 = true -> push_ok (snd r1) l2 r2) ->
  push_ok f (l1 ++ l2) (if fst r1 then r2 else r1).
Proof.
  unfold push_ok. intros H1 H2. rewrite app_length.
  destruct (Nat.leb_spec (length (ft_types f) + length l1) (ft_cap f)) as [Ha|Ha].
  - subst r1. cbn [fst snd] in *. specialize (H2 eq_refl). cbn [mk ft_types ft_cap] in H2.
    rewrite app_length in H2.
    destruct (Nat.leb_spec (length (ft_types f) + length l1 + length l2) (ft_cap f)) as [Hb|Hb];
      destruct (Nat.leb_spec (length (ft_types f) + (length l1 + length l2)) (ft_cap f)); try lia.
    + rewrite H2. unfold mk. cbn. rewrite app_assoc. reflexivity.
    + exact H2.
  - destruct H1 as [H1 [H1c H1o]]. rewrite H1.
    destruct (Nat.leb_spec (length (ft_types f) + (length l1 + length l2)) (ft_cap f)); try lia.
    auto.
Qed.

Lemma push_ok_wf f l r : wf f -> push_ok f l r -> fst r = true -> wf (snd r) /\ ft_over (snd r) = ft_over f /\ ft_cap (snd r) = ft_cap f.
Proof.
  unfold push_ok, wf. intros Hw H Ht.
  destruct (Nat.leb_spec (length (ft_types f) + length l) (ft_cap f)).
  - subst r. cbn. rewrite app_length. auto.
  - destruct H as [H _]. congruence.
Qed.

Lemma ft_push_all_ok l : forall f, wf f -> push_ok f l (ft_push_all f l).
Proof.
  induction l as [|t l IH]; intros f Hw; cbn [ft_push_all].
  - apply push_ok_nil. exact Hw.
  - pose proof (ft_push_ok f t) as H1.
    destruct (ft_push f t) as [ok f'] eqn:E.
    change (t :: l) with ([t] ++ l).
    replace (if ok then ft_push_all f' l else (false, f'))
      with (if fst (ok, f') then ft_push_all f' l else (ok, f')) by (destruct ok; reflexivity).
    apply push_ok_seq; [exact H1|].
    cbn [fst snd]. intros ->. apply IH.
    eapply push_ok_wf in H1; [|exact Hw|reflexivity]. apply H1.
Qed.

(** * merging one case into the accumulated slots *)
Lemma merge_case_spec : forall temp pre done_ rest cap,
  length (pre ++ done_ ++ wjoin_lists rest temp) <= cap ->
  merge_case (pre ++ done_ ++ rest) cap (length pre) (length done_) temp
  = Some (pre ++ done_ ++ wjoin_lists rest temp).
Proof.
  induction temp as [|t temp IH]; intros pre done_ rest cap Hlen; cbn [merge_case].
  - rewrite wjoin_lists_nil_r. reflexivity.
  - assert (Hidx : length done_ + length pre = length (pre ++ done_)) by (rewrite app_length; lia).
    rewrite Hidx.
    destruct rest as [|r rest].
    + rewrite app_nil_r.
      rewrite Nat.ltb_irrefl.
      cbn [wjoin_lists] in Hlen |- *.
      rewrite !app_length in Hlen. cbn [length] in Hlen.
      destruct (Nat.eqb_spec (length (pre ++ done_)) cap) as [He|He]; [rewrite app_length in He; lia|].
      specialize (IH pre (done_ ++ [t]) [] cap).
      assert (Hl : length (done_ ++ [t]) = S (length done_)) by (rewrite app_length; cbn [length]; lia).
      rewrite Hl in IH.
      replace (pre ++ (done_ ++ [t]) ++ []) with ((pre ++ done_) ++ [t]) in IH
        by (rewrite app_nil_r, app_assoc; reflexivity).
      rewrite IH.
      * f_equal. rewrite <- !app_assoc. cbn. destruct temp; reflexivity.
      * repeat rewrite app_length. cbn [length].
        assert (length (wjoin_lists [] temp) = length temp) by (destruct temp; reflexivity). lia.
    + assert (Hlt : (length (pre ++ done_) <? length (pre ++ done_ ++ r :: rest))%nat = true).
      { apply Nat.ltb_lt. rewrite !app_length. cbn [length]. lia. }
      rewrite Hlt.
      replace (pre ++ done_ ++ r :: rest) with ((pre ++ done_) ++ r :: rest) by (rewrite app_assoc; reflexivity).
      rewrite firstn_app, firstn_all, Nat.sub_diag. cbn [firstn]. rewrite app_nil_r.
      rewrite app_nth2 by lia. rewrite Nat.sub_diag. cbn [nth].
      replace (S (length (pre ++ done_))) with (length (pre ++ done_) + 1)%nat by lia.
      rewrite skipn_app. rewrite skipn_all2 by lia.
      replace (length (pre ++ done_) + 1 - length (pre ++ done_))%nat with 1%nat by lia.
      cbn [skipn app].
      specialize (IH pre (done_ ++ [wjoin r t]) rest cap).
      assert (Hl : length (done_ ++ [wjoin r t]) = S (length done_)) by (rewrite app_length; cbn [length]; lia).
      rewrite Hl in IH.
      replace (pre ++ (done_ ++ [wjoin r t]) ++ rest) with ((pre ++ done_) ++ [wjoin r t] ++ rest) in IH
        by (rewrite <- !app_assoc; reflexivity).
      change ([wjoin r t] ++ rest) with (wjoin r t :: rest) in IH.
      rewrite IH.
      * f_equal. cbn [wjoin_lists]. rewrite <- !app_assoc. reflexivity.
      * cbn [wjoin_lists] in Hlen. repeat rewrite app_length in Hlen. repeat rewrite app_length.
        cbn [length] in Hlen |- *. lia.
Qed.

(** * push_flat computes [wflat] when it fits *)
Definition push_spec (t : ty) : Prop := forall f, wf f -> push_ok f (wflat t) (push_flat t f).

Lemma push_list_ok (fs : list ty) : Forall push_spec fs ->
  forall f, wf f ->
  push_ok f (concat (map wflat fs))
    ((fix push_list (ts : list ty) (f : ft) {struct ts} : bool * ft :=
        match ts with
        | [] => (true, f)
        | x :: ts' => let '(ok, f') := push_flat x f in if ok then push_list ts' f' else (false, f')
        end) fs f).
Proof.
  induction 1 as [|x fs Hx Hfs IH]; intros f Hw.
  - cbn. apply push_ok_nil. exact Hw.
  - cbn [map concat].
    pose proof (Hx f Hw) as H1.
    destruct (push_flat x f) as [ok f'] eqn:E.
    match goal with |- push_ok _ _ (if ok then ?A else ?B) =>
      replace (if ok then A else B) with (if fst (ok, f') then A else (ok, f')) by (destruct ok; reflexivity) end.
    apply push_ok_seq; [exact H1|].
    cbn [fst snd]. intros ->. apply IH.
    eapply push_ok_wf in H1; [|exact Hw|reflexivity]. apply H1.
Qed.

Lemma push_rep_ok (x : ty) (n : nat) : push_spec x ->
  forall f, wf f ->
  push_ok f (concat (repeat (wflat x) n))
    ((fix go (n : nat) (f : ft) {struct n} : bool * ft :=
        match n with
        | O => (true, f)
        | S k => let '(ok, f') := push_flat x f in if ok then go k f' else (false, f')
        end) n f).
Proof.
  intros Hx. induction n as [|n IH]; intros f Hw.
  - cbn. apply push_ok_nil. exact Hw.
  - cbn [repeat concat].
    pose proof (Hx f Hw) as H1.
    destruct (push_flat x f) as [ok f'] eqn:E.
    match goal with |- push_ok _ _ (if ok then ?A else ?B) =>
      replace (if ok then A else B) with (if fst (ok, f') then A else (ok, f')) by (destruct ok; reflexivity) end.
    apply push_ok_seq; [exact H1|].
    cbn [fst snd]. intros ->. apply IH.
    eapply push_ok_wf in H1; [|exact Hw|reflexivity]. apply H1.
Qed.

(** the variant loop: [f] holds [pre ++ rest] where [pre] (of length [start]) is everything before the
    payload slots *)
Definition variants_ok (cs : list (option ty)) : Prop :=
  forall pre rest cap over,
    length (pre ++ rest) <= cap ->
    let f := {| ft_types := pre ++ rest; ft_cap := cap; ft_over := over |} in
    let r := (fix push_variants (cs : list (option ty)) (start : nat) (f : ft) {struct cs} : bool * ft :=
                match cs with
                | [] => (true, f)
                | None :: cs' => push_variants cs' start f
                | Some x :: cs' =>
                    let '(ok, tmp) := push_flat x (ft_new (ft_cap f - start)) in
                    if ok then
                      match merge_case (ft_types f) (ft_cap f) start 0 (ft_types tmp) with
                      | Some tys => push_variants cs' start {| ft_types := tys; ft_cap := ft_cap f; ft_over := ft_over f |}
                      | None => (false, ft_set_over f)
                      end
                    else (false, ft_set_over f)
                end) cs (length pre) f in
    if (length pre + length (acc_cases cs rest) <=? cap)%nat
    then r = (true, {| ft_types := pre ++ acc_cases cs rest; ft_cap := cap; ft_over := over |})
    else fst r = false /\ ft_cap (snd r) = cap /\ ft_over (snd r) = true.

Lemma push_variants_ok cs : Forall (OptP push_spec) cs -> variants_ok cs.
Proof.
  induction 1 as [|c cs Hc Hcs IH]; intros pre rest cap over Hlen; cbn zeta.
  - cbn [acc_cases fold_left]. rewrite app_length in Hlen.
    destruct (Nat.leb_spec (length pre + length rest) cap); [reflexivity | lia].
  - destruct c as [x|].
    + rewrite acc_cases_cons. cbn [oflat].
      cbn [ft_cap ft_types ft_over].
      pose proof (Hc (ft_new (cap - length pre))) as Hx. cbn [OptP] in Hx.
      assert (Hwf0 : wf (ft_new (cap - length pre))) by (unfold wf, ft_new; cbn; lia).
      specialize (Hx Hwf0). unfold push_ok in Hx. cbn [ft_new ft_types ft_cap length] in Hx.
      rewrite Nat.add_0_l in Hx.
      destruct (push_flat x (ft_new (cap - length pre))) as [ok tmp] eqn:E.
      rewrite app_length in Hlen.
      destruct (Nat.leb_spec (length (wflat x)) (cap - length pre)) as [Hfit|Hfit].
      * injection Hx as -> ->. cbn [mk ft_types app].
        assert (Hm : length (pre ++ [] ++ wjoin_lists rest (wflat x)) <= cap).
        { rewrite !app_length, wjoin_lists_length. cbn [length]. lia. }
        pose proof (merge_case_spec (wflat x) pre [] rest cap Hm) as Hmc.
        cbn [app length] in Hmc. rewrite Hmc.
        specialize (IH pre (wjoin_lists rest (wflat x)) cap over).
        cbn [app] in Hm. specialize (IH Hm). cbn zeta in IH. exact IH.
      * destruct Hx as [Hf _]. cbn [fst] in Hf. subst ok.
        pose proof (acc_cases_length_ge cs (wjoin_lists rest (wflat x))) as Hge.
        rewrite wjoin_lists_length in Hge.
        destruct (Nat.leb_spec (length pre + length (acc_cases cs (wjoin_lists rest (wflat x)))) cap); [lia|].
        cbn. auto.
    + rewrite acc_cases_cons. cbn [oflat]. rewrite wjoin_lists_nil_r.
      apply IH. exact Hlen.
Qed.

Lemma variant_ok (cs : list (option ty)) : Forall (OptP push_spec) cs ->
  forall f, wf f ->
  push_ok f (WI32 :: acc_cases cs [])
    (let '(ok, f') := ft_push f WI32 in
     if ok then
       (fix push_variants (cs : list (option ty)) (start : nat) (f : ft) {struct cs} : bool * ft :=
          match cs with
          | [] => (true, f)
          | None :: cs' => push_variants cs' start f
          | Some x :: cs' =>
              let '(ok, tmp) := push_flat x (ft_new (ft_cap f - start)) in
              if ok then
                match merge_case (ft_types f) (ft_cap f) start 0 (ft_types tmp) with
                | Some tys => push_variants cs' start {| ft_types := tys; ft_cap := ft_cap f; ft_over := ft_over f |}
                | None => (false, ft_set_over f)
                end
              else (false, ft_set_over f)
          end) cs (ft_cur f') f'
     else (false, f')).
Proof.
  intros Hcs f Hw.
  pose proof (ft_push_ok f WI32) as H1. unfold push_ok in H1 |- *. cbn [length] in H1 |- *.
  destruct (ft_push f WI32) as [ok f'] eqn:E.
  pose proof (acc_cases_length_ge cs []) as _.
  destruct (Nat.leb_spec (length (ft_types f) + 1) (ft_cap f)) as [Ha|Ha].
  - injection H1 as -> ->. unfold ft_cur. cbn [mk ft_types ft_cap ft_over].
    pose proof (push_variants_ok cs Hcs (ft_types f ++ [WI32]) [] (ft_cap f) (ft_over f)) as Hv.
    rewrite app_nil_r in Hv.
    assert (Hl : length (ft_types f ++ [WI32]) = (length (ft_types f) + 1)%nat) by (rewrite app_length; reflexivity).
    assert (Hp : length (ft_types f ++ [WI32]) <= ft_cap f) by lia.
    specialize (Hv Hp). cbn zeta in Hv. unfold mk.
    destruct (Nat.leb_spec (length (ft_types f ++ [WI32]) + length (acc_cases cs [])) (ft_cap f)) as [Hb|Hb];
      destruct (Nat.leb_spec (length (ft_types f) + S (length (acc_cases cs []))) (ft_cap f)); try lia.
    + rewrite Hv. f_equal. f_equal. rewrite <- app_assoc. reflexivity.
    + exact Hv.
  - destruct H1 as [H1 [H1c H1o]]. cbn [fst snd] in *. subst ok.
    destruct (Nat.leb_spec (length (ft_types f) + S (length (acc_cases cs []))) (ft_cap f)); [lia|].
    cbn. auto.
Qed.

Theorem push_flat_spec : forall t, push_spec t.
Proof.
  induction t using ty_ind'; intros f Hw;
    try (cbn [push_flat wflat]; apply ft_push_ok);
    try (cbn [push_flat wflat]; apply ft_push_all_ok; exact Hw).
  - (* fixed *) cbn [push_flat wflat]. apply push_rep_ok; assumption.
  - (* record *) cbn [push_flat wflat]. apply push_list_ok; assumption.
  - (* tuple *) cbn [push_flat wflat]. apply push_list_ok; assumption.
  - (* variant *) cbn [push_flat wflat]. apply variant_ok; assumption.
  - (* option *) cbn [push_flat wflat]. apply (variant_ok (cases_of_option t)); [|exact Hw].
    unfold cases_of_option. repeat constructor. exact IHt.
  - (* result *) cbn [push_flat wflat]. apply (variant_ok (cases_of_result ok err)); [|exact Hw].
    unfold cases_of_result. repeat constructor; assumption.
Qed.

(** [abi::flat_types(ty, max)] *)
Theorem flat_types_spec t max :
  flat_types t max = if (length (wflat t) <=? max)%nat then Some (wflat t) else None.
Proof.
  unfold flat_types.
  pose proof (push_flat_spec t (ft_new max)) as H.
  assert (Hw : wf (ft_new max)) by (unfold wf; cbn; lia).
  specialize (H Hw). unfold push_ok in H. cbn [ft_new ft_types ft_cap length] in H. rewrite Nat.add_0_l in H.
  destruct (push_flat t (ft_new max)) as [ok f].
  destruct (Nat.leb_spec (length (wflat t)) max).
  - injection H as -> ->. reflexivity.
  - destruct H as [H _]. cbn in H. subst ok. reflexivity.
Qed.

(** * [wflat] is the canonical ABI's [flatten] at both pointer widths *)
Lemma wjoin_lists_resolve pw a b : pw = 4%N \/ pw = 8%N ->
  map (resolve pw) (wjoin_lists a b) = Spec.join_lists (map (resolve pw) a) (map (resolve pw) b).
Proof.
  intros Hpw. revert b; induction a as [|x a IH]; intros [|y b]; cbn [wjoin_lists map Spec.join_lists]; try reflexivity.
  rewrite wjoin_resolve by exact Hpw. rewrite IH. reflexivity.
Qed.

Lemma map_repeat' {A B} (f : A -> B) (x : A) n : map f (repeat x n) = repeat (f x) n.
Proof. induction n as [|n IH]; cbn; [reflexivity | rewrite IH; reflexivity]. Qed.

Definition flat_agrees (pw : N) (t : ty) : Prop := map (resolve pw) (wflat t) = Spec.flatten pw t.

Lemma cases_agree pw cs : pw = 4%N \/ pw = 8%N -> Forall (OptP (flat_agrees pw)) cs ->
  forall acc, map (resolve pw) (acc_cases cs acc) =
              fold_left (fun a c => Spec.join_lists a (Spec.omap (Spec.flatten pw) [] c)) cs (map (resolve pw) acc).
Proof.
  intros Hpw. induction 1 as [|c cs Hc Hcs IH]; intros acc; [reflexivity|].
  rewrite acc_cases_cons. cbn [fold_left]. rewrite IH. f_equal.
  rewrite wjoin_lists_resolve by exact Hpw. f_equal.
  destruct c as [x|]; [exact Hc | reflexivity].
Qed.

Lemma flags_count_words n : flags_count n = Spec.flags_words n.
Proof. reflexivity. Qed.

Theorem wflat_is_spec_flatten pw t : pw = 4%N \/ pw = 8%N -> flat_agrees pw t.
Proof.
  intros Hpw. unfold flat_agrees.
  induction t using ty_ind'; cbn [wflat Spec.flatten map resolve]; try reflexivity.
  - (* fixed *) rewrite concat_map, map_repeat', IHt. reflexivity.
  - (* record *) rewrite concat_map, map_map. f_equal.
    induction H as [|x fs Hx Hfs IH]; cbn [map]; [reflexivity|]. rewrite Hx, IH. reflexivity.
  - (* tuple *) rewrite concat_map, map_map. f_equal.
    induction H as [|x fs Hx Hfs IH]; cbn [map]; [reflexivity|]. rewrite Hx, IH. reflexivity.
  - (* variant *) f_equal. apply (cases_agree pw cs Hpw H []).
  - (* option *) f_equal. apply (cases_agree pw (cases_of_option t) Hpw); repeat constructor; exact IHt.
  - (* result *) f_equal. apply (cases_agree pw (cases_of_result ok err) Hpw); repeat constructor; assumption.
  - (* flags *) rewrite map_repeat'. reflexivity.
Qed.

(** the slot types of a variant are folds of [wjoin] over the case types sharing the slot (C04's closure) *)
Lemma wjoin_lists_nth a b i :
  nth_error (wjoin_lists a b) i =
  match nth_error a i, nth_error b i with
  | Some x, Some y => Some (wjoin x y)
  | Some x, None => Some x
  | None, Some y => Some y
  | None, None => None
  end.
Proof.
  revert b i; induction a as [|x a IH]; intros [|y b] [|i]; cbn [wjoin_lists nth_error]; try reflexivity.
  - destruct (nth_error b i); reflexivity.
  - destruct (nth_error a i); reflexivity.
  - apply IH.
Qed.

Theorem slot_absorbs_case cs : forall acc c i a,
  In c cs -> nth_error (oflat wflat c) i = Some a ->
  exists j, nth_error (acc_cases cs acc) i = Some j /\ wle a j.
Proof.
  induction cs as [|c0 cs IH]; intros acc c i a Hin Hn; [destruct Hin|].
  rewrite acc_cases_cons.
  destruct Hin as [-> | Hin].
  - (* this case: its type enters the slot now, later cases only join more in *)
    assert (Hnow : exists j0, nth_error (wjoin_lists acc (oflat wflat c)) i = Some j0 /\ wle a j0).
    { rewrite wjoin_lists_nth, Hn. destruct (nth_error acc i) as [x|].
      - eexists; split; [reflexivity | apply wle_join_r].
      - eexists; split; [reflexivity | apply wle_refl]. }
    destruct Hnow as [j0 [Hj0 Hle0]].
    clear IH Hn. revert Hj0. generalize (wjoin_lists acc (oflat wflat c)) as acc'.
    induction cs as [|c1 cs IH2]; intros acc' Hj0.
    + exists j0. split; [exact Hj0 | exact Hle0].
    + rewrite acc_cases_cons.
      assert (exists j1, nth_error (wjoin_lists acc' (oflat wflat c1)) i = Some j1 /\ wle j0 j1) as [j1 [Hj1 Hle1]].
      { rewrite wjoin_lists_nth, Hj0. destruct (nth_error (oflat wflat c1) i).
        - eexists; split; [reflexivity | apply wle_join_l].
        - eexists; split; [reflexivity | apply wle_refl]. }
      (* generalise over the reached slot type *)
      clear Hj0.
      assert (Hgen : forall accx jx, nth_error accx i = Some jx -> wle a jx ->
                 exists j, nth_error (acc_cases cs accx) i = Some j /\ wle a j).
      { clear. induction cs as [|c2 cs IHc]; intros accx jx Hx Hle.
        - exists jx. split; assumption.
        - rewrite acc_cases_cons.
          assert (exists j2, nth_error (wjoin_lists accx (oflat wflat c2)) i = Some j2 /\ wle jx j2) as [j2 [Hj2 Hle2]].
          { rewrite wjoin_lists_nth, Hx. destruct (nth_error (oflat wflat c2) i).
            - eexists; split; [reflexivity | apply wle_join_l].
            - eexists; split; [reflexivity | apply wle_refl]. }
          eapply IHc; [exact Hj2 | eapply wle_trans; eassumption]. }
      eapply Hgen; [exact Hj1 | eapply wle_trans; eassumption].
  - eapply IH; eassumption.
Qed.

Example flat_types_example :
  flat_types (TVariant [Some TF32; Some TS64; None; Some TString]) 16 = Some [WI32; WPtr64; WLen]
  /\ flat_types (TRecord (repeat TU32 17)) 16 = None
  /\ flat_types (TTuple [TOption TF64; TResult (Some TString) (Some TU8)]) 16 = Some [WI32; WF64; WI32; WPtr; WLen].
Proof. vm_compute. repeat split; reflexivity. Qed.
