(** * Stack discipline of the FLAT lowering (abi.rs [Generator::lower])
    For every type whose flattening fits the 16-slot buffer, [lower] reaches no panic site (no stack underflow, no
    unset realloc, no [flat_types(..).unwrap()] failure, no unreachable [cast]), consumes exactly the one value
    operand it is given and leaves exactly [length (wflat t)] core operands in its place - as many as the canonical
    [flatten] has entries (SigProofs.wflat_is_spec_flatten).  In particular every variant arm produces, after the
    bitcasts and the zero padding, exactly the joined number of slots. *)
From Coq Require Import List ZArith NArith Bool Arith Lia.
From WB Require Import Wit.Ty Canon.Spec Abi.Sig Abi.Instr Abi.Cast Abi.Gen Abi.CastProofs Abi.SigProofs Abi.GenDiscipline.
Import ListNotations.

Definition stkn (s0 : gst) (n : nat) (st : list nat) : unit -> gst -> Prop :=
  fun _ s' => exists vals, length vals = n /\ stack s' = vals ++ st /\ frame s0 s'.

Definition fits (t : ty) : Prop := length (wflat t) <= 16.

Lemma ok_seqn {B} (m : M unit) (k : M B) s n st (Q : B -> gst -> Prop) :
  ok_with m s (stkn s n st) ->
  (forall s' vals, length vals = n -> stack s' = vals ++ st -> frame s s' -> ok_with k s' Q) ->
  ok_with (bind m (fun _ => k)) s Q.
Proof.
  intros H1 H2. apply ok_bind. eapply ok_weaken; [exact H1|]. intros [] s' [vals [Hl [Hs Hf]]]. eapply H2; eassumption.
Qed.

Lemma ok_emit_n i s top rest :
  stack s = top ++ rest -> length top = operands_len i ->
  ok_with (emit i) s (stkn s (results_len i) rest).
Proof.
  intros Hs Hl. eapply ok_weaken; [eapply ok_emit_stk; eassumption|].
  intros [] s' [H1 H2]. eexists. split; [|split; [exact H1 | exact H2]].
  rewrite rev_length, seq_length. reflexivity.
Qed.

Lemma ok_pure_bind {A B} (m : M A) (a : A) (k : A -> M B) s Q :
  m s = Ok a s -> ok_with (k a) s Q -> ok_with (bind m k) s Q.
Proof. intros Hm Hk. unfold ok_with, bind in *. rewrite Hm. exact Hk. Qed.

Lemma flat_unwrap_ok t s : fits t -> flat_unwrap t s = Ok (wflat t) s.
Proof.
  unfold fits, flat_unwrap. intros H. rewrite flat_types_spec.
  destruct (Nat.leb_spec (length (wflat t)) 16); [reflexivity | lia].
Qed.

Lemma casts_m_ok : forall froms tos,
  (forall k a, nth_error froms k = Some a -> exists j, nth_error tos k = Some j /\ wle a j) ->
  exists cs, length cs = length froms /\ forall s, casts_m froms tos s = Ok cs s.
Proof.
  induction froms as [|a froms IH]; intros tos H.
  - exists []. split; [reflexivity|]. intros s. destruct tos; reflexivity.
  - destruct (H 0 a eq_refl) as [j [Hj Hle]].
    destruct tos as [|b tos]; [discriminate Hj|]. cbn [nth_error] in Hj. injection Hj as ->.
    destruct (IH tos) as [cs [Hl Hcs]].
    { intros k a' Hk. apply (H (S k) a' Hk). }
    destruct (cast_total_le a j Hle) as [Hc _].
    destruct (cast a j) as [c|] eqn:Ec; [|congruence].
    exists (c :: cs). split; [cbn [length]; lia|].
    intros s. cbn [casts_m]. unfold bind, cast_m. rewrite Ec. unfold ret. rewrite Hcs. reflexivity.
Qed.

Lemma acc_cases_length_in cs : forall acc c, In c cs -> length (oflat wflat c) <= length (acc_cases cs acc).
Proof.
  induction cs as [|c0 cs IH]; intros acc c Hin; [destruct Hin|].
  rewrite acc_cases_cons. destruct Hin as [-> | Hin].
  - etransitivity; [|apply acc_cases_length_ge]. rewrite wjoin_lists_length. lia.
  - apply IH; exact Hin.
Qed.

Lemma concat_length_in {A} (l : list (list A)) x : In x l -> length x <= length (concat l).
Proof.
  induction l as [|y l IH]; intros Hin; [destruct Hin|].
  cbn [concat]. rewrite app_length. destruct Hin as [-> | Hin]; [lia | specialize (IH Hin); lia].
Qed.

Lemma concat_repeat_length {A} (x : list A) n : length (concat (repeat x n)) = n * length x.
Proof. induction n as [|n IH]; [reflexivity|]. cbn [repeat concat]. rewrite app_length, IH. lia. Qed.

Lemma snoc_top (s : gst) vals c rest n :
  stack s = vals ++ c :: rest -> length vals = n -> exists v, length v = S n /\ stack s = v ++ rest.
Proof.
  intros H Hl. exists (vals ++ [c]). split; [rewrite app_length; cbn [length]; lia | rewrite <- app_assoc; exact H].
Qed.

(** the shape every recursive use of [lower] has *)
Definition lowers (m : M unit) (n : nat) : Prop :=
  forall s x st r, stack s = x :: st -> realloc s = Some r -> ok_with m s (stkn s n st).

(** ** one variant arm *)
Definition arm_pre (lw : ty -> M unit) (results : list wt) (c : option ty) : Prop :=
  length (oflat wflat c) < length results /\
  (forall k a, nth_error (oflat wflat c) k = Some a -> exists j, nth_error (tl results) k = Some j /\ wle a j) /\
  match c with Some t => fits t /\ lowers (lw t) (length (wflat t)) | None => True end.

Lemma lower_arm_ok (lw : ty -> M unit) results i c s x st r :
  arm_pre lw results c -> stack s = x :: st -> realloc s = Some r ->
  ok_with (lower_arm results i c (match c with Some t => lw t | None => ret tt end)) s (stk s (x :: st)).
Proof.
  intros [Hlen [Hnth Hc]] Hs Hr. unfold lower_arm.
  next_with ok_push_block'.
  next_with ok_emit0. cbn [results_len seq rev app] in *.
  apply ok_bind. eapply ok_pop'; [eassumption|]. intros s3 Hs3 Hf3.
  next_with ok_emit0. cbn [results_len seq rev app] in *.
  apply ok_bind.
  (* the payload part: afterwards [pushed] operands sit on top of the variant operand *)
  eapply ok_weaken with (P := fun pushed s5 => pushed = 1 + length (oflat wflat c) /\
                               exists vals, length vals = pushed /\ stack s5 = vals ++ x :: st /\ frame s s5).
  { destruct c as [t|].
    - destruct Hc as [Hfit Hlw].
      next_with ok_push'.
      eapply ok_seqn.
      { eapply Hlw; [eassumption | eapply frame_realloc; [|exact Hr]; fr]. }
      intros s6 vals Hvl Hs6 Hf6.
      eapply ok_pure_bind; [apply flat_unwrap_ok; exact Hfit|].
      destruct (casts_m_ok (wflat t) (tl results) Hnth) as [casts [Hcl Hcs]].
      eapply ok_pure_bind; [apply Hcs|].
      destruct (any_cast casts).
      + eapply ok_seqn.
        { eapply (ok_emit_n (Bitcasts casts) s6 vals); [exact Hs6 | cbn [operands_len]; lia]. }
        intros s7 vals' Hvl' Hs7 Hf7. cbn [results_len] in Hvl'.
        unfold ok_with, ret. split; [reflexivity|].
        destruct (snoc_top _ _ _ _ _ Hs7 Hvl') as [v [Hv1 Hv2]].
        exists v. split; [cbn [oflat]; lia|]. split; [exact Hv2 | fr].
      + apply ok_bind. unfold ok_with at 1, ret.
        unfold ok_with, ret. split; [reflexivity|].
        destruct (snoc_top _ _ _ _ _ Hs6 Hvl) as [v [Hv1 Hv2]].
        exists v. split; [cbn [oflat]; lia|]. split; [exact Hv2 | fr].
    - unfold ok_with, ret. split; [reflexivity|].
      eexists [_]. split; [reflexivity|]. split; [cbn [app]; eassumption | fr]. }
  intros pushed s5 [Hp [vals [Hvl [Hs5 Hf5]]]].
  assert (Hle : pushed <= length results) by lia.
  eapply ok_seq with (st := (rev (seq (nxt s5) (length results - pushed)) ++ vals) ++ x :: st).
  { destruct (Nat.ltb_spec pushed (length results)) as [Hlt|Hge].
    - eapply ok_weaken; [eapply (ok_emit0 (ConstZero (skipn pushed results)) s5); [exact Hs5 | reflexivity]|].
      intros [] s6 [H1 H2]. cbn [results_len] in H1. rewrite skipn_length in H1.
      split; [rewrite <- app_assoc; exact H1 | exact H2].
    - replace (length results - pushed) with 0 by lia. cbn [seq rev app].
      apply ok_ret_stk; [exact Hs5 | apply frame_refl]. }
  intros s6 Hs6 Hf6.
  eapply ok_weaken; [eapply ok_finish_block; [exact Hs6|]|].
  { rewrite app_length, rev_length, seq_length. lia. }
  intros [] s7 [H1 H2]. split; [exact H1 | fr].
Qed.

Lemma lower_arms_ok (lw : ty -> M unit) results : forall cs i,
  (forall c, In c cs -> arm_pre lw results c) ->
  forall s x st r, stack s = x :: st -> realloc s = Some r ->
  ok_with ((fix arms (results : list wt) (cs : list (option ty)) (i : nat) {struct cs} : M unit :=
              match cs with
              | [] => ret tt
              | c :: cs' =>
                  lower_arm results i c (match c with Some x => lw x | None => ret tt end) ;;;
                  arms results cs' (S i)
              end) results cs i) s (stk s (x :: st)).
Proof.
  induction cs as [|c cs IH]; intros i Hpre s x st r Hs Hr.
  - apply ok_ret_stk; [exact Hs | apply frame_refl].
  - eapply ok_seq.
    { eapply lower_arm_ok; [apply Hpre; left; reflexivity | exact Hs | exact Hr]. }
    intros s1 Hs1 Hf1.
    eapply ok_weaken.
    { eapply (IH (S i)); [intros c' Hin; apply Hpre; right; exact Hin | exact Hs1 | eapply frame_realloc; eassumption]. }
    intros [] s2 [H1 H2]. split; [exact H1 | fr].
Qed.

(** ** records / tuples and fixed-length lists *)
Lemma lower_each_ok (lw : ty -> M unit) fs :
  Forall (fun t => fits t /\ lowers (lw t) (length (wflat t))) fs ->
  forall vals s st r, length vals = length fs -> stack s = st -> realloc s = Some r ->
  ok_with ((fix lower_each (ts : list ty) (vals : list nat) {struct ts} : M unit :=
              match ts, vals with
              | x :: ts', v :: vals' => push v ;;; lw x ;;; lower_each ts' vals'
              | _, _ => ret tt
              end) fs vals) s (stkn s (length (concat (map wflat fs))) st).
Proof.
  induction 1 as [|f fs [Hfit Hf] Hfs IH]; intros vals s st r Hl Hs Hr.
  - destruct vals; [|discriminate Hl]. unfold ok_with, ret. exists []. split; [reflexivity|].
    split; [exact Hs | apply frame_refl].
  - destruct vals as [|v vals]; [discriminate Hl|]. cbn [length] in Hl.
    next_with ok_push'.
    eapply ok_seqn.
    { eapply Hf; [eassumption | eapply frame_realloc; [|exact Hr]; fr]. }
    intros s2 out1 Ho1 Hs2 Hf2.
    eapply ok_weaken.
    { eapply (IH vals s2 (out1 ++ st) r); [lia | exact Hs2 | eapply frame_realloc; [|exact Hr]; fr]. }
    intros [] s3 [out2 [Ho2 [Hs3 Hf3]]].
    exists (out2 ++ out1). split; [|split; [rewrite <- app_assoc; exact Hs3 | fr]].
    cbn [map concat]. rewrite !app_length. lia.
Qed.

Lemma lower_rep_ok (lw : M unit) k : lowers lw k ->
  forall vals s st r, stack s = st -> realloc s = Some r ->
  ok_with (mapM_ (fun v => push v ;;; lw) vals) s (stkn s (length vals * k) st).
Proof.
  intros Hlw. induction vals as [|v vals IH]; intros s st r Hs Hr.
  - unfold ok_with, mapM_, ret. exists []. split; [reflexivity|]. split; [exact Hs | apply frame_refl].
  - cbn [mapM_]. apply ok_bind.
    next_with ok_push'.
    eapply ok_weaken.
    { eapply Hlw; [eassumption | eapply frame_realloc; [|exact Hr]; fr]. }
    intros [] s2 [out1 [Ho1 [Hs2 Hf2]]].
    eapply ok_weaken.
    { eapply (IH s2 (out1 ++ st) r); [exact Hs2 | eapply frame_realloc; [|exact Hr]; fr]. }
    intros [] s3 [out2 [Ho2 [Hs3 Hf3]]].
    exists (out2 ++ out1). split; [|split; [rewrite <- app_assoc; exact Hs3 | fr]].
    rewrite app_length. cbn [length]. lia.
Qed.

Lemma ok_drain_top k s top rest (Q : list nat -> gst -> Prop) :
  stack s = top ++ rest -> length top = k ->
  (forall s', stack s' = rest -> frame s s' -> Q (rev top) s') -> ok_with (drain k) s Q.
Proof.
  intros Hs Hl HQ. eapply ok_weaken; [apply ok_drain; rewrite Hs, app_length; lia|].
  intros a s' [Ha [H2 H3]]. subst a. rewrite Hs in *.
  rewrite firstn_app, firstn_all2, Hl, Nat.sub_diag, firstn_O, app_nil_r by lia.
  apply HQ; [|exact H3].
  rewrite H2, skipn_app, skipn_all2 by lia. rewrite Hl, Nat.sub_diag. reflexivity.
Qed.

Definition lower_spec (canon : ty -> bool) (t : ty) : Prop :=
  fits t -> lowers (lower canon t) (length (wflat t)).

Lemma variant_pre canon cs tl_ :
  Forall (OptP (lower_spec canon)) cs ->
  tl_ = acc_cases cs [] -> length tl_ < 16 ->
  forall c, In c cs -> arm_pre (lower canon) (WI32 :: tl_) c.
Proof.
  intros HF -> Hlen c Hin.
  pose proof (acc_cases_length_in cs [] c Hin) as Hl.
  split; [cbn [length]; lia|]. split.
  - intros k a Hk. cbn [tl]. eapply slot_absorbs_case; eassumption.
  - destruct c as [t|]; [|exact I].
    cbn [oflat] in Hl. assert (Hfit : fits t) by (unfold fits; lia).
    split; [exact Hfit|]. rewrite Forall_forall in HF. apply (HF _ Hin). exact Hfit.
Qed.

Lemma fits_fields fs : length (concat (map wflat fs)) <= 16 -> Forall fits fs.
Proof.
  intros H. apply Forall_forall. intros f Hin. unfold fits.
  etransitivity; [apply (concat_length_in (map wflat fs)); apply in_map; exact Hin | exact H].
Qed.

Lemma fields_pre canon fs : Forall (lower_spec canon) fs -> Forall fits fs ->
  Forall (fun t => fits t /\ lowers (lower canon t) (length (wflat t))) fs.
Proof.
  intros H1 H2. rewrite Forall_forall in *. intros f Hin. split; [apply H2; exact Hin | apply H1; [exact Hin | apply H2; exact Hin]].
Qed.

Theorem lower_ok canon : forall t, lower_spec canon t.
Proof.
  induction t using ty_ind'; intros Hfit s x st r Hs Hr.
  1-12,14,21,24-28: (cbn [lower lower_scalar_op];
     eapply ok_weaken; [eapply (ok_emit_n _ s [x] st); [exact Hs | reflexivity]|];
     intros [] s1 [vals [Hl [H1 H2]]]; exists vals; split; [|split; assumption];
     rewrite Hl; cbn [results_len wflat length]; rewrite ?repeat_length; reflexivity).
  - (* string *)
    cbn [lower]. eapply ok_realloc_bind; [exact Hr|].
    eapply ok_weaken; [eapply (ok_emit_n _ s [x] st); [exact Hs | reflexivity]|].
    intros [] s1 H1. exact H1.
  - (* list *)
    cbn [lower].
    eapply ok_weaken; [eapply (lower_list_with_ok canon t (write canon t) (write_ok canon t) s x st r Hs Hr)|].
    intros [] s1 [p [l [Hs1 Hf1]]]. exists [l; p]. split; [reflexivity | split; [exact Hs1 | exact Hf1]].
  - (* fixed *)
    cbn [lower].
    eapply ok_seqn; [eapply (ok_emit_n _ s [x] st); [exact Hs | reflexivity]|].
    intros s1 vals Hvl Hs1 Hf1. cbn [results_len] in Hvl.
    apply ok_bind. eapply ok_drain_top; [exact Hs1 | exact Hvl|]. intros s2 Hs2 Hf2.
    cbn [wflat]. rewrite concat_repeat_length, <- Hvl, <- (rev_length vals).
    destruct (rev vals) as [|v0 rv] eqn:Erv.
    + unfold ok_with, mapM_, ret. exists []. split; [reflexivity|]. split; [exact Hs2 | fr].
    + rewrite <- Erv.
      assert (Hfx : fits t).
      { unfold fits in *. cbn [wflat] in Hfit. rewrite concat_repeat_length in Hfit.
        assert (0 < N.to_nat n) by (rewrite <- Hvl, <- (rev_length vals), Erv; cbn [length]; lia). nia. }
      eapply ok_weaken.
      { eapply (lower_rep_ok (lower canon t) (length (wflat t)) (IHt Hfx) (rev vals) s2 st r Hs2).
        eapply frame_realloc; [|exact Hr]; fr. }
      intros [] s3 [out [Ho [Hs3 Hf3]]]. exists out. split; [exact Ho|]. split; [exact Hs3 | fr].
  - (* map *)
    cbn [lower].
    eapply ok_weaken; [eapply (lower_map_with_ok t1 t2 (write canon t1) (write canon t2) (write_ok canon t1) (write_ok canon t2) s x st r Hs Hr)|].
    intros [] s1 [p [l [Hs1 Hf1]]]. exists [l; p]. split; [reflexivity | split; [exact Hs1 | exact Hf1]].
  - (* record *)
    cbn [lower].
    eapply ok_seqn; [eapply (ok_emit_n _ s [x] st); [exact Hs | reflexivity]|].
    intros s1 vals Hvl Hs1 Hf1. cbn [results_len] in Hvl.
    apply ok_bind. eapply ok_drain_top; [exact Hs1 | exact Hvl|]. intros s2 Hs2 Hf2.
    eapply ok_weaken.
    { eapply (lower_each_ok (lower canon) fs (fields_pre canon fs H (fits_fields fs Hfit)) (rev vals) s2 st r);
        [rewrite rev_length; exact Hvl | exact Hs2 | eapply frame_realloc; [|exact Hr]; fr]. }
    intros [] s3 [out [Ho [Hs3 Hf3]]]. exists out. split; [exact Ho|]. split; [exact Hs3 | fr].
  - (* tuple *)
    cbn [lower].
    eapply ok_seqn; [eapply (ok_emit_n _ s [x] st); [exact Hs | reflexivity]|].
    intros s1 vals Hvl Hs1 Hf1. cbn [results_len] in Hvl.
    apply ok_bind. eapply ok_drain_top; [exact Hs1 | exact Hvl|]. intros s2 Hs2 Hf2.
    eapply ok_weaken.
    { eapply (lower_each_ok (lower canon) ts (fields_pre canon ts H (fits_fields ts Hfit)) (rev vals) s2 st r);
        [rewrite rev_length; exact Hvl | exact Hs2 | eapply frame_realloc; [|exact Hr]; fr]. }
    intros [] s3 [out [Ho [Hs3 Hf3]]]. exists out. split; [exact Ho|]. split; [exact Hs3 | fr].
  - (* variant *)
    cbn [lower]. apply ok_bind.
    eapply ok_pure_bind; [apply flat_unwrap_ok; exact Hfit|].
    apply ok_bind.
    eapply ok_weaken.
    { eapply (lower_arms_ok (lower canon) (wflat (TVariant cs)) cs 0); [|exact Hs | exact Hr].
      eapply (variant_pre canon cs (acc_cases cs [])); [exact H | reflexivity|].
      unfold fits in Hfit. cbn [wflat length] in Hfit. unfold acc_cases. lia. }
    intros [] s1 [Hs1 Hf1]. unfold ok_with at 1, ret.
    eapply ok_weaken; [eapply (ok_emit_n _ s1 [x] st); [exact Hs1 | reflexivity]|].
    intros [] s2 [vals [Hl [H1 H2]]]. exists vals. split; [exact Hl|]. split; [exact H1 | fr].
  - (* option *)
    cbn [lower]. apply ok_bind.
    eapply ok_pure_bind; [apply flat_unwrap_ok; exact Hfit|].
    apply ok_bind.
    eapply ok_weaken.
    { eapply (lower_arms_ok (lower canon) (wflat (TOption t)) (cases_of_option t) 0); [|exact Hs | exact Hr].
      eapply (variant_pre canon (cases_of_option t) (acc_cases (cases_of_option t) [])); [| reflexivity|].
      - unfold cases_of_option. constructor; [exact I | constructor; [exact IHt | constructor]].
      - unfold fits in Hfit. cbn [wflat length] in Hfit. unfold acc_cases. lia. }
    intros [] s1 [Hs1 Hf1]. unfold ok_with at 1, ret.
    eapply ok_weaken; [eapply (ok_emit_n _ s1 [x] st); [exact Hs1 | reflexivity]|].
    intros [] s2 [vals [Hl [H1 H2]]]. exists vals. split; [exact Hl|]. split; [exact H1 | fr].
  - (* result *)
    cbn [lower]. apply ok_bind.
    eapply ok_pure_bind; [apply flat_unwrap_ok; exact Hfit|].
    apply ok_bind.
    eapply ok_weaken.
    { eapply (lower_arms_ok (lower canon) (wflat (TResult ok err)) (cases_of_result ok err) 0); [|exact Hs | exact Hr].
      eapply (variant_pre canon (cases_of_result ok err) (acc_cases (cases_of_result ok err) [])); [| reflexivity|].
      - unfold cases_of_result. constructor; [assumption | constructor; [assumption | constructor]].
      - unfold fits in Hfit. cbn [wflat length] in Hfit. unfold acc_cases. lia. }
    intros [] s1 [Hs1 Hf1]. unfold ok_with at 1, ret.
    eapply ok_weaken; [eapply (ok_emit_n _ s1 [x] st); [exact Hs1 | reflexivity]|].
    intros [] s2 [vals [Hl [H1 H2]]]. exists vals. split; [exact Hl|]. split; [exact H1 | fr].
Qed.

(** The public entry point [lower_flat]: for every type that fits, it completes and leaves exactly the flattened
    number of core values. *)
Theorem lower_flat_never_panics canon t : fits t ->
  ok_with (lower_flat canon t) gst0 (fun _ s' => length (stack s') = length (wflat t)).
Proof.
  intros Hfit. unfold lower_flat.
  apply ok_bind. unfold ok_with at 1. cbn [fresh gst0 nxt seq Nat.add].
  apply ok_bind. unfold ok_with at 1, push, bind, get, set_stack. cbn [stack nxt evs retp realloc].
  apply ok_bind. unfold ok_with at 1. cbn [set_realloc stack nxt evs retp realloc].
  eapply ok_weaken; [eapply (lower_ok canon t Hfit _ 0 [] true); reflexivity|].
  intros [] s' [vals [Hl [Hs _]]]. rewrite Hs, app_nil_r. exact Hl.
Qed.

Example lower_ok_nonvacuous :
  fits (TVariant [Some TF32; Some TS64; None; Some TString]) /\ fits (TRecord [TU8; TList TString; TFixed TU32 3%N]).
Proof. unfold fits. split; apply Nat.leb_le; vm_compute; reflexivity. Qed.

Theorem lower_flat_canonical_count canon pw t : pw = 4%N \/ pw = 8%N ->
  length (Spec.flatten pw t) <= 16 ->
  ok_with (lower_flat canon t) gst0 (fun _ s' => length (stack s') = length (Spec.flatten pw t)).
Proof.
  intros Hpw Hfit. pose proof (wflat_is_spec_flatten pw t Hpw) as Ha. unfold flat_agrees in Ha.
  rewrite <- Ha, map_length in *. apply lower_flat_never_panics. exact Hfit.
Qed.
