(** * [Generator::post_return] never panics where the generator asks for it
    Whenever [guest_export_needs_post_return] holds (the result can hold a heap buffer) for an export with a
    well-formed result type, wit-parser's signature returns the result through a pointer ([assert!(sig.retptr)]
    holds) and the post-return body completes with an empty operand stack.  (Before /repo commit bbdfee6 this was
    false for `error-context` results: the decision said yes while the signature had no return pointer.) *)
From Coq Require Import List ZArith NArith Bool Arith Lia.
From WB Require Import Wit.Ty Canon.Spec Abi.Sig Abi.Instr Abi.Cast Abi.Gen Abi.CastProofs Abi.SigProofs Abi.SigFuncProofs
                       Abi.GenDiscipline Abi.GenFlatDiscipline Abi.GenFlatLift Abi.GenDeallocDiscipline Abi.GenFlatDealloc.
Import ListNotations.

Lemma heap_types_need_two_slots : forall t, valid_ty t = true -> needs_deallocate DLists t = true -> 2 <= length (wflat t).
Proof.
  induction t using ty_ind'; intros Hv Hn; cbn [needs_deallocate handles] in Hn; try discriminate Hn;
    try (cbn [wflat length]; lia).
  - (* fixed *)
    cbn [valid_ty] in Hv. apply andb_split in Hv. destruct Hv as [Hvt Hn0]. apply N.ltb_lt in Hn0.
    specialize (IHt Hvt Hn). cbn [wflat]. rewrite concat_repeat_length.
    assert (1 <= N.to_nat n) by lia. nia.
  - (* record *)
    cbn [valid_ty] in Hv. apply andb_split in Hv. destruct Hv as [_ Hvf].
    apply existsb_exists in Hn. destruct Hn as [x [Hin Hx]].
    rewrite Forall_forall in H. rewrite forallb_forall in Hvf.
    specialize (H x Hin (Hvf x Hin) Hx). cbn [wflat].
    etransitivity; [exact H|]. apply concat_length_in. apply in_map. exact Hin.
  - (* tuple *)
    cbn [valid_ty] in Hv. apply andb_split in Hv. destruct Hv as [_ Hvf].
    apply existsb_exists in Hn. destruct Hn as [x [Hin Hx]].
    rewrite Forall_forall in H. rewrite forallb_forall in Hvf.
    specialize (H x Hin (Hvf x Hin) Hx). cbn [wflat].
    etransitivity; [exact H|]. apply concat_length_in. apply in_map. exact Hin.
  - (* variant *)
    cbn [valid_ty] in Hv. apply andb_split in Hv. destruct Hv as [_ Hvc].
    apply existsb_exists in Hn. destruct Hn as [c [Hin Hc]].
    rewrite Forall_forall in H. rewrite forallb_forall in Hvc.
    destruct c as [x|]; [|discriminate Hc].
    pose proof (H _ Hin (Hvc _ Hin) Hc) as Hx.
    pose proof (acc_cases_length_in cs [] (Some x) Hin) as Hl. cbn [oflat] in Hl.
    change (wflat (TVariant cs)) with (WI32 :: acc_cases cs []). cbn [length]. lia.
  - (* option *)
    cbn [valid_ty] in Hv. specialize (IHt Hv Hn).
    pose proof (acc_cases_length_in (cases_of_option t) [] (Some t)) as Hl. cbn [oflat] in Hl.
    change (wflat (TOption t)) with (WI32 :: acc_cases (cases_of_option t) []). cbn [length].
    assert (In (Some t) (cases_of_option t)) by (unfold cases_of_option; right; left; reflexivity).
    specialize (Hl H). lia.
  - (* result *)
    cbn [valid_ty] in Hv. apply andb_split in Hv. destruct Hv as [Hva Hvb].
    change (wflat (TResult ok err)) with (WI32 :: acc_cases (cases_of_result ok err) []). cbn [length].
    apply orb_true_iff in Hn. destruct Hn as [Hn | Hn].
    + destruct ok as [x|]; [|discriminate Hn]. cbn [OptP] in H. specialize (H Hva Hn).
      pose proof (acc_cases_length_in (cases_of_result (Some x) err) [] (Some x)) as Hl. cbn [oflat] in Hl.
      assert (In (Some x) (cases_of_result (Some x) err)) by (unfold cases_of_result; left; reflexivity).
      specialize (Hl H1). lia.
    + destruct err as [x|]; [|discriminate Hn]. cbn [OptP] in H0. specialize (H0 Hvb Hn).
      pose proof (acc_cases_length_in (cases_of_result ok (Some x)) [] (Some x)) as Hl. cbn [oflat] in Hl.
      assert (In (Some x) (cases_of_result ok (Some x))) by (unfold cases_of_result; right; left; reflexivity).
      specialize (Hl H1). lia.
Qed.

Lemma export_retptr fn t sig :
  f_result fn = Some t -> 2 <= length (wflat t) ->
  wasm_signature GuestExport fn = SigOk sig -> s_retptr sig = true.
Proof.
  intros Hres Hl Hsig. unfold wasm_signature in Hsig. rewrite Hres in Hsig.
  destruct (push_flat_list (f_params fn) (ft_new 17)) as [ok p].
  destruct (push_flat t (ft_new 1)) as [rok r] eqn:E.
  destruct (result_fact t rok r E) as [Hov _].
  assert (Hover : ft_over r = true) by (rewrite Hov; apply Nat.ltb_lt; lia).
  rewrite Hover in Hsig.
  match type of Hsig with (if ?c then _ else _) = _ => destruct c end; [discriminate Hsig|].
  injection Hsig as <-. reflexivity.
Qed.

Theorem post_return_ok fn t sig :
  f_result fn = Some t -> valid_ty t = true ->
  guest_export_needs_post_return fn = true ->
  wasm_signature GuestExport fn = SigOk sig ->
  s_retptr sig = true /\ ok_with (post_return fn) gst0 (fun _ s' => stack s' = []).
Proof.
  intros Hres Hv Hneed Hsig.
  unfold guest_export_needs_post_return in Hneed. rewrite Hres in Hneed.
  pose proof (export_retptr fn t sig Hres (heap_types_need_two_slots t Hv Hneed) Hsig) as Hret.
  split; [exact Hret|].
  unfold post_return, get_sig. rewrite Hsig.
  apply ok_bind. unfold ok_with at 1, ret. rewrite Hret.
  apply ok_bind. unfold ok_with at 1, ret.
  eapply ok_seq; [eapply (ok_emit0 (GetArg 0) gst0 []); reflexivity|]. intros s1 Hs1 Hf1.
  cbn [results_len seq rev app gst0 nxt] in Hs1.
  apply ok_bind. eapply ok_pop'; [exact Hs1|]. intros s2 Hs2 Hf2.
  rewrite Hres. cbn [opt_list].
  apply ok_bind. eapply ok_weaken; [eapply deallocate_in_types_indirect_ok; exact Hs2|].
  intros [] s3 Hs3.
  eapply ok_weaken; [eapply (ok_emit0 (Return 0) s3 []); [exact Hs3 | reflexivity]|].
  intros [] s4 [H1 _]. exact H1.
Qed.
