(** The instruction language of crates/core/src/abi.rs ([enum Instruction], [enum Bitcast]) and the
    event stream a [Bindgen] implementation observes ([emit] with operand/result ids, [push_block],
    [finish_block], [return_pointer]).  Names, TypeIds and docs carried by the Rust instructions are
    irrelevant to the ABI and omitted; types inside instructions are structural [ty] trees. *)
From Coq Require Import List ZArith NArith Bool.
From WB Require Import Wit.Ty Abi.Sig.
Import ListNotations.

Inductive bitcast :=
| BNone
| BF32ToI32 | BF64ToI64 | BI32ToI64 | BF32ToI64
| BI32ToF32 | BI64ToF64 | BI64ToI32 | BI64ToF32
| BP64ToI64 | BI64ToP64 | BP64ToP | BPToP64
| BI32ToP | BPToI32 | BPToL | BLToP
| BI32ToL | BLToI32 | BI64ToL | BLToI64
| BSeq (a b : bitcast).

Fixpoint bitcast_eqb (a b : bitcast) : bool :=
  match a, b with
  | BNone, BNone | BF32ToI32, BF32ToI32 | BF64ToI64, BF64ToI64 | BI32ToI64, BI32ToI64 | BF32ToI64, BF32ToI64
  | BI32ToF32, BI32ToF32 | BI64ToF64, BI64ToF64 | BI64ToI32, BI64ToI32 | BI64ToF32, BI64ToF32
  | BP64ToI64, BP64ToI64 | BI64ToP64, BI64ToP64 | BP64ToP, BP64ToP | BPToP64, BPToP64
  | BI32ToP, BI32ToP | BPToI32, BPToI32 | BPToL, BPToL | BLToP, BLToP
  | BI32ToL, BI32ToL | BLToI32, BLToI32 | BI64ToL, BI64ToL | BLToI64, BLToI64 => true
  | BSeq a1 a2, BSeq b1 b2 => bitcast_eqb a1 b1 && bitcast_eqb a2 b2
  | _, _ => false
  end.

(** Memory access widths. *)
Inductive ldop := LI32 | LI32_8U | LI32_8S | LI32_16U | LI32_16S | LI64 | LF32 | LF64 | LPtr | LLen.
Inductive stop := SI32 | SI32_8 | SI32_16 | SI64 | SF32 | SF64 | SPtr | SLen.

(** Scalar lift/lower instructions. *)
Inductive scalar_op :=
| I32FromChar | I64FromU64 | I64FromS64 | I32FromU32 | I32FromS32 | I32FromU16 | I32FromS16 | I32FromU8 | I32FromS8
| CoreF32FromF32 | CoreF64FromF64
| S8FromI32 | U8FromI32 | S16FromI32 | U16FromI32 | S32FromI32 | U32FromI32 | S64FromI64 | U64FromI64
| CharFromI32 | F32FromCoreF32 | F64FromCoreF64 | BoolFromI32 | I32FromBool.

Inductive instr :=
| GetArg (nth : nat)
| I32Const (v : Z)
| Bitcasts (cs : list bitcast)
| ConstZero (tys : list wt)
| Load (op : ldop) (off : asize)
| Store (op : stop) (off : asize)
| Scalar (op : scalar_op)
| ListCanonLower (elem : ty) (realloc : bool)
| StringLower (realloc : bool)
| ListLower (elem : ty) (realloc : bool)
| ListCanonLift (elem : ty)
| StringLift
| ListLift (elem : ty)
| MapLower (k v : ty) (realloc : bool)
| MapLift (k v : ty)
| FixedLift (elem : ty) (n : N)
| FixedLower (elem : ty) (n : N)
| FixedLowerToMemory (elem : ty) (n : N)
| FixedLiftFromMemory (elem : ty) (n : N)
| IterElem (elem : ty)
| IterMapKey (k : ty)
| IterMapValue (v : ty)
| IterBasePointer
| RecordLower (fs : list ty)
| RecordLift (fs : list ty)
| HandleLower (own : bool)
| HandleLift (own : bool)
| FutureLower (p : option ty)
| FutureLift (p : option ty)
| StreamLower (p : option ty)
| StreamLift (p : option ty)
| ErrorContextLower
| ErrorContextLift
| TupleLower (ts : list ty)
| TupleLift (ts : list ty)
| FlagsLower (n : N)
| FlagsLift (n : N)
| VariantPayloadName
| VariantLower (cs : list (option ty)) (results : list wt)
| VariantLift (cs : list (option ty))
| EnumLower (n : N)
| EnumLift (n : N)
| OptionLower (p : ty) (results : list wt)
| OptionLift (p : ty)
| ResultLower (ok err : option ty) (results : list wt)
| ResultLift (ok err : option ty)
| CallWasm (s : wsig)
| CallInterface (nparams : nat) (has_result : bool) (async_ : bool)
| Return (amt : nat)
| Malloc (size : asize) (al : align)
| GuestDeallocate (size : asize) (al : align)
| GuestDeallocateString
| GuestDeallocateList (elem : ty)
| GuestDeallocateMap (k v : ty)
| GuestDeallocateVariant (blocks : nat)
| DropHandle (t : ty)
| AsyncTaskReturn (params : list wt)
| Flush (amt : nat).

Definition operands_len (i : instr) : nat :=
  match i with
  | GetArg _ | I32Const _ | ConstZero _ | IterElem _ | IterMapKey _ | IterMapValue _ | IterBasePointer
  | VariantPayloadName | Malloc _ _ => 0
  | Bitcasts cs => length cs
  | Load _ _ => 1
  | Store _ _ => 2
  | Scalar _ => 1
  | ListCanonLower _ _ | StringLower _ | ListLower _ _ | MapLower _ _ _ => 1
  | ListCanonLift _ | StringLift | ListLift _ | MapLift _ _ => 2
  | FixedLift e n => N.to_nat n
  | FixedLower _ _ => 1
  | FixedLowerToMemory _ _ => 2
  | FixedLiftFromMemory _ _ => 1
  | RecordLower _ => 1
  | RecordLift fs => length fs
  | HandleLower _ | HandleLift _ | FutureLower _ | FutureLift _ | StreamLower _ | StreamLift _
  | ErrorContextLower | ErrorContextLift => 1
  | TupleLower _ => 1
  | TupleLift ts => length ts
  | FlagsLower _ => 1
  | FlagsLift n => N.to_nat (flags_count n)
  | VariantLower _ _ | VariantLift _ | EnumLower _ | EnumLift _ | OptionLower _ _ | OptionLift _
  | ResultLower _ _ _ | ResultLift _ _ => 1
  | CallWasm s => length (s_params s)
  | CallInterface n _ _ => n
  | Return amt => amt
  | GuestDeallocate _ _ => 1
  | GuestDeallocateString | GuestDeallocateList _ | GuestDeallocateMap _ _ => 2
  | GuestDeallocateVariant _ => 1
  | DropHandle _ => 1
  | AsyncTaskReturn ps => length ps
  | Flush amt => amt
  end.

Definition results_len (i : instr) : nat :=
  match i with
  | GetArg _ | I32Const _ | IterElem _ | IterMapKey _ | IterMapValue _ | IterBasePointer
  | VariantPayloadName | Malloc _ _ => 1
  | Bitcasts cs => length cs
  | ConstZero tys => length tys
  | Load _ _ => 1
  | Store _ _ => 0
  | Scalar _ => 1
  | ListCanonLower _ _ | StringLower _ | ListLower _ _ | MapLower _ _ _ => 2
  | ListCanonLift _ | StringLift | ListLift _ | MapLift _ _ => 1
  | FixedLift _ _ => 1
  | FixedLower _ n => N.to_nat n
  | FixedLowerToMemory _ _ => 0
  | FixedLiftFromMemory _ _ => 1
  | RecordLower fs => length fs
  | RecordLift _ => 1
  | HandleLower _ | HandleLift _ | FutureLower _ | FutureLift _ | StreamLower _ | StreamLift _
  | ErrorContextLower | ErrorContextLift => 1
  | TupleLower ts => length ts
  | TupleLift _ => 1
  | FlagsLower n => N.to_nat (flags_count n)
  | FlagsLift _ => 1
  | VariantLower _ rs | OptionLower _ rs | ResultLower _ _ rs => length rs
  | VariantLift _ | EnumLower _ | EnumLift _ | OptionLift _ | ResultLift _ _ => 1
  | CallWasm s => length (s_results s)
  | CallInterface _ r _ => if r then 1 else 0
  | Return _ => 0
  | GuestDeallocate _ _ | GuestDeallocateString | GuestDeallocateList _ | GuestDeallocateMap _ _
  | GuestDeallocateVariant _ | DropHandle _ | AsyncTaskReturn _ => 0
  | Flush amt => amt
  end.

(** What a Bindgen observes.  Operand ids are natural numbers handed out in emission order. *)
Inductive event :=
| EEmit (i : instr) (ops res : list nat)
| EPushBlock
| EFinishBlock (ops : list nat)
| ERetPtr (size : asize) (al : align) (id : nat).
