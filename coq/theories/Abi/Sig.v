(** Model of the wit-parser pieces the shared ABI generator calls (wit-parser 0.257: src/abi.rs,
    src/sizealign.rs): the 7-constructor [WasmType], [join], [push_flat] with its bounded buffer,
    [wasm_signature], and the symbolic [ArchitectureSize]/[Alignment] arithmetic of [SizeAlign].
    These are trusted by the properties but every offset and every core signature flows through them,
    so they are modelled, tied to the real crate by the absdump correspondence, and proved equal to the
    canonical-ABI spec in SigProofs.v. *)
From Coq Require Import List ZArith NArith Bool Lia.
From WB Require Import Wit.Ty.
Import ListNotations.
Local Open Scope N_scope.

(** * WasmType and join *)
Inductive wt := WI32 | WI64 | WF32 | WF64 | WPtr | WPtr64 | WLen.

Definition wt_eqb (a b : wt) : bool :=
  match a, b with
  | WI32, WI32 | WI64, WI64 | WF32, WF32 | WF64, WF64 | WPtr, WPtr | WPtr64, WPtr64 | WLen, WLen => true
  | _, _ => false
  end.

Definition all_wt : list wt := [WI32; WI64; WF32; WF64; WPtr; WPtr64; WLen].

Definition wjoin (a b : wt) : wt :=
  match a, b with
  | WI32, WI32 | WI64, WI64 | WF32, WF32 | WF64, WF64 | WPtr, WPtr | WPtr64, WPtr64 | WLen, WLen => a
  | WI32, WF32 | WF32, WI32 => WI32
  | WLen, (WI32 | WF32) | (WI32 | WF32), WLen => WLen
  | WLen, (WI64 | WF64) | (WI64 | WF64), WLen => WI64
  | WPtr, (WI32 | WF32 | WLen) | (WI32 | WF32 | WLen), WPtr => WPtr
  | WPtr, (WI64 | WF64) | (WI64 | WF64), WPtr => WPtr64
  | WPtr64, _ | _, WPtr64 => WPtr64
  | _, (WI64 | WF64) | (WI64 | WF64), _ => WI64
  end.

(** * FlatTypes: a bounded output buffer *)
Record ft := { ft_types : list wt; ft_cap : nat; ft_over : bool }.
Definition ft_new (cap : nat) : ft := {| ft_types := []; ft_cap := cap; ft_over := false |}.
Definition ft_cur (f : ft) : nat := length (ft_types f).

Definition ft_push (f : ft) (t : wt) : bool * ft :=
  if (ft_cur f <? ft_cap f)%nat
  then (true, {| ft_types := ft_types f ++ [t]; ft_cap := ft_cap f; ft_over := ft_over f |})
  else (false, {| ft_types := ft_types f; ft_cap := ft_cap f; ft_over := true |}).

Definition ft_set_over (f : ft) : ft := {| ft_types := ft_types f; ft_cap := ft_cap f; ft_over := true |}.

(** push a list of core types, stopping at the first overflow ([Iterator::all]) *)
Fixpoint ft_push_all (f : ft) (ts : list wt) : bool * ft :=
  match ts with
  | [] => (true, f)
  | t :: ts' => let '(ok, f') := ft_push f t in if ok then ft_push_all f' ts' else (false, f')
  end.

Definition int_wt (ncases : N) : wt := WI32.   (* Int::U8/U16/U32 -> I32; variants/enums never use U64 *)

Definition flags_count (n : N) : N :=
  if n =? 0 then 0 else if n <=? 16 then 1 else ((n + 31) / 32).

(** Merge one case's flat types [temp] into [result] starting at [start] (the loop body of
    [push_flat_variants]). *)
Fixpoint merge_case (types : list wt) (cap : nat) (start : nat) (i : nat) (temp : list wt) : option (list wt) :=
  match temp with
  | [] => Some types
  | t :: temp' =>
      let idx := (i + start)%nat in
      if (idx <? length types)%nat then
        merge_case (firstn idx types ++ [wjoin (nth idx types WI32) t] ++ skipn (S idx) types) cap start (S i) temp'
      else if (length types =? cap)%nat then None
      else merge_case (types ++ [t]) cap start (S i) temp'
  end.

Fixpoint push_flat (t : ty) (f : ft) {struct t} : bool * ft :=
  let fix push_list (ts : list ty) (f : ft) {struct ts} : bool * ft :=
    match ts with
    | [] => (true, f)
    | x :: ts' => let '(ok, f') := push_flat x f in if ok then push_list ts' f' else (false, f')
    end in
  let push_rep (push1 : ft -> bool * ft) :=
    fix go (n : nat) (f : ft) {struct n} : bool * ft :=
      match n with
      | O => (true, f)
      | S k => let '(ok, f') := push1 f in if ok then go k f' else (false, f')
      end in
  let fix push_variants (cs : list (option ty)) (start : nat) (f : ft) {struct cs} : bool * ft :=
    match cs with
    | [] => (true, f)
    | None :: cs' => push_variants cs' start f
    | Some x :: cs' =>
        let '(ok, tmp) := push_flat x (ft_new (ft_cap f - start)) in
        if ok then
          match merge_case (ft_types f) (ft_cap f) start 0 (ft_types tmp) with
          | Some tys => push_variants cs' start {| ft_types := tys; ft_cap := ft_cap f; ft_over := ft_over f |}
          | None => (false, ft_set_over f)
          end
        else (false, ft_set_over f)
    end in
  let variant (cs : list (option ty)) : bool * ft :=
    let '(ok, f') := ft_push f WI32 in
    if ok then push_variants cs (ft_cur f') f' else (false, f') in
  match t with
  | TBool | TS8 | TU8 | TS16 | TU16 | TS32 | TU32 | TChar | TErrCtx | TOwn | TBorrow
  | TFuture _ | TStream _ | TEnum _ => ft_push f WI32
  | TU64 | TS64 => ft_push f WI64
  | TF32 => ft_push f WF32
  | TF64 => ft_push f WF64
  | TString | TList _ | TMap _ _ => ft_push_all f [WPtr; WLen]
  | TRecord fs | TTuple fs => push_list fs f
  | TFlags n => ft_push_all f (repeat WI32 (N.to_nat (flags_count n)))
  | TFixed x n => push_rep (push_flat x) (N.to_nat n) f
  | TVariant cs => variant cs
  | TOption x => variant (cases_of_option x)
  | TResult a b => variant (cases_of_result a b)
  end.

Definition push_flat_list (ts : list ty) (f : ft) : bool * ft :=
  (fix go (ts : list ty) (f : ft) : bool * ft :=
     match ts with
     | [] => (true, f)
     | x :: ts' => let '(ok, f') := push_flat x f in if ok then go ts' f' else (false, f')
     end) ts f.

(** [abi::flat_types(resolve, ty, max)] *)
Definition flat_types (t : ty) (max : nat) : option (list wt) :=
  let '(ok, f) := push_flat t (ft_new max) in if ok then Some (ft_types f) else None.

(** * AbiVariant and wasm_signature *)
Inductive abi_variant := GuestImport | GuestExport | GuestImportAsync | GuestExportAsync | GuestExportAsyncStackful.

Record func := { f_params : list ty; f_result : option ty; f_method : bool }.
Record wsig := { s_params : list wt; s_results : list wt; s_indirect : bool; s_retptr : bool }.

Inductive sig_res := SigOk (s : wsig) | SigPanic (site : nat).

Definition is_export (v : abi_variant) : bool :=
  match v with GuestExport | GuestExportAsync | GuestExportAsyncStackful => true | _ => false end.

Definition wasm_signature (v : abi_variant) (fn : func) : sig_res :=
  let '(ok, p) := push_flat_list (f_params fn) (ft_new 17) in
  let max := match v with GuestImportAsync => 4%nat | _ => 16%nat end in
  let indirect := negb ok || (max <? ft_cur p)%nat in
  let ptys := if indirect then [WPtr]
              else if f_method fn && is_export v then
                     match ft_types p with
                     | WI32 :: rest => WPtr :: rest
                     | other => other      (* the code asserts I32 here; SigPanic below *)
                     end
                   else ft_types p in
  if negb indirect && f_method fn && is_export v
     && negb (match ft_types p with WI32 :: _ => true | _ => false end)
  then SigPanic 1
  else
  match v with
  | GuestImport | GuestExport =>
      let '(rok, r) := match f_result fn with
                       | Some t => push_flat t (ft_new 1)
                       | None => (true, ft_new 1)
                       end in
      let retptr := ft_over r in
      if retptr then
        match v with
        | GuestImport =>
            if (length ptys <? 17)%nat
            then SigOk {| s_params := ptys ++ [WPtr]; s_results := []; s_indirect := indirect; s_retptr := true |}
            else SigPanic 2
        | _ => SigOk {| s_params := ptys; s_results := [WPtr]; s_indirect := indirect; s_retptr := true |}
        end
      else SigOk {| s_params := ptys; s_results := ft_types r; s_indirect := indirect; s_retptr := false |}
  | GuestImportAsync =>
      match f_result fn with
      | Some _ =>
          if (length ptys <? 17)%nat
          then SigOk {| s_params := ptys ++ [WPtr]; s_results := [WI32]; s_indirect := indirect; s_retptr := true |}
          else SigPanic 3
      | None => SigOk {| s_params := ptys; s_results := [WI32]; s_indirect := indirect; s_retptr := false |}
      end
  | GuestExportAsync =>
      SigOk {| s_params := ptys; s_results := [WI32]; s_indirect := indirect; s_retptr := false |}
  | GuestExportAsyncStackful =>
      SigOk {| s_params := ptys; s_results := []; s_indirect := indirect; s_retptr := false |}
  end.

(** * ArchitectureSize / Alignment *)
Record asize := { a_bytes : N; a_ptrs : N }.
Definition az (b p : N) : asize := {| a_bytes := b; a_ptrs := p |}.
Definition asize0 : asize := az 0 0.
Definition a_add (x y : asize) : asize := az (a_bytes x + a_bytes y) (a_ptrs x + a_ptrs y).
Definition a_add_bytes (x : asize) (b : N) : asize := az (a_bytes x + b) (a_ptrs x).
Definition a_size (pw : N) (x : asize) : N := a_bytes x + a_ptrs x * pw.

Inductive align := APtr | ABytes (n : N).
Definition a_align (pw : N) (a : align) : N := match a with APtr => pw | ABytes n => n end.
Definition align_default : align := ABytes 1.
Definition asize_of_align (a : align) : asize := match a with ABytes n => az n 0 | APtr => az 0 1 end.

(** [impl Ord for Alignment] *)
Definition align_le (a b : align) : bool :=
  match a, b with
  | APtr, APtr => true
  | APtr, ABytes n => 4 <? n
  | ABytes n, APtr => negb (4 <? n)
  | ABytes n, ABytes m => n <=? m
  end.
Definition align_max (a b : align) : align := if align_le b a then a else b.
  (* Ord::max returns [other] when equal; equal alignments are structurally equal here *)

(** [(val + align - 1) & !(align - 1)] for a power-of-two [align]; modelled arithmetically (equal as long as
    usize does not overflow; the offsets it produces are compared with the real ones on every run). *)
Definition align_to_n (v a : N) : N := ((v + a - 1) / a) * a.

Definition align_to_arch (v : asize) (a : align) : asize :=
  match a with
  | APtr =>
      let new32 := align_to_n (a_bytes v) 4 in
      if negb (new32 =? align_to_n new32 8) then az (new32 - 4) (a_ptrs v + 1) else az new32 (a_ptrs v)
  | ABytes ab =>
      if (4 <? ab) && N.odd (a_ptrs v) then
        let nb := align_to_n (a_bytes v) ab in
        if 4 <=? nb - a_bytes v then az (nb - 8) (a_ptrs v + 1) else az (nb + 8) (a_ptrs v - 1)
      else az (align_to_n (a_bytes v) ab) (a_ptrs v)
  end.

Definition asize_max (x y : asize) : asize :=
  let x32 := a_size 4 x in let x64 := a_size 8 x in
  let y32 := a_size 4 y in let y64 := a_size 8 y in
  if (y32 <=? x32) && (y64 <=? x64) then x
  else if (x32 <=? y32) && (x64 <=? y64) then y
  else let n32 := align_to_n (N.max x32 y32) 4 in
       let n64 := align_to_n (N.max x64 y64) 8 in
       az (n32 + n32 - n64) ((n64 - n32) / 4).

Definition int_bytes (ncases : N) : N := if ncases <=? 256 then 1 else if ncases <=? 65536 then 2 else 4.

(** * SizeAlign: (size, align) of every type, symbolically *)
Definition info : Type := asize * align.

Definition sa_record (infos : list info) : info :=
  let '(sz, al) := fold_left (fun '(sz, al) '(fs, fa) => (a_add (align_to_arch sz fa) fs, align_max al fa))
                             infos (asize0, align_default) in
  (align_to_arch sz al, al).

Definition sa_variant (tagb : N) (infos : list (option info)) : info :=
  let '(cs, ca) := fold_left (fun '(cs, ca) o => match o with
                                                  | Some (s, a) => (asize_max cs s, align_max ca a)
                                                  | None => (cs, ca)
                                                  end) infos (asize0, align_default) in
  let al := align_max (ABytes tagb) ca in
  (align_to_arch (a_add (align_to_arch (az tagb 0) ca) cs) al, al).

Fixpoint sa (t : ty) : info :=
  match t with
  | TBool | TU8 | TS8 => (az 1 0, ABytes 1)
  | TU16 | TS16 => (az 2 0, ABytes 2)
  | TU32 | TS32 | TF32 | TChar | TErrCtx | TOwn | TBorrow | TFuture _ | TStream _ => (az 4 0, ABytes 4)
  | TU64 | TS64 | TF64 => (az 8 0, ABytes 8)
  | TString | TList _ | TMap _ _ => (az 0 2, APtr)
  | TFixed x n => let '(s, a) := sa x in (az (a_bytes s * n) (a_ptrs s * n), a)
  | TRecord fs | TTuple fs => sa_record (map sa fs)
  | TFlags n => if n =? 0 then (az 0 0, ABytes 4)
                else if n <=? 8 then (az 1 0, ABytes 1)
                else if n <=? 16 then (az 2 0, ABytes 2)
                else (az (((n + 31) / 32) * 4) 0, ABytes 4)
  | TVariant cs => sa_variant (int_bytes (N.of_nat (length cs))) (map (option_map sa) cs)
  | TEnum n => sa_variant (int_bytes n) []
  | TOption x => sa_variant 1 [Some (sa x)]
  | TResult a b => sa_variant 1 [option_map sa a; option_map sa b]
  end.

Definition sa_size (t : ty) : asize := fst (sa t).
Definition sa_align (t : ty) : align := snd (sa t).

Fixpoint sa_field_offsets_from (cur : asize) (ts : list ty) : list (asize * ty) :=
  match ts with
  | [] => []
  | t :: ts' => let o := align_to_arch cur (sa_align t) in
                (o, t) :: sa_field_offsets_from (a_add o (sa_size t)) ts'
  end.
Definition sa_field_offsets (ts : list ty) : list (asize * ty) := sa_field_offsets_from asize0 ts.

Definition sa_payload_offset (tagb : N) (cs : list (option ty)) : asize :=
  let ma := fold_left (fun m c => match c with Some t => align_max m (sa_align t) | None => m end) cs align_default in
  align_to_arch (az tagb 0) ma.

Definition sa_record_tys (ts : list ty) : info := sa_record (map sa ts).
