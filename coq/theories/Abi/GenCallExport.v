(** * [Generator::call] for a synchronous export (GuestExport, LiftArgsLowerResults) never panics *)
From Coq Require Import List ZArith NArith Bool Arith Lia.
From WB Require Import Wit.Ty Canon.Spec Abi.Sig Abi.Instr Abi.Cast Abi.Gen Abi.CastProofs Abi.SigProofs Abi.SigFuncProofs
                       Abi.GenDiscipline Abi.GenFlatDiscipline Abi.GenFlatLift Abi.GenCallImport.
Import ListNotations.

Lemma export_sig_facts fn sig : f_method fn = false -> wasm_signature GuestExport fn = SigOk sig ->
  s_indirect sig = (16 <? length (FPs fn))%nat /\ s_retptr sig = RPb fn /\
  s_params sig = (if (16 <? length (FPs fn))%nat then [WPtr] else FPs fn) /\
  s_results sig = (if RPb fn then [WPtr] else match f_result fn with Some t => wflat t | None => [] end).
Proof.
  intros Hm Hsig. unfold wasm_signature in Hsig. rewrite Hm in Hsig. unfold FPs, RPb.
  destruct (push_flat_list (f_params fn) (ft_new 17)) as [ok p] eqn:E.
  destruct (params_fact (f_params fn) ok p 16 E (le_n 16)) as [Hind Htys].
  rewrite Hind in Hsig.
  destruct (16 <? length (concat (map wflat (f_params fn))))%nat eqn:Ei; cbn [negb andb orb] in Hsig.
  - destruct (f_result fn) as [t|].
    + destruct (push_flat t (ft_new 1)) as [rok r] eqn:Er.
      destruct (result_fact t rok r Er) as [Hov Hty]. rewrite Hov in Hsig.
      destruct (1 <? length (wflat t))%nat eqn:E1.
      * injection Hsig as <-. cbn. repeat split.
      * injection Hsig as <-. cbn. rewrite (Hty eq_refl). repeat split.
    + cbn in Hsig. injection Hsig as <-. cbn. repeat split.
  - specialize (Htys eq_refl). rewrite Htys in Hsig.
    destruct (f_result fn) as [t|].
    + destruct (push_flat t (ft_new 1)) as [rok r] eqn:Er.
      destruct (result_fact t rok r Er) as [Hov Hty]. rewrite Hov in Hsig.
      destruct (1 <? length (wflat t))%nat eqn:E1.
      * injection Hsig as <-. cbn. repeat split.
      * injection Hsig as <-. cbn. rewrite (Hty eq_refl). repeat split.
    + cbn in Hsig. injection Hsig as <-. cbn. repeat split.
Qed.

Lemma getargs_ok off : forall k a s st, stack s = st ->
  ok_with (mapM_ (fun i => emit (GetArg (off + i))) (seq a k)) s (stkn s k st).
Proof.
  induction k as [|k IH]; intros a s st Hs.
  - unfold ok_with, mapM_, ret. exists []. split; [reflexivity|]. split; [exact Hs | apply frame_refl].
  - cbn [seq mapM_].
    eapply ok_seq; [eapply (ok_emit0 (GetArg (off + a)) s); [reflexivity | reflexivity]|]. intros s1 Hs1 Hf1.
    cbn [results_len seq rev app] in Hs1.
    eapply ok_weaken; [eapply (IH (S a) s1 _ Hs1)|].
    intros [] s2 [vals [Hvl [Hs2 Hf2]]].
    destruct (snoc_top _ _ _ _ _ Hs2 Hvl) as [w [Hw1 Hw2]].
    exists w. split; [exact Hw1|]. split; [rewrite Hw2, Hs; reflexivity | fr].
Qed.

Lemma lift_params_ok canon : forall ps off s st,
  Forall fits ps -> forallb valid_ty ps = true -> stack s = st ->
  ok_with ((fix go (ps : list ty) (offset : nat) {struct ps} : M unit :=
              match ps with
              | [] => ret tt
              | t :: ps' =>
                  match flat_types t 16 with
                  | None => fail SPanicFlatParam
                  | Some types =>
                      mapM_ (fun i => emit (GetArg (offset + i))) (seq 0 (length types)) ;;;
                      lift canon t ;;;
                      go ps' (offset + length types)%nat
                  end
              end) ps off) s (stkn s (length ps) st).
Proof.
  induction ps as [|t ps IH]; intros off s st Hfit Hv Hs.
  - unfold ok_with, ret. exists []. split; [reflexivity|]. split; [exact Hs | apply frame_refl].
  - inversion Hfit as [|? ? Hft Hfts]; subst. cbn [forallb] in Hv. apply andb_split in Hv. destruct Hv as [Hvt Hvs].
    rewrite flat_types_spec. unfold fits in Hft.
    destruct (Nat.leb_spec (length (wflat t)) 16) as [_|]; [|lia].
    eapply ok_seqn; [eapply (getargs_ok off (length (wflat t)) 0 s (stack s)); reflexivity|].
    intros s1 vals Hvl Hs1 Hf1.
    eapply ok_seq1; [eapply (lift_ok canon t Hvt Hft s1 vals (stack s) Hs1 Hvl)|].
    intros s2 v Hs2 Hf2.
    eapply ok_weaken; [eapply (IH _ s2 (v :: stack s) Hfts Hvs Hs2)|].
    intros [] s3 [out [Ho [Hs3 Hf3]]].
    destruct (snoc_top _ _ _ _ _ Hs3 Ho) as [w [Hw1 Hw2]].
    exists w. split; [cbn [length]; lia|]. split; [exact Hw2 | fr].
Qed.

Lemma read_params_ok canon ptr : forall ps off s st, stack s = st ->
  ok_with ((fix go (ps : list ty) (offset : asize) {struct ps} : M unit :=
              match ps with
              | [] => ret tt
              | t :: ps' =>
                  let o := align_to_arch offset (sa_align t) in
                  read canon t ptr o ;;;
                  go ps' (a_add o (sa_size t))
              end) ps off) s (stkn s (length ps) st).
Proof.
  induction ps as [|t ps IH]; intros off s st Hs.
  - unfold ok_with, ret. exists []. split; [reflexivity|]. split; [exact Hs | apply frame_refl].
  - cbn zeta. eapply ok_seq1; [eapply (read_ok canon t ptr _ s st Hs)|]. intros s1 v Hs1 Hf1.
    eapply ok_weaken; [eapply (IH _ s1 (v :: st) Hs1)|].
    intros [] s2 [out [Ho [Hs2 Hf2]]].
    destruct (snoc_top _ _ _ _ _ Hs2 Ho) as [w [Hw1 Hw2]].
    exists w. split; [cbn [length]; lia|]. split; [exact Hw2 | fr].
Qed.

Theorem call_export_sync_ok canon fn sig :
  f_method fn = false ->
  forallb valid_ty (f_params fn) = true ->
  match f_result fn with Some t => valid_ty t = true | None => True end ->
  wasm_signature GuestExport fn = SigOk sig ->
  ok_with (call canon fn GuestExport LiftArgsLowerResults false) gst0 (fun _ s' => stack s' = [] /\ realloc s' = None).
Proof.
  intros Hm Hvp Hvr Hsig.
  destruct (export_sig_facts fn sig Hm Hsig) as [Hind [Hrp [Hps Hrs]]].
  unfold call, get_sig. rewrite Hsig.
  apply ok_bind. unfold ok_with at 1, ret.
  apply ok_bind. unfold ok_with at 1, get.
  apply ok_bind. unfold ok_with at 1. cbn [gst0 realloc ret].
  apply ok_bind.
  eapply ok_weaken with (P := fun _ s' => stack s' = [] /\ realloc s' = None).
  2:{ intros [] s' [Hs' Hr']. apply ok_bind. unfold ok_with at 1, get. rewrite Hr'.
      apply ok_bind. unfold ok_with at 1, ret.
      unfold stack_must_be_empty, ok_with, bind, get. rewrite Hs'. unfold ret. split; assumption. }
  (* phase A: lift the parameters *)
  apply ok_bind.
  eapply ok_weaken with (P := fun _ s1 => exists P, stack s1 = P /\ length P = length (f_params fn) /\ realloc s1 = None).
  { rewrite Hind. destruct (16 <? length (FPs fn))%nat eqn:Ei.
    - eapply ok_seq; [eapply (ok_emit0 (GetArg 0) gst0 []); reflexivity|]. intros s1 Hs1 Hf1.
      cbn [results_len seq rev app] in Hs1.
      apply ok_bind. eapply ok_pop'; [exact Hs1|]. intros s2 Hs2 Hf2.
      eapply ok_weaken; [eapply (read_params_ok canon _ (f_params fn) asize0 s2 [] Hs2)|].
      intros [] s3 [vals [Hvl [Hs3 Hf3]]]. exists vals. rewrite app_nil_r in Hs3.
      split; [exact Hs3|]. split; [exact Hvl|].
      destruct Hf3 as [Hq3 _]. destruct Hf2 as [Hq2 _]. destruct Hf1 as [Hq1 _]. cbn [gst0 realloc] in Hq1. congruence.
    - apply Nat.ltb_ge in Ei.
      eapply ok_weaken; [eapply (lift_params_ok canon (f_params fn) 0 gst0 [] (fits_params fn Ei) Hvp); reflexivity|].
      intros [] s3 [vals [Hvl [Hs3 Hf3]]]. exists vals. rewrite app_nil_r in Hs3.
      split; [exact Hs3|]. split; [exact Hvl|]. destruct Hf3 as [Hq3 _]. cbn [gst0 realloc] in Hq3. exact Hq3. }
  intros [] s1 [P [Hs1 [HlP Hr1]]].
  (* phase B: the interface call *)
  eapply ok_seqn.
  { eapply (ok_emit_n (CallInterface _ _ false) s1 P []); [rewrite app_nil_r; exact Hs1 | cbn [operands_len]; exact HlP]. }
  intros s2 R HlR Hs2 Hf2. cbn [results_len] in HlR. rewrite app_nil_r in Hs2.
  assert (Hr2 : realloc s2 = None) by (destruct Hf2 as [Hq _]; congruence).
  cbn [negb is_export andb].
  (* phase C: free the parameter area *)
  apply ok_bind.
  eapply ok_weaken with (P := fun _ s3 => stack s3 = R /\ realloc s3 = None).
  { rewrite Hind. destruct (16 <? length (FPs fn))%nat; cbn [andb].
    - destruct (sa_record_tys (f_params fn)) as [size al].
      eapply ok_seq; [eapply (ok_emit0 (GetArg 0) s2 R); [exact Hs2 | reflexivity]|]. intros s3 Hs3 Hf3.
      cbn [results_len seq rev app] in Hs3.
      eapply ok_weaken; [eapply (ok_emit1 (GuestDeallocate size al) s3 _ R); [exact Hs3 | reflexivity]|].
      intros [] s4 [Hs4 Hf4]. cbn [results_len seq rev app] in Hs4. split; [exact Hs4|].
      destruct Hf4 as [Hq4 _]. destruct Hf3 as [Hq3 _]. congruence.
    - unfold ok_with, ret. split; assumption. }
  intros [] s3 [Hs3 Hr3].
  apply ok_bind. eapply ok_weaken; [apply ok_set_realloc|]. intros [] s4 [Hs4 [Hr4 Hp4]].
  (* phase D: lower the result, return *)
  rewrite Hrp, Hrs. unfold RPb in *.
  destruct (f_result fn) as [t|] eqn:Eres.
  - destruct (1 <? length (wflat t))%nat eqn:E1; cbn [negb].
    + (* through a return area *)
      destruct R as [|v [|? ?]]; try discriminate HlR.
      apply ok_bind.
      eapply ok_weaken with (P := fun _ s5 => exists p, stack s5 = [p] /\ realloc s5 = Some true).
      { cbn [opt_list]. destruct (sa_record_tys [t]) as [size al].
        apply ok_bind. eapply ok_weaken; [apply ok_return_pointer|]. intros ptr sb [Hsb [Hrb Hpb]].
        eapply ok_seq with (st := []).
        { cbn [write_result]. apply ok_bind. eapply (ok_pop' sb v []); [congruence|]. intros sc Hsc Hfc.
          eapply ok_seq; [eapply ok_push'; exact Hsc|]. intros sd Hsd Hfd.
          eapply ok_weaken.
          { eapply (write_ok canon t ptr _ sd v [] true Hsd).
            destruct Hfd as [Hq1 _]. destruct Hfc as [Hq2 _]. congruence. }
          intros [] se [H1 H2]. split; [exact H1 | fr]. }
        intros sc Hsc Hfc.
        eapply ok_weaken; [eapply ok_push'; exact Hsc|]. intros [] sd [Hsd Hfd].
        exists ptr. split; [exact Hsd|]. destruct Hfd as [Hq1 _]. destruct Hfc as [Hq2 _]. congruence. }
      intros [] s5 [p [Hs5 Hr5]].
      apply ok_bind.
      eapply ok_weaken; [eapply (ok_emit1 (Return 1) s5 p []); [exact Hs5 | reflexivity]|].
      intros [] s6 [Hs6 Hf6]. cbn [results_len seq rev app] in Hs6.
      eapply ok_weaken; [apply ok_set_realloc|]. intros [] s7 [Hs7 [Hr7 _]]. split; congruence.
    + (* flat result *)
      apply Nat.ltb_ge in E1.
      destruct R as [|v [|? ?]]; try discriminate HlR.
      apply ok_bind.
      eapply ok_weaken.
      { eapply (lower_ok canon t) with (x := v) (st := []) (r := true); [unfold fits; lia | congruence | congruence]. }
      intros [] s5 [vals [Hvl [Hs5 Hf5]]]. rewrite app_nil_r in Hs5.
      apply ok_bind.
      eapply ok_weaken; [eapply (ok_emit_stk (Return (length (wflat t))) s5 vals []); [rewrite app_nil_r; exact Hs5 | exact Hvl]|].
      intros [] s6 [Hs6 Hf6]. cbn [results_len seq rev app] in Hs6.
      eapply ok_weaken; [apply ok_set_realloc|]. intros [] s7 [Hs7 [Hr7 _]]. split; congruence.
  - (* no result *)
    cbn [negb]. destruct R; [|discriminate HlR].
    apply ok_bind. unfold ok_with at 1, ret.
    apply ok_bind.
    eapply ok_weaken; [eapply (ok_emit0 (Return 0) s4 []); [congruence | reflexivity]|].
    intros [] s6 [Hs6 Hf6]. cbn [results_len seq rev app] in Hs6.
    eapply ok_weaken; [apply ok_set_realloc|]. intros [] s7 [Hs7 [Hr7 _]]. split; congruence.
Qed.
