(** * Stack discipline of the FLAT lifting (abi.rs [Generator::lift])
    For every well-formed type whose flattening fits the 16-slot buffer: given exactly [length (wflat t)] core
    operands on top of the stack, [lift] reaches no panic site (no stack underflow in any [drain] / per-field or
    per-arm split, no [flat_types(..).unwrap()] failure, no unreachable [cast]) and replaces them by exactly one
    operand, the lifted value.  Well-formedness ([Spec.valid_ty]) is needed for one reason only: abi.rs flattens
    the ELEMENT type of a fixed-length list before looking at its length, so the zero-length list of an element
    that does not fit (which no WIT source can express) would panic. *)
From Coq Require Import List ZArith NArith Bool Arith Lia.
From WB Require Import Wit.Ty Canon.Spec Abi.Sig Abi.Instr Abi.Cast Abi.Gen Abi.CastProofs Abi.SigProofs
                       Abi.GenDiscipline Abi.GenFlatDiscipline.
Import ListNotations.

Definition lifts (m : M unit) (n : nat) : Prop :=
  forall s top st, stack s = top ++ st -> length top = n -> ok_with m s (stk1 s st).

Lemma casts_m_ok2 : forall froms tos,
  (forall k a, nth_error froms k = Some a -> exists b, nth_error tos k = Some b /\ cast a b <> None) ->
  exists cs, length cs = length froms /\ forall s, casts_m froms tos s = Ok cs s.
Proof.
  induction froms as [|a froms IH]; intros tos H.
  - exists []. split; [reflexivity|]. intros s. destruct tos; reflexivity.
  - destruct (H 0 a eq_refl) as [j [Hj Hc]].
    destruct tos as [|b tos]; [discriminate Hj|]. cbn [nth_error] in Hj. injection Hj as ->.
    destruct (IH tos) as [cs [Hl Hcs]].
    { intros k a' Hk. apply (H (S k) a' Hk). }
    destruct (cast a j) as [c|] eqn:Ec; [|congruence].
    exists (c :: cs). split; [cbn [length]; lia|].
    intros s. cbn [casts_m]. unfold bind, cast_m. rewrite Ec. unfold ret. rewrite Hcs. reflexivity.
Qed.

Lemma nth_error_firstn_lt {A} (l : list A) n k : k < n -> nth_error (firstn n l) k = nth_error l k.
Proof.
  revert l k. induction n as [|n IH]; intros l k Hk; [lia|].
  destruct l as [|x l]; [destruct k; reflexivity|]. destruct k as [|k]; [reflexivity|].
  cbn [firstn nth_error]. apply IH. lia.
Qed.

Lemma nth_error_firstn_some {A} (l : list A) n k a : nth_error (firstn n l) k = Some a -> k < n /\ nth_error l k = Some a.
Proof.
  intros H. assert (Hk : k < length (firstn n l)) by (apply nth_error_Some; congruence).
  rewrite firstn_length in Hk. split; [lia|]. rewrite <- H. symmetry. apply nth_error_firstn_lt. lia.
Qed.

Lemma ok_if_underflow (b : bool) s st : b = false -> stack s = st ->
  ok_with (if b then fail SStackUnderflow else ret tt) s (stk s st).
Proof. intros -> Hs. apply ok_ret_stk; [exact Hs | apply frame_refl]. Qed.

(** ** one variant arm of the flat lifting *)
Definition larm_pre (lf : ty -> M unit) (params : list wt) (c : option ty) : Prop :=
  length (oflat wflat c) <= length (tl params) /\
  (forall k a, nth_error (oflat wflat c) k = Some a -> exists j, nth_error (tl params) k = Some j /\ wle a j) /\
  match c with Some t => fits t /\ lifts (lf t) (length (wflat t)) | None => True end.

Lemma lift_arm_ok (lf : ty -> M unit) params inputs c s st :
  larm_pre lf params c -> length inputs = length (tl params) -> stack s = st ->
  ok_with (lift_arm params inputs c (match c with Some t => lf t | None => ret tt end) true) s (stk s st).
Proof.
  intros [Hlen [Hnth Hc]] Hin Hs. unfold lift_arm.
  next_with ok_push_block'.
  destruct c as [t|].
  - destruct Hc as [Hfit Hlf]. cbn [oflat] in *.
    eapply ok_seq1.
    { eapply ok_pure_bind; [apply flat_unwrap_ok; exact Hfit|].
      eapply ok_seq; [eapply ok_if_underflow; [apply Nat.ltb_ge; lia | eassumption]|]. intros s2 Hs2 Hf2.
      eapply ok_seq; [eapply ok_push_all'; exact Hs2|]. intros s3 Hs3 Hf3.
      assert (Hl3 : length (rev (firstn (length (wflat t)) inputs)) = length (wflat t))
        by (rewrite rev_length, firstn_length; lia).
      destruct (casts_m_ok2 (firstn (length (wflat t)) (tl params)) (wflat t)) as [casts [Hcl Hcs]].
      { intros k j Hk. apply nth_error_firstn_some in Hk. destruct Hk as [Hklt Hk].
        destruct (nth_error (wflat t) k) as [a|] eqn:Ea.
        - exists a. split; [reflexivity|]. destruct (Hnth k a Ea) as [j' [Hj' Hle]].
          rewrite Hk in Hj'. injection Hj' as <-. apply (cast_total_le a j Hle).
        - apply nth_error_None in Ea. lia. }
      rewrite firstn_length in Hcl.
      eapply ok_pure_bind; [apply Hcs|].
      destruct (any_cast casts).
      + eapply ok_seqn.
        { eapply (ok_emit_n (Bitcasts casts) s3 _ st); [exact Hs3 | cbn [operands_len]; lia]. }
        intros s4 vals Hvl Hs4 Hf4. cbn [results_len] in Hvl.
        eapply ok_weaken; [eapply (Hlf s4 vals st Hs4); lia|].
        intros [] s5 [v [H1 H2]]. exists v. split; [exact H1 | fr].
      + apply ok_bind. unfold ok_with at 1, ret.
        eapply ok_weaken; [eapply (Hlf s3 _ st Hs3); exact Hl3|].
        intros [] s5 [v [H1 H2]]. exists v. split; [exact H1 | fr]. }
    intros s2 v Hs2 Hf2.
    eapply ok_weaken; [eapply ok_finish1; exact Hs2|].
    intros [] s3 [H1 H2]. split; [exact H1 | fr].
  - eapply ok_seq; [apply ok_ret_stk; [eassumption | apply frame_refl]|]. intros s2 Hs2 Hf2.
    eapply ok_weaken; [eapply ok_finish0; exact Hs2|].
    intros [] s3 [H1 H2]. split; [exact H1 | fr].
Qed.

Lemma lift_arms_ok (lf : ty -> M unit) params inputs : length inputs = length (tl params) ->
  forall cs, (forall c, In c cs -> larm_pre lf params c) ->
  forall s st, stack s = st ->
  ok_with ((fix arms (params : list wt) (inputs : list nat) (cs : list (option ty)) {struct cs} : M unit :=
              match cs with
              | [] => ret tt
              | c :: cs' =>
                  lift_arm params inputs c (match c with Some x => lf x | None => ret tt end) true ;;;
                  arms params inputs cs'
              end) params inputs cs) s (stk s st).
Proof.
  intros Hin. induction cs as [|c cs IH]; intros Hpre s st Hs.
  - apply ok_ret_stk; [exact Hs | apply frame_refl].
  - eapply ok_seq.
    { eapply lift_arm_ok; [apply Hpre; left; reflexivity | exact Hin | exact Hs]. }
    intros s1 Hs1 Hf1.
    eapply ok_weaken; [eapply IH; [intros c' Hc'; apply Hpre; right; exact Hc' | exact Hs1]|].
    intros [] s2 [H1 H2]. split; [exact H1 | fr].
Qed.

(** ** record / tuple fields *)
Lemma lift_each_ok (lf : ty -> M unit) fs :
  Forall (fun t => fits t /\ lifts (lf t) (length (wflat t))) fs ->
  forall args s st, length args = length (concat (map wflat fs)) -> stack s = st ->
  ok_with ((fix lift_each (ts : list ty) (args : list nat) {struct ts} : M unit :=
              match ts with
              | x :: ts' =>
                  temp <- flat_unwrap x ;;
                  (if (length args <? length temp)%nat then fail SStackUnderflow else ret tt) ;;;
                  push_all (firstn (length temp) args) ;;;
                  lf x ;;;
                  lift_each ts' (skipn (length temp) args)
              | [] => ret tt
              end) fs args) s (stkn s (length fs) st).
Proof.
  induction 1 as [|f fs [Hfit Hf] Hfs IH]; intros args s st Hl Hs.
  - unfold ok_with, ret. exists []. split; [reflexivity|]. split; [exact Hs | apply frame_refl].
  - cbn [map concat] in Hl. rewrite app_length in Hl.
    eapply ok_pure_bind; [apply flat_unwrap_ok; exact Hfit|].
    eapply ok_seq; [eapply ok_if_underflow; [apply Nat.ltb_ge; lia | exact Hs]|]. intros s2 Hs2 Hf2.
    eapply ok_seq; [eapply ok_push_all'; exact Hs2|]. intros s3 Hs3 Hf3.
    eapply ok_seq1.
    { eapply (Hf s3 _ st Hs3). rewrite rev_length, firstn_length. lia. }
    intros s4 v Hs4 Hf4.
    eapply ok_weaken.
    { eapply (IH (skipn (length (wflat f)) args) s4 (v :: st)); [rewrite skipn_length; lia | exact Hs4]. }
    intros [] s5 [vals [Hvl [Hs5 Hf5]]].
    destruct (snoc_top _ _ _ _ _ Hs5 Hvl) as [w [Hw1 Hw2]].
    exists w. split; [cbn [length]; lia|]. split; [exact Hw2 | fr].
Qed.

Lemma lift_rep_ok (lf : M unit) per : lifts lf per ->
  forall k args s st, length args = k * per -> stack s = st ->
  ok_with ((fix go (k : nat) (args : list nat) {struct k} : M unit :=
              match k with
              | O => ret tt
              | S k' =>
                  (if (length args <? per)%nat then fail SStackUnderflow else ret tt) ;;;
                  push_all (firstn per args) ;;; lf ;;; go k' (skipn per args)
              end) k args) s (stkn s k st).
Proof.
  intros Hlf. induction k as [|k IH]; intros args s st Hl Hs.
  - unfold ok_with, ret. exists []. split; [reflexivity|]. split; [exact Hs | apply frame_refl].
  - eapply ok_seq; [eapply ok_if_underflow; [apply Nat.ltb_ge; lia | exact Hs]|]. intros s2 Hs2 Hf2.
    eapply ok_seq; [eapply ok_push_all'; exact Hs2|]. intros s3 Hs3 Hf3.
    eapply ok_seq1.
    { eapply (Hlf s3 _ st Hs3). rewrite rev_length, firstn_length. lia. }
    intros s4 v Hs4 Hf4.
    eapply ok_weaken.
    { eapply (IH (skipn per args) s4 (v :: st)); [rewrite skipn_length; lia | exact Hs4]. }
    intros [] s5 [vals [Hvl [Hs5 Hf5]]].
    destruct (snoc_top _ _ _ _ _ Hs5 Hvl) as [w [Hw1 Hw2]].
    exists w. split; [lia|]. split; [exact Hw2 | fr].
Qed.

Definition lift_spec (canon : ty -> bool) (t : ty) : Prop :=
  valid_ty t = true -> fits t -> lifts (lift canon t) (length (wflat t)).

Lemma lvariant_pre canon cs :
  Forall (OptP (lift_spec canon)) cs ->
  forallb (fun c => match c with Some t => valid_ty t | None => true end) cs = true ->
  length (acc_cases cs []) < 16 ->
  forall c, In c cs -> larm_pre (lift canon) (WI32 :: acc_cases cs []) c.
Proof.
  intros HF Hv Hlen c Hin.
  pose proof (acc_cases_length_in cs [] c Hin) as Hl.
  split; [cbn [tl]; exact Hl|]. split.
  - intros k a Hk. cbn [tl]. eapply slot_absorbs_case; eassumption.
  - destruct c as [t|]; [|exact I].
    cbn [oflat] in Hl. assert (Hfit : fits t) by (unfold fits; lia).
    split; [exact Hfit|]. rewrite Forall_forall in HF. rewrite forallb_forall in Hv.
    apply (HF _ Hin); [apply (Hv _ Hin) | exact Hfit].
Qed.

Lemma lfields_pre canon fs : Forall (lift_spec canon) fs -> forallb valid_ty fs = true -> Forall fits fs ->
  Forall (fun t => fits t /\ lifts (lift canon t) (length (wflat t))) fs.
Proof.
  intros H1 Hv H2. rewrite Forall_forall in *. rewrite forallb_forall in Hv. intros f Hin.
  split; [apply H2; exact Hin | apply H1; [exact Hin | apply Hv; exact Hin | apply H2; exact Hin]].
Qed.

Lemma andb_split a b : a && b = true -> a = true /\ b = true.
Proof. apply andb_true_iff. Qed.

Theorem lift_ok canon : forall t, lift_spec canon t.
Proof.
  induction t using ty_ind'; intros Hv Hfit s top st Hs Hl.
  1-12,14,21,24-28: (cbn [lift lift_scalar_op];
     eapply ok_weaken; [eapply (ok_emit_stk _ s top st Hs);
                        rewrite Hl; cbn [operands_len wflat length]; rewrite ?repeat_length; reflexivity|];
     intros [] s1 [H1 H2]; cbn [results_len seq rev app] in H1; eexists; split; [exact H1 | exact H2]).
  - (* string *)
    cbn [lift].
    eapply ok_weaken; [eapply (ok_emit_stk _ s top st Hs); rewrite Hl; reflexivity|].
    intros [] s1 [H1 H2]. cbn [results_len seq rev app] in H1. eexists; split; [exact H1 | exact H2].
  - (* list *)
    cbn [lift]. cbn [wflat length] in Hl.
    destruct top as [|l [|p [|? ?]]]; try discriminate Hl.
    eapply ok_weaken; [eapply (lift_list_with_ok canon t (read canon t) (read_ok canon t)); exact Hs|].
    intros [] s1 H1. exact H1.
  - (* fixed *)
    cbn [lift]. cbn [valid_ty] in Hv. apply andb_split in Hv. destruct Hv as [Hvt Hn].
    apply N.ltb_lt in Hn.
    assert (Hfx : fits t).
    { unfold fits in *. cbn [wflat] in Hfit. rewrite concat_repeat_length in Hfit.
      assert (0 < N.to_nat n) by lia. nia. }
    eapply ok_pure_bind; [apply flat_unwrap_ok; exact Hfx|].
    cbn [wflat] in Hl. rewrite concat_repeat_length in Hl.
    apply ok_bind. eapply ok_drain_top; [exact Hs | lia|]. intros s1 Hs1 Hf1.
    eapply ok_seqn.
    { eapply (lift_rep_ok (lift canon t) (length (wflat t)) (IHt Hvt Hfx) (N.to_nat n) (rev top) s1 st);
        [rewrite rev_length; lia | exact Hs1]. }
    intros s2 vals Hvl Hs2 Hf2.
    eapply ok_weaken; [eapply (ok_emit_stk _ s2 vals st Hs2); exact Hvl|].
    intros [] s3 [H1 H2]. cbn [results_len seq rev app] in H1. eexists; split; [exact H1 | fr].
  - (* map *)
    cbn [lift]. cbn [wflat length] in Hl.
    destruct top as [|l [|p [|? ?]]]; try discriminate Hl.
    eapply ok_weaken; [eapply (lift_map_with_ok t1 t2 (read canon t1) (read canon t2) (read_ok canon t1) (read_ok canon t2)); exact Hs|].
    intros [] s1 H1. exact H1.
  - (* record *)
    cbn [lift]. cbn [valid_ty] in Hv. apply andb_split in Hv. destruct Hv as [_ Hvf].
    apply ok_bind.
    eapply ok_pure_bind; [apply flat_unwrap_ok; exact Hfit|].
    apply ok_bind. eapply ok_drain_top; [exact Hs | exact Hl|]. intros s1 Hs1 Hf1.
    eapply ok_weaken.
    { eapply (lift_each_ok (lift canon) fs (lfields_pre canon fs H Hvf (fits_fields fs Hfit)) (rev top) s1 st);
        [rewrite rev_length; exact Hl | exact Hs1]. }
    intros [] s2 [vals [Hvl [Hs2 Hf2]]].
    eapply ok_weaken; [eapply (ok_emit_stk _ s2 vals st Hs2); exact Hvl|].
    intros [] s3 [H1 H2]. cbn [results_len seq rev app] in H1. eexists; split; [exact H1 | fr].
  - (* tuple *)
    cbn [lift]. cbn [valid_ty] in Hv. apply andb_split in Hv. destruct Hv as [_ Hvf].
    apply ok_bind.
    eapply ok_pure_bind; [apply flat_unwrap_ok; exact Hfit|].
    apply ok_bind. eapply ok_drain_top; [exact Hs | exact Hl|]. intros s1 Hs1 Hf1.
    eapply ok_weaken.
    { eapply (lift_each_ok (lift canon) ts (lfields_pre canon ts H Hvf (fits_fields ts Hfit)) (rev top) s1 st);
        [rewrite rev_length; exact Hl | exact Hs1]. }
    intros [] s2 [vals [Hvl [Hs2 Hf2]]].
    eapply ok_weaken; [eapply (ok_emit_stk _ s2 vals st Hs2); exact Hvl|].
    intros [] s3 [H1 H2]. cbn [results_len seq rev app] in H1. eexists; split; [exact H1 | fr].
  - (* variant *)
    cbn [lift]. cbn [valid_ty] in Hv. apply andb_split in Hv. destruct Hv as [_ Hvc].
    change (wflat (TVariant cs)) with (WI32 :: acc_cases cs []) in *.
    cbn [length] in Hl.
    destruct (rev top) as [|d rpay] eqn:Erev.
    { apply (f_equal (@length nat)) in Erev. rewrite rev_length in Erev. cbn [length] in Erev. lia. }
    assert (Htop : top = rev rpay ++ [d]).
    { rewrite <- (rev_involutive top), Erev. reflexivity. }
    assert (Hlp : length (rev rpay) = length (acc_cases cs [])).
    { rewrite Htop, app_length in Hl. cbn [length] in Hl. lia. }
    apply ok_bind.
    eapply ok_pure_bind; [apply flat_unwrap_ok; exact Hfit|].
    change (wflat (TVariant cs)) with (WI32 :: acc_cases cs []).
    apply ok_bind. eapply (ok_drain_top _ s (rev rpay) (d :: st)).
    { rewrite Hs, Htop, <- app_assoc. reflexivity. }
    { cbn [length]. lia. }
    intros s1 Hs1 Hf1.
    eapply ok_weaken.
    { eapply (lift_arms_ok (lift canon) (WI32 :: acc_cases cs []) (rev (rev rpay))).
      - cbn [tl]. rewrite rev_length. exact Hlp.
      - eapply (lvariant_pre canon cs H Hvc). unfold fits in Hfit.
        change (wflat (TVariant cs)) with (WI32 :: acc_cases cs []) in Hfit. cbn [length] in Hfit. lia.
      - exact Hs1. }
    intros [] s2 [Hs2 Hf2].
    eapply ok_weaken; [eapply (ok_emit1 _ s2 d st Hs2); reflexivity|].
    intros [] s3 [H1 H2]. cbn [results_len seq rev app] in H1. eexists; split; [exact H1 | fr].
  - (* option *)
    cbn [lift]. cbn [valid_ty] in Hv.
    change (wflat (TOption t)) with (WI32 :: acc_cases (cases_of_option t) []) in *.
    cbn [length] in Hl.
    destruct (rev top) as [|d rpay] eqn:Erev.
    { apply (f_equal (@length nat)) in Erev. rewrite rev_length in Erev. cbn [length] in Erev. lia. }
    assert (Htop : top = rev rpay ++ [d]).
    { rewrite <- (rev_involutive top), Erev. reflexivity. }
    assert (Hlp : length (rev rpay) = length (acc_cases (cases_of_option t) [])).
    { rewrite Htop, app_length in Hl. cbn [length] in Hl. lia. }
    apply ok_bind.
    eapply ok_pure_bind; [apply flat_unwrap_ok; exact Hfit|].
    change (wflat (TOption t)) with (WI32 :: acc_cases (cases_of_option t) []).
    apply ok_bind. eapply (ok_drain_top _ s (rev rpay) (d :: st)).
    { rewrite Hs, Htop, <- app_assoc. reflexivity. }
    { cbn [length]. lia. }
    intros s1 Hs1 Hf1.
    eapply ok_weaken.
    { eapply (lift_arms_ok (lift canon) (WI32 :: acc_cases (cases_of_option t) []) (rev (rev rpay))).
      - cbn [tl]. rewrite rev_length. exact Hlp.
      - eapply (lvariant_pre canon (cases_of_option t)).
        + unfold cases_of_option. constructor; [exact I | constructor; [exact IHt | constructor]].
        + unfold cases_of_option. cbn [forallb]. rewrite Hv. reflexivity.
        + unfold fits in Hfit.
          change (wflat (TOption t)) with (WI32 :: acc_cases (cases_of_option t) []) in Hfit. cbn [length] in Hfit. lia.
      - exact Hs1. }
    intros [] s2 [Hs2 Hf2].
    eapply ok_weaken; [eapply (ok_emit1 _ s2 d st Hs2); reflexivity|].
    intros [] s3 [H1 H2]. cbn [results_len seq rev app] in H1. eexists; split; [exact H1 | fr].
  - (* result *)
    cbn [lift]. cbn [valid_ty] in Hv. apply andb_split in Hv. destruct Hv as [Hva Hvb].
    change (wflat (TResult ok err)) with (WI32 :: acc_cases (cases_of_result ok err) []) in *.
    cbn [length] in Hl.
    destruct (rev top) as [|d rpay] eqn:Erev.
    { apply (f_equal (@length nat)) in Erev. rewrite rev_length in Erev. cbn [length] in Erev. lia. }
    assert (Htop : top = rev rpay ++ [d]).
    { rewrite <- (rev_involutive top), Erev. reflexivity. }
    assert (Hlp : length (rev rpay) = length (acc_cases (cases_of_result ok err) [])).
    { rewrite Htop, app_length in Hl. cbn [length] in Hl. lia. }
    apply ok_bind.
    eapply ok_pure_bind; [apply flat_unwrap_ok; exact Hfit|].
    change (wflat (TResult ok err)) with (WI32 :: acc_cases (cases_of_result ok err) []).
    apply ok_bind. eapply (ok_drain_top _ s (rev rpay) (d :: st)).
    { rewrite Hs, Htop, <- app_assoc. reflexivity. }
    { cbn [length]. lia. }
    intros s1 Hs1 Hf1.
    eapply ok_weaken.
    { eapply (lift_arms_ok (lift canon) (WI32 :: acc_cases (cases_of_result ok err) []) (rev (rev rpay))).
      - cbn [tl]. rewrite rev_length. exact Hlp.
      - eapply (lvariant_pre canon (cases_of_result ok err)).
        + unfold cases_of_result. constructor; [assumption | constructor; [assumption | constructor]].
        + unfold cases_of_result. cbn [forallb]. rewrite Hva, Hvb. reflexivity.
        + unfold fits in Hfit.
          change (wflat (TResult ok err)) with (WI32 :: acc_cases (cases_of_result ok err) []) in Hfit.
          cbn [length] in Hfit. lia.
      - exact Hs1. }
    intros [] s2 [Hs2 Hf2].
    eapply ok_weaken; [eapply (ok_emit1 _ s2 d st Hs2); reflexivity|].
    intros [] s3 [H1 H2]. cbn [results_len seq rev app] in H1. eexists; split; [exact H1 | fr].
Qed.
