(** wit-parser's symbolic SizeAlign (bytes + pointers, as modelled in Sig.v) evaluates, at pointer widths 4
    and 8, to the canonical ABI's [elem_size] / [alignment] for every valid type; field and payload offsets
    follow. *)
From Coq Require Import List ZArith NArith Bool Lia.
From WB Require Import Wit.Ty Canon.Spec Abi.Sig.
Import ListNotations.
Local Open Scope N_scope.
Ltac Zify.zify_post_hook ::= Z.div_mod_to_equations.

Definition valid_align (a : align) : Prop :=
  a = APtr \/ a = ABytes 1 \/ a = ABytes 2 \/ a = ABytes 4 \/ a = ABytes 8.
Definition PW (pw : N) : Prop := pw = 4 \/ pw = 8.

Lemma odd_half p : N.odd p = true -> exists q, p = 2 * q + 1.
Proof.
  intros H. exists (p / 2). rewrite (N.div_mod p 2) at 1 by lia.
  rewrite <- N.bit0_mod, N.bit0_odd, H. reflexivity.
Qed.
Lemma even_half p : N.odd p = false -> exists q, p = 2 * q.
Proof.
  intros H. exists (p / 2). rewrite (N.div_mod p 2) at 1 by lia.
  rewrite <- N.bit0_mod, N.bit0_odd, H. cbn. lia.
Qed.

Lemma align_to_arch_sound pw v a : PW pw -> valid_align a ->
  a_size pw (align_to_arch v a) = Spec.align_to (a_size pw v) (a_align pw a).
Proof.
  intros Hpw Ha. destruct v as [b p].
  unfold align_to_arch, a_size, Spec.align_to, align_to_n, a_align. cbn [a_bytes a_ptrs az].
  destruct Ha as [-> | [-> | [-> | [-> | ->]]]].
  - destruct (N.eqb_spec ((b + 4 - 1) / 4 * 4) (((b + 4 - 1) / 4 * 4 + 8 - 1) / 8 * 8));
      cbn [negb a_bytes a_ptrs az]; destruct Hpw as [-> | ->]; lia.
  - cbn. destruct Hpw as [-> | ->]; lia.
  - cbn. destruct Hpw as [-> | ->]; lia.
  - cbn. destruct Hpw as [-> | ->]; lia.
  - cbn [N.ltb N.compare Pos.compare Pos.compare_cont andb].
    destruct (N.odd p) eqn:Ho.
    + apply odd_half in Ho. destruct Ho as [q ->].
      destruct (N.leb_spec 4 ((b + 8 - 1) / 8 * 8 - b)); cbn [a_bytes a_ptrs az]; destruct Hpw as [-> | ->]; lia.
    + apply even_half in Ho. destruct Ho as [q ->]. cbn [a_bytes a_ptrs az]. destruct Hpw as [-> | ->]; lia.
Qed.

Lemma align_max_valid a b : valid_align a -> valid_align b -> valid_align (align_max a b).
Proof. intros. unfold align_max. destruct (align_le b a); assumption. Qed.

Lemma align_max_sound pw a b : PW pw -> valid_align a -> valid_align b ->
  a_align pw (align_max a b) = N.max (a_align pw a) (a_align pw b).
Proof.
  intros [-> | ->] Ha Hb;
    destruct Ha as [-> | [-> | [-> | [-> | ->]]]]; destruct Hb as [-> | [-> | [-> | [-> | ->]]]]; reflexivity.
Qed.

Lemma a_size_add pw x y : a_size pw (a_add x y) = a_size pw x + a_size pw y.
Proof. unfold a_size, a_add. cbn. lia. Qed.

(** alignment facts of the spec *)
Lemma align_to_ge x a : 0 < a -> x <= Spec.align_to x a.
Proof.
  unfold Spec.align_to. intros Ha.
  pose proof (N.div_mod (x + a - 1) a ltac:(lia)) as Hd.
  pose proof (N.mod_lt (x + a - 1) a ltac:(lia)) as Hm. nia.
Qed.
Lemma align_to_mono x y a : 0 < a -> x <= y -> Spec.align_to x a <= Spec.align_to y a.
Proof.
  unfold Spec.align_to. intros Ha Hxy. apply N.mul_le_mono_r. apply N.div_le_mono; lia.
Qed.
Lemma align_to_multiple x a k : 0 < a -> x = k * a -> Spec.align_to x a = x.
Proof.
  unfold Spec.align_to. intros Ha ->.
  replace (k * a + a - 1) with (a - 1 + k * a) by lia.
  rewrite N.div_add by lia. rewrite (N.div_small (a - 1) a) by lia. lia.
Qed.

Lemma align_to_idem x a : 0 < a -> Spec.align_to (Spec.align_to x a) a = Spec.align_to x a.
Proof. intros Ha. apply (align_to_multiple _ a ((x + a - 1) / a) Ha). reflexivity. Qed.

(** * the induction: every valid type has a valid alignment, and size/alignment evaluate to the spec's *)
Definition layout_ok (pw : N) (t : ty) : Prop :=
  valid_align (sa_align t)
  /\ a_align pw (sa_align t) = Spec.alignment pw t
  /\ a_size pw (sa_size t) = Spec.elem_size pw t.

Lemma fold_max_ge l acc : acc <= fold_left N.max l acc.
Proof. revert acc; induction l as [|x l IH]; intros acc; cbn; [lia|]. etransitivity; [|apply IH]. lia. Qed.

(** records *)
Lemma sa_record_sound pw (fs : list ty) : PW pw -> Forall (layout_ok pw) fs ->
  forall sz al s m,
    valid_align al -> a_size pw sz = s -> a_align pw al = m ->
    let '(sz', al') := fold_left (fun '(sz, al) '(fs, fa) => (a_add (align_to_arch sz fa) fs, align_max al fa))
                                  (map sa fs) (sz, al) in
    valid_align al'
    /\ a_size pw sz' = fold_left (fun s f => Spec.align_to s (Spec.alignment pw f) + Spec.elem_size pw f) fs s
    /\ a_align pw al' = fold_left N.max (map (Spec.alignment pw) fs) m.
Proof.
  intros Hpw. induction 1 as [|f fs Hf Hfs IH]; intros sz al s m Hal Hs Hm.
  - cbn. auto.
  - cbn [map fold_left]. destruct Hf as [Hva [Haf Hsf]].
    unfold sa_align, sa_size in *. destruct (sa f) as [fsz fal]. cbn [fst snd] in *.
    apply IH.
    + apply align_max_valid; assumption.
    + rewrite a_size_add, align_to_arch_sound by assumption. rewrite Hs, Haf, Hsf. reflexivity.
    + rewrite align_max_sound by assumption. rewrite Hm, Haf. reflexivity.
Qed.

Lemma layout_record pw fs : PW pw -> Forall (layout_ok pw) fs -> layout_ok pw (TRecord fs) /\ layout_ok pw (TTuple fs).
Proof.
  intros Hpw H.
  pose proof (sa_record_sound pw fs Hpw H asize0 align_default 0 1) as R.
  assert (Hd : valid_align align_default) by (right; left; reflexivity).
  specialize (R Hd eq_refl eq_refl).
  unfold layout_ok, sa_align, sa_size. cbn [sa Spec.alignment Spec.elem_size]. unfold sa_record.
  match type of R with (let '(_, _) := ?F in _) => destruct F as [sz al] end.
  destruct R as [Rv [Rs Ra]].
  cbn [fst snd]. split; (split; [exact Rv|]); (split; [exact Ra|]);
    rewrite align_to_arch_sound by assumption; rewrite Rs, Ra; reflexivity.
Qed.

(** * variants: [asize_max] may round the maximum up to pointer alignment; that rounding is absorbed by the
    variant's own (then at least pointer-sized) alignment *)
Definition ge_ptr (a : align) : bool := align_le APtr a.

Lemma ge_ptr_max a b : valid_align a -> valid_align b -> ge_ptr (align_max a b) = ge_ptr a || ge_ptr b.
Proof.
  intros Ha Hb. destruct Ha as [-> | [-> | [-> | [-> | ->]]]]; destruct Hb as [-> | [-> | [-> | [-> | ->]]]]; reflexivity.
Qed.

Lemma ge_ptr_multiple pw a : PW pw -> valid_align a -> ge_ptr a = true -> exists k, a_align pw a = k * pw /\ 0 < k.
Proof.
  intros [-> | ->] Ha H; destruct Ha as [-> | [-> | [-> | [-> | ->]]]]; cbn in H; try discriminate;
    cbn; first [exists 1; lia | exists 2; lia].
Qed.

Lemma align_to_least x a k : 0 < a -> x <= k * a -> Spec.align_to x a <= k * a.
Proof.
  unfold Spec.align_to. intros Ha Hx. apply N.mul_le_mono_r.
  apply N.lt_succ_r. apply N.div_lt_upper_bound; lia.
Qed.

Lemma align_to_same_ceiling m c a : 0 < a -> m <= c -> c <= Spec.align_to m a -> Spec.align_to c a = Spec.align_to m a.
Proof.
  intros Ha Hmc Hc. apply N.le_antisymm.
  - rewrite <- (align_to_idem m a Ha). apply align_to_mono; assumption.
  - apply align_to_mono; assumption.
Qed.

Lemma align_to_add_multiple k a y : 0 < a -> Spec.align_to (k * a + y) a = k * a + Spec.align_to y a.
Proof.
  unfold Spec.align_to. intros Ha.
  replace (k * a + y + a - 1) with (k * a + (y + a - 1)) by lia.
  rewrite N.div_add_l by lia. lia.
Qed.

(** per-type invariant, at both widths at once ([asize_max] looks at both) *)
Definition has_ptr_ok (t : ty) : Prop := 0 < a_ptrs (sa_size t) -> ge_ptr (sa_align t) = true.
Definition layout2 (t : ty) : Prop := layout_ok 4 t /\ layout_ok 8 t /\ has_ptr_ok t.

Definition within (pw m c : N) : Prop := m <= c /\ c <= Spec.align_to m pw.

Lemma asize_max_within x y m4 m8 s4 s8 :
  within 4 m4 (a_size 4 x) -> within 8 m8 (a_size 8 x) ->
  a_size 4 y = s4 -> a_size 8 y = s8 ->
  within 4 (N.max m4 s4) (a_size 4 (asize_max x y)) /\ within 8 (N.max m8 s8) (a_size 8 (asize_max x y))
  /\ ((a_size 4 (asize_max x y) <> N.max m4 s4 \/ a_size 8 (asize_max x y) <> N.max m8 s8) ->
      (a_size 4 x <> m4 \/ a_size 8 x <> m8) \/ 0 < a_ptrs x \/ 0 < a_ptrs y)
  /\ (0 < a_ptrs (asize_max x y) -> 0 < a_ptrs x \/ 0 < a_ptrs y).
Proof.
  unfold within. intros [H4a H4b] [H8a H8b] <- <-.
  assert (M4 : forall u v, u <= v -> Spec.align_to u 4 <= Spec.align_to v 4) by (intros; apply align_to_mono; lia).
  assert (M8 : forall u v, u <= v -> Spec.align_to u 8 <= Spec.align_to v 8) by (intros; apply align_to_mono; lia).
  unfold asize_max.
  destruct ((a_size 4 y <=? a_size 4 x) && (a_size 8 y <=? a_size 8 x)) eqn:E1.
  - apply andb_prop in E1. destruct E1 as [Ea Eb]. apply N.leb_le in Ea, Eb.
    repeat split; try lia.
    + etransitivity; [exact H4b | apply M4; lia].
    + etransitivity; [exact H8b | apply M8; lia].
  - destruct ((a_size 4 x <=? a_size 4 y) && (a_size 8 x <=? a_size 8 y)) eqn:E2.
    + apply andb_prop in E2. destruct E2 as [Ea Eb]. apply N.leb_le in Ea, Eb.
      repeat split; try lia.
      * etransitivity; [|apply align_to_ge; lia]. lia.
      * etransitivity; [|apply align_to_ge; lia]. lia.
    + (* mixed: sizes cross, so one of them has a pointer part *)
      assert (Hcross : 0 < a_ptrs x \/ 0 < a_ptrs y).
      { apply andb_false_iff in E1. apply andb_false_iff in E2.
        unfold a_size in *. destruct E1 as [E1|E1], E2 as [E2|E2];
          apply N.leb_gt in E1; apply N.leb_gt in E2; lia. }
      set (n32 := align_to_n (N.max (a_size 4 x) (a_size 4 y)) 4).
      set (n64 := align_to_n (N.max (a_size 8 x) (a_size 8 y)) 8).
      assert (Hn32 : n32 = Spec.align_to (N.max (a_size 4 x) (a_size 4 y)) 4) by reflexivity.
      assert (Hn64 : n64 = Spec.align_to (N.max (a_size 8 x) (a_size 8 y)) 8) by reflexivity.
      assert (Hle : n64 <= n32 + n32).
      { rewrite Hn64, Hn32. unfold Spec.align_to, a_size in *. lia. }
      assert (Hge : n32 <= n64).
      { rewrite Hn64, Hn32. unfold Spec.align_to, a_size in *. lia. }
      assert (Hdiv : exists q, n64 - n32 = 4 * q).
      { rewrite Hn64, Hn32. unfold Spec.align_to.
        exists (2 * ((N.max (a_size 8 x) (a_size 8 y) + 8 - 1) / 8) - (N.max (a_size 4 x) (a_size 4 y) + 4 - 1) / 4). lia. }
      destruct Hdiv as [q Hq].
      assert (Hd4 : (n64 - n32) / 4 = q) by (rewrite Hq, N.mul_comm; apply N.div_mul; lia).
      assert (S4 : a_size 4 (az (n32 + n32 - n64) ((n64 - n32) / 4)) = n32).
      { unfold a_size. cbn [a_bytes a_ptrs az]. rewrite Hd4. lia. }
      assert (S8 : a_size 8 (az (n32 + n32 - n64) ((n64 - n32) / 4)) = n64).
      { unfold a_size. cbn [a_bytes a_ptrs az]. rewrite Hd4. lia. }
      rewrite S4, S8.
      repeat split.
      * rewrite Hn32. etransitivity; [|apply align_to_ge; lia]. lia.
      * rewrite Hn32. etransitivity; [apply M4 with (v := Spec.align_to (N.max m4 (a_size 4 y)) 4)|].
        -- apply N.max_lub; [etransitivity; [exact H4b | apply M4; lia] | etransitivity; [|apply align_to_ge; lia]; lia].
        -- rewrite align_to_idem by lia. lia.
      * rewrite Hn64. etransitivity; [|apply align_to_ge; lia]. lia.
      * rewrite Hn64. etransitivity; [apply M8 with (v := Spec.align_to (N.max m8 (a_size 8 y)) 8)|].
        -- apply N.max_lub; [etransitivity; [exact H8b | apply M8; lia] | etransitivity; [|apply align_to_ge; lia]; lia].
        -- rewrite align_to_idem by lia. lia.
      * intros _. right. exact Hcross.
      * intros _. exact Hcross.
Qed.

Lemma align_to_arch_ptrs v a : 0 < a_ptrs (align_to_arch v a) -> 0 < a_ptrs v \/ a = APtr.
Proof.
  destruct v as [b p]. unfold align_to_arch. cbn [a_bytes a_ptrs az].
  destruct a as [|n]; [right; reflexivity|].
  destruct ((4 <? n) && N.odd p) eqn:E.
  - apply andb_prop in E. destruct E as [_ Ho]. apply odd_half in Ho. destruct Ho as [q ->].
    intros _. left. lia.
  - cbn [a_ptrs az]. intros H. left. exact H.
Qed.

Lemma ge_ptr_APtr : ge_ptr APtr = true. Proof. reflexivity. Qed.

(** records: a pointer part implies pointer alignment *)
Lemma sa_record_ptrs (fs : list ty) :
  Forall (fun t => valid_align (sa_align t) /\ has_ptr_ok t) fs ->
  forall sz al, valid_align al -> (0 < a_ptrs sz -> ge_ptr al = true) ->
    let '(sz', al') := fold_left (fun '(sz, al) '(fs, fa) => (a_add (align_to_arch sz fa) fs, align_max al fa))
                                  (map sa fs) (sz, al) in
    valid_align al' /\ (0 < a_ptrs sz' -> ge_ptr al' = true) /\ (ge_ptr al = true -> ge_ptr al' = true).
Proof.
  induction 1 as [|f fs [Hvf Hpf] Hfs IH]; intros sz al Hal Hp.
  - cbn. auto.
  - cbn [map fold_left]. unfold has_ptr_ok, sa_align, sa_size in *. destruct (sa f) as [fsz fal]. cbn [fst snd] in *.
    assert (Hv' : valid_align (align_max al fal)) by (apply align_max_valid; assumption).
    specialize (IH (a_add (align_to_arch sz fal) fsz) (align_max al fal) Hv').
    assert (Hp' : 0 < a_ptrs (a_add (align_to_arch sz fal) fsz) -> ge_ptr (align_max al fal) = true).
    { unfold a_add. cbn [a_ptrs az]. intros H. rewrite ge_ptr_max by assumption.
      destruct (N.eq_dec (a_ptrs fsz) 0) as [Hz|Hz].
      - assert (H1 : 0 < a_ptrs (align_to_arch sz fal)) by lia.
        apply align_to_arch_ptrs in H1. destruct H1 as [H1 | ->].
        + rewrite (Hp H1). reflexivity.
        + rewrite ge_ptr_APtr. apply orb_true_r.
      - rewrite (Hpf ltac:(lia)). apply orb_true_r. }
    specialize (IH Hp').
    destruct (fold_left _ (map sa fs) _) as [sz' al']. destruct IH as [I1 [I2 I3]].
    split; [exact I1 | split; [exact I2|]]. intros Hg. apply I3. rewrite ge_ptr_max by assumption. rewrite Hg. reflexivity.
Qed.

Lemma record_has_ptr fs : Forall (fun t => valid_align (sa_align t) /\ has_ptr_ok t) fs ->
  has_ptr_ok (TRecord fs) /\ has_ptr_ok (TTuple fs).
Proof.
  intros H.
  assert (Hd : valid_align align_default) by (right; left; reflexivity).
  pose proof (sa_record_ptrs fs H asize0 align_default Hd) as R.
  assert (H0 : 0 < a_ptrs asize0 -> ge_ptr align_default = true) by (cbn; lia).
  specialize (R H0).
  unfold has_ptr_ok, sa_align, sa_size. cbn [sa]. unfold sa_record.
  match type of R with (let '(_, _) := ?F in _) => destruct F as [sz al] end.
  destruct R as [Rv [Rp _]]. cbn [fst snd].
  split; intros Hq; apply align_to_arch_ptrs in Hq; destruct Hq as [Hq | ->]; auto.
Qed.

(** the case fold of a variant *)
Definition vstate_ok (cs_sz : asize) (ca : align) (m4 m8 A4 A8 : N) : Prop :=
  valid_align ca /\ a_align 4 ca = A4 /\ a_align 8 ca = A8
  /\ within 4 m4 (a_size 4 cs_sz) /\ within 8 m8 (a_size 8 cs_sz)
  /\ ((a_size 4 cs_sz <> m4 \/ a_size 8 cs_sz <> m8) -> ge_ptr ca = true)
  /\ (0 < a_ptrs cs_sz -> ge_ptr ca = true).

Lemma a_align_pos pw a : PW pw -> valid_align a -> 1 <= a_align pw a.
Proof. intros [-> | ->] Ha; destruct Ha as [-> | [-> | [-> | [-> | ->]]]]; cbn; lia. Qed.

Lemma variant_fold_sound (cs : list (option ty)) : Forall (OptP layout2) cs ->
  forall cs_sz ca m4 m8 A4 A8, vstate_ok cs_sz ca m4 m8 A4 A8 ->
    let '(sz', al') := fold_left (fun '(cs, ca) o => match o with
                                                     | Some (s, a) => (asize_max cs s, align_max ca a)
                                                     | None => (cs, ca)
                                                     end) (map (option_map sa) cs) (cs_sz, ca) in
    vstate_ok sz' al'
      (fold_left N.max (map (Spec.omap (Spec.elem_size 4) 0) cs) m4)
      (fold_left N.max (map (Spec.omap (Spec.elem_size 8) 0) cs) m8)
      (fold_left N.max (map (Spec.omap (Spec.alignment 4) 1) cs) A4)
      (fold_left N.max (map (Spec.omap (Spec.alignment 8) 1) cs) A8).
Proof.
  induction 1 as [|c cs Hc Hcs IH]; intros cs_sz ca m4 m8 A4 A8 Hst.
  - cbn. exact Hst.
  - cbn [map fold_left]. destruct c as [x|]; cbn [option_map Spec.omap].
    + destruct Hc as [[Hv4 [Ha4 Hs4]] [[Hv8 [Ha8 Hs8]] Hpx]].
      unfold has_ptr_ok, sa_align, sa_size in *. destruct (sa x) as [xs xa]. cbn [fst snd] in *.
      destruct Hst as [Hva [HA4 [HA8 [W4 [W8 [Hne Hpt]]]]]].
      apply IH.
      destruct (asize_max_within cs_sz xs m4 m8 _ _ W4 W8 eq_refl eq_refl) as [W4' [W8' [Hne' Hpt']]].
      assert (Hv' : valid_align (align_max ca xa)) by (apply align_max_valid; assumption).
      rewrite Hs4 in *. rewrite Hs8 in *.
      repeat split; try assumption; try apply W4'; try apply W8'.
      * rewrite (align_max_sound 4) by (try assumption; left; reflexivity). rewrite HA4, Ha4. reflexivity.
      * rewrite (align_max_sound 8) by (try assumption; right; reflexivity). rewrite HA8, Ha8. reflexivity.
      * intros Hd. rewrite ge_ptr_max by assumption. destruct (Hne' Hd) as [H1 | [H1 | H1]].
        -- rewrite (Hne H1). reflexivity.
        -- rewrite (Hpt H1). reflexivity.
        -- rewrite (Hpx H1). apply orb_true_r.
      * intros Hd. rewrite ge_ptr_max by assumption. destruct (Hpt' Hd) as [H1 | H1].
        -- rewrite (Hpt H1). reflexivity.
        -- rewrite (Hpx H1). apply orb_true_r.
    + apply IH. destruct Hst as [Hva [HA4 [HA8 [W4 [W8 [Hne Hpt]]]]]].
      pose proof (a_align_pos 4 ca ltac:(left; reflexivity) Hva).
      pose proof (a_align_pos 8 ca ltac:(right; reflexivity) Hva).
      repeat split; try assumption; try apply W4; try apply W8;
        try (rewrite N.max_l by lia; assumption); try (rewrite N.max_0_r; apply W4); try (rewrite N.max_0_r; apply W8).
      * rewrite N.max_0_r. rewrite N.max_0_r. exact Hne.
Qed.

Lemma align_to_small t a : 0 < t -> t <= a -> Spec.align_to t a = a.
Proof.
  intros Ht Hta. unfold Spec.align_to.
  assert (H : (t + a - 1) / a = 1).
  { symmetry. apply (N.div_unique (t + a - 1) a 1 (t - 1)); lia. }
  rewrite H. lia.
Qed.

Lemma absorb pw tagb mca ms c k :
  PW pw -> 0 < tagb -> tagb <= 4 -> mca = k * pw -> 0 < k -> within pw ms c ->
  Spec.align_to (Spec.align_to tagb mca + c) (N.max tagb mca)
  = Spec.align_to (Spec.align_to tagb mca + ms) (N.max tagb mca).
Proof.
  intros Hpw Ht0 Ht4 Hm Hk.
  assert (Hpwpos : 0 < pw) by (destruct Hpw as [-> | ->]; lia).
  assert (Hpw4 : 4 <= pw) by (destruct Hpw as [-> | ->]; lia).
  assert (Hmca : pw <= mca).
  { subst mca. replace pw with (1 * pw) at 1 by lia. apply N.mul_le_mono_r. lia. }
  assert (Htm : tagb <= mca) by lia.
  assert (Hmpos : 0 < mca) by lia.
  rewrite (N.max_r tagb mca Htm). rewrite (align_to_small tagb mca Ht0 Htm).
  replace (mca + c) with (1 * mca + c) by lia. replace (mca + ms) with (1 * mca + ms) by lia.
  rewrite !(align_to_add_multiple 1 mca _ Hmpos).
  intros [Hlo Hhi]. f_equal.
  apply (align_to_same_ceiling ms c mca Hmpos Hlo).
  etransitivity; [exact Hhi|].
  (* align_to ms pw <= align_to ms mca, the latter being a multiple of pw above ms *)
  assert (Hmul : exists j, Spec.align_to ms mca = j * pw).
  { unfold Spec.align_to. exists ((ms + mca - 1) / mca * k). rewrite Hm. rewrite N.mul_assoc. reflexivity. }
  destruct Hmul as [j Hj]. rewrite Hj.
  apply (align_to_least ms pw j Hpwpos). rewrite <- Hj. apply (align_to_ge ms mca Hmpos).
Qed.

Definition tag_ok (tagb : N) : Prop := tagb = 1 \/ tagb = 2 \/ tagb = 4.

Lemma sa_variant_sound tagb (cs : list (option ty)) : tag_ok tagb -> Forall (OptP layout2) cs ->
  let '(sz, al) := sa_variant tagb (map (option_map sa) cs) in
  valid_align al
  /\ (forall pw, PW pw ->
        a_align pw al = N.max tagb (Spec.max_case_alignment pw cs)
        /\ a_size pw sz =
           Spec.align_to (Spec.align_to tagb (Spec.max_case_alignment pw cs)
                          + fold_left N.max (map (Spec.omap (Spec.elem_size pw) 0) cs) 0)
                         (N.max tagb (Spec.max_case_alignment pw cs)))
  /\ (0 < a_ptrs sz -> ge_ptr al = true).
Proof.
  intros Htag Hcs. unfold sa_variant.
  assert (Hd : valid_align align_default) by (right; left; reflexivity).
  assert (Hst0 : vstate_ok asize0 align_default 0 0 1 1).
  { repeat split; try exact Hd; try reflexivity; cbn; try lia. }
  pose proof (variant_fold_sound cs Hcs asize0 align_default 0 0 1 1 Hst0) as F.
  match type of F with (let '(_, _) := ?X in _) => destruct X as [csz ca] end.
  destruct F as [Hva [HA4 [HA8 [W4 [W8 [Hne Hpt]]]]]].
  assert (Hvt : valid_align (ABytes tagb)).
  { destruct Htag as [-> | [-> | ->]]; [right; left | right; right; left | right; right; right; left]; reflexivity. }
  assert (Hval : valid_align (align_max (ABytes tagb) ca)) by (apply align_max_valid; assumption).
  split; [exact Hval|]. split.
  - intros pw Hpw.
    assert (HA : a_align pw ca = Spec.max_case_alignment pw cs).
    { unfold Spec.max_case_alignment. destruct Hpw as [-> | ->]; assumption. }
    assert (HW : within pw (fold_left N.max (map (Spec.omap (Spec.elem_size pw) 0) cs) 0) (a_size pw csz)).
    { destruct Hpw as [-> | ->]; assumption. }
    split.
    + rewrite align_max_sound by assumption. rewrite HA. reflexivity.
    + rewrite align_to_arch_sound by assumption.
      rewrite a_size_add, align_to_arch_sound by assumption.
      rewrite align_max_sound by assumption. rewrite HA.
      change (a_size pw (az tagb 0)) with (tagb + 0 * pw). rewrite N.mul_0_l, N.add_0_r.
      change (a_align pw (ABytes tagb)) with tagb.
      set (ms := fold_left N.max (map (Spec.omap (Spec.elem_size pw) 0) cs) 0) in *.
      destruct (N.eq_dec (a_size pw csz) ms) as [-> | Hneq]; [reflexivity|].
      assert (Hg : ge_ptr ca = true).
      { apply Hne. destruct Hpw as [-> | ->]; [left | right]; exact Hneq. }
      destruct (ge_ptr_multiple pw ca Hpw Hva Hg) as [k [Hk Hkpos]]. rewrite HA in Hk.
      apply (absorb pw tagb _ ms (a_size pw csz) k Hpw); try assumption;
        destruct Htag as [-> | [-> | ->]]; lia.
  - intros Hp.
    apply align_to_arch_ptrs in Hp. destruct Hp as [Hp | Hp].
    + rewrite ge_ptr_max by assumption. unfold a_add in Hp. cbn [a_ptrs az] in Hp.
      destruct (N.eq_dec (a_ptrs csz) 0) as [Hz|Hz].
      * assert (H1 : 0 < a_ptrs (align_to_arch (az tagb 0) ca)) by lia.
        apply align_to_arch_ptrs in H1. cbn [a_ptrs az] in H1. destruct H1 as [H1 | ->]; [lia|].
        rewrite ge_ptr_APtr. apply orb_true_r.
      * rewrite (Hpt ltac:(lia)). apply orb_true_r.
    + rewrite Hp. reflexivity.
Qed.

Lemma int_bytes_disc n : int_bytes n = Spec.disc_size n.
Proof. reflexivity. Qed.
Lemma int_bytes_tag n : tag_ok (int_bytes n).
Proof.
  unfold int_bytes, tag_ok. destruct (n <=? 256); [left; reflexivity|].
  destruct (n <=? 65536); [right; left | right; right]; reflexivity.
Qed.

Lemma layout2_of_variant tagb cs t :
  tag_ok tagb -> Forall (OptP layout2) cs ->
  sa t = sa_variant tagb (map (option_map sa) cs) ->
  (forall pw, Spec.alignment pw t = N.max tagb (Spec.max_case_alignment pw cs)) ->
  (forall pw, Spec.elem_size pw t =
     Spec.align_to (Spec.align_to tagb (Spec.max_case_alignment pw cs)
                    + fold_left N.max (map (Spec.omap (Spec.elem_size pw) 0) cs) 0)
                   (N.max tagb (Spec.max_case_alignment pw cs))) ->
  layout2 t.
Proof.
  intros Htag Hcs Hsa Hal Hsz.
  pose proof (sa_variant_sound tagb cs Htag Hcs) as R. rewrite <- Hsa in R.
  unfold layout2, layout_ok, has_ptr_ok, sa_align, sa_size.
  destruct (sa t) as [sz al]. cbn [fst snd]. destruct R as [Rv [Rpw Rp]].
  destruct (Rpw 4 ltac:(left; reflexivity)) as [Ra4 Rs4].
  destruct (Rpw 8 ltac:(right; reflexivity)) as [Ra8 Rs8].
  rewrite !Hal, !Hsz. repeat split; assumption.
Qed.

Theorem layout_sound : forall t, layout2 t.
Proof.
  induction t using ty_ind';
    try (unfold layout2, layout_ok, has_ptr_ok, valid_align; cbn;
         repeat split; first [reflexivity | lia | tauto | (intros; reflexivity) | (intros; lia)]; fail).
  - (* fixed *)
    destruct IHt as [[Hv4 [Ha4 Hs4]] [[Hv8 [Ha8 Hs8]] Hp]].
    unfold layout2, layout_ok, has_ptr_ok, sa_align, sa_size in *. cbn [sa Spec.alignment Spec.elem_size].
    destruct (sa t) as [s a]. cbn [fst snd] in *.
    repeat split; try assumption.
    + unfold a_size in *. cbn [a_bytes a_ptrs az]. rewrite <- Hs4. lia.
    + unfold a_size in *. cbn [a_bytes a_ptrs az]. rewrite <- Hs8. lia.
    + cbn [a_ptrs az]. intros H. apply Hp. nia.
  - (* record *)
    assert (H4 : Forall (layout_ok 4) fs) by (eapply Forall_impl; [|exact H]; intros x Hx; apply Hx).
    assert (H8 : Forall (layout_ok 8) fs) by (eapply Forall_impl; [|exact H]; intros x Hx; apply Hx).
    assert (HP : Forall (fun t => valid_align (sa_align t) /\ has_ptr_ok t) fs).
    { eapply Forall_impl; [|exact H]. intros x [[Hv _] [_ Hp]]. split; assumption. }
    split; [apply (layout_record 4 fs ltac:(left; reflexivity) H4) |
            split; [apply (layout_record 8 fs ltac:(right; reflexivity) H8) | apply (record_has_ptr fs HP)]].
  - (* tuple *)
    assert (H4 : Forall (layout_ok 4) ts) by (eapply Forall_impl; [|exact H]; intros x Hx; apply Hx).
    assert (H8 : Forall (layout_ok 8) ts) by (eapply Forall_impl; [|exact H]; intros x Hx; apply Hx).
    assert (HP : Forall (fun t => valid_align (sa_align t) /\ has_ptr_ok t) ts).
    { eapply Forall_impl; [|exact H]. intros x [[Hv _] [_ Hp]]. split; assumption. }
    split; [apply (layout_record 4 ts ltac:(left; reflexivity) H4) |
            split; [apply (layout_record 8 ts ltac:(right; reflexivity) H8) | apply (record_has_ptr ts HP)]].
  - (* variant *)
    apply (layout2_of_variant (int_bytes (N.of_nat (length cs))) cs); try assumption; try reflexivity.
    apply int_bytes_tag.
  - (* enum *)
    apply (layout2_of_variant (int_bytes n) []); try reflexivity.
    + apply int_bytes_tag.
    + constructor.
    + intros pw. cbn [Spec.alignment]. unfold Spec.max_case_alignment, int_bytes, Spec.disc_size. cbn [map fold_left].
      destruct (n <=? 256); [reflexivity|]. destruct (n <=? 65536); reflexivity.
    + intros pw. cbn [Spec.elem_size]. unfold Spec.max_case_alignment, int_bytes, Spec.disc_size. cbn [map fold_left].
      destruct (n <=? 256); [reflexivity|]. destruct (n <=? 65536); reflexivity.
  - (* option *)
    apply (layout2_of_variant 1 (cases_of_option t)).
    + left; reflexivity.
    + unfold cases_of_option. constructor; [exact I | constructor; [exact IHt | constructor]].
    + reflexivity.
    + intros pw. cbn [Spec.alignment]. unfold Spec.max_case_alignment, cases_of_option. cbn [map fold_left Spec.omap].
      lia.
    + intros pw. reflexivity.
  - (* result *)
    apply (layout2_of_variant 1 (cases_of_result ok err)).
    + left; reflexivity.
    + unfold cases_of_result. constructor; [assumption | constructor; [assumption | constructor]].
    + reflexivity.
    + intros pw. cbn [Spec.alignment]. unfold Spec.max_case_alignment, cases_of_result. cbn [map fold_left Spec.omap].
      lia.
    + intros pw. reflexivity.
  - (* flags *)
    unfold layout2, layout_ok, has_ptr_ok, sa_align, sa_size, valid_align.
    cbn [sa Spec.alignment Spec.elem_size]. unfold Spec.flags_align, Spec.flags_size.
    destruct (n =? 0); [cbn; repeat split; try tauto; try lia|].
    destruct (n <=? 8); [cbn; repeat split; try tauto; try lia|].
    destruct (n <=? 16); [cbn; repeat split; try tauto; try lia|].
    cbn [fst snd a_align]. unfold a_size. cbn [a_bytes a_ptrs az]. repeat split; try tauto; try lia.
Qed.

(** Corollaries in the form the properties use. *)
Theorem size_is_canonical pw t : PW pw -> a_size pw (sa_size t) = Spec.elem_size pw t.
Proof. intros [-> | ->]; apply (layout_sound t). Qed.
Theorem align_is_canonical pw t : PW pw -> a_align pw (sa_align t) = Spec.alignment pw t.
Proof. intros [-> | ->]; apply (layout_sound t). Qed.

Theorem field_offsets_canonical pw : PW pw -> forall ts cur s,
  a_size pw cur = s ->
  map (fun '(o, t) => (a_size pw o, t)) (sa_field_offsets_from cur ts) = Spec.field_offsets_from pw s ts.
Proof.
  intros Hpw. induction ts as [|t ts IH]; intros cur s Hs; [reflexivity|].
  cbn [sa_field_offsets_from Spec.field_offsets_from map].
  assert (Hv : valid_align (sa_align t)) by (apply (layout_sound t)).
  rewrite align_to_arch_sound by assumption. rewrite Hs, align_is_canonical by assumption.
  f_equal. apply IH. rewrite a_size_add, align_to_arch_sound by assumption.
  rewrite Hs, align_is_canonical, size_is_canonical by assumption. reflexivity.
Qed.

Example layout_examples :
  let r := TRecord [TU8; TList TString; TOption TU64] in
  (a_size 4 (sa_size r), a_size 8 (sa_size r)) = (32, 40) /\
  let v := TVariant [Some (TTuple [TU32; TU32; TU32]); Some TString] in   (* sizes cross between the widths *)
  (a_size 4 (sa_size v), Spec.elem_size 4 v, a_size 8 (sa_size v), Spec.elem_size 8 v) = (16, 16, 24, 24).
Proof. vm_compute. split; reflexivity. Qed.

Lemma payload_align_fold pw cs : PW pw -> forall m A, valid_align m -> a_align pw m = A ->
  let m' := fold_left (fun m c => match c with Some t => align_max m (sa_align t) | None => m end) cs m in
  valid_align m' /\ a_align pw m' = fold_left N.max (map (Spec.omap (Spec.alignment pw) 1) cs) A.
Proof.
  intros Hpw. induction cs as [|c cs IH]; intros m A Hm HA; cbn [fold_left map]; [auto|].
  destruct c as [t|]; cbn [Spec.omap].
  - assert (Hv : valid_align (sa_align t)) by (apply (layout_sound t)).
    apply IH; [apply align_max_valid; assumption|].
    rewrite align_max_sound by assumption. rewrite HA, align_is_canonical by assumption. reflexivity.
  - apply IH; [exact Hm|]. pose proof (a_align_pos pw m Hpw Hm). rewrite HA in *. lia.
Qed.

Theorem payload_offset_canonical pw tagb cs : PW pw -> tag_ok tagb ->
  a_size pw (sa_payload_offset tagb cs) = Spec.payload_offset pw tagb cs.
Proof.
  intros Hpw Htag. unfold sa_payload_offset, Spec.payload_offset, Spec.max_case_alignment.
  assert (Hd : valid_align align_default) by (right; left; reflexivity).
  destruct (payload_align_fold pw cs Hpw align_default 1 Hd eq_refl) as [Hv Ha].
  rewrite align_to_arch_sound by assumption. rewrite Ha.
  unfold a_size. cbn [a_bytes a_ptrs az]. f_equal. lia.
Qed.
