(** The executable statements of C01/C02/C03: boolean Gallina predicates that interpret an event stream
    (the REAL one dumped by absdump, or the model's) with Sem.v on a concrete value and compare the outcome
    with the canonical-ABI oracle Canon/Spec.v.  Extracted to OCaml and used by the search legs. *)
From Coq Require Import List ZArith NArith Bool Lia.
From WB Require Import Wit.Ty Canon.Spec Abi.Sig Abi.Instr Abi.Cast Abi.CastSem Abi.Sem.
Import ListNotations.
Local Open Scope N_scope.

Definition ctx0 (args : list rv) : ctx :=
  {| c_args := args; c_elem := None; c_value := None; c_base := None; c_payload := None;
     c_wasm_results := []; c_callee := None; c_iface_result := None |}.
Definition st0 (env : list (nat * rv)) (m : mstate) : st := {| env := env; ms := m; trace := [] |}.

Fixpoint val_eqb (a b : val) {struct a} : bool :=
  let fix all2 (xs ys : list val) {struct xs} : bool :=
    match xs, ys with
    | [], [] => true
    | x :: xs', y :: ys' => val_eqb x y && all2 xs' ys'
    | _, _ => false
    end in
  match a, b with
  | VBool x, VBool y => Bool.eqb x y
  | VNum x, VNum y => Z.eqb x y
  | VFloat x, VFloat y => N.eqb x y
  | VStr x, VStr y => (length x =? length y)%nat && forallb (fun '(p, q) => N.eqb p q) (combine x y)
  | VList x, VList y => all2 x y
  | VRec x, VRec y => all2 x y
  | VVar i p, VVar j q =>
      N.eqb i j && match p, q with
                   | None, None => true
                   | Some x, Some y => val_eqb x y
                   | _, _ => false
                   end
  | VFlags x, VFlags y => (length x =? length y)%nat && forallb (fun '(p, q) => Bool.eqb p q) (combine x y)
  | _, _ => false
  end.

Definition mem_eq_on (m1 m2 : N -> N) (lo hi : N) : bool :=
  forallb (fun k => N.eqb ((m1 (lo + N.of_nat k)) mod 256) ((m2 (lo + N.of_nat k)) mod 256))
          (seq 0 (N.to_nat (hi - lo))).

Definition allocs_eqb (a b : list (N * N * N)) : bool :=
  (length a =? length b)%nat &&
  forallb (fun '((p, s, al), (p', s', al')) => N.eqb p p' && N.eqb s s' && N.eqb al al') (combine a b).

Definition mstate_eq (a b : mstate) (lo : N) : bool :=
  N.eqb (next a) (next b) && allocs_eqb (allocs a) (allocs b) && mem_eq_on (mem a) (mem b) lo (next a).

Definition cvals_match (xs : list rv) (cs : list cval) : bool :=
  (length xs =? length cs)%nat &&
  forallb (fun '(x, c) => match x with RC n => N.eqb n (snd c) | RV _ => false end) (combine xs cs).

Inductive verdict := Pass | Fail (why : nat) | Skip.   (* Skip: the oracle itself rejects the input *)

Section check.
  Variable pw : N.
  Definition BASE : N := 4096.

  (** lower_flat: operand 0 = the value; the returned operands must carry Spec.lower_flat, and memory,
      bump pointer and ledger must be exactly what the spec's lowering produces. *)
  Definition check_lower_flat (t : ty) (v : val) (evs : list event) (ret : list nat) : verdict :=
    match Spec.lower_flat pw t v (mstate0 BASE) with
    | None => Skip
    | Some (cs, m) =>
        match run_events pw evs (ctx0 []) (st0 [(0%nat, RV v)] (mstate0 BASE)) with
        | RErr _ => Fail 1
        | ROk s =>
            match lookups (env s) ret with
            | RErr _ => Fail 2
            | ROk xs => if negb (cvals_match xs cs) then Fail 3
                        else if negb (mstate_eq (ms s) m BASE) then Fail 4 else Pass
            end
        end
    end.

  (** lower_to_memory: operand 0 = address, operand 1 = value. *)
  Definition check_lower_to_memory (t : ty) (v : val) (evs : list event) : verdict :=
    let a := BASE in
    let m0 := mstate0 (a + elem_size pw t) in
    match Spec.store pw t v a m0 with
    | None => Skip
    | Some m =>
        match run_events pw evs (ctx0 []) (st0 [(1%nat, RV v); (0%nat, RC a)] m0) with
        | RErr _ => Fail 1
        | ROk s => if mstate_eq (ms s) m a then Pass else Fail 4
        end
    end.

  (** lift_from_memory: memory holds Spec.store of [v] at the address in operand 0; the result operand must be
      the value the spec loads from there (which is [v]: checked too, as a sanity check of the oracle). *)
  Definition check_lift_from_memory (t : ty) (v : val) (evs : list event) (ret : list nat) : verdict :=
    let a := BASE in
    let m0 := mstate0 (a + elem_size pw t) in
    match Spec.store pw t v a m0 with
    | None => Skip
    | Some m =>
        match Spec.load pw t (mem m) a with
        | None => Fail 9
        | Some v' =>
            if negb (val_eqb v v') then Fail 10 else
            match run_events pw evs (ctx0 []) (st0 [(0%nat, RC a)] m) with
            | RErr _ => Fail 1
            | ROk s =>
                match lookups (env s) ret with
                | ROk [RV x] => if val_eqb x v then Pass else Fail 3
                | _ => Fail 2
                end
            end
        end
    end.

  (** handles an interface value owns (own/future/stream at any depth, in the active cases only) *)
  Fixpoint owned_handles (t : ty) (v : val) {struct t} : list Z :=
    let fix fields (ts : list ty) (vs : list val) {struct ts} : list Z :=
      match ts, vs with
      | x :: ts', y :: vs' => (owned_handles x y ++ fields ts' vs')%list
      | _, _ => []
      end in
    let opt (o : option ty) (p : option val) : list Z :=
      match o, p with Some x, Some y => owned_handles x y | _, _ => [] end in
    let fix case (cs : list (option ty)) (i : nat) (p : option val) {struct cs} : list Z :=
      match cs, i with
      | c :: _, O => opt c p
      | _ :: cs', S j => case cs' j p
      | [], _ => []
      end in
    match t, v with
    | (TOwn | TFuture _ | TStream _), VNum h => [h]
    | TList x, VList vs => concat (map (owned_handles x) vs)
    | TFixed x _, VList vs => concat (map (owned_handles x) vs)
    | TMap k e, VList vs =>
        concat (map (fun en => match en with
                               | VRec [a; b] => (owned_handles k a ++ owned_handles e b)%list
                               | _ => []
                               end) vs)
    | (TRecord fs | TTuple fs), VRec vs => fields fs vs
    | TVariant cs, VVar i p => case cs (N.to_nat i) p
    | TOption x, VVar i p => case (cases_of_option x) (N.to_nat i) p
    | TResult a b, VVar i p => case (cases_of_result a b) (N.to_nat i) p
    | _, _ => []
    end.

  Definition drops_of (tr : list effect) : list Z :=
    fold_left (fun acc e => match e with FDrop _ h => h :: acc | _ => acc end) tr [].   (* chronological *)

  Fixpoint zlist_eqb (a b : list Z) : bool :=
    match a, b with
    | [], [] => true
    | x :: a', y :: b' => Z.eqb x y && zlist_eqb a' b'
    | _, _ => false
    end.

  (** deallocation of ONE value lowered by the spec with an owning realloc: afterwards the ledger must be
      empty again (every buffer freed exactly once with its own size/alignment, nothing else touched — a wrong
      or double free is an [ELedger] error of the interpreter), and in lists-and-own mode the handles dropped
      are exactly the owned handles of the value, in order; none in lists mode. *)
  Definition check_dealloc (t : ty) (v : val) (own indirect : bool) (evs : list event) : verdict :=
    let a := BASE in
    let m0 := mstate0 (a + elem_size pw t) in
    let prepared :=
      if indirect then
        match Spec.store pw t v a m0 with
        | Some m => Some ([(0%nat, RC a)], m)
        | None => None
        end
      else
        match Spec.lower_flat pw t v m0 with
        | Some (cs, m) => Some (combine (seq 0 (length cs)) (map (fun c => RC (snd c)) cs), m)
        | None => None
        end in
    match prepared with
    | None => Skip
    | Some (e, m) =>
        match run_events pw evs (ctx0 []) (st0 e m) with
        | RErr (ELedger _ _ _) => Fail 5
        | RErr _ => Fail 1
        | ROk s =>
            if negb (match allocs (ms s) with [] => true | _ => false end) then Fail 6
            else if negb (zlist_eqb (drops_of (trace s)) (if own then owned_handles t v else [])) then Fail 7
            else Pass
        end
    end.

  (** post_return of [func() -> t]: arg 0 is the pointer the export returned; the return area holds the
      spec's store of the result. *)
  Definition check_post_return (t : ty) (v : val) (evs : list event) : verdict :=
    let a := BASE in
    let m0 := mstate0 (a + elem_size pw t) in
    match Spec.store pw t v a m0 with
    | None => Skip
    | Some m =>
        match run_events pw evs (ctx0 [RC a]) (st0 [] m) with
        | RErr (ELedger _ _ _) => Fail 5
        | RErr _ => Fail 1
        | ROk s => if match allocs (ms s) with [] => true | _ => false end then Pass else Fail 6
        end
    end.

  (** ** C02: the call glue, for the combinations real backends use *)
  Definition params_ty (fn : func) : ty := TTuple (f_params fn).
  Definition flat_len (t : ty) : nat := length (Spec.flatten pw t).
  Definition params_flat_len (fn : func) : nat := length (concat (map (Spec.flatten pw) (f_params fn))).

  Fixpoint vals_eqb (a b : list val) : bool :=
    match a, b with
    | [], [] => true
    | x :: a', y :: b' => val_eqb x y && vals_eqb a' b'
    | _, _ => false
    end.

  Fixpoint find_effect {A} (f : effect -> option A) (tr : list effect) : list A :=
    match tr with
    | [] => []
    | e :: tr' => match f e with Some a => (find_effect f tr' ++ [a])%list | None => find_effect f tr' end
    end.   (* chronological *)

  Definition nlist_eqb (a b : list N) : bool :=
    (length a =? length b)%nat && forallb (fun '(x, y) => N.eqb x y) (combine a b).

  (** (A) a guest calls an IMPORT synchronously: GuestImport, LowerArgsLiftResults, async = false.
      args are the interface values; exactly one CallWasm, whose core arguments are the spec's flat lowering of
      the parameters (or one pointer to the spec's store of the parameter record), plus the return pointer when
      the result is returned through memory; the function then returns exactly the callee's result value. *)
  Definition check_call_import (fn : func) (args : list val) (result : option val) (evs : list event) : verdict :=
    let m0 := mstate0 BASE in
    let callee (sg : wsig) (xs : list N) (m : mstate) : option (list N * mstate) :=
      match f_result fn, result with
      | Some t, Some rv =>
          if s_retptr sg then
            match rev xs with
            | p :: _ => match Spec.store pw t rv p m with Some m' => Some ([], m') | None => None end
            | [] => None
            end
          else match Spec.lower_flat pw t rv m with Some (cs, m') => Some (map snd cs, m') | None => None end
      | None, None => Some ([], m)
      | _, _ => None
      end in
    let c := {| c_args := map RV args; c_elem := None; c_value := None; c_base := None; c_payload := None;
                c_wasm_results := []; c_callee := Some callee; c_iface_result := None |} in
    match run_events pw evs c (st0 [] m0) with
    | RErr _ => Fail 1
    | ROk s =>
        let calls := find_effect (fun e => match e with FCallWasm sg xs => Some (sg, xs) | _ => None end) (trace s) in
        let rets := find_effect (fun e => match e with FReturn vs => Some vs | _ => None end) (trace s) in
        match calls, rets with
        | [(sg, xs)], [vs] =>
            let indirect := (16 <? params_flat_len fn)%nat in
            let nparams := if indirect then 1%nat else params_flat_len fn in
            let pxs := firstn nparams xs in
            let params_ok :=
              if indirect then
                match pxs with
                | [p] => match Spec.load pw (params_ty fn) (mem (ms s)) p with
                         | Some (VRec vs') => vals_eqb vs' args
                         | _ => false
                         end
                | _ => false
                end
              else
                match Spec.lower_flat pw (params_ty fn) (VRec args) m0 with
                | Some (cs, _) => nlist_eqb pxs (map snd cs)
                | None => false
                end in
            let ret_ok := match result, vs with
                          | Some rv, [RV x] => val_eqb x rv
                          | None, [] => true
                          | _, _ => false
                          end in
            if negb params_ok then Fail 11 else if negb ret_ok then Fail 12
            else if negb (Bool.eqb (s_indirect sg) indirect) then Fail 13
            else if negb (length xs =? nparams + (if s_retptr sg then 1 else 0))%nat then Fail 14
            else Pass
        | _, _ => Fail 15       (* not exactly one core call and one return *)
        end
    end.

  (** (B)/(C) the host calls a guest EXPORT: GuestExport, LiftArgsLowerResults, sync (Return) or
      GuestExportAsync/GuestExport with async = true (task.return).  Core arguments come from the spec's lowering
      with caller-owned buffers (in the ledger); exactly one CallInterface receiving exactly the values; the
      result leaves as the spec's flat lowering, or through a pointer where the spec's load finds it; a
      caller-allocated parameter record is freed exactly once. *)
  Definition check_call_export (fn : func) (args : list val) (result : option val) (is_async : bool)
             (evs : list event) : verdict :=
    let indirect := (16 <? params_flat_len fn)%nat in
    let a := BASE in
    let m0 := mstate0 (a + elem_size pw (params_ty fn)) in
    let prepared :=
      if indirect then
        match Spec.store pw (params_ty fn) (VRec args) a m0 with
        | Some m => Some ([RC a],
                          {| mem := mem m; next := next m;
                             allocs := (allocs m ++ [(a, elem_size pw (params_ty fn), alignment pw (params_ty fn))])%list;
                             presets := presets m |})
        | None => None
        end
      else
        match Spec.lower_flat pw (params_ty fn) (VRec args) m0 with
        | Some (cs, m) => Some (map (fun c => RC (snd c)) cs, m)
        | None => None
        end in
    match prepared with
    | None => Skip
    | Some (cargs, m) =>
        let c := {| c_args := cargs; c_elem := None; c_value := None; c_base := None; c_payload := None;
                    c_wasm_results := []; c_callee := None; c_iface_result := result |} in
        match run_events pw evs c (st0 [] m) with
        | RErr (ELedger _ _ _) => Fail 5
        | RErr _ => Fail 1
        | ROk s =>
            let calls := find_effect (fun e => match e with FCallInterface vs => Some vs | _ => None end) (trace s) in
            let rets := find_effect (fun e => match e with
                                              | FReturn vs => Some (all_c vs)
                                              | FTaskReturn _ xs => Some (ROk xs)
                                              | _ => None end) (trace s) in
            let frees := find_effect (fun e => match e with FFree p sz al => Some (p, sz) | _ => None end) (trace s) in
            match calls, rets with
            | [vs], [ROk xs] =>
                if negb (vals_eqb vs args) then Fail 11 else
                let res_ok :=
                  match f_result fn, result with
                  | None, None => match xs with [] => true | _ => false end
                  | Some t, Some rv =>
                      let limit := if is_async then 16%nat else 1%nat in
                      if (flat_len t <=? limit)%nat then
                        (* flat: the allocation addresses depend on where the bump pointer stands; decode instead *)
                        match Spec.lift_flat pw t (mem (ms s)) (combine (Spec.flatten pw t) xs) with
                        | Some (x, []) => val_eqb x rv && (length xs =? flat_len t)%nat
                        | _ => false
                        end
                      else
                        match xs with
                        | [p] => match Spec.load pw t (mem (ms s)) p with Some x => val_eqb x rv | None => false end
                        | _ => false
                        end
                  | _, _ => false
                  end in
                if negb res_ok then Fail 12
                else if indirect && negb is_async
                        && negb (length (filter (fun '(p, sz) => N.eqb p a) frees) =? 1)%nat then Fail 16
                else Pass
            | _, _ => Fail 15
            end
        end
    end.

  (** the type can hold a heap buffer (string/list/map at any depth) — C03's "post-return iff" *)
  Fixpoint has_heap (t : ty) : bool :=
    match t with
    | TString | TList _ | TMap _ _ => true
    | TFixed x _ | TOption x => has_heap x
    | TRecord fs | TTuple fs => existsb has_heap fs
    | TVariant cs => existsb (fun c => match c with Some x => has_heap x | None => false end) cs
    | TResult a b => match a with Some x => has_heap x | None => false end
                     || match b with Some x => has_heap x | None => false end
    | _ => false
    end.
End check.
