(** Semantics of the instruction language: what each [Instruction]'s doc comment in
    crates/core/src/abi.rs promises — the CONTRACT between the shared generator and every backend.
    Executable (no fuel): structural on the program tree recovered from the event stream.
    State: operand environment, byte memory with the bump allocator and allocation LEDGER shared with
    Canon/Spec.v, and an effect trace (calls, returns, handle drops, frees). *)
From Coq Require Import List ZArith NArith Bool Lia.
From WB Require Import Wit.Ty Canon.Spec Abi.Sig Abi.Instr Abi.Cast Abi.CastSem.
Import ListNotations.
Local Open Scope N_scope.

(** * Program trees *)
Inductive node :=
| NInstr (i : instr) (ops res : list nat) (blocks : list block)
| NRetPtr (size : asize) (al : align) (id : nat)
with block := Block (body : list node) (results : list nat).

Definition blocks_consumed (i : instr) : nat :=
  match i with
  | VariantLower cs _ | VariantLift cs => length cs
  | OptionLower _ _ | OptionLift _ | ResultLower _ _ _ | ResultLift _ _ => 2
  | ListLower _ _ | ListLift _ | MapLower _ _ _ | MapLift _ _ | FixedLowerToMemory _ _ | FixedLiftFromMemory _ _
  | GuestDeallocateList _ | GuestDeallocateMap _ _ => 1
  | GuestDeallocateVariant n => n
  | _ => 0
  end.

(** frames: (nodes so far, reversed; finished blocks waiting for their instruction, reversed) *)
Definition frame : Type := list node * list block.

Fixpoint parse_events (evs : list event) (cur : frame) (stack : list frame) : option (list node) :=
  match evs with
  | [] => match stack with [] => Some (rev (fst cur)) | _ => None end
  | EEmit i ops res :: evs' =>
      let k := blocks_consumed i in
      if (length (snd cur) <? k)%nat then None
      else parse_events evs' (NInstr i ops res (rev (firstn k (snd cur))) :: fst cur, skipn k (snd cur)) stack
  | ERetPtr s a id :: evs' => parse_events evs' (NRetPtr s a id :: fst cur, snd cur) stack
  | EPushBlock :: evs' => parse_events evs' ([], []) (cur :: stack)
  | EFinishBlock ops :: evs' =>
      match stack with
      | parent :: stack' => parse_events evs' (fst parent, Block (rev (fst cur)) ops :: snd parent) stack'
      | [] => None
      end
  end.

Definition parse (evs : list event) : option (list node) := parse_events evs ([], []) [].

(** * Runtime *)
Inductive rv := RV (v : val) | RC (x : N).

Inductive effect :=
| FCallWasm (s : wsig) (args : list N)
| FCallInterface (args : list val)
| FReturn (vals : list rv)
| FTaskReturn (params : list wt) (vals : list N)
| FDrop (t : ty) (h : Z)
| FFree (p size al : N).

Record ctx := {
  c_args : list rv;            (* GetArg *)
  c_elem : option rv;          (* IterElem / IterMapKey *)
  c_value : option rv;         (* IterMapValue *)
  c_base : option N;           (* IterBasePointer *)
  c_payload : option rv;       (* VariantPayloadName *)
  c_wasm_results : list N;     (* what the callee of CallWasm returns … *)
  c_callee : option (wsig -> list N -> mstate -> option (list N * mstate));
                               (* … or a callee that also writes memory (results through a return pointer) *)
  c_iface_result : option val; (* what the user function behind CallInterface returns *)
}.

Record st := {
  env : list (nat * rv);
  ms : mstate;
  trace : list effect;         (* most recent first *)
}.

Inductive err :=
| EUnbound | EType | ELedger (p size al : N) | ETrap | EShape.
Inductive r (A : Type) := ROk (a : A) | RErr (e : err).
Arguments ROk {A}. Arguments RErr {A}.
Notation "x <-- m ;; k" := (match m with ROk x => k | RErr e => RErr e end)
  (at level 61, m at next level, right associativity).

Fixpoint lookup (e : list (nat * rv)) (id : nat) : r rv :=
  match e with
  | [] => RErr EUnbound
  | (k, v) :: e' => if Nat.eqb k id then ROk v else lookup e' id
  end.
Fixpoint lookups (e : list (nat * rv)) (ids : list nat) : r (list rv) :=
  match ids with
  | [] => ROk []
  | i :: ids' => v <-- lookup e i ;; vs <-- lookups e ids' ;; ROk (v :: vs)
  end.
Fixpoint binds (e : list (nat * rv)) (ids : list nat) (vs : list rv) : r (list (nat * rv)) :=
  match ids, vs with
  | [], [] => ROk e
  | i :: ids', v :: vs' => binds ((i, v) :: e) ids' vs'
  | _, _ => RErr EShape
  end.

Definition as_c (x : rv) : r N := match x with RC n => ROk n | RV _ => RErr EType end.
Definition as_v (x : rv) : r val := match x with RV v => ROk v | RC _ => RErr EType end.
Fixpoint all_c (xs : list rv) : r (list N) :=
  match xs with [] => ROk [] | x :: xs' => a <-- as_c x ;; b <-- all_c xs' ;; ROk (a :: b) end.
Fixpoint all_v (xs : list rv) : r (list val) :=
  match xs with [] => ROk [] | x :: xs' => a <-- as_v x ;; b <-- all_v xs' ;; ROk (a :: b) end.

Section sem.
  Variable pw : N.

  Definition off (o : asize) : N := a_size pw o.

  Definition ld_bytes (op : ldop) : nat :=
    match op with
    | LI32 | LF32 => 4 | LI32_8U | LI32_8S => 1 | LI32_16U | LI32_16S => 2 | LI64 | LF64 => 8
    | LPtr | LLen => N.to_nat pw
    end%nat.
  Definition st_bytes (op : stop) : nat :=
    match op with
    | SI32 | SF32 => 4 | SI32_8 => 1 | SI32_16 => 2 | SI64 | SF64 => 8 | SPtr | SLen => N.to_nat pw
    end%nat.
  Definition sext (bits : N) (x : N) : N :=            (* sign-extend a [bits]-wide value to 32 bits *)
    if x <? 2 ^ (bits - 1) then x else x + (2 ^ 32 - 2 ^ bits).
  Definition do_load (op : ldop) (m : N -> N) (a : N) : N :=
    let x := load_le m a (ld_bytes op) in
    match op with LI32_8S => sext 8 x | LI32_16S => sext 16 x | _ => x end.

  Definition scalar_ty (op : scalar_op) : ty :=
    match op with
    | I32FromChar | CharFromI32 => TChar
    | I64FromU64 | U64FromI64 => TU64 | I64FromS64 | S64FromI64 => TS64
    | I32FromU32 | U32FromI32 => TU32 | I32FromS32 | S32FromI32 => TS32
    | I32FromU16 | U16FromI32 => TU16 | I32FromS16 | S16FromI32 => TS16
    | I32FromU8 | U8FromI32 => TU8 | I32FromS8 | S8FromI32 => TS8
    | CoreF32FromF32 | F32FromCoreF32 => TF32 | CoreF64FromF64 | F64FromCoreF64 => TF64
    | BoolFromI32 | I32FromBool => TBool
    end.
  Definition scalar_is_lower (op : scalar_op) : bool :=
    match op with
    | I32FromChar | I64FromU64 | I64FromS64 | I32FromU32 | I32FromS32 | I32FromU16 | I32FromS16 | I32FromU8
    | I32FromS8 | CoreF32FromF32 | CoreF64FromF64 | I32FromBool => true
    | _ => false
    end.

  Definition handle_like (t : ty) (x : rv) (lower : bool) : r rv :=
    if lower then
      v <-- as_v x ;; match Spec.scalar_flat t v with Some (_, n) => ROk (RC n) | None => RErr EType end
    else
      n <-- as_c x ;; match Spec.scalar_lift t n with Some v => ROk (RV v) | None => RErr ETrap end.

  Definition free (s : st) (p size al : N) : r st :=
    if size =? 0 then ROk s else
    let fix remove (l : list (N * N * N)) : option (list (N * N * N)) :=
      match l with
      | [] => None
      | (p', s', a') :: l' =>
          if (p' =? p) && (s' =? size) && (a' =? al) then Some l'
          else match remove l' with Some l'' => Some ((p', s', a') :: l'') | None => None end
      end in
    match remove (allocs (ms s)) with
    | Some l => ROk {| env := env s;
                       ms := {| mem := mem (ms s); next := next (ms s); allocs := l; presets := presets (ms s) |};
                       trace := FFree p size al :: trace s |}
    | None => RErr (ELedger p size al)
    end.

  (** allocation for a lowering: [owned] = realloc is Some (the buffer changes hands and must be freed by
      the receiver: it is entered in the ledger); otherwise the bytes are only borrowed. *)
  Definition alloc (s : st) (size al : N) (owned : bool) : N * st :=
    let '(p, m') := st_alloc (ms s) size al in
    (p, {| env := env s;
           ms := if owned then m' else {| mem := mem m'; next := next m'; allocs := allocs (ms s); presets := presets m' |};
           trace := trace s |}).

  Definition with_ms (s : st) (m : mstate) : st := {| env := env s; ms := m; trace := trace s |}.
  Definition with_env (s : st) (e : list (nat * rv)) : st := {| env := e; ms := ms s; trace := trace s |}.
  Definition eff (s : st) (f : effect) : st := {| env := env s; ms := ms s; trace := f :: trace s |}.

  Definition set_iter (c : ctx) (elem value : option rv) (base : option N) : ctx :=
    {| c_args := c_args c; c_elem := elem; c_value := value; c_base := base; c_payload := c_payload c;
       c_wasm_results := c_wasm_results c; c_callee := c_callee c; c_iface_result := c_iface_result c |}.
  Definition set_payload (c : ctx) (p : option rv) : ctx :=
    {| c_args := c_args c; c_elem := c_elem c; c_value := c_value c; c_base := c_base c; c_payload := p;
       c_wasm_results := c_wasm_results c; c_callee := c_callee c; c_iface_result := c_iface_result c |}.

  Definition mask32 (x : N) : N := x mod 2 ^ 32.

  Definition flag_words (n : N) (bs : list bool) : list rv :=
    map (fun k => RC ((flags_bits bs / 2 ^ (32 * N.of_nat k)) mod 2 ^ 32)) (seq 0 (N.to_nat (flags_count n))).

  (** run a block: execute its body, return the values of its result operands *)
  Definition run_block_with (exec_nodes : list node -> ctx -> st -> r st) (b : block) (c : ctx) (s : st)
    : r (list rv * st) :=
    match b with
    | Block body results =>
        s' <-- exec_nodes body c s ;;
        vs <-- lookups (env s') results ;;
        ROk (vs, s')
    end.

  Definition nth_block (bs : list block) (i : nat) : r block :=
    match nth_error bs i with Some b => ROk b | None => RErr EShape end.

  (** The instructions that do not run blocks. *)
  Definition exec_simple (i : instr) (c : ctx) (args : list rv) (s : st) : r (list rv * st) :=
    match i, args with
    | GetArg n, [] => match nth_error (c_args c) n with Some v => ROk ([v], s) | None => RErr EUnbound end
    | I32Const v, [] => ROk ([RC (Spec.wrapZ 32 v)], s)
    | Bitcasts cs, _ =>
        xs <-- all_c args ;;
        if (length cs =? length xs)%nat
        then ROk (map (fun '(cst, x) => RC (cast_sem pw cst x)) (combine cs xs), s)
        else RErr EShape
    | ConstZero tys, [] => ROk (map (fun _ => RC 0) tys, s)
    | Load op o, [a] => a <-- as_c a ;; ROk ([RC (do_load op (mem (ms s)) (a + off o))], s)
    | Store op o, [x; a] =>
        x <-- as_c x ;; a <-- as_c a ;;
        ROk ([], with_ms s (st_store (ms s) (a + off o) (st_bytes op) x))
    | Scalar op, [x] => y <-- handle_like (scalar_ty op) x (scalar_is_lower op) ;; ROk ([y], s)
    | HandleLower _, [x] => y <-- handle_like TOwn x true ;; ROk ([y], s)
    | HandleLift _, [x] => y <-- handle_like TOwn x false ;; ROk ([y], s)
    | (FutureLower _ | StreamLower _ | ErrorContextLower), [x] => y <-- handle_like TOwn x true ;; ROk ([y], s)
    | (FutureLift _ | StreamLift _ | ErrorContextLift), [x] => y <-- handle_like TOwn x false ;; ROk ([y], s)
    | StringLower owned, [x] =>
        v <-- as_v x ;;
        match v with
        | VStr bs =>
            let '(p, s1) := alloc s (N.of_nat (length bs)) 1 owned in
            let m := ms s1 in
            ROk ([RC p; RC (N.of_nat (length bs))],
                 with_ms s1 {| mem := store_bytes_at (mem m) p bs; next := next m; allocs := allocs m; presets := presets m |})
        | _ => RErr EType
        end
    | StringLift, [p; len] =>
        p <-- as_c p ;; len <-- as_c len ;;
        ROk ([RV (VStr (map (fun k => (mem (ms s) (p + N.of_nat k)) mod 256) (seq 0 (N.to_nat len))))], s)
    | ListCanonLower e owned, [x] =>
        v <-- as_v x ;;
        match v with
        | VList vs =>
            let sz := elem_size pw e in
            let '(p, s1) := alloc s (N.of_nat (length vs) * sz) (alignment pw e) owned in
            match store_elems (Spec.store pw e) sz vs p (ms s1) with
            | Some m' =>
                (* nested buffers of a canonical element type do not exist (canonical = no pointers) *)
                ROk ([RC p; RC (N.of_nat (length vs))], with_ms s1 m')
            | None => RErr EType
            end
        | _ => RErr EType
        end
    | ListCanonLift e, [p; len] =>
        p <-- as_c p ;; len <-- as_c len ;;
        match load_elems (Spec.load pw e (mem (ms s))) (elem_size pw e) (N.to_nat len) p with
        | Some vs => ROk ([RV (VList vs)], s)
        | None => RErr ETrap
        end
    | FixedLower e n, [x] =>
        v <-- as_v x ;;
        match v with
        | VList vs => if N.of_nat (length vs) =? n then ROk (map RV vs, s) else RErr EType
        | _ => RErr EType
        end
    | FixedLift e n, _ => vs <-- all_v args ;; ROk ([RV (VList vs)], s)
    | (RecordLower fs | TupleLower fs), [x] =>
        v <-- as_v x ;;
        match v with
        | VRec vs => if (length vs =? length fs)%nat then ROk (map RV vs, s) else RErr EType
        | _ => RErr EType
        end
    | (RecordLift fs | TupleLift fs), _ => vs <-- all_v args ;; ROk ([RV (VRec vs)], s)
    | FlagsLower n, [x] =>
        v <-- as_v x ;;
        match v with
        | VFlags bs => if N.of_nat (length bs) =? n then ROk (flag_words n bs, s) else RErr EType
        | _ => RErr EType
        end
    | FlagsLift n, _ =>
        xs <-- all_c args ;;
        let x := fold_right (fun w acc => mask32 w + 2 ^ 32 * acc) 0 xs in
        ROk ([RV (VFlags (bits_flags (N.to_nat n) x))], s)
    | EnumLower n, [x] =>
        v <-- as_v x ;;
        match v with VVar i None => if i <? n then ROk ([RC i], s) else RErr EType | _ => RErr EType end
    | EnumLift n, [x] =>
        d <-- as_c x ;; let i := mask32 d in if i <? n then ROk ([RV (VVar i None)], s) else RErr ETrap
    | IterElem _, [] | IterMapKey _, [] =>
        match c_elem c with Some v => ROk ([v], s) | None => RErr EUnbound end
    | IterMapValue _, [] => match c_value c with Some v => ROk ([v], s) | None => RErr EUnbound end
    | IterBasePointer, [] => match c_base c with Some p => ROk ([RC p], s) | None => RErr EUnbound end
    | VariantPayloadName, [] => match c_payload c with Some v => ROk ([v], s) | None => ROk ([RV (VRec [])], s) end
    | CallWasm sg, _ =>
        xs <-- all_c args ;;
        match c_callee c with
        | Some callee =>
            match callee sg xs (ms s) with
            | Some (rs, m') =>
                if (length rs =? length (s_results sg))%nat
                then ROk (map RC rs, eff (with_ms s m') (FCallWasm sg xs))
                else RErr EShape
            | None => RErr EShape
            end
        | None =>
            if (length (c_wasm_results c) =? length (s_results sg))%nat
            then ROk (map RC (c_wasm_results c), eff s (FCallWasm sg xs))
            else RErr EShape
        end
    | CallInterface n has_res _, _ =>
        vs <-- all_v args ;;
        match has_res, c_iface_result c with
        | true, Some v => ROk ([RV v], eff s (FCallInterface vs))
        | false, _ => ROk ([], eff s (FCallInterface vs))
        | true, None => RErr EShape
        end
    | Return _, _ => ROk ([], eff s (FReturn args))
    | AsyncTaskReturn ps, _ => xs <-- all_c args ;; ROk ([], eff s (FTaskReturn ps xs))
    | Flush _, _ => ROk (args, s)
    | Malloc size al, [] =>
        let '(p, s1) := alloc s (off size) (a_align pw al) true in ROk ([RC p], s1)
    | GuestDeallocate size al, [p] => p <-- as_c p ;; s' <-- free s p (off size) (a_align pw al) ;; ROk ([], s')
    | GuestDeallocateString, [p; len] =>
        p <-- as_c p ;; len <-- as_c len ;; s' <-- free s p len 1 ;; ROk ([], s')
    | DropHandle t, [x] =>
        v <-- as_v x ;; match v with VNum h => ROk ([], eff s (FDrop t h)) | _ => RErr EType end
    | _, _ => RErr EShape
    end.

  Definition is_block_instr (i : instr) : bool := negb (blocks_consumed i =? 0)%nat.

  (** iterate a block over list elements (lowering direction) *)
  Definition iter_lower (run : ctx -> st -> r (list rv * st)) (c : ctx) (sz : N) :=
    fix go (vs : list (option rv * option rv)) (a : N) (s : st) : r st :=
      match vs with
      | [] => ROk s
      | (e, v) :: vs' =>
          x <-- run (set_iter c e v (Some a)) s ;;
          go vs' (a + sz) (snd x)
      end.
  (** iterate a block over [n] slots (lifting / deallocation direction), collecting its results *)
  Definition iter_lift (run : ctx -> st -> r (list rv * st)) (c : ctx) (sz : N) :=
    fix go (n : nat) (a : N) (s : st) : r (list (list rv) * st) :=
      match n with
      | O => ROk ([], s)
      | S k =>
          x <-- run (set_iter c None None (Some a)) s ;;
          y <-- go k (a + sz) (snd x) ;;
          ROk (fst x :: fst y, snd y)
      end.

  Definition entry_ty (k v : ty) : ty := map_entry k v.

  Fixpoint exec_node (n : node) (c : ctx) (s : st) {struct n} : r st :=
    let fix exec_nodes (ns : list node) (c : ctx) (s : st) {struct ns} : r st :=
      match ns with
      | [] => ROk s
      | x :: ns' => s' <-- exec_node x c s ;; exec_nodes ns' c s'
      end in
    let run_block (b : block) (c : ctx) (s : st) : r (list rv * st) :=
      match b with
      | Block body results =>
          s' <-- exec_nodes body c s ;;
          vs <-- lookups (env s') results ;;
          ROk (vs, s')
      end in
    let fix run_nth (bs : list block) (i : nat) (c : ctx) (s : st) {struct bs} : r (list rv * st) :=
      match bs, i with
      | [], _ => RErr EShape
      | b :: _, O => run_block b c s
      | _ :: bs', S j => run_nth bs' j c s
      end in
    match n with
    | NRetPtr size al id =>
        (* a scratch area owned by the bindings (static return area / stack slot): never in the ledger *)
        let '(p, s1) := alloc s (off size) (a_align pw al) false in
        ROk (with_env s1 ((id, RC p) :: env s1))
    | NInstr i ops res blocks =>
        args <-- lookups (env s) ops ;;
        out <-- (match i, args, blocks with
                 | ListLower e owned, [x], [b] =>
                     v <-- as_v x ;;
                     match v with
                     | VList vs =>
                         let sz := elem_size pw e in
                         let '(p, s1) := alloc s (N.of_nat (length vs) * sz) (alignment pw e) owned in
                         s2 <-- iter_lower (run_block b) c sz (map (fun v => (Some (RV v), None)) vs) p s1 ;;
                         ROk ([RC p; RC (N.of_nat (length vs))], s2)
                     | _ => RErr EType
                     end
                 | MapLower k v owned, [x], [b] =>
                     m <-- as_v x ;;
                     match m with
                     | VList vs =>
                         let et := entry_ty k v in
                         let sz := elem_size pw et in
                         let '(p, s1) := alloc s (N.of_nat (length vs) * sz) (alignment pw et) owned in
                         s2 <-- iter_lower (run_block b) c sz
                                  (map (fun e => match e with
                                                 | VRec [a; b] => (Some (RV a), Some (RV b))
                                                 | _ => (None, None)
                                                 end) vs) p s1 ;;
                         ROk ([RC p; RC (N.of_nat (length vs))], s2)
                     | _ => RErr EType
                     end
                 | ListLift e, [p; len], [b] =>
                     p <-- as_c p ;; len <-- as_c len ;;
                     if p mod alignment pw e =? 0 then
                       x <-- iter_lift (run_block b) c (elem_size pw e) (N.to_nat len) p s ;;
                       vs <-- all_v (concat (fst x)) ;;
                       ROk ([RV (VList vs)], snd x)
                     else RErr ETrap
                 | MapLift k v, [p; len], [b] =>
                     p <-- as_c p ;; len <-- as_c len ;;
                     let et := entry_ty k v in
                     if p mod alignment pw et =? 0 then
                       x <-- iter_lift (run_block b) c (elem_size pw et) (N.to_nat len) p s ;;
                       es <-- (fix pairs (l : list (list rv)) : r (list val) :=
                                 match l with
                                 | [] => ROk []
                                 | [a; b] :: l' => a <-- as_v a ;; b <-- as_v b ;; t <-- pairs l' ;; ROk (VRec [a; b] :: t)
                                 | _ => RErr EShape
                                 end) (fst x) ;;
                       ROk ([RV (VList es)], snd x)
                     else RErr ETrap
                 | FixedLowerToMemory e n, [x; a], [b] =>
                     v <-- as_v x ;; a <-- as_c a ;;
                     match v with
                     | VList vs =>
                         if N.of_nat (length vs) =? n then
                           s2 <-- iter_lower (run_block b) c (elem_size pw e) (map (fun v => (Some (RV v), None)) vs) a s ;;
                           ROk ([], s2)
                         else RErr EType
                     | _ => RErr EType
                     end
                 | FixedLiftFromMemory e n, [a], [b] =>
                     a <-- as_c a ;;
                     x <-- iter_lift (run_block b) c (elem_size pw e) (N.to_nat n) a s ;;
                     vs <-- all_v (concat (fst x)) ;;
                     ROk ([RV (VList vs)], snd x)
                 | (VariantLower _ _ | OptionLower _ _ | ResultLower _ _ _), [x], _ =>
                     v <-- as_v x ;;
                     match v with
                     | VVar ci p => run_nth blocks (N.to_nat ci) (set_payload c (option_map RV p)) s
                     | _ => RErr EType
                     end
                 | (VariantLift _ | OptionLift _ | ResultLift _ _), [d], _ =>
                     d <-- as_c d ;;
                     let ci := mask32 d in
                     if (N.to_nat ci <? length blocks)%nat then
                       x <-- run_nth blocks (N.to_nat ci) c s ;;
                       match fst x with
                       | [] => ROk ([RV (VVar ci None)], snd x)
                       | [p] => p <-- as_v p ;; ROk ([RV (VVar ci (Some p))], snd x)
                       | _ => RErr EShape
                       end
                     else RErr ETrap
                 | GuestDeallocateList e, [p; len], [b] =>
                     p <-- as_c p ;; len <-- as_c len ;;
                     let sz := elem_size pw e in
                     x <-- iter_lift (run_block b) c sz (N.to_nat len) p s ;;
                     s' <-- free (snd x) p (len * sz) (alignment pw e) ;;
                     ROk ([], s')
                 | GuestDeallocateMap k v, [p; len], [b] =>
                     p <-- as_c p ;; len <-- as_c len ;;
                     let et := entry_ty k v in
                     let sz := elem_size pw et in
                     x <-- iter_lift (run_block b) c sz (N.to_nat len) p s ;;
                     s' <-- free (snd x) p (len * sz) (alignment pw et) ;;
                     ROk ([], s')
                 | GuestDeallocateVariant _, [d], _ =>
                     d <-- as_c d ;;
                     x <-- run_nth blocks (N.to_nat (mask32 d)) c s ;;
                     ROk ([], snd x)
                 | _, _, [] => exec_simple i c args s
                 | _, _, _ => RErr EShape
                 end) ;;
        e' <-- binds (env (snd out)) res (fst out) ;;
        ROk (with_env (snd out) e')
    end.

  Fixpoint exec_nodes (ns : list node) (c : ctx) (s : st) : r st :=
    match ns with
    | [] => ROk s
    | x :: ns' => s' <-- exec_node x c s ;; exec_nodes ns' c s'
    end.

  Definition run_events (evs : list event) (c : ctx) (s : st) : r st :=
    match parse evs with
    | Some ns => exec_nodes ns c s
    | None => RErr EShape
    end.
End sem.
