(** * [Generator::call] for a synchronous import (GuestImport, LowerArgsLiftResults) never panics *)
From Coq Require Import List ZArith NArith Bool Arith Lia.
From WB Require Import Wit.Ty Canon.Spec Abi.Sig Abi.Instr Abi.Cast Abi.Gen Abi.CastProofs Abi.SigProofs Abi.SigFuncProofs
                       Abi.GenDiscipline Abi.GenFlatDiscipline Abi.GenFlatLift.
Import ListNotations.

Definition FPs (fn : func) : list wt := concat (map wflat (f_params fn)).
Definition RPb (fn : func) : bool := match f_result fn with Some t => (1 <? length (wflat t))%nat | None => false end.

Lemma import_sig_facts fn sig : f_method fn = false -> wasm_signature GuestImport fn = SigOk sig ->
  s_indirect sig = (16 <? length (FPs fn))%nat /\ s_retptr sig = RPb fn /\
  s_params sig = (if (16 <? length (FPs fn))%nat then [WPtr] else FPs fn) ++ (if RPb fn then [WPtr] else []) /\
  s_results sig = (if RPb fn then [] else match f_result fn with Some t => wflat t | None => [] end).
Proof.
  intros Hm Hsig. unfold wasm_signature in Hsig. rewrite Hm in Hsig. unfold FPs, RPb.
  destruct (push_flat_list (f_params fn) (ft_new 17)) as [ok p] eqn:E.
  destruct (params_fact (f_params fn) ok p 16 E (le_n 16)) as [Hind Htys].
  rewrite Hind in Hsig.
  destruct (16 <? length (concat (map wflat (f_params fn))))%nat eqn:Ei; cbn [negb andb orb] in Hsig.
  - destruct (f_result fn) as [t|].
    + destruct (push_flat t (ft_new 1)) as [rok r] eqn:Er.
      destruct (result_fact t rok r Er) as [Hov Hty]. rewrite Hov in Hsig.
      destruct (1 <? length (wflat t))%nat eqn:E1.
      * cbn in Hsig. injection Hsig as <-. cbn. repeat split.
      * injection Hsig as <-. cbn. rewrite (Hty eq_refl), ?app_nil_r. repeat split.
    + cbn in Hsig. injection Hsig as <-. cbn. repeat split.
  - specialize (Htys eq_refl). rewrite Htys in Hsig. apply Nat.ltb_ge in Ei.
    destruct (f_result fn) as [t|].
    + destruct (push_flat t (ft_new 1)) as [rok r] eqn:Er.
      destruct (result_fact t rok r Er) as [Hov Hty]. rewrite Hov in Hsig.
      destruct (1 <? length (wflat t))%nat eqn:E1.
      * destruct (Nat.ltb_spec (length (concat (map wflat (f_params fn)))) 17); [|lia].
        injection Hsig as <-. cbn. repeat split.
      * injection Hsig as <-. cbn. rewrite (Hty eq_refl), ?app_nil_r. repeat split.
    + cbn in Hsig. injection Hsig as <-. cbn. rewrite ?app_nil_r. repeat split.
Qed.

(** primitives that touch realloc / the return pointer *)
Record same_but (s s' : gst) : Prop := { sb_stack : stack s' = stack s; sb_nxt : nxt s <= nxt s' }.

Lemma ok_set_realloc r s : ok_with (set_realloc r) s (fun _ s' => stack s' = stack s /\ realloc s' = r /\ retp s' = retp s).
Proof. unfold ok_with, set_realloc. cbn. auto. Qed.
Lemma ok_set_retp r s : ok_with (set_retp r) s (fun _ s' => stack s' = stack s /\ realloc s' = realloc s /\ retp s' = r).
Proof. unfold ok_with, set_retp. cbn. auto. Qed.
Lemma ok_return_pointer size al s :
  ok_with (return_pointer size al) s (fun _ s' => stack s' = stack s /\ realloc s' = realloc s /\ retp s' = retp s).
Proof. unfold ok_with, return_pointer, bind, fresh, log, ret. cbn. auto. Qed.
Lemma ok_get s : ok_with get s (fun a s' => a = s /\ s' = s).
Proof. unfold ok_with, get. auto. Qed.

Lemma lower_params_ok canon : forall ps nth s st r, Forall fits ps -> stack s = st -> realloc s = Some r ->
  ok_with ((fix go (ps : list ty) (nth : nat) {struct ps} : M unit :=
              match ps with
              | [] => ret tt
              | t :: ps' => emit (GetArg nth) ;;; lower canon t ;;; go ps' (S nth)
              end) ps nth) s (stkn s (length (concat (map wflat ps))) st).
Proof.
  induction ps as [|t ps IH]; intros nth s st r Hfit Hs Hr.
  - unfold ok_with, ret. exists []. split; [reflexivity|]. split; [exact Hs | apply frame_refl].
  - inversion Hfit as [|? ? Hft Hfts]; subst.
    eapply ok_seq; [eapply (ok_emit0 (GetArg nth) s); [reflexivity | reflexivity]|]. intros s1 Hs1 Hf1.
    cbn [results_len seq rev app] in Hs1.
    eapply ok_seqn.
    { eapply (lower_ok canon t Hft s1 _ (stack s) r Hs1). eapply frame_realloc; eassumption. }
    intros s2 out1 Ho1 Hs2 Hf2.
    eapply ok_weaken.
    { eapply (IH (S nth) s2 (out1 ++ stack s) r Hfts Hs2). eapply frame_realloc; [|exact Hr]. fr. }
    intros [] s3 [out2 [Ho2 [Hs3 Hf3]]].
    exists (out2 ++ out1). split; [|split; [rewrite <- app_assoc; exact Hs3 | fr]].
    cbn [map concat]. rewrite !app_length. lia.
Qed.

Lemma write_params_ok canon ptr : forall ps nth off s st r, stack s = st -> realloc s = Some r ->
  ok_with ((fix go (ps : list ty) (nth : nat) (offset : asize) {struct ps} : M unit :=
              match ps with
              | [] => ret tt
              | t :: ps' =>
                  emit (GetArg nth) ;;;
                  let o := align_to_arch offset (sa_align t) in
                  write canon t ptr o ;;;
                  go ps' (S nth) (a_add o (sa_size t))
              end) ps nth off) s (stk s st).
Proof.
  induction ps as [|t ps IH]; intros nth off s st r Hs Hr.
  - apply ok_ret_stk; [exact Hs | apply frame_refl].
  - eapply ok_seq; [eapply (ok_emit0 (GetArg nth) s); [reflexivity | reflexivity]|]. intros s1 Hs1 Hf1.
    cbn [results_len seq rev app] in Hs1. cbn zeta.
    eapply ok_seq.
    { eapply (write_ok canon t ptr _ s1 _ (stack s) r Hs1). eapply frame_realloc; eassumption. }
    intros s2 Hs2 Hf2.
    eapply ok_weaken.
    { eapply (IH (S nth) _ s2 (stack s) r Hs2). eapply frame_realloc; [|exact Hr]. fr. }
    intros [] s3 [H1 H2]. subst st. split; [exact H1 | fr].
Qed.

Lemma fits_params fn : length (FPs fn) <= 16 -> Forall fits (f_params fn).
Proof. intros H. apply fits_fields. exact H. Qed.

Theorem call_import_sync_ok canon fn sig :
  f_method fn = false ->
  match f_result fn with Some t => valid_ty t = true | None => True end ->
  wasm_signature GuestImport fn = SigOk sig ->
  ok_with (call canon fn GuestImport LowerArgsLiftResults false) gst0 (fun _ s' => stack s' = [] /\ realloc s' = None).
Proof.
  intros Hm Hvr Hsig.
  destruct (import_sig_facts fn sig Hm Hsig) as [Hind [Hrp [Hps Hrs]]].
  unfold call, get_sig. rewrite Hsig.
  apply ok_bind. unfold ok_with at 1, ret.
  apply ok_bind. unfold ok_with at 1, get.
  apply ok_bind. unfold ok_with at 1. cbn [gst0 realloc ret].
  apply ok_bind.
  (* the whole LowerArgsLiftResults block ends with an empty stack and realloc unset *)
  eapply ok_weaken with (P := fun _ s' => stack s' = [] /\ realloc s' = None).
  2:{ intros [] s' [Hs' Hr']. apply ok_bind. unfold ok_with at 1, get. rewrite Hr'.
      apply ok_bind. unfold ok_with at 1, ret.
      unfold stack_must_be_empty, ok_with, bind, get. rewrite Hs'. unfold ret. split; assumption. }
  apply ok_bind. eapply ok_weaken; [apply ok_set_realloc|]. intros [] sa [Hsa [Hra Hpa]]. cbn [gst0 stack retp] in Hsa, Hpa.
  (* phase 1: parameters *)
  apply ok_bind.
  eapply ok_weaken with (P := fun _ s1 => exists P, stack s1 = P /\
                               length P = length (if (16 <? length (FPs fn))%nat then [WPtr] else FPs fn) /\
                               retp s1 = None).
  { rewrite Hind. destruct (16 <? length (FPs fn))%nat eqn:Ei.
    - destruct (sa_record_tys (f_params fn)) as [size al].
      apply ok_bind. eapply ok_weaken; [apply ok_return_pointer|]. intros ptr sb [Hsb [Hrb Hpb]].
      eapply ok_seq with (st := []).
      { eapply (write_params_ok canon ptr (f_params fn) 0 asize0 sb [] false); congruence. }
      intros sc Hsc Hfc.
      eapply ok_weaken; [eapply ok_push'; exact Hsc|]. intros [] sd [Hsd Hfd].
      exists [ptr]. split; [exact Hsd|]. split; [reflexivity|].
      destruct Hfd as [_ [Hq _]]. destruct Hfc as [_ [Hq2 _]]. congruence.
    - apply Nat.ltb_ge in Ei.
      eapply ok_weaken.
      { eapply (lower_params_ok canon (f_params fn) 0 sa [] false (fits_params fn Ei)); congruence. }
      intros [] sb [vals [Hvl [Hsb Hfb]]]. exists vals. rewrite app_nil_r in Hsb.
      split; [exact Hsb|]. split; [exact Hvl|]. destruct Hfb as [_ [Hq _]]. congruence. }
  intros [] s1 [P [Hs1 [HlP Hp1]]].
  (* phase 2/3: unset realloc, return pointer for the result *)
  apply ok_bind. eapply ok_weaken; [apply ok_set_realloc|]. intros [] s2 [Hs2 [Hr2 Hp2]].
  apply ok_bind.
  eapply ok_weaken with (P := fun _ s3 => exists Q, stack s3 = Q /\ length Q = length (s_params sig) /\ realloc s3 = None /\
                               (RPb fn = true -> exists p, retp s3 = Some p)).
  { rewrite Hrp. destruct (RPb fn) eqn:Erp.
    - destruct (sa_record_tys (opt_list (f_result fn))) as [size al].
      apply ok_bind. eapply ok_weaken; [apply ok_return_pointer|]. intros ptr sb [Hsb [Hrb Hpb]].
      apply ok_bind. eapply ok_weaken; [apply ok_set_retp|]. intros [] sc [Hsc [Hrc Hpc]].
      eapply ok_weaken; [eapply ok_push'; reflexivity|]. intros [] sd [Hsd [Hfd1 [Hfd2 _]]].
      exists (ptr :: P). split; [rewrite Hsd; congruence|].
      split; [rewrite Hps, app_length; cbn [length]; lia|].
      split; [congruence|]. intros _. exists ptr. congruence.
    - unfold ok_with, ret. exists P. split; [congruence|].
      split; [rewrite Hps, app_length; cbn [length]; lia|]. split; [exact Hr2 | discriminate]. }
  intros [] s3 [Q [Hs3 [HlQ [Hr3 Hp3]]]].
  (* phase 4: the arity assertion and the call *)
  apply ok_bind. eapply ok_weaken; [apply ok_get|]. intros s3' s3'' [-> ->].
  apply ok_bind. rewrite Hs3, HlQ, Nat.eqb_refl. unfold ok_with at 1, ret.
  eapply ok_seqn.
  { eapply (ok_emit_n (CallWasm sig) s3 Q []); [rewrite app_nil_r; exact Hs3 | cbn [operands_len]; exact HlQ]. }
  intros s4 R HlR Hs4 Hf4. cbn [results_len] in HlR. rewrite app_nil_r in Hs4.
  assert (Hr4 : realloc s4 = None) by (destruct Hf4 as [Hq _]; congruence).
  (* phase 5: the result *)
  rewrite Hrp. destruct (RPb fn) eqn:Erp.
  - (* through the return pointer *)
    rewrite Hrs in *. destruct R; [|discriminate HlR].
    destruct (Hp3 eq_refl) as [p Hp].
    assert (Hp4 : retp s4 = Some p) by (destruct Hf4 as [_ [Hq _]]; congruence).
    unfold RPb in Erp. destruct (f_result fn) as [t|] eqn:Eres; [|discriminate Erp].
    apply ok_bind. apply ok_bind. apply ok_bind. unfold ok_with at 1, ret.
    apply ok_bind. eapply ok_weaken; [apply ok_get|]. intros s4' s4'' [-> ->]. rewrite Hp4.
    apply ok_bind. eapply ok_weaken; [apply ok_set_retp|]. intros [] s5 [Hs5 [Hr5 Hp5]].
    unfold ok_with at 1, ret.
    cbn [read_result].
    eapply ok_seq1.
    { eapply (read_ok canon t p _ s5 []). congruence. }
    intros s6 v Hs6 Hf6.
    eapply ok_weaken; [eapply (ok_emit1 (Flush 1) s6 v []); [exact Hs6 | reflexivity]|].
    intros [] s7 [Hs7 Hf7]. cbn [results_len seq rev app] in Hs7.
    eapply ok_weaken; [eapply (ok_emit1 (Return 1) s7 _ []); [exact Hs7 | reflexivity]|].
    intros [] s8 [Hs8 Hf8]. cbn [results_len seq rev app] in Hs8.
    split; [exact Hs8|]. destruct Hf8 as [Hq _]. destruct Hf7 as [Hq7 _]. destruct Hf6 as [Hq6 _]. congruence.
  - (* flat result *)
    rewrite Hrs in HlR. cbn [negb].
    unfold RPb in Erp. destruct (f_result fn) as [t|] eqn:Eres.
    + apply Nat.ltb_ge in Erp.
      apply ok_bind.
      eapply ok_weaken.
      { eapply (lift_ok canon t Hvr) with (top := R) (st := []); [unfold fits; lia | rewrite app_nil_r; exact Hs4 | exact HlR]. }
      intros [] s5 [v [Hs5 Hf5]].
      eapply ok_weaken; [eapply (ok_emit1 (Return 1) s5 v []); [exact Hs5 | reflexivity]|].
      intros [] s6 [Hs6 Hf6]. cbn [results_len seq rev app] in Hs6.
      split; [exact Hs6|]. destruct Hf6 as [Hq _]. destruct Hf5 as [Hq5 _]. congruence.
    + destruct R; [|discriminate HlR].
      apply ok_bind. unfold ok_with at 1, ret.
      eapply ok_weaken; [eapply (ok_emit0 (Return 0) s4 []); [exact Hs4 | reflexivity]|].
      intros [] s5 [Hs5 Hf5]. cbn [results_len seq rev app] in Hs5.
      split; [exact Hs5|]. destruct Hf5 as [Hq _]. congruence.
Qed.
