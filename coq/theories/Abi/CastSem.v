(** Reference semantics of [Bitcast]s on bit-vectors (as [N]), per pointer width [pw] (bytes), and the
    resolution of wit-parser's 7 core types to the canonical ABI's 4 at a given pointer width. *)
From Coq Require Import List ZArith NArith Bool Lia.
From WB Require Import Wit.Ty Canon.Spec Abi.Sig Abi.Instr Abi.Cast.
Import ListNotations.
Local Open Scope N_scope.

Definition wt_bits (pw : N) (t : wt) : N :=
  match t with
  | WI32 | WF32 => 32
  | WI64 | WF64 | WPtr64 => 64
  | WPtr | WLen => 8 * pw
  end.

(** what the type is at a concrete pointer width *)
Definition resolve (pw : N) (t : wt) : ct :=
  match t with
  | WI32 => CI32 | WI64 => CI64 | WF32 => CF32 | WF64 => CF64
  | WPtr | WLen => ptr_ct pw
  | WPtr64 => CI64
  end.

Definition trunc (bits x : N) : N := x mod 2 ^ bits.

(** Widening casts are zero-extensions / reinterpretations (identity on the bit pattern); narrowing casts
    keep the low bits. *)
Fixpoint cast_sem (pw : N) (c : bitcast) (x : N) : N :=
  match c with
  | BNone => x
  | BF32ToI32 | BF64ToI64 | BI32ToF32 | BI64ToF64 => x
  | BI32ToI64 | BF32ToI64 => x
  | BI64ToI32 | BI64ToF32 => trunc 32 x
  | BP64ToI64 | BI64ToP64 | BPToP64 => x
  | BP64ToP => trunc (8 * pw) x
  | BI32ToP | BI32ToL => x
  | BPToI32 | BLToI32 => trunc 32 x
  | BPToL | BLToP => x
  | BI64ToL => trunc (8 * pw) x
  | BLToI64 => x
  | BSeq a b => cast_sem pw b (cast_sem pw a x)
  end.
