(** * Stack discipline of the in-memory cleanup traversal (abi.rs [Generator::deallocate_indirect])
    For every type, address operand and offset, the traversal that frees what a value stored in memory owns
    reaches no panic site and leaves the operand stack exactly as it found it (every pointer/length pair it loads
    is consumed by exactly one GuestDeallocate*, every loaded handle by exactly one DropHandle, every loaded
    discriminant by exactly one GuestDeallocateVariant). *)
From Coq Require Import List ZArith NArith Bool Arith Lia.
From WB Require Import Wit.Ty Abi.Sig Abi.Instr Abi.Cast Abi.Gen Abi.GenDiscipline.
Import ListNotations.

Definition dind_spec (w : dealloc_what) (t : ty) : Prop :=
  forall addr off s st, stack s = st -> ok_with (dealloc_indirect w t addr off) s (stk s st).

Lemma mapM_ok {A} (f : A -> M unit) (l : list A) st :
  (forall i s, stack s = st -> ok_with (f i) s (stk s st)) ->
  forall s, stack s = st -> ok_with (mapM_ f l) s (stk s st).
Proof.
  intros Hf. induction l as [|x l IH]; intros s Hs.
  - apply ok_ret_stk; [exact Hs | apply frame_refl].
  - cbn [mapM_]. eapply ok_seq; [apply Hf; exact Hs|]. intros s1 Hs1 Hf1.
    eapply ok_weaken; [apply IH; exact Hs1|]. intros [] s2 [H1 H2]. split; [exact H1 | fr].
Qed.

Lemma dind_arms_ok w addr cs : Forall (OptP (dind_spec w)) cs ->
  forall poff s st, stack s = st ->
    ok_with ((fix arms (poff : asize) (cs : list (option ty)) {struct cs} : M unit :=
                match cs with
                | [] => ret tt
                | c :: cs' =>
                    push_block ;;;
                    (match c with Some x => dealloc_indirect w x addr poff | None => ret tt end) ;;;
                    finish_block 0 ;;;
                    arms poff cs'
                end) poff cs) s (stk s st).
Proof.
  induction 1 as [|c cs Hc Hcs IH]; intros poff s st Hs.
  - apply ok_ret_stk; [exact Hs | apply frame_refl].
  - next_with ok_push_block'.
    eapply ok_seq.
    { destruct c as [t|]; [eapply Hc; eassumption | apply ok_ret_stk; [eassumption | apply frame_refl]]. }
    intros s2 Hs2 Hf2.
    next_with ok_finish0.
    eapply ok_weaken; [eapply (IH poff); eassumption|].
    intros [] s4 [H1 H2]. split; [exact H1 | fr].
Qed.

Lemma dind_fields_ok w addr off fs : Forall (dind_spec w) fs ->
  forall cur s st, stack s = st ->
    ok_with ((fix fields (ts : list ty) (cur : asize) {struct ts} : M unit :=
                match ts with
                | x :: ts' =>
                    let o := align_to_arch cur (sa_align x) in
                    dealloc_indirect w x addr (a_add off o) ;;; fields ts' (a_add o (sa_size x))
                | [] => ret tt
                end) fs cur) s (stk s st).
Proof.
  induction 1 as [|f fs Hf Hfs IH]; intros cur s st Hs.
  - apply ok_ret_stk; [exact Hs | apply frame_refl].
  - cbn zeta. eapply ok_seq; [eapply Hf; exact Hs|]. intros s1 Hs1 Hf1.
    eapply ok_weaken; [eapply IH; exact Hs1|]. intros [] s2 [H1 H2]. split; [exact H1 | fr].
Qed.

Lemma dind_variant_ok w addr off tagb cs i : Forall (OptP (dind_spec w)) cs -> operands_len i = 1 -> results_len i = 0 ->
  forall s st, stack s = st ->
  ok_with (push addr ;;; emit (Load (int_load tagb) off) ;;;
           (fix arms (poff : asize) (cs : list (option ty)) {struct cs} : M unit :=
                match cs with
                | [] => ret tt
                | c :: cs' =>
                    push_block ;;;
                    (match c with Some x => dealloc_indirect w x addr poff | None => ret tt end) ;;;
                    finish_block 0 ;;;
                    arms poff cs'
                end) (a_add off (sa_payload_offset tagb cs)) cs ;;;
           emit i) s (stk s st).
Proof.
  intros H Ho Hr s st Hs.
  next_with ok_push'. next_with ok_emit1. cbn [results_len seq rev app] in *.
  eapply ok_seq; [eapply (dind_arms_ok w addr cs H); eassumption|]. intros s3 Hs3 Hf3.
  eapply ok_weaken; [eapply ok_emit1; [eassumption | exact Ho]|].
  intros [] s4 [H1 H2]. rewrite Hr in H1. cbn [seq rev app] in H1. split; [exact H1 | fr].
Qed.

Theorem dealloc_indirect_ok w : forall t, dind_spec w t.
Proof.
  induction t using ty_ind'; intros addr off s st Hs;
    cbn [dealloc_indirect needs_deallocate negb];
    try (lazymatch goal with |- ok_with (ret tt) _ _ => apply ok_ret_stk; [exact Hs | apply frame_refl] end).
  - (* string *)
    eapply ok_bind. eapply ok_weaken; [eapply load_ptr_len_ok; exact Hs|].
    intros [] s1 [p [l [Hs1 Hf1]]].
    eapply ok_weaken; [eapply ok_emit2; [exact Hs1 | reflexivity]|].
    intros [] s2 [H1 H2]. cbn [results_len seq rev app] in H1. split; [exact H1 | fr].
  - (* list *)
    eapply ok_bind. eapply ok_weaken; [eapply load_ptr_len_ok; exact Hs|].
    intros [] s1 [p [l [Hs1 Hf1]]].
    next_with ok_push_block'.
    next_with ok_emit0. cbn [results_len seq rev app] in *.
    apply ok_bind. eapply ok_pop'; [eassumption|]. intros s4 Hs4 Hf4.
    eapply ok_seq; [eapply IHt; exact Hs4|]. intros s5 Hs5 Hf5.
    next_with ok_finish0.
    eapply ok_weaken; [eapply ok_emit2; [eassumption | reflexivity]|].
    intros [] s7 [H1 H2]. cbn [results_len seq rev app] in H1. split; [exact H1 | fr].
  - (* fixed *)
    destruct (negb (needs_deallocate w t)); [apply ok_ret_stk; [exact Hs | apply frame_refl]|].
    apply mapM_ok; [|exact Hs]. intros i s0 Hs0. apply IHt. exact Hs0.
  - (* map *)
    eapply ok_bind. eapply ok_weaken; [eapply load_ptr_len_ok; exact Hs|].
    intros [] s1 [p [l [Hs1 Hf1]]].
    next_with ok_push_block'.
    next_with ok_emit0. cbn [results_len seq rev app] in *.
    apply ok_bind. eapply ok_pop'; [eassumption|]. intros s4 Hs4 Hf4.
    eapply ok_seq; [eapply IHt1; exact Hs4|]. intros s5 Hs5 Hf5.
    eapply ok_seq; [eapply IHt2; exact Hs5|]. intros s6 Hs6 Hf6.
    next_with ok_finish0.
    eapply ok_weaken; [eapply ok_emit2; [eassumption | reflexivity]|].
    intros [] s8 [H1 H2]. cbn [results_len seq rev app] in H1. split; [exact H1 | fr].
  - (* record *)
    destruct (negb _); [apply ok_ret_stk; [exact Hs | apply frame_refl]|].
    apply dind_fields_ok; [exact H | exact Hs].
  - (* tuple *)
    destruct (negb _); [apply ok_ret_stk; [exact Hs | apply frame_refl]|].
    apply dind_fields_ok; [exact H | exact Hs].
  - (* variant *)
    destruct (negb _); [apply ok_ret_stk; [exact Hs | apply frame_refl]|].
    apply dind_variant_ok; [exact H | reflexivity | reflexivity | exact Hs].
  - (* option *)
    destruct (negb _); [apply ok_ret_stk; [exact Hs | apply frame_refl]|].
    apply dind_variant_ok; [|reflexivity | reflexivity | exact Hs].
    unfold cases_of_option. constructor; [exact I | constructor; [exact IHt | constructor]].
  - (* result *)
    destruct (negb _); [apply ok_ret_stk; [exact Hs | apply frame_refl]|].
    apply dind_variant_ok; [|reflexivity | reflexivity | exact Hs].
    unfold cases_of_result. constructor; [assumption | constructor; [assumption | constructor]].
  - (* own *)
    destruct w; cbn [handles negb]; [apply ok_ret_stk; [exact Hs | apply frame_refl]|].
    cbn [scalar_load lift_scalar_op].
    next_with ok_push'. next_with ok_emit1. cbn [results_len seq rev app] in *.
    next_with ok_emit1. cbn [results_len seq rev app] in *.
    eapply ok_weaken; [eapply ok_emit1; [eassumption | reflexivity]|].
    intros [] s4 [H1 H2]. cbn [results_len seq rev app] in H1. split; [exact H1 | fr].
  - (* future *)
    destruct w; cbn [handles negb]; [apply ok_ret_stk; [exact Hs | apply frame_refl]|].
    cbn [scalar_load lift_scalar_op].
    next_with ok_push'. next_with ok_emit1. cbn [results_len seq rev app] in *.
    next_with ok_emit1. cbn [results_len seq rev app] in *.
    eapply ok_weaken; [eapply ok_emit1; [eassumption | reflexivity]|].
    intros [] s4 [H1 H2]. cbn [results_len seq rev app] in H1. split; [exact H1 | fr].
  - (* stream *)
    destruct w; cbn [handles negb]; [apply ok_ret_stk; [exact Hs | apply frame_refl]|].
    cbn [scalar_load lift_scalar_op].
    next_with ok_push'. next_with ok_emit1. cbn [results_len seq rev app] in *.
    next_with ok_emit1. cbn [results_len seq rev app] in *.
    eapply ok_weaken; [eapply ok_emit1; [eassumption | reflexivity]|].
    intros [] s4 [H1 H2]. cbn [results_len seq rev app] in H1. split; [exact H1 | fr].
Qed.
