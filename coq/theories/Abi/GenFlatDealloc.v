(** * Stack discipline of the direct-operand cleanup (abi.rs [Generator::deallocate])
    For every type whose flattening fits the 16-slot buffer and both cleanup modes: given exactly
    [length (wflat t)] core operands on top of the stack, [deallocate] reaches no panic site (no underflow in any
    drain / per-field / per-arm split, no [flat_types(..).unwrap()] failure, no unreachable [cast]) and consumes
    exactly those operands, leaving the rest of the stack untouched. *)
From Coq Require Import List ZArith NArith Bool Arith Lia.
From WB Require Import Wit.Ty Canon.Spec Abi.Sig Abi.Instr Abi.Cast Abi.Gen Abi.CastProofs Abi.SigProofs
                       Abi.GenDiscipline Abi.GenFlatDiscipline Abi.GenFlatLift Abi.GenDeallocDiscipline.
Import ListNotations.

Definition eats (m : M unit) (n : nat) : Prop :=
  forall s top st, stack s = top ++ st -> length top = n -> ok_with m s (stk s st).

Definition darm_pre (lf : ty -> M unit) (params : list wt) (c : option ty) : Prop :=
  length (oflat wflat c) <= length (tl params) /\
  (forall k a, nth_error (oflat wflat c) k = Some a -> exists j, nth_error (tl params) k = Some j /\ wle a j) /\
  match c with Some t => fits t /\ eats (lf t) (length (wflat t)) | None => True end.

Lemma dealloc_arm_ok (lf : ty -> M unit) params inputs c s st :
  darm_pre lf params c -> length inputs = length (tl params) -> stack s = st ->
  ok_with (lift_arm params inputs c (match c with Some t => lf t | None => ret tt end) false) s (stk s st).
Proof.
  intros [Hlen [Hnth Hc]] Hin Hs. unfold lift_arm.
  next_with ok_push_block'.
  eapply ok_seq with (st := st).
  - destruct c as [t|].
    + destruct Hc as [Hfit Hlf]. cbn [oflat] in *.
      eapply ok_pure_bind; [apply flat_unwrap_ok; exact Hfit|].
      eapply ok_seq; [eapply ok_if_underflow; [apply Nat.ltb_ge; lia | eassumption]|]. intros s2 Hs2 Hf2.
      eapply ok_seq; [eapply ok_push_all'; exact Hs2|]. intros s3 Hs3 Hf3.
      assert (Hl3 : length (rev (firstn (length (wflat t)) inputs)) = length (wflat t))
        by (rewrite rev_length, firstn_length; lia).
      destruct (casts_m_ok2 (firstn (length (wflat t)) (tl params)) (wflat t)) as [casts [Hcl Hcs]].
      { intros k j Hk. apply nth_error_firstn_some in Hk. destruct Hk as [Hklt Hk].
        destruct (nth_error (wflat t) k) as [a|] eqn:Ea.
        - exists a. split; [reflexivity|]. destruct (Hnth k a Ea) as [j' [Hj' Hle]].
          rewrite Hk in Hj'. injection Hj' as <-. apply (cast_total_le a j Hle).
        - apply nth_error_None in Ea. lia. }
      rewrite firstn_length in Hcl.
      eapply ok_pure_bind; [apply Hcs|].
      destruct (any_cast casts).
      * eapply ok_seqn.
        { eapply (ok_emit_n (Bitcasts casts) s3 _ st); [exact Hs3 | cbn [operands_len]; lia]. }
        intros s4 vals Hvl Hs4 Hf4. cbn [results_len] in Hvl.
        eapply ok_weaken; [eapply (Hlf s4 vals st Hs4); lia|].
        intros [] s5 [H1 H2]. split; [exact H1 | fr].
      * apply ok_bind. unfold ok_with at 1, ret.
        eapply ok_weaken; [eapply (Hlf s3 _ st Hs3); exact Hl3|].
        intros [] s5 [H1 H2]. split; [exact H1 | fr].
    + apply ok_ret_stk; [eassumption | apply frame_refl].
  - intros s2 Hs2 Hf2.
    replace (if false then match c with Some _ => 1 | None => 0 end else 0) with 0 by reflexivity.
    eapply ok_weaken; [eapply ok_finish0; exact Hs2|].
    intros [] s3 [H1 H2]. split; [exact H1 | fr].
Qed.

Lemma dealloc_arms_ok (lf : ty -> M unit) params inputs : length inputs = length (tl params) ->
  forall cs, (forall c, In c cs -> darm_pre lf params c) ->
  forall s st, stack s = st ->
  ok_with ((fix arms (params : list wt) (inputs : list nat) (cs : list (option ty)) {struct cs} : M unit :=
              match cs with
              | [] => ret tt
              | c :: cs' =>
                  lift_arm params inputs c (match c with Some x => lf x | None => ret tt end) false ;;;
                  arms params inputs cs'
              end) params inputs cs) s (stk s st).
Proof.
  intros Hin. induction cs as [|c cs IH]; intros Hpre s st Hs.
  - apply ok_ret_stk; [exact Hs | apply frame_refl].
  - eapply ok_seq.
    { eapply dealloc_arm_ok; [apply Hpre; left; reflexivity | exact Hin | exact Hs]. }
    intros s1 Hs1 Hf1.
    eapply ok_weaken; [eapply IH; [intros c' Hc'; apply Hpre; right; exact Hc' | exact Hs1]|].
    intros [] s2 [H1 H2]. split; [exact H1 | fr].
Qed.

Lemma dealloc_each_ok (lf : ty -> M unit) fs :
  Forall (fun t => fits t /\ eats (lf t) (length (wflat t))) fs ->
  forall args s st, length args = length (concat (map wflat fs)) -> stack s = st ->
  ok_with ((fix each (ts : list ty) (args : list nat) {struct ts} : M unit :=
              match ts with
              | x :: ts' =>
                  temp <- flat_unwrap x ;;
                  (if (length args <? length temp)%nat then fail SStackUnderflow else ret tt) ;;;
                  push_all (firstn (length temp) args) ;;;
                  lf x ;;;
                  each ts' (skipn (length temp) args)
              | [] => ret tt
              end) fs args) s (stk s st).
Proof.
  induction 1 as [|f fs [Hfit Hf] Hfs IH]; intros args s st Hl Hs.
  - apply ok_ret_stk; [exact Hs | apply frame_refl].
  - cbn [map concat] in Hl. rewrite app_length in Hl.
    eapply ok_pure_bind; [apply flat_unwrap_ok; exact Hfit|].
    eapply ok_seq; [eapply ok_if_underflow; [apply Nat.ltb_ge; lia | exact Hs]|]. intros s2 Hs2 Hf2.
    eapply ok_seq; [eapply ok_push_all'; exact Hs2|]. intros s3 Hs3 Hf3.
    eapply ok_seq.
    { eapply (Hf s3 _ st Hs3). rewrite rev_length, firstn_length. lia. }
    intros s4 Hs4 Hf4.
    eapply ok_weaken.
    { eapply (IH (skipn (length (wflat f)) args) s4 st); [rewrite skipn_length; lia | exact Hs4]. }
    intros [] s5 [H1 H2]. split; [exact H1 | fr].
Qed.

Lemma dealloc_rep_ok (lf : M unit) (x : ty) : fits x -> eats lf (length (wflat x)) ->
  forall k args s st, length args = k * length (wflat x) -> stack s = st ->
  ok_with ((fix go (k : nat) (args : list nat) {struct k} : M unit :=
              match k with
              | O => ret tt
              | S k' =>
                  temp <- flat_unwrap x ;;
                  (if (length args <? length temp)%nat then fail SStackUnderflow else ret tt) ;;;
                  push_all (firstn (length temp) args) ;;;
                  lf ;;;
                  go k' (skipn (length temp) args)
              end) k args) s (stk s st).
Proof.
  intros Hfit Hlf. induction k as [|k IH]; intros args s st Hl Hs.
  - apply ok_ret_stk; [exact Hs | apply frame_refl].
  - eapply ok_pure_bind; [apply flat_unwrap_ok; exact Hfit|].
    eapply ok_seq; [eapply ok_if_underflow; [apply Nat.ltb_ge; lia | exact Hs]|]. intros s2 Hs2 Hf2.
    eapply ok_seq; [eapply ok_push_all'; exact Hs2|]. intros s3 Hs3 Hf3.
    eapply ok_seq.
    { eapply (Hlf s3 _ st Hs3). rewrite rev_length, firstn_length. lia. }
    intros s4 Hs4 Hf4.
    eapply ok_weaken.
    { eapply (IH (skipn (length (wflat x)) args) s4 st); [rewrite skipn_length; lia | exact Hs4]. }
    intros [] s5 [H1 H2]. split; [exact H1 | fr].
Qed.

Definition dealloc_spec (w : dealloc_what) (t : ty) : Prop := fits t -> eats (dealloc w t) (length (wflat t)).

Lemma dvariant_pre w cs :
  Forall (OptP (dealloc_spec w)) cs ->
  length (acc_cases cs []) < 16 ->
  forall c, In c cs -> darm_pre (dealloc w) (WI32 :: acc_cases cs []) c.
Proof.
  intros HF Hlen c Hin.
  pose proof (acc_cases_length_in cs [] c Hin) as Hl.
  split; [cbn [tl]; exact Hl|]. split.
  - intros k a Hk. cbn [tl]. eapply slot_absorbs_case; eassumption.
  - destruct c as [t|]; [|exact I].
    cbn [oflat] in Hl. assert (Hfit : fits t) by (unfold fits; lia).
    split; [exact Hfit|]. rewrite Forall_forall in HF. apply (HF _ Hin). exact Hfit.
Qed.

Lemma dfields_pre w fs : Forall (dealloc_spec w) fs -> Forall fits fs ->
  Forall (fun t => fits t /\ eats (dealloc w t) (length (wflat t))) fs.
Proof.
  intros H1 H2. rewrite Forall_forall in *. intros f Hin.
  split; [apply H2; exact Hin | apply H1; [exact Hin | apply H2; exact Hin]].
Qed.

Lemma dealloc_variant_ok w t0 cs s top st :
  wflat t0 = WI32 :: acc_cases cs [] -> fits t0 ->
  Forall (OptP (dealloc_spec w)) cs ->
  stack s = top ++ st -> length top = length (wflat t0) ->
  ok_with (params <- flat_unwrap t0 ;;
           inputs <- drain (length params - 1) ;;
           (fix arms (params : list wt) (inputs : list nat) (cs : list (option ty)) {struct cs} : M unit :=
              match cs with
              | [] => ret tt
              | c :: cs' =>
                  lift_arm params inputs c (match c with Some x => dealloc w x | None => ret tt end) false ;;;
                  arms params inputs cs'
              end) params inputs cs ;;;
           emit (GuestDeallocateVariant (length cs))) s (stk s st).
Proof.
  intros Hw Hfit H Hs Hl.
  eapply ok_pure_bind; [apply flat_unwrap_ok; exact Hfit|].
  rewrite Hw in *. cbn [length] in Hl.
  destruct (rev top) as [|d rpay] eqn:Erev.
  { apply (f_equal (@length nat)) in Erev. rewrite rev_length in Erev. cbn [length] in Erev. lia. }
  assert (Htop : top = rev rpay ++ [d]).
  { rewrite <- (rev_involutive top), Erev. reflexivity. }
  assert (Hlp : length (rev rpay) = length (acc_cases cs [])).
  { rewrite Htop, app_length in Hl. cbn [length] in Hl. lia. }
  apply ok_bind. eapply (ok_drain_top _ s (rev rpay) (d :: st)).
  { rewrite Hs, Htop, <- app_assoc. reflexivity. }
  { cbn [length]. lia. }
  intros s1 Hs1 Hf1.
  eapply ok_seq.
  { eapply (dealloc_arms_ok (dealloc w) (WI32 :: acc_cases cs []) (rev (rev rpay))).
    - cbn [tl]. rewrite rev_length. exact Hlp.
    - eapply (dvariant_pre w cs H). unfold fits in Hfit. rewrite Hw in Hfit. cbn [length] in Hfit. lia.
    - exact Hs1. }
  intros s2 Hs2 Hf2.
  eapply ok_weaken; [eapply (ok_emit1 _ s2 d st Hs2); reflexivity|].
  intros [] s3 [H1 H2]. cbn [results_len seq rev app] in H1. split; [exact H1 | fr].
Qed.

(** [deallocate] pops ONE operand for a flags value whatever its word count (abi.rs: the catch-all arm), so flags
    types of 0 or more than 32 members - which the component model rejects - are excluded; the hypothesis was forced
    by the proof. *)
Fixpoint flags_one_word (t : ty) : bool :=
  let opt (c : option ty) := match c with Some x => flags_one_word x | None => true end in
  match t with
  | TFlags n => (flags_count n =? 1)%N
  | TRecord fs | TTuple fs => forallb flags_one_word fs
  | TVariant cs => forallb opt cs
  | TOption x | TFixed x _ => flags_one_word x
  | TResult a b => opt a && opt b
  | _ => true
  end.

Definition dealloc_spec' (w : dealloc_what) (t : ty) : Prop := flags_one_word t = true -> dealloc_spec w t.

Lemma spec'_fields w fs : Forall (dealloc_spec' w) fs -> forallb flags_one_word fs = true -> Forall (dealloc_spec w) fs.
Proof.
  intros H Hv. rewrite Forall_forall in *. rewrite forallb_forall in Hv. intros f Hin. apply (H f Hin). apply Hv. exact Hin.
Qed.

Lemma spec'_cases w cs : Forall (OptP (dealloc_spec' w)) cs ->
  forallb (fun c => match c with Some x => flags_one_word x | None => true end) cs = true ->
  Forall (OptP (dealloc_spec w)) cs.
Proof.
  intros H Hv. rewrite Forall_forall in *. rewrite forallb_forall in Hv. intros c Hin.
  specialize (H c Hin). specialize (Hv c Hin). destruct c as [x|]; [apply H; exact Hv | exact I].
Qed.

Lemma dealloc_pop_ok s top st : stack s = top ++ st -> length top = 1 -> ok_with (_ <- pop ;; ret tt) s (stk s st).
Proof.
  intros Hs Hl. destruct top as [|x [|? ?]]; try discriminate Hl. cbn [app] in Hs.
  apply ok_bind. eapply ok_pop'; [exact Hs|]. intros s1 Hs1 Hf1. apply ok_ret_stk; [exact Hs1 | exact Hf1].
Qed.

Theorem dealloc_ok w : forall t, dealloc_spec' w t.
Proof.
  induction t using ty_ind'; intros Hfl Hfit s top st Hs Hl.
  1-12,14,21: (cbn [dealloc]; apply (dealloc_pop_ok s top st); [exact Hs | exact Hl]).
  - (* string *)
    cbn [dealloc].
    eapply ok_weaken; [eapply (ok_emit_stk _ s top st Hs); rewrite Hl; reflexivity|].
    intros [] s1 [H1 H2]. cbn [results_len seq rev app] in H1. split; [exact H1 | exact H2].
  - (* list *)
    cbn [dealloc].
    next_with ok_push_block'.
    next_with ok_emit0. cbn [results_len seq rev app] in *.
    apply ok_bind. eapply ok_pop'; [eassumption|]. intros s3 Hs3 Hf3.
    eapply ok_seq; [eapply dealloc_indirect_ok; exact Hs3|]. intros s4 Hs4 Hf4.
    next_with ok_finish0.
    eapply ok_weaken; [eapply (ok_emit_stk _ _ top st); [eassumption | rewrite Hl; reflexivity]|].
    intros [] s6 [H1 H2]. cbn [results_len seq rev app] in H1. split; [exact H1 | fr].
  - (* fixed *)
    cbn [dealloc]. cbn [flags_one_word] in Hfl.
    eapply ok_pure_bind; [apply flat_unwrap_ok; exact Hfit|].
    apply ok_bind. eapply ok_drain_top; [exact Hs | exact Hl|]. intros s1 Hs1 Hf1.
    cbn [wflat] in Hl. rewrite concat_repeat_length in Hl.
    destruct (N.to_nat n) as [|k] eqn:En.
    + apply ok_ret_stk; [exact Hs1 | exact Hf1].
    + assert (Hfx : fits t).
      { unfold fits in *. cbn [wflat] in Hfit. rewrite concat_repeat_length, En in Hfit. nia. }
      eapply ok_weaken.
      { eapply (dealloc_rep_ok (dealloc w t) t Hfx (IHt Hfl Hfx) (S k) (rev top) s1 st);
          [rewrite rev_length; exact Hl | exact Hs1]. }
      intros [] s2 [H1 H2]. split; [exact H1 | fr].
  - (* map *)
    cbn [dealloc].
    next_with ok_push_block'.
    next_with ok_emit0. cbn [results_len seq rev app] in *.
    apply ok_bind. eapply ok_pop'; [eassumption|]. intros s3 Hs3 Hf3.
    eapply ok_seq; [eapply dealloc_indirect_ok; exact Hs3|]. intros s4 Hs4 Hf4.
    eapply ok_seq; [eapply dealloc_indirect_ok; exact Hs4|]. intros s5 Hs5 Hf5.
    next_with ok_finish0.
    eapply ok_weaken; [eapply (ok_emit_stk _ _ top st); [eassumption | rewrite Hl; reflexivity]|].
    intros [] s7 [H1 H2]. cbn [results_len seq rev app] in H1. split; [exact H1 | fr].
  - (* record *)
    cbn [dealloc]. cbn [flags_one_word] in Hfl.
    eapply ok_pure_bind; [apply flat_unwrap_ok; exact Hfit|].
    apply ok_bind. eapply ok_drain_top; [exact Hs | exact Hl|]. intros s1 Hs1 Hf1.
    eapply ok_weaken.
    { eapply (dealloc_each_ok (dealloc w) fs (dfields_pre w fs (spec'_fields w fs H Hfl) (fits_fields fs Hfit)) (rev top) s1 st);
        [rewrite rev_length; exact Hl | exact Hs1]. }
    intros [] s2 [H1 H2]. split; [exact H1 | fr].
  - (* tuple *)
    cbn [dealloc]. cbn [flags_one_word] in Hfl.
    eapply ok_pure_bind; [apply flat_unwrap_ok; exact Hfit|].
    apply ok_bind. eapply ok_drain_top; [exact Hs | exact Hl|]. intros s1 Hs1 Hf1.
    eapply ok_weaken.
    { eapply (dealloc_each_ok (dealloc w) ts (dfields_pre w ts (spec'_fields w ts H Hfl) (fits_fields ts Hfit)) (rev top) s1 st);
        [rewrite rev_length; exact Hl | exact Hs1]. }
    intros [] s2 [H1 H2]. split; [exact H1 | fr].
  - (* variant *)
    cbn [dealloc]. cbn [flags_one_word] in Hfl.
    eapply (dealloc_variant_ok w (TVariant cs) cs); [reflexivity | exact Hfit | apply spec'_cases; assumption | exact Hs | exact Hl].
  - (* option *)
    cbn [dealloc]. cbn [flags_one_word] in Hfl.
    eapply (dealloc_variant_ok w (TOption t) (cases_of_option t)); [reflexivity | exact Hfit | | exact Hs | exact Hl].
    unfold cases_of_option. constructor; [exact I | constructor; [cbn [OptP]; apply IHt; exact Hfl | constructor]].
  - (* result *)
    cbn [dealloc]. cbn [flags_one_word] in Hfl. apply andb_split in Hfl. destruct Hfl as [Hfa Hfb].
    eapply (dealloc_variant_ok w (TResult ok err) (cases_of_result ok err)); [reflexivity | exact Hfit | | exact Hs | exact Hl].
    unfold cases_of_result. constructor; [|constructor; [|constructor]].
    + destruct ok as [x|]; [cbn [OptP] in *; apply H; exact Hfa | exact I].
    + destruct err as [x|]; [cbn [OptP] in *; apply H0; exact Hfb | exact I].
  - (* flags *)
    cbn [dealloc]. cbn [flags_one_word] in Hfl. apply N.eqb_eq in Hfl.
    cbn [wflat] in Hl. rewrite repeat_length, Hfl in Hl.
    apply (dealloc_pop_ok s top st); [exact Hs | exact Hl].
  - (* own *)
    cbn [dealloc]. destruct (handles w).
    + cbn [lift_scalar_op]. cbn [wflat length] in Hl. destruct top as [|x [|? ?]]; try discriminate Hl. cbn [app] in Hs.
      next_with ok_emit1. cbn [results_len seq rev app] in *.
      eapply ok_weaken; [eapply ok_emit1; [eassumption | reflexivity]|].
      intros [] s2 [H1 H2]. cbn [results_len seq rev app] in H1. split; [exact H1 | fr].
    + apply (dealloc_pop_ok s top st); [exact Hs | exact Hl].
  - (* borrow *)
    cbn [dealloc]. apply (dealloc_pop_ok s top st); [exact Hs | exact Hl].
  - (* future *)
    cbn [dealloc]. destruct (handles w).
    + cbn [lift_scalar_op]. cbn [wflat length] in Hl. destruct top as [|x [|? ?]]; try discriminate Hl. cbn [app] in Hs.
      next_with ok_emit1. cbn [results_len seq rev app] in *.
      eapply ok_weaken; [eapply ok_emit1; [eassumption | reflexivity]|].
      intros [] s2 [H1 H2]. cbn [results_len seq rev app] in H1. split; [exact H1 | fr].
    + apply (dealloc_pop_ok s top st); [exact Hs | exact Hl].
  - (* stream *)
    cbn [dealloc]. destruct (handles w).
    + cbn [lift_scalar_op]. cbn [wflat length] in Hl. destruct top as [|x [|? ?]]; try discriminate Hl. cbn [app] in Hs.
      next_with ok_emit1. cbn [results_len seq rev app] in *.
      eapply ok_weaken; [eapply ok_emit1; [eassumption | reflexivity]|].
      intros [] s2 [H1 H2]. cbn [results_len seq rev app] in H1. split; [exact H1 | fr].
    + apply (dealloc_pop_ok s top st); [exact Hs | exact Hl].
Qed.

(** the excluded case is real: two-word flags leave one operand behind *)
Example dealloc_wide_flags_leaves_an_operand :
  match dealloc DLists (TFlags 40) {| stack := [1; 0]; nxt := 2; evs := []; retp := None; realloc := None |} with
  | Ok _ s' => stack s' = [0]
  | Err _ => False
  end.
Proof. vm_compute. reflexivity. Qed.

(** ** the public entry point [deallocate_lists[_and_own]_in_types] *)
Lemma stack_must_be_empty_ok s : stack s = [] -> ok_with stack_must_be_empty s (stk s []).
Proof.
  intros Hs. unfold stack_must_be_empty, ok_with, bind, get. rewrite Hs. unfold ret, stk. split; [exact Hs | apply frame_refl].
Qed.

Theorem deallocate_in_types_indirect_ok w types addr s :
  stack s = [] -> ok_with (deallocate_in_types w types [addr] true) s (fun _ s' => stack s' = []).
Proof.
  intros Hs. unfold deallocate_in_types.
  eapply ok_seq.
  { apply (mapM_ok (fun '(o, t) => dealloc_indirect w t addr o) (sa_field_offsets types) []); [|exact Hs].
    intros [o t] s0 Hs0. apply dealloc_indirect_ok. exact Hs0. }
  intros s1 Hs1 Hf1.
  eapply ok_weaken; [apply stack_must_be_empty_ok; exact Hs1|]. intros [] s2 [H _]. exact H.
Qed.

Theorem deallocate_in_types_direct_ok w : forall types operands s,
  Forall fits types -> forallb flags_one_word types = true ->
  length operands = length (concat (map wflat types)) -> stack s = [] ->
  ok_with (deallocate_in_types w types operands false) s (fun _ s' => stack s' = []).
Proof.
  unfold deallocate_in_types.
  induction types as [|t types IH]; intros operands s Hfit Hfl Hl Hs.
  - destruct operands; [|discriminate Hl]. unfold ok_with, ret. exact Hs.
  - inversion Hfit as [|? ? Hft Hfts]; subst. cbn [forallb] in Hfl. apply andb_split in Hfl. destruct Hfl as [Hflt Hflts].
    cbn [map concat] in Hl. rewrite app_length in Hl.
    eapply ok_pure_bind; [apply flat_unwrap_ok; exact Hft|].
    eapply ok_seq with (st := []).
    { destruct (Nat.ltb_spec (length operands) (length (wflat t))); [lia|].
      apply ok_ret_stk; [exact Hs | apply frame_refl]. }
    intros s2 Hs2 Hf2.
    eapply ok_seq; [eapply ok_push_all'; exact Hs2|]. intros s3 Hs3 Hf3.
    eapply ok_seq.
    { eapply (dealloc_ok w t Hflt Hft s3 _ [] Hs3). rewrite rev_length, firstn_length. lia. }
    intros s4 Hs4 Hf4.
    eapply ok_seq; [apply stack_must_be_empty_ok; exact Hs4|]. intros s5 Hs5 Hf5.
    apply IH; [exact Hfts | exact Hflts | rewrite skipn_length; lia | exact Hs5].
Qed.
