(** Stack discipline of the generator model: the memory-mode lowering [write] and lifting [read] never reach
    a panic site (no stack underflow, no missing realloc, no unreachable arm) for ANY type, consume exactly
    the operand they are given, leave [realloc]/[return_pointer] untouched and only ever mint fresh operand ids.
    (C02's "leaves no value unconsumed" and C16's "never panics" for the memory paths of abi.rs.) *)
From Coq Require Import List ZArith NArith Bool Arith Lia.
From WB Require Import Wit.Ty Abi.Sig Abi.Instr Abi.Cast Abi.Gen.
Import ListNotations.

Definition ok_with {A} (m : M A) (s : gst) (P : A -> gst -> Prop) : Prop :=
  match m s with Ok a s' => P a s' | Err _ => False end.

Lemma ok_bind {A B} (m : M A) (k : A -> M B) s (P : B -> gst -> Prop) :
  ok_with m s (fun a s' => ok_with (k a) s' P) -> ok_with (bind m k) s P.
Proof. unfold ok_with, bind. destruct (m s); auto. Qed.

Lemma ok_ret {A} (a : A) s (P : A -> gst -> Prop) : P a s -> ok_with (ret a) s P.
Proof. auto. Qed.

Lemma ok_weaken {A} (m : M A) s (P Q : A -> gst -> Prop) :
  ok_with m s P -> (forall a s', P a s' -> Q a s') -> ok_with m s Q.
Proof. unfold ok_with. destruct (m s); auto. Qed.

(** what a generator step may change besides the stack *)
Definition frame (s s' : gst) : Prop :=
  realloc s' = realloc s /\ retp s' = retp s /\ nxt s <= nxt s'.

Lemma frame_refl s : frame s s. Proof. unfold frame; auto. Qed.
Lemma frame_trans a b c : frame a b -> frame b c -> frame a c.
Proof. unfold frame. intros [? [? ?]] [? [? ?]]. repeat split; try congruence; lia. Qed.

(** [stk st] : the stack is [st], everything else framed *)
Definition stk (s0 : gst) (st : list nat) : unit -> gst -> Prop :=
  fun _ s' => stack s' = st /\ frame s0 s'.

Lemma ok_push x s : ok_with (push x) s (stk s (x :: stack s)).
Proof. unfold ok_with, push, bind, get, set_stack, stk, frame. cbn. auto. Qed.

Lemma ok_push_all xs s : ok_with (push_all xs) s (stk s (rev xs ++ stack s)).
Proof. unfold ok_with, push_all, bind, get, set_stack, stk, frame. cbn. auto. Qed.

Lemma ok_pop s x st : stack s = x :: st ->
  ok_with pop s (fun a s' => a = x /\ stack s' = st /\ frame s s').
Proof.
  intros H. unfold ok_with, pop, bind, get. cbn. rewrite H. unfold set_stack, ret, frame. cbn. auto.
Qed.

Lemma ok_drain k s : k <= length (stack s) ->
  ok_with (drain k) s (fun a s' => a = rev (firstn k (stack s)) /\ stack s' = skipn k (stack s) /\ frame s s').
Proof.
  intros H. unfold ok_with, drain, bind, get. cbn.
  destruct (Nat.ltb_spec (length (stack s)) k) as [Hlt|Hge]; [lia|].
  unfold set_stack, ret, frame, bind. cbn. repeat split; reflexivity || lia.
Qed.

Lemma ok_emit i s : operands_len i <= length (stack s) ->
  ok_with (emit i) s (fun _ s' =>
    stack s' = rev (seq (nxt s) (results_len i)) ++ skipn (operands_len i) (stack s)
    /\ realloc s' = realloc s /\ retp s' = retp s /\ nxt s' = nxt s + results_len i).
Proof.
  intros H. unfold ok_with, emit, bind, drain, get. cbn.
  destruct (Nat.ltb_spec (length (stack s)) (operands_len i)) as [Hlt|Hge]; [lia|].
  unfold set_stack, ret, fresh, log, push_all, bind, get. cbn. repeat split; reflexivity.
Qed.

(** the common shapes: an instruction consuming the top [k] operands *)
Lemma ok_emit_stk i s top rest :
  stack s = top ++ rest -> length top = operands_len i ->
  ok_with (emit i) s (stk s (rev (seq (nxt s) (results_len i)) ++ rest)).
Proof.
  intros Hs Hl. eapply ok_weaken; [apply ok_emit; rewrite Hs, app_length; lia|].
  intros _ s' [H1 [H2 [H3 H4]]]. unfold stk, frame. rewrite H1, Hs.
  rewrite skipn_app, skipn_all2 by lia. rewrite Hl, Nat.sub_diag. cbn. repeat split; try assumption; lia.
Qed.

Lemma ok_log e s : ok_with (log e) s (stk s (stack s)).
Proof. unfold ok_with, log, stk, frame. cbn. auto. Qed.

Lemma ok_push_block s : ok_with push_block s (stk s (stack s)).
Proof. apply ok_log. Qed.

Lemma ok_finish_block k s top rest : stack s = top ++ rest -> length top = k ->
  ok_with (finish_block k) s (stk s rest).
Proof.
  intros Hs Hl. unfold finish_block. apply ok_bind.
  eapply ok_weaken; [apply ok_drain; rewrite Hs, app_length; lia|].
  intros a s' [_ [H2 H3]]. eapply ok_weaken; [apply ok_log|].
  intros _ s'' [H4 H5]. unfold stk. split.
  - rewrite H4, H2, Hs. rewrite skipn_app, skipn_all2 by lia. rewrite Hl, Nat.sub_diag. reflexivity.
  - eapply frame_trans; eassumption.
Qed.

Lemma ok_list_realloc s r : realloc s = Some r -> ok_with list_realloc s (fun a s' => a = r /\ s' = s).
Proof. intros H. unfold ok_with, list_realloc, bind, get. cbn. rewrite H. cbn. auto. Qed.

(** sequencing helper for [stk] post-conditions *)
Lemma ok_seq {B} (m : M unit) (k : M B) s st (Q : B -> gst -> Prop) :
  ok_with m s (stk s st) ->
  (forall s', stack s' = st -> frame s s' -> ok_with k s' Q) ->
  ok_with (bind m (fun _ => k)) s Q.
Proof.
  intros H1 H2. apply ok_bind. eapply ok_weaken; [exact H1|]. intros [] s' [Hs Hf]. apply H2; assumption.
Qed.

Lemma stk_frame s0 s1 st (s' : gst) : frame s0 s1 -> stk s1 st tt s' -> stk s0 st tt s'.
Proof. intros Hf [H1 H2]. split; [exact H1 | eapply frame_trans; eassumption]. Qed.

Lemma ok_stk_frame (m : M unit) s0 s1 st : frame s0 s1 -> ok_with m s1 (stk s1 st) -> ok_with m s1 (stk s0 st).
Proof. intros Hf H. eapply ok_weaken; [exact H|]. intros [] s' Hs. eapply stk_frame; eassumption. Qed.
