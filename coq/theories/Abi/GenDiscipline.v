(** Stack discipline of the generator model: the memory-mode lowering [write] and lifting [read] never reach
    a panic site (no stack underflow, no missing realloc, no unreachable arm) for ANY type, consume exactly
    the operand they are given, leave [realloc]/[return_pointer] untouched and only ever mint fresh operand ids.
    (C02's "leaves no value unconsumed" and C16's "never panics" for the memory paths of abi.rs.) *)
From Coq Require Import List ZArith NArith Bool Arith Lia.
From WB Require Import Wit.Ty Abi.Sig Abi.Instr Abi.Cast Abi.Gen.
Import ListNotations.

Definition ok_with {A} (m : M A) (s : gst) (P : A -> gst -> Prop) : Prop :=
  match m s with Ok a s' => P a s' | Err _ => False end.

Lemma ok_bind {A B} (m : M A) (k : A -> M B) s (P : B -> gst -> Prop) :
  ok_with m s (fun a s' => ok_with (k a) s' P) -> ok_with (bind m k) s P.
Proof. unfold ok_with, bind. destruct (m s); auto. Qed.

Lemma ok_ret {A} (a : A) s (P : A -> gst -> Prop) : P a s -> ok_with (ret a) s P.
Proof. auto. Qed.

Lemma ok_weaken {A} (m : M A) s (P Q : A -> gst -> Prop) :
  ok_with m s P -> (forall a s', P a s' -> Q a s') -> ok_with m s Q.
Proof. unfold ok_with. destruct (m s); auto. Qed.

(** what a generator step may change besides the stack *)
Definition frame (s s' : gst) : Prop :=
  realloc s' = realloc s /\ retp s' = retp s /\ nxt s <= nxt s'.

Lemma frame_refl s : frame s s. Proof. unfold frame; auto. Qed.
Lemma frame_trans a b c : frame a b -> frame b c -> frame a c.
Proof. unfold frame. intros [? [? ?]] [? [? ?]]. repeat split; try congruence; lia. Qed.

(** [stk st] : the stack is [st], everything else framed *)
Definition stk (s0 : gst) (st : list nat) : unit -> gst -> Prop :=
  fun _ s' => stack s' = st /\ frame s0 s'.

Lemma ok_push x s : ok_with (push x) s (stk s (x :: stack s)).
Proof. unfold ok_with, push, bind, get, set_stack, stk, frame. cbn. auto. Qed.

Lemma ok_push_all xs s : ok_with (push_all xs) s (stk s (rev xs ++ stack s)).
Proof. unfold ok_with, push_all, bind, get, set_stack, stk, frame. cbn. auto. Qed.

Lemma ok_pop s x st : stack s = x :: st ->
  ok_with pop s (fun a s' => a = x /\ stack s' = st /\ frame s s').
Proof.
  intros H. unfold ok_with, pop, bind, get. cbn. rewrite H. unfold set_stack, ret, frame. cbn. auto.
Qed.

Lemma ok_drain k s : k <= length (stack s) ->
  ok_with (drain k) s (fun a s' => a = rev (firstn k (stack s)) /\ stack s' = skipn k (stack s) /\ frame s s').
Proof.
  intros H. unfold ok_with, drain, bind, get. cbn -[Nat.ltb].
  destruct (Nat.ltb_spec (length (stack s)) k) as [Hlt|Hge]; [lia|].
  unfold set_stack, ret, frame, bind. cbn. repeat split; reflexivity || lia.
Qed.

Lemma ok_emit i s : operands_len i <= length (stack s) ->
  ok_with (emit i) s (fun _ s' =>
    stack s' = rev (seq (nxt s) (results_len i)) ++ skipn (operands_len i) (stack s)
    /\ realloc s' = realloc s /\ retp s' = retp s /\ nxt s' = nxt s + results_len i).
Proof.
  intros H. unfold ok_with, emit, bind, drain, get. cbn -[Nat.ltb].
  destruct (Nat.ltb_spec (length (stack s)) (operands_len i)) as [Hlt|Hge]; [lia|].
  unfold set_stack, ret, fresh, log, push_all, bind, get. cbn. repeat split; reflexivity.
Qed.

(** the common shapes: an instruction consuming the top [k] operands *)
Lemma ok_emit_stk i s top rest :
  stack s = top ++ rest -> length top = operands_len i ->
  ok_with (emit i) s (stk s (rev (seq (nxt s) (results_len i)) ++ rest)).
Proof.
  intros Hs Hl. eapply ok_weaken; [apply ok_emit; rewrite Hs, app_length; lia|].
  intros [] s' [H1 [H2 [H3 H4]]]. unfold stk, frame. rewrite H1, Hs.
  rewrite skipn_app, skipn_all2 by lia. rewrite Hl, Nat.sub_diag. cbn. repeat split; try assumption; lia.
Qed.

Lemma ok_log e s : ok_with (log e) s (stk s (stack s)).
Proof. unfold ok_with, log, stk, frame. cbn. auto. Qed.

Lemma ok_push_block s : ok_with push_block s (stk s (stack s)).
Proof. apply ok_log. Qed.

Lemma ok_finish_block k s top rest : stack s = top ++ rest -> length top = k ->
  ok_with (finish_block k) s (stk s rest).
Proof.
  intros Hs Hl. unfold finish_block. apply ok_bind.
  eapply ok_weaken; [apply ok_drain; rewrite Hs, app_length; lia|].
  intros a s' [_ [H2 H3]]. eapply ok_weaken; [apply ok_log|].
  intros [] s'' [H4 H5]. unfold stk. split.
  - rewrite H4, H2, Hs. rewrite skipn_app, skipn_all2 by lia. rewrite Hl, Nat.sub_diag. reflexivity.
  - eapply frame_trans; eassumption.
Qed.

Lemma ok_list_realloc s r : realloc s = Some r -> ok_with list_realloc s (fun a s' => a = r /\ s' = s).
Proof. intros H. unfold ok_with, list_realloc, bind, get. cbn. rewrite H. cbn. auto. Qed.

(** sequencing helper for [stk] post-conditions *)
Lemma ok_seq {B} (m : M unit) (k : M B) s st (Q : B -> gst -> Prop) :
  ok_with m s (stk s st) ->
  (forall s', stack s' = st -> frame s s' -> ok_with k s' Q) ->
  ok_with (bind m (fun _ => k)) s Q.
Proof.
  intros H1 H2. apply ok_bind. eapply ok_weaken; [exact H1|]. intros [] s' [Hs Hf]. apply H2; assumption.
Qed.

Lemma stk_frame s0 s1 st (s' : gst) : frame s0 s1 -> stk s1 st tt s' -> stk s0 st tt s'.
Proof. intros Hf [H1 H2]. split; [exact H1 | eapply frame_trans; eassumption]. Qed.

Lemma ok_stk_frame (m : M unit) s0 s1 st : frame s0 s1 -> ok_with m s1 (stk s1 st) -> ok_with m s1 (stk s0 st).
Proof. intros Hf H. eapply ok_weaken; [exact H|]. intros [] s' Hs. eapply stk_frame; eassumption. Qed.

(** fixed-arity forms *)
Lemma ok_emit0 i s st : stack s = st -> operands_len i = 0 ->
  ok_with (emit i) s (stk s (rev (seq (nxt s) (results_len i)) ++ st)).
Proof. intros Hs H. apply (ok_emit_stk i s [] st); [exact Hs | symmetry; exact H]. Qed.
Lemma ok_emit1 i s a rest : stack s = a :: rest -> operands_len i = 1 ->
  ok_with (emit i) s (stk s (rev (seq (nxt s) (results_len i)) ++ rest)).
Proof. intros Hs H. apply (ok_emit_stk i s [a] rest); [exact Hs | symmetry; exact H]. Qed.
Lemma ok_emit2 i s a b rest : stack s = a :: b :: rest -> operands_len i = 2 ->
  ok_with (emit i) s (stk s (rev (seq (nxt s) (results_len i)) ++ rest)).
Proof. intros Hs H. apply (ok_emit_stk i s [a; b] rest); [exact Hs | symmetry; exact H]. Qed.

Lemma ok_push' x s st : stack s = st -> ok_with (push x) s (stk s (x :: st)).
Proof. intros <-. apply ok_push. Qed.
Lemma ok_push_all' xs s st : stack s = st -> ok_with (push_all xs) s (stk s (rev xs ++ st)).
Proof. intros <-. apply ok_push_all. Qed.
Lemma ok_push_block' s st : stack s = st -> ok_with push_block s (stk s st).
Proof. intros <-. apply ok_push_block. Qed.
Lemma ok_finish0 s st : stack s = st -> ok_with (finish_block 0) s (stk s st).
Proof. intros H. apply (ok_finish_block 0 s [] st); [exact H | reflexivity]. Qed.
Lemma ok_finish1 s a st : stack s = a :: st -> ok_with (finish_block 1) s (stk s st).
Proof. intros H. apply (ok_finish_block 1 s [a] st); [exact H | reflexivity]. Qed.
Lemma ok_finish2 s a b st : stack s = a :: b :: st -> ok_with (finish_block 2) s (stk s st).
Proof. intros H. apply (ok_finish_block 2 s [a; b] st); [exact H | reflexivity]. Qed.

Lemma ok_pop' s x st (Q : nat -> gst -> Prop) :
  stack s = x :: st -> (forall s', stack s' = st -> frame s s' -> Q x s') -> ok_with pop s Q.
Proof.
  intros Hs HQ. eapply ok_weaken; [apply (ok_pop s x st Hs)|]. intros a s' [-> [H1 H2]]. apply HQ; assumption.
Qed.

Lemma ok_ret_stk s0 s st : stack s = st -> frame s0 s -> ok_with (ret tt) s (stk s0 st).
Proof. intros H Hf. unfold ok_with, ret, stk. auto. Qed.

(** one step of a [;;;]-chain whose head has a [stk] specification *)
Ltac fr := first [ assumption | apply frame_refl | solve [ repeat (eapply frame_trans; [eassumption|]); (assumption || apply frame_refl) ]].
Ltac next_with lem :=
  eapply ok_seq; [ eapply lem; (eassumption || reflexivity || eauto) | intros ?s' ?Hs ?Hf ].
Ltac close_stk :=
  match goal with
  | |- ok_with _ _ (stk _ _) => eapply ok_weaken; [ | intros [] ?s'' [?Hq1 ?Hq2]; split; [exact Hq1 | fr] ]
  end.

Lemma ok_realloc_bind {B} (k : bool -> M B) s r Q :
  realloc s = Some r -> ok_with (k r) s Q -> ok_with (bind list_realloc k) s Q.
Proof.
  intros H Hk. apply ok_bind. eapply ok_weaken; [apply (ok_list_realloc s r H)|].
  intros a s' [-> ->]. exact Hk.
Qed.

Lemma frame_realloc s s' r : frame s s' -> realloc s = Some r -> realloc s' = Some r.
Proof. intros [H _] Hr. congruence. Qed.

(** the memory-mode lowering consumes exactly its operand, for every type *)
Definition write_spec (canon : ty -> bool) (t : ty) : Prop :=
  forall addr off s x st r, stack s = x :: st -> realloc s = Some r ->
    ok_with (write canon t addr off) s (stk s st).

Lemma store_ptr_len_ok t addr off s p l st :
  stack s = l :: p :: st -> ok_with (store_ptr_len t addr off) s (stk s st).
Proof.
  intros Hs. unfold store_ptr_len.
  next_with ok_push'. next_with ok_emit2. cbn [results_len seq rev app] in *.
  next_with ok_push'.
  eapply ok_weaken; [eapply ok_emit2; [eassumption | reflexivity]|].
  intros [] s'' [Hq1 Hq2]. split; [exact Hq1 | fr].
Qed.

Lemma write_scalar_ok i sop :
  operands_len i = 1 -> results_len i = 1 ->
  forall addr off s x st, stack s = x :: st ->
    ok_with (emit i ;;; push addr ;;; emit (Store sop off)) s (stk s st).
Proof.
  intros Ho Hr addr off s x st Hs.
  next_with ok_emit1. rewrite Hr in *. cbn [seq rev app] in *.
  next_with ok_push'.
  eapply ok_weaken; [eapply ok_emit2; [eassumption | reflexivity]|].
  intros [] s'' [Hq1 Hq2]. split; [exact Hq1 | fr].
Qed.

Ltac finish_with lem :=
  eapply ok_weaken; [ eapply lem; (eassumption || reflexivity || eauto)
                    | intros [] ?s'' [?Hq1 ?Hq2]; split; [exact Hq1 | fr] ].

(** the element-wise / canonical list lowering leaves [ptr; len] in place of the list operand *)
Lemma lower_list_with_ok canon e (w : nat -> asize -> M unit) :
  (forall addr off s x st r, stack s = x :: st -> realloc s = Some r -> ok_with (w addr off) s (stk s st)) ->
  forall s x st r, stack s = x :: st -> realloc s = Some r ->
    ok_with (lower_list_with canon e w) s (fun _ s' => exists p l, stack s' = l :: p :: st /\ frame s s').
Proof.
  intros Hw s x st r Hs Hr. unfold lower_list_with.
  eapply ok_realloc_bind; [exact Hr|].
  destruct (canon e).
  - eapply ok_weaken; [eapply ok_emit1; [exact Hs | reflexivity]|].
    intros [] s' [H1 H2]. cbn [results_len seq rev app] in H1. eauto.
  - next_with ok_push_block'.
    next_with ok_emit0. cbn [results_len seq rev app] in *.
    next_with ok_emit0. cbn [results_len seq rev app] in *.
    apply ok_bind. eapply ok_pop'; [eassumption|]. intros s3 Hs3 Hf3.
    eapply ok_seq.
    { eapply Hw; [exact Hs3 | eapply frame_realloc; [|exact Hr]; fr]. }
    intros s4 Hs4 Hf4.
    next_with ok_finish0.
    eapply ok_weaken; [eapply ok_emit1; [eassumption | reflexivity]|].
    intros [] s6 [H1 H2]. cbn [results_len seq rev app] in H1. do 2 eexists. split; [exact H1 | fr].
Qed.

Lemma lower_map_with_ok k v (wk wv : nat -> asize -> M unit) :
  (forall addr off s x st r, stack s = x :: st -> realloc s = Some r -> ok_with (wk addr off) s (stk s st)) ->
  (forall addr off s x st r, stack s = x :: st -> realloc s = Some r -> ok_with (wv addr off) s (stk s st)) ->
  forall s x st r, stack s = x :: st -> realloc s = Some r ->
    ok_with (lower_map_with k v wk wv) s (fun _ s' => exists p l, stack s' = l :: p :: st /\ frame s s').
Proof.
  intros Hk Hv s x st r Hs Hr. unfold lower_map_with.
  eapply ok_realloc_bind; [exact Hr|].
  next_with ok_push_block'.
  next_with ok_emit0. cbn [results_len seq rev app] in *.
  next_with ok_emit0. cbn [results_len seq rev app] in *.
  apply ok_bind. eapply ok_pop'; [eassumption|]. intros s3 Hs3 Hf3.
  eapply ok_seq.
  { eapply Hk; [exact Hs3 | eapply frame_realloc; [|exact Hr]; fr]. }
  intros s4 Hs4 Hf4.
  next_with ok_emit0. cbn [results_len seq rev app] in *.
  next_with ok_emit0. cbn [results_len seq rev app] in *.
  apply ok_bind. eapply ok_pop'; [eassumption|]. intros s7 Hs7 Hf7.
  eapply ok_seq.
  { eapply Hv; [exact Hs7 | eapply frame_realloc; [|exact Hr]; fr]. }
  intros s8 Hs8 Hf8.
  next_with ok_finish0.
  eapply ok_weaken; [eapply ok_emit1; [eassumption | reflexivity]|].
  intros [] s10 [H1 H2]. cbn [results_len seq rev app] in H1. do 2 eexists. split; [exact H1 | fr].
Qed.

Lemma flags_store_loop_ok addr (f : nat -> asize) l : forall vals s st,
  length vals = length l -> stack s = vals ++ st ->
  ok_with (mapM_ (fun i => push addr ;;; emit (Store SI32 (f i))) l) s (stk s st).
Proof.
  induction l as [|i l IH]; intros vals s st Hlen Hs.
  - destruct vals; [|discriminate Hlen]. cbn [mapM_]. apply ok_ret_stk; [exact Hs | apply frame_refl].
  - destruct vals as [|v vals]; [discriminate Hlen|]. cbn [mapM_ app] in *.
    apply ok_bind. next_with ok_push'.
    eapply ok_weaken; [eapply ok_emit2; [eassumption | reflexivity]|].
    intros [] s2 [Hs2 Hf2]. cbn [results_len seq rev app] in Hs2.
    eapply ok_weaken; [apply (IH vals s2 st); [injection Hlen; auto | exact Hs2]|].
    intros [] s3 [Hs3 Hf3]. split; [exact Hs3 | fr].
Qed.

(** the per-case blocks of a variant written to memory leave the variant operand in place *)
Lemma write_arms_ok canon addr off cs : Forall (OptP (write_spec canon)) cs ->
  forall tagb poff i s x st r, stack s = x :: st -> realloc s = Some r ->
    ok_with ((fix write_arms (tagb : N) (poff : asize) (cs : list (option ty)) (i : nat) {struct cs} : M unit :=
                match cs with
                | [] => ret tt
                | c :: cs' =>
                    push_block ;;;
                    emit VariantPayloadName ;;;
                    payload_name <- pop ;;
                    emit (I32Const (Z.of_nat i)) ;;;
                    push addr ;;;
                    emit (Store (int_store tagb) off) ;;;
                    (match c with
                     | Some x => push payload_name ;;; write canon x addr poff
                     | None => ret tt
                     end) ;;;
                    finish_block 0 ;;;
                    write_arms tagb poff cs' (S i)
                end) tagb poff cs i) s (stk s (x :: st)).
Proof.
  induction 1 as [|c cs Hc Hcs IH]; intros tagb poff i s x st r Hs Hr.
  - apply ok_ret_stk; [exact Hs | apply frame_refl].
  - next_with ok_push_block'.
    next_with ok_emit0. cbn [results_len seq rev app] in *.
    apply ok_bind. eapply ok_pop'; [eassumption|]. intros s3 Hs3 Hf3.
    next_with ok_emit0. cbn [results_len seq rev app] in *.
    next_with ok_push'.
    next_with ok_emit2. cbn [results_len seq rev app] in *.
    match goal with |- ok_with _ ?cur _ => assert (Hr6 : realloc cur = Some r) by (eapply frame_realloc; [|exact Hr]; fr) end.
    eapply ok_seq with (st := x :: st).
    { destruct c as [t|].
      - next_with ok_push'.
        eapply ok_weaken; [eapply Hc; [eassumption | eapply frame_realloc; [|exact Hr6]; fr]|].
        intros [] s8 [Hq1 Hq2]. split; [exact Hq1 | fr].
      - apply ok_ret_stk; [assumption | apply frame_refl]. }
    intros s9 Hs9 Hf9.
    next_with ok_finish0.
    eapply ok_weaken; [eapply (IH tagb poff (S i) _ x st r); [eassumption | eapply frame_realloc; [|exact Hr6]; fr]|].
    intros [] s11 [Hq1 Hq2]. split; [exact Hq1 | fr].
Qed.

Theorem write_ok canon : forall t, write_spec canon t.
Proof.
  induction t using ty_ind'; intros addr off s x st r Hs Hr.
  1-12,14,25-28: (cbn [write lower_scalar_op scalar_store];
                  eapply write_scalar_ok; [reflexivity | reflexivity | exact Hs]).
  - (* string *)
    cbn [write]. apply ok_bind.
    eapply ok_realloc_bind; [exact Hr|].
    eapply ok_weaken; [eapply ok_emit1; [exact Hs | reflexivity]|].
    intros [] s1 [Hs1 Hf1]. cbn [results_len seq rev app] in Hs1.
    eapply ok_weaken; [eapply store_ptr_len_ok; exact Hs1|].
    intros [] s2 [Hs2 Hf2]. split; [exact Hs2 | fr].
  - (* list *)
    cbn [write]. apply ok_bind.
    eapply ok_weaken; [eapply (lower_list_with_ok canon t (write canon t) IHt s x st r Hs Hr)|].
    intros [] s1 [p [l [Hs1 Hf1]]].
    eapply ok_weaken; [eapply store_ptr_len_ok; exact Hs1|].
    intros [] s2 [Hs2 Hf2]. split; [exact Hs2 | fr].
  - (* fixed *)
    cbn [write].
    next_with ok_push_block'.
    next_with ok_emit0. cbn [results_len seq rev app] in *.
    next_with ok_emit0. cbn [results_len seq rev app] in *.
    apply ok_bind. eapply ok_pop'; [eassumption|]. intros s3 Hs3 Hf3.
    eapply ok_seq.
    { eapply IHt; [exact Hs3 | eapply frame_realloc; [|exact Hr]; fr]. }
    intros s4 Hs4 Hf4.
    next_with ok_finish0.
    next_with ok_push'.
    finish_with ok_emit2.
  - (* map *)
    cbn [write]. apply ok_bind.
    eapply ok_weaken; [eapply (lower_map_with_ok t1 t2 (write canon t1) (write canon t2) IHt1 IHt2 s x st r Hs Hr)|].
    intros [] s1 [p [l [Hs1 Hf1]]].
    eapply ok_weaken; [eapply store_ptr_len_ok; exact Hs1|].
    intros [] s2 [Hs2 Hf2]. split; [exact Hs2 | fr].
  - (* record *)
    cbn [write].
    eapply ok_seq; [eapply ok_emit1; [exact Hs | reflexivity]|]. intros s1 Hs1 Hf1.
    cbn [results_len] in Hs1.
    apply ok_bind. eapply ok_weaken; [apply ok_drain; rewrite Hs1, app_length, rev_length, seq_length; lia|].
    intros vals s2 [Hv [Hs2 Hf2]].
    assert (Hst2 : stack s2 = st).
    { rewrite Hs2, Hs1. rewrite skipn_app, skipn_all2 by (rewrite rev_length, seq_length; lia).
      rewrite rev_length, seq_length, Nat.sub_diag. reflexivity. }
    assert (Hr2 : realloc s2 = Some r) by (eapply frame_realloc; [|exact Hr]; fr).
    assert (Hf02 : frame s s2) by fr.
    clear Hs2 Hv Hs1 Hf1 Hf2 s1 Hs.
    generalize asize0. revert vals s2 Hst2 Hr2 Hf02.
    induction H as [|f fs Hf Hfs IHfs]; intros vals s2 Hst2 Hr2 Hf02 cur.
    + apply ok_ret_stk; assumption.
    + destruct vals as [|v vals]; [apply ok_ret_stk; assumption|].
      next_with ok_push'.
      eapply ok_seq.
      { eapply Hf; [eassumption | eapply frame_realloc; [|exact Hr2]; fr]. }
      intros s4 Hs4 Hf4.
      eapply ok_weaken; [eapply (IHfs vals s4 Hs4); [eapply frame_realloc; [|exact Hr2]; fr | fr]|].
      intros [] s5 Hq. exact Hq.
  - (* tuple *)
    cbn [write].
    eapply ok_seq; [eapply ok_emit1; [exact Hs | reflexivity]|]. intros s1 Hs1 Hf1.
    cbn [results_len] in Hs1.
    apply ok_bind. eapply ok_weaken; [apply ok_drain; rewrite Hs1, app_length, rev_length, seq_length; lia|].
    intros vals s2 [Hv [Hs2 Hf2]].
    assert (Hst2 : stack s2 = st).
    { rewrite Hs2, Hs1. rewrite skipn_app, skipn_all2 by (rewrite rev_length, seq_length; lia).
      rewrite rev_length, seq_length, Nat.sub_diag. reflexivity. }
    assert (Hr2 : realloc s2 = Some r) by (eapply frame_realloc; [|exact Hr]; fr).
    assert (Hf02 : frame s s2) by fr.
    clear Hs2 Hv Hs1 Hf1 Hf2 s1 Hs.
    generalize asize0. revert vals s2 Hst2 Hr2 Hf02.
    induction H as [|f fs Hf Hfs IHfs]; intros vals s2 Hst2 Hr2 Hf02 cur.
    + apply ok_ret_stk; assumption.
    + destruct vals as [|v vals]; [apply ok_ret_stk; assumption|].
      next_with ok_push'.
      eapply ok_seq.
      { eapply Hf; [eassumption | eapply frame_realloc; [|exact Hr2]; fr]. }
      intros s4 Hs4 Hf4.
      eapply ok_weaken; [eapply (IHfs vals s4 Hs4); [eapply frame_realloc; [|exact Hr2]; fr | fr]|].
      intros [] s5 Hq. exact Hq.
  - (* variant *)
    cbn [write].
    eapply ok_seq with (st := x :: st).
    { eapply (write_arms_ok canon addr off cs H); eassumption. }
    intros s1 Hs1 Hf1. finish_with ok_emit1.
  - (* enum *)
    cbn [write]. eapply write_scalar_ok; [reflexivity | reflexivity | exact Hs].
  - (* option *)
    cbn [write].
    eapply ok_seq with (st := x :: st).
    { eapply (write_arms_ok canon addr off (cases_of_option t)); [|eassumption|eassumption].
      unfold cases_of_option. constructor; [exact I | constructor; [exact IHt | constructor]]. }
    intros s1 Hs1 Hf1. finish_with ok_emit1.
  - (* result *)
    cbn [write].
    eapply ok_seq with (st := x :: st).
    { eapply (write_arms_ok canon addr off (cases_of_result ok err)); [|eassumption|eassumption].
      unfold cases_of_result. constructor; [assumption | constructor; [assumption | constructor]]. }
    intros s1 Hs1 Hf1. finish_with ok_emit1.
  - (* flags *)
    cbn [write].
    eapply ok_seq; [eapply ok_emit1; [exact Hs | reflexivity]|]. intros s1 Hs1 Hf1.
    cbn [results_len] in Hs1. unfold flags_count in *.
    destruct (n =? 0)%N eqn:E0.
    { change (N.to_nat 0) with 0%nat in Hs1. cbn [seq rev app] in Hs1. apply ok_ret_stk; assumption. }
    destruct (n <=? 8)%N eqn:E8.
    { assert (E16 : (n <=? 16)%N = true) by (apply N.leb_le; apply N.leb_le in E8; lia).
      rewrite E16 in Hs1. change (N.to_nat 1) with 1%nat in Hs1. cbn [seq rev app] in Hs1.
      next_with ok_push'. finish_with ok_emit2. }
    destruct (n <=? 16)%N eqn:E16.
    { change (N.to_nat 1) with 1%nat in Hs1. cbn [seq rev app] in Hs1.
      next_with ok_push'. finish_with ok_emit2. }
    eapply ok_weaken; [eapply (flags_store_loop_ok addr (fun i => a_add_bytes off (N.of_nat i * 4)) _ _ s1 st); [|exact Hs1]|].
    + rewrite !rev_length, !seq_length. reflexivity.
    + intros [] s2 [Hq1 Hq2]. split; [exact Hq1 | fr].
Qed.

(** the public entry point [abi::lower_to_memory]: for every type and every is_list_canonical oracle it runs to
    completion (no panic site reached) and leaves no operand on the stack *)
Theorem lower_to_memory_never_panics canon t :
  ok_with (lower_to_memory canon t) gst0 (fun _ s' => stack s' = []).
Proof.
  unfold lower_to_memory.
  apply ok_bind. unfold ok_with at 1. cbn [fresh gst0 nxt seq Nat.add].
  apply ok_bind. unfold ok_with at 1. cbn [set_realloc].
  apply ok_bind. unfold ok_with at 1, push, bind, get, set_stack. cbn [stack nxt evs retp realloc].
  eapply ok_weaken; [eapply (write_ok canon t 0 asize0 _ 1 [] true); reflexivity|].
  intros [] s' [H _]. exact H.
Qed.

Example write_discipline_example :
  match lower_to_memory (fun _ => false)
          (TRecord [TU8; TList TString; TOption (TVariant [Some TF32; None; Some (TMap TU8 TString)]); TFlags 40; TFixed TU64 3]) gst0
  with Ok _ s' => stack s' = [] /\ (40 <=? length (evs s'))%nat = true | Err _ => False end.
Proof. vm_compute. split; reflexivity. Qed.

(** * the memory-mode lifting pushes exactly one operand, for every type *)
Definition stk1 (s0 : gst) (st : list nat) : unit -> gst -> Prop :=
  fun _ s' => exists v, stack s' = v :: st /\ frame s0 s'.

Definition read_spec (canon : ty -> bool) (t : ty) : Prop :=
  forall addr off s st, stack s = st -> ok_with (read canon t addr off) s (stk1 s st).

Lemma ok_seq1 {B} (m : M unit) (k : M B) s st (Q : B -> gst -> Prop) :
  ok_with m s (stk1 s st) ->
  (forall s' v, stack s' = v :: st -> frame s s' -> ok_with k s' Q) ->
  ok_with (bind m (fun _ => k)) s Q.
Proof.
  intros H1 H2. apply ok_bind. eapply ok_weaken; [exact H1|]. intros [] s' [v [Hs Hf]]. eapply H2; eassumption.
Qed.

Lemma load_ptr_len_ok t addr off s st : stack s = st ->
  ok_with (load_ptr_len t addr off) s (fun _ s' => exists p l, stack s' = l :: p :: st /\ frame s s').
Proof.
  intros Hs. unfold load_ptr_len.
  next_with ok_push'. next_with ok_emit1. cbn [results_len seq rev app] in *.
  next_with ok_push'.
  eapply ok_weaken; [eapply ok_emit1; [eassumption | reflexivity]|].
  intros [] s4 [H1 H2]. cbn [results_len seq rev app] in H1. do 2 eexists. split; [exact H1 | fr].
Qed.

Lemma read_scalar_ok l i : operands_len i = 1 -> results_len i = 1 ->
  forall addr off s st, stack s = st ->
    ok_with (push addr ;;; emit (Load l off) ;;; emit i) s (stk1 s st).
Proof.
  intros Ho Hr addr off s st Hs.
  next_with ok_push'. next_with ok_emit1. cbn [results_len seq rev app] in *.
  eapply ok_weaken; [eapply ok_emit1; [eassumption | exact Ho]|].
  intros [] s3 [H1 H2]. rewrite Hr in H1. cbn [seq rev app] in H1. eexists. split; [exact H1 | fr].
Qed.

Lemma lift_list_with_ok canon e (rd : nat -> asize -> M unit) :
  (forall addr off s st, stack s = st -> ok_with (rd addr off) s (stk1 s st)) ->
  forall s p l st, stack s = l :: p :: st -> ok_with (lift_list_with canon e rd) s (stk1 s st).
Proof.
  intros Hrd s p l st Hs. unfold lift_list_with.
  destruct (canon e).
  - eapply ok_weaken; [eapply ok_emit2; [exact Hs | reflexivity]|].
    intros [] s1 [H1 H2]. cbn [results_len seq rev app] in H1. eexists. split; [exact H1 | fr].
  - next_with ok_push_block'.
    next_with ok_emit0. cbn [results_len seq rev app] in *.
    apply ok_bind. eapply ok_pop'; [eassumption|]. intros s3 Hs3 Hf3.
    eapply ok_seq1; [eapply Hrd; exact Hs3|]. intros s4 v Hs4 Hf4.
    next_with ok_finish1.
    eapply ok_weaken; [eapply ok_emit2; [eassumption | reflexivity]|].
    intros [] s6 [H1 H2]. cbn [results_len seq rev app] in H1. eexists. split; [exact H1 | fr].
Qed.

Lemma lift_map_with_ok k v (rk rv : nat -> asize -> M unit) :
  (forall addr off s st, stack s = st -> ok_with (rk addr off) s (stk1 s st)) ->
  (forall addr off s st, stack s = st -> ok_with (rv addr off) s (stk1 s st)) ->
  forall s p l st, stack s = l :: p :: st -> ok_with (lift_map_with k v rk rv) s (stk1 s st).
Proof.
  intros Hk Hv s p l st Hs. unfold lift_map_with.
  next_with ok_push_block'.
  next_with ok_emit0. cbn [results_len seq rev app] in *.
  apply ok_bind. eapply ok_pop'; [eassumption|]. intros s3 Hs3 Hf3.
  eapply ok_seq1; [eapply Hk; exact Hs3|]. intros s4 kv Hs4 Hf4.
  eapply ok_seq1; [eapply Hv; exact Hs4|]. intros s5 vv Hs5 Hf5.
  next_with ok_finish2.
  eapply ok_weaken; [eapply ok_emit2; [eassumption | reflexivity]|].
  intros [] s7 [H1 H2]. cbn [results_len seq rev app] in H1. eexists. split; [exact H1 | fr].
Qed.

Lemma read_arms_ok canon addr cs : Forall (OptP (read_spec canon)) cs ->
  forall poff s st, stack s = st ->
    ok_with ((fix read_arms (poff : asize) (cs : list (option ty)) {struct cs} : M unit :=
                match cs with
                | [] => ret tt
                | c :: cs' =>
                    push_block ;;;
                    (match c with Some x => read canon x addr poff | None => ret tt end) ;;;
                    finish_block (match c with Some _ => 1 | None => 0 end)%nat ;;;
                    read_arms poff cs'
                end) poff cs) s (stk s st).
Proof.
  induction 1 as [|c cs Hc Hcs IH]; intros poff s st Hs.
  - apply ok_ret_stk; [exact Hs | apply frame_refl].
  - next_with ok_push_block'.
    destruct c as [t|].
    + eapply ok_seq1; [eapply Hc; eassumption|]. intros s2 v Hs2 Hf2.
      next_with ok_finish1.
      eapply ok_weaken; [eapply (IH poff); eassumption|].
      intros [] s4 [H1 H2]. split; [exact H1 | fr].
    + eapply ok_seq; [apply ok_ret_stk; [eassumption | apply frame_refl]|]. intros s2 Hs2 Hf2.
      next_with ok_finish0.
      eapply ok_weaken; [eapply (IH poff); eassumption|].
      intros [] s4 [H1 H2]. split; [exact H1 | fr].
Qed.

Lemma flags_load_loop_ok addr (f : nat -> asize) l : forall s st,
  stack s = st ->
  ok_with (mapM_ (fun i => push addr ;;; emit (Load LI32 (f i))) l) s
          (fun _ s' => exists vals, length vals = length l /\ stack s' = vals ++ st /\ frame s s').
Proof.
  induction l as [|i l IH]; intros s st Hs.
  - cbn [mapM_]. unfold ok_with, ret. exists []. split; [reflexivity | split; [exact Hs | apply frame_refl]].
  - cbn [mapM_]. apply ok_bind. next_with ok_push'.
    eapply ok_weaken; [eapply ok_emit1; [eassumption | reflexivity]|].
    intros [] s2 [Hs2 Hf2]. cbn [results_len seq rev app] in Hs2.
    eapply ok_weaken; [apply (IH s2 _ Hs2)|].
    intros [] s3 [vals [Hl [Hs3 Hf3]]]. exists (vals ++ [nxt s']).
    rewrite app_length, <- app_assoc. cbn [length app]. split; [lia | split; [exact Hs3 | fr]].
Qed.

Theorem read_ok canon : forall t, read_spec canon t.
Proof.
  induction t using ty_ind'; intros addr off s st Hs.
  1-12,14,25-28: (cbn [read scalar_load lift_scalar_op];
                  eapply read_scalar_ok; [reflexivity | reflexivity | exact Hs]).
  - (* string *)
    cbn [read]. apply ok_bind.
    eapply ok_weaken; [eapply load_ptr_len_ok; exact Hs|].
    intros [] s1 [p [l [Hs1 Hf1]]].
    eapply ok_weaken; [eapply ok_emit2; [exact Hs1 | reflexivity]|].
    intros [] s2 [H1 H2]. cbn [results_len seq rev app] in H1. eexists. split; [exact H1 | fr].
  - (* list *)
    cbn [read]. apply ok_bind.
    eapply ok_weaken; [eapply load_ptr_len_ok; exact Hs|].
    intros [] s1 [p [l [Hs1 Hf1]]].
    eapply ok_weaken; [eapply (lift_list_with_ok canon t (read canon t) IHt); exact Hs1|].
    intros [] s2 [v [H1 H2]]. eexists. split; [exact H1 | fr].
  - (* fixed *)
    cbn [read].
    next_with ok_push_block'.
    next_with ok_emit0. cbn [results_len seq rev app] in *.
    apply ok_bind. eapply ok_pop'; [eassumption|]. intros s3 Hs3 Hf3.
    eapply ok_seq1; [eapply IHt; exact Hs3|]. intros s4 v Hs4 Hf4.
    next_with ok_finish1.
    next_with ok_push'.
    eapply ok_weaken; [eapply ok_emit1; [eassumption | reflexivity]|].
    intros [] s7 [H1 H2]. cbn [results_len seq rev app] in H1. eexists. split; [exact H1 | fr].
  - (* map *)
    cbn [read]. apply ok_bind.
    eapply ok_weaken; [eapply load_ptr_len_ok; exact Hs|].
    intros [] s1 [p [l [Hs1 Hf1]]].
    eapply ok_weaken; [eapply (lift_map_with_ok t1 t2 (read canon t1) (read canon t2) IHt1 IHt2); exact Hs1|].
    intros [] s2 [v [H1 H2]]. eexists. split; [exact H1 | fr].
  - (* record *)
    cbn [read]. apply ok_bind.
    assert (Hloop : forall cur s0 st0, stack s0 = st0 ->
              ok_with ((fix read_each (ts : list ty) (cur : asize) {struct ts} : M unit :=
                          match ts with
                          | x :: ts' =>
                              let o := align_to_arch cur (sa_align x) in
                              read canon x addr (a_add off o) ;;; read_each ts' (a_add o (sa_size x))
                          | [] => ret tt
                          end) fs cur) s0
                      (fun _ s' => exists vals, length vals = length fs /\ stack s' = vals ++ st0 /\ frame s0 s')).
    { clear Hs. induction H as [|f fs Hf Hfs IHfs]; intros cur s0 st0 Hs0.
      - unfold ok_with, ret. exists []. split; [reflexivity | split; [exact Hs0 | apply frame_refl]].
      - cbn zeta. eapply ok_seq1; [eapply Hf; exact Hs0|]. intros s1 v Hs1 Hf1.
        eapply ok_weaken; [eapply (IHfs _ s1 _ Hs1)|].
        intros [] s2 [vals [Hl [Hs2 Hf2]]]. exists (vals ++ [v]).
        rewrite app_length, <- app_assoc. cbn [length app]. split; [lia | split; [exact Hs2 | fr]]. }
    eapply ok_weaken; [eapply (Hloop asize0 s st Hs)|].
    intros [] s1 [vals [Hl [Hs1 Hf1]]].
    eapply ok_weaken; [eapply (ok_emit_stk (RecordLift fs) s1 vals st Hs1); exact Hl|].
    intros [] s2 [H1 H2]. cbn [results_len seq rev app] in H1. eexists. split; [exact H1 | fr].
  - (* tuple *)
    cbn [read]. apply ok_bind.
    assert (Hloop : forall cur s0 st0, stack s0 = st0 ->
              ok_with ((fix read_each (ts0 : list ty) (cur : asize) {struct ts0} : M unit :=
                          match ts0 with
                          | x :: ts' =>
                              let o := align_to_arch cur (sa_align x) in
                              read canon x addr (a_add off o) ;;; read_each ts' (a_add o (sa_size x))
                          | [] => ret tt
                          end) ts cur) s0
                      (fun _ s' => exists vals, length vals = length ts /\ stack s' = vals ++ st0 /\ frame s0 s')).
    { clear Hs. induction H as [|f fs Hf Hfs IHfs]; intros cur s0 st0 Hs0.
      - unfold ok_with, ret. exists []. split; [reflexivity | split; [exact Hs0 | apply frame_refl]].
      - cbn zeta. eapply ok_seq1; [eapply Hf; exact Hs0|]. intros s1 v Hs1 Hf1.
        eapply ok_weaken; [eapply (IHfs _ s1 _ Hs1)|].
        intros [] s2 [vals [Hl [Hs2 Hf2]]]. exists (vals ++ [v]).
        rewrite app_length, <- app_assoc. cbn [length app]. split; [lia | split; [exact Hs2 | fr]]. }
    eapply ok_weaken; [eapply (Hloop asize0 s st Hs)|].
    intros [] s1 [vals [Hl [Hs1 Hf1]]].
    eapply ok_weaken; [eapply (ok_emit_stk (TupleLift ts) s1 vals st Hs1); exact Hl|].
    intros [] s2 [H1 H2]. cbn [results_len seq rev app] in H1. eexists. split; [exact H1 | fr].
  - (* variant *)
    cbn [read].
    eapply ok_seq1.
    { next_with ok_push'. next_with ok_emit1. cbn [results_len seq rev app] in *.
      eapply ok_weaken; [eapply (read_arms_ok canon addr cs H); eassumption|].
      intros [] s3 [H1 H2]. eexists. split; [exact H1 | fr]. }
    intros s3 v Hs3 Hf3.
    eapply ok_weaken; [eapply ok_emit1; [eassumption | reflexivity]|].
    intros [] s4 [H1 H2]. cbn [results_len seq rev app] in H1. eexists. split; [exact H1 | fr].
  - (* enum *)
    cbn [read]. eapply read_scalar_ok; [reflexivity | reflexivity | exact Hs].
  - (* option *)
    cbn [read].
    eapply ok_seq1.
    { next_with ok_push'. next_with ok_emit1. cbn [results_len seq rev app] in *.
      eapply ok_weaken.
    { eapply (read_arms_ok canon addr (cases_of_option t)); [|eassumption].
        unfold cases_of_option. constructor; [exact I | constructor; [exact IHt | constructor]]. }
      intros [] s3 [H1 H2]. eexists. split; [exact H1 | fr]. }
    intros s3 v Hs3 Hf3.
    eapply ok_weaken; [eapply ok_emit1; [eassumption | reflexivity]|].
    intros [] s4 [H1 H2]. cbn [results_len seq rev app] in H1. eexists. split; [exact H1 | fr].
  - (* result *)
    cbn [read].
    eapply ok_seq1.
    { next_with ok_push'. next_with ok_emit1. cbn [results_len seq rev app] in *.
      eapply ok_weaken.
    { eapply (read_arms_ok canon addr (cases_of_result ok err)); [|eassumption].
        unfold cases_of_result. constructor; [assumption | constructor; [assumption | constructor]]. }
      intros [] s3 [H1 H2]. eexists. split; [exact H1 | fr]. }
    intros s3 v Hs3 Hf3.
    eapply ok_weaken; [eapply ok_emit1; [eassumption | reflexivity]|].
    intros [] s4 [H1 H2]. cbn [results_len seq rev app] in H1. eexists. split; [exact H1 | fr].
  - (* flags *)
    cbn [read]. apply ok_bind.
    assert (Hloads : ok_with
              (if (n =? 0)%N then ret tt
               else if (n <=? 8)%N then push addr ;;; emit (Load LI32_8U off)
               else if (n <=? 16)%N then push addr ;;; emit (Load LI32_16U off)
               else mapM_ (fun i => push addr ;;; emit (Load LI32 (a_add_bytes off (N.of_nat i * 4))))
                          (seq 0 (N.to_nat (flags_count n)))) s
              (fun _ s' => exists vals, length vals = N.to_nat (flags_count n) /\ stack s' = vals ++ st /\ frame s s')).
    { unfold flags_count.
      destruct (n =? 0)%N eqn:E0.
      { unfold ok_with, ret. exists []. split; [reflexivity | split; [exact Hs | apply frame_refl]]. }
      destruct (n <=? 8)%N eqn:E8.
      { assert (E16 : (n <=? 16)%N = true) by (apply N.leb_le; apply N.leb_le in E8; lia). rewrite E16.
        next_with ok_push'. eapply ok_weaken; [eapply ok_emit1; [eassumption | reflexivity]|].
        intros [] s2 [H1 H2]. cbn [results_len seq rev app] in H1. exists [nxt s']. split; [reflexivity | split; [exact H1 | fr]]. }
      destruct (n <=? 16)%N eqn:E16.
      { next_with ok_push'. eapply ok_weaken; [eapply ok_emit1; [eassumption | reflexivity]|].
        intros [] s2 [H1 H2]. cbn [results_len seq rev app] in H1. exists [nxt s']. split; [reflexivity | split; [exact H1 | fr]]. }
      eapply ok_weaken; [eapply (flags_load_loop_ok addr _ _ s st Hs)|].
      intros [] s2 [vals [Hl [H1 H2]]]. exists vals. rewrite seq_length in Hl. auto. }
    eapply ok_weaken; [exact Hloads|].
    intros [] s1 [vals [Hl [Hs1 Hf1]]].
    eapply ok_weaken; [eapply (ok_emit_stk (FlagsLift n) s1 vals st Hs1); exact Hl|].
    intros [] s2 [H1 H2]. cbn [results_len seq rev app] in H1. eexists. split; [exact H1 | fr].
Qed.

Theorem lift_from_memory_never_panics canon t :
  ok_with (lift_from_memory canon t) gst0 (fun _ s' => exists v, stack s' = [v]).
Proof.
  unfold lift_from_memory.
  apply ok_bind. unfold ok_with at 1. cbn [fresh gst0 nxt seq Nat.add].
  eapply ok_weaken; [eapply (read_ok canon t 0 asize0 _ []); reflexivity|].
  intros [] s' [v [H _]]. exists v. exact H.
Qed.
