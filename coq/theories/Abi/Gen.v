(** State-passing transcription of [struct Generator] in crates/core/src/abi.rs: [stack], the fresh
    operand counter that stands for the Bindgen's operand type, the emitted event stream, [return_pointer],
    [realloc].  Every [panic!/todo!/unreachable!/assert!/unwrap/expect] site of the Rust code is an explicit
    [Err site], so that "never panics" is a statement about this model and not an artefact of totalisation.
    The Bindgen's answers are parameters: [canon] is [is_list_canonical]; sizes come from Sig.sa. *)
From Coq Require Import List ZArith NArith Bool Arith.
From WB Require Import Wit.Ty Abi.Sig Abi.Instr Abi.Cast.
Import ListNotations.

Inductive site :=
| SStackUnderflow        (* assert!(stack.len() >= operands_len) / pop().unwrap() / drain out of range *)
| SReallocUnset          (* list_realloc: expect("realloc should be configured") *)
| SReallocSet            (* assert!(self.realloc.is_none()) *)
| SFlatUnwrap            (* flat_types(..).unwrap() on a type with more than 16 flat values *)
| SCastUnreachable       (* cast(): "Don't know how to bitcast" *)
| STodoAsyncImportIndirect
| STodoAsyncExportIndirect
| STodoStackful
| SUnreachableRetptrAsync
| SUnreachableLowerNoRetptr
| SUnreachableAsyncImportNoReturn
| SPanicFlatParam        (* "failed to flatten types during direct parameter lifting" *)
| SAssertStackParams     (* assert_eq!(stack.len(), sig.params.len()) *)
| SAssertResultsEmpty    (* assert!(sig.results.is_empty()) *)
| SAssertStackEmpty      (* assert!(self.stack.is_empty()) at the end of call / deallocate_in_types *)
| SAssertRetptr          (* post_return: assert!(sig.retptr) *)
| SAssertOperands        (* deallocate_in_types: operand count assertions / split_at out of range *)
| STodoFixedDealloc      (* deallocate: FixedLengthList => todo!() *)
| SUnreachableDealloc    (* deallocate_indirect: unreachable!() arms *)
| SSigPanic              (* a panic inside wit-parser's wasm_signature *)
| SRetptrUnwrap.         (* return_pointer.take().unwrap() *)

Record gst := {
  stack : list nat;          (* head = top of the Rust Vec *)
  nxt : nat;                 (* next fresh operand id *)
  evs : list event;          (* emitted events, most recent first *)
  retp : option nat;
  realloc : option bool;     (* None = unset; Some false = Realloc::None; Some true = Export("cabi_realloc") *)
}.

Definition gst0 : gst := {| stack := []; nxt := 0; evs := []; retp := None; realloc := None |}.

Inductive res (A : Type) := Ok (a : A) (s : gst) | Err (e : site).
Arguments Ok {A}. Arguments Err {A}.
Definition M (A : Type) := gst -> res A.

Definition ret {A} (a : A) : M A := fun s => Ok a s.
Definition bind {A B} (m : M A) (k : A -> M B) : M B :=
  fun s => match m s with Ok a s' => k a s' | Err e => Err e end.
Definition fail {A} (e : site) : M A := fun _ => Err e.
Notation "x <- m ;; k" := (bind m (fun x => k)) (at level 61, m at next level, right associativity).
Notation "m ;;; k" := (bind m (fun _ => k)) (at level 61, right associativity).

Definition get : M gst := fun s => Ok s s.
Definition set_stack (st : list nat) : M unit :=
  fun s => Ok tt {| stack := st; nxt := nxt s; evs := evs s; retp := retp s; realloc := realloc s |}.
Definition set_realloc (r : option bool) : M unit :=
  fun s => Ok tt {| stack := stack s; nxt := nxt s; evs := evs s; retp := retp s; realloc := r |}.
Definition set_retp (r : option nat) : M unit :=
  fun s => Ok tt {| stack := stack s; nxt := nxt s; evs := evs s; retp := r; realloc := realloc s |}.
Definition log (e : event) : M unit :=
  fun s => Ok tt {| stack := stack s; nxt := nxt s; evs := e :: evs s; retp := retp s; realloc := realloc s |}.
Definition fresh (n : nat) : M (list nat) :=
  fun s => Ok (seq (nxt s) n) {| stack := stack s; nxt := nxt s + n; evs := evs s; retp := retp s; realloc := realloc s |}.

Definition push (x : nat) : M unit := s <- get ;; set_stack (x :: stack s).
Definition push_all (xs : list nat) : M unit := s <- get ;; set_stack (rev xs ++ stack s).   (* extend: last = top *)
Definition pop : M nat :=
  s <- get ;; match stack s with x :: st => set_stack st ;;; ret x | [] => fail SStackUnderflow end.
(** [stack.drain(len-k..)]: the top [k] operands, bottom-most first. *)
Definition drain (k : nat) : M (list nat) :=
  s <- get ;;
  if (length (stack s) <? k)%nat then fail SStackUnderflow
  else set_stack (skipn k (stack s)) ;;; ret (rev (firstn k (stack s))).

Definition emit (i : instr) : M unit :=
  ops <- drain (operands_len i) ;;
  rs <- fresh (results_len i) ;;
  log (EEmit i ops rs) ;;;
  push_all rs.

Definition push_block : M unit := log EPushBlock.
Definition finish_block (size : nat) : M unit := ops <- drain size ;; log (EFinishBlock ops).
Definition return_pointer (size : asize) (al : align) : M nat :=
  ids <- fresh 1 ;;
  match ids with
  | id :: _ => log (ERetPtr size al id) ;;; ret id
  | [] => fail SStackUnderflow
  end.

Definition list_realloc : M bool :=
  s <- get ;; match realloc s with Some b => ret b | None => fail SReallocUnset end.

Definition flat_unwrap (t : ty) : M (list wt) :=
  match flat_types t 16 with Some l => ret l | None => fail SFlatUnwrap end.

Definition cast_m (a b : wt) : M bitcast :=
  match cast a b with Some c => ret c | None => fail SCastUnreachable end.

Fixpoint casts_m (froms tos : list wt) : M (list bitcast) :=
  match froms, tos with
  | a :: froms', b :: tos' => c <- cast_m a b ;; cs <- casts_m froms' tos' ;; ret (c :: cs)
  | _, _ => ret []
  end.

Definition any_cast (cs : list bitcast) : bool := existsb (fun c => negb (bitcast_eqb c BNone)) cs.

Fixpoint mapM_ {A} (f : A -> M unit) (l : list A) : M unit :=
  match l with [] => ret tt | x :: l' => f x ;;; mapM_ f l' end.

Definition int_store (ncases_bytes : N) : stop :=
  if (ncases_bytes =? 1)%N then SI32_8 else if (ncases_bytes =? 2)%N then SI32_16 else SI32.
Definition int_load (ncases_bytes : N) : ldop :=
  if (ncases_bytes =? 1)%N then LI32_8U else if (ncases_bytes =? 2)%N then LI32_16U else LI32.

Definition lower_scalar_op (t : ty) : option instr :=
  match t with
  | TBool => Some (Scalar I32FromBool) | TS8 => Some (Scalar I32FromS8) | TU8 => Some (Scalar I32FromU8)
  | TS16 => Some (Scalar I32FromS16) | TU16 => Some (Scalar I32FromU16)
  | TS32 => Some (Scalar I32FromS32) | TU32 => Some (Scalar I32FromU32)
  | TS64 => Some (Scalar I64FromS64) | TU64 => Some (Scalar I64FromU64)
  | TChar => Some (Scalar I32FromChar) | TF32 => Some (Scalar CoreF32FromF32) | TF64 => Some (Scalar CoreF64FromF64)
  | TErrCtx => Some ErrorContextLower
  | TOwn => Some (HandleLower true) | TBorrow => Some (HandleLower false)
  | TFuture p => Some (FutureLower p) | TStream p => Some (StreamLower p)
  | TFlags n => Some (FlagsLower n) | TEnum n => Some (EnumLower n)
  | _ => None
  end.

Definition lift_scalar_op (t : ty) : option instr :=
  match t with
  | TBool => Some (Scalar BoolFromI32) | TS8 => Some (Scalar S8FromI32) | TU8 => Some (Scalar U8FromI32)
  | TS16 => Some (Scalar S16FromI32) | TU16 => Some (Scalar U16FromI32)
  | TS32 => Some (Scalar S32FromI32) | TU32 => Some (Scalar U32FromI32)
  | TS64 => Some (Scalar S64FromI64) | TU64 => Some (Scalar U64FromI64)
  | TChar => Some (Scalar CharFromI32) | TF32 => Some (Scalar F32FromCoreF32) | TF64 => Some (Scalar F64FromCoreF64)
  | TErrCtx => Some ErrorContextLift
  | TOwn => Some (HandleLift true) | TBorrow => Some (HandleLift false)
  | TFuture p => Some (FutureLift p) | TStream p => Some (StreamLift p)
  | TFlags n => Some (FlagsLift n) | TEnum n => Some (EnumLift n)
  | _ => None
  end.

(** The store/load instruction for a scalar stored in memory. *)
Definition scalar_store (t : ty) : option stop :=
  match t with
  | TBool | TU8 | TS8 => Some SI32_8
  | TU16 | TS16 => Some SI32_16
  | TU32 | TS32 | TChar | TErrCtx | TOwn | TBorrow | TFuture _ | TStream _ => Some SI32
  | TU64 | TS64 => Some SI64
  | TF32 => Some SF32
  | TF64 => Some SF64
  | _ => None
  end.
Definition scalar_load (t : ty) : option ldop :=
  match t with
  | TBool | TU8 => Some LI32_8U
  | TS8 => Some LI32_8S
  | TU16 => Some LI32_16U
  | TS16 => Some LI32_16S
  | TU32 | TS32 | TChar | TErrCtx | TOwn | TBorrow | TFuture _ | TStream _ => Some LI32
  | TU64 | TS64 => Some LI64
  | TF32 => Some LF32
  | TF64 => Some LF64
  | _ => None
  end.

Section gen.
  Variable canon : ty -> bool.            (* Bindgen::is_list_canonical *)

  (** ** lower_variant_arms, parameterised by the recursive lowering of payloads *)
  Definition lower_arm (results : list wt) (i : nat) (c : option ty) (lower_c : M unit) : M unit :=
    push_block ;;;
    emit VariantPayloadName ;;;
    payload_name <- pop ;;
    emit (I32Const (Z.of_nat i)) ;;;
    pushed <- match c with
              | Some t =>
                  push payload_name ;;;
                  lower_c ;;;
                  temp <- flat_unwrap t ;;
                  casts <- casts_m temp (tl results) ;;
                  (if any_cast casts then emit (Bitcasts casts) else ret tt) ;;;
                  ret (1 + length temp)%nat
              | None => ret 1%nat
              end ;;
    (if (pushed <? length results)%nat then emit (ConstZero (skipn pushed results)) else ret tt) ;;;
    finish_block (length results).

  (** ** the list/map lowering shared by [lower] and [write_to_memory] *)
  Definition lower_list_with (e : ty) (write_e : nat -> asize -> M unit) : M unit :=
    r <- list_realloc ;;
    if canon e then emit (ListCanonLower e r)
    else
      push_block ;;;
      emit (IterElem e) ;;;
      emit IterBasePointer ;;;
      addr <- pop ;;
      write_e addr asize0 ;;;
      finish_block 0 ;;;
      emit (ListLower e r).

  Definition value_offset (k v : ty) : asize :=
    match sa_field_offsets [k; v] with _ :: (o, _) :: _ => o | _ => asize0 end.

  Definition lower_map_with (k v : ty) (write_k write_v : nat -> asize -> M unit) : M unit :=
    r <- list_realloc ;;
    push_block ;;;
    emit (IterMapKey k) ;;;
    emit IterBasePointer ;;;
    key_addr <- pop ;;
    write_k key_addr asize0 ;;;
    emit (IterMapValue v) ;;;
    emit IterBasePointer ;;;
    value_addr <- pop ;;
    write_v value_addr (value_offset k v) ;;;
    finish_block 0 ;;;
    emit (MapLower k v r).

  Definition store_ptr_len (t : ty) (addr : nat) (off : asize) : M unit :=
    push addr ;;;
    emit (Store SLen (a_add off (asize_of_align (sa_align t)))) ;;;
    push addr ;;;
    emit (Store SPtr off).

  Fixpoint write (t : ty) (addr : nat) (off : asize) {struct t} : M unit :=
    let fix write_each (ts : list ty) (cur : asize) (vals : list nat) {struct ts} : M unit :=
      (* SizeAlign::field_offsets fused with the loop of write_fields_to_memory *)
      match ts, vals with
      | x :: ts', v :: vals' =>
          let o := align_to_arch cur (sa_align x) in
          push v ;;; write x addr (a_add off o) ;;; write_each ts' (a_add o (sa_size x)) vals'
      | _, _ => ret tt
      end in
    let fix write_arms (tagb : N) (poff : asize) (cs : list (option ty)) (i : nat) {struct cs} : M unit :=
      match cs with
      | [] => ret tt
      | c :: cs' =>
          push_block ;;;
          emit VariantPayloadName ;;;
          payload_name <- pop ;;
          emit (I32Const (Z.of_nat i)) ;;;
          push addr ;;;
          emit (Store (int_store tagb) off) ;;;
          (match c with
           | Some x => push payload_name ;;; write x addr poff
           | None => ret tt
           end) ;;;
          finish_block 0 ;;;
          write_arms tagb poff cs' (S i)
      end in
    let variant_arms (tagb : N) (cs : list (option ty)) : M unit :=
      write_arms tagb (a_add off (sa_payload_offset tagb cs)) cs 0%nat in
    match t with
    | TString => (r <- list_realloc ;; emit (StringLower r)) ;;; store_ptr_len t addr off
    | TList e => lower_list_with e (write e) ;;; store_ptr_len t addr off
    | TMap k v => lower_map_with k v (write k) (write v) ;;; store_ptr_len t addr off
    | TRecord fs => emit (RecordLower fs) ;;; vals <- drain (length fs) ;; write_each fs asize0 vals
    | TTuple ts => emit (TupleLower ts) ;;; vals <- drain (length ts) ;; write_each ts asize0 vals
    | TFlags n =>
        emit (FlagsLower n) ;;;
        if (n =? 0)%N then ret tt
        else if (n <=? 8)%N then push addr ;;; emit (Store SI32_8 off)
        else if (n <=? 16)%N then push addr ;;; emit (Store SI32_16 off)
        else mapM_ (fun i => push addr ;;; emit (Store SI32 (a_add_bytes off (N.of_nat i * 4))))
                   (rev (seq 0 (N.to_nat (flags_count n))))
    | TVariant cs =>
        variant_arms (int_bytes (N.of_nat (length cs))) cs ;;; emit (VariantLower cs [])
    | TOption x => variant_arms 1%N (cases_of_option x) ;;; emit (OptionLower x [])
    | TResult a b => variant_arms 1%N (cases_of_result a b) ;;; emit (ResultLower a b [])
    | TEnum n => emit (EnumLower n) ;;; push addr ;;; emit (Store (int_store (int_bytes n)) off)
    | TFixed x n =>
        push_block ;;;
        emit (IterElem x) ;;;
        emit IterBasePointer ;;;
        elem_addr <- pop ;;
        write x elem_addr off ;;;
        finish_block 0 ;;;
        push addr ;;;
        emit (FixedLowerToMemory x n)
    | _ =>
        match lower_scalar_op t, scalar_store t with
        | Some i, Some s => emit i ;;; push addr ;;; emit (Store s off)
        | _, _ => fail SCastUnreachable
        end
    end.

  Fixpoint lower (t : ty) {struct t} : M unit :=
    let fix lower_each (ts : list ty) (vals : list nat) {struct ts} : M unit :=
      match ts, vals with
      | x :: ts', v :: vals' => push v ;;; lower x ;;; lower_each ts' vals'
      | _, _ => ret tt
      end in
    let fix arms (results : list wt) (cs : list (option ty)) (i : nat) {struct cs} : M unit :=
      match cs with
      | [] => ret tt
      | c :: cs' =>
          lower_arm results i c (match c with Some x => lower x | None => ret tt end) ;;;
          arms results cs' (S i)
      end in
    let variant_arms (cs : list (option ty)) : M (list wt) :=
      results <- flat_unwrap t ;; arms results cs 0%nat ;;; ret results in
    match t with
    | TString => r <- list_realloc ;; emit (StringLower r)
    | TList e => lower_list_with e (write e)
    | TMap k v => lower_map_with k v (write k) (write v)
    | TRecord fs => emit (RecordLower fs) ;;; vals <- drain (length fs) ;; lower_each fs vals
    | TTuple ts => emit (TupleLower ts) ;;; vals <- drain (length ts) ;; lower_each ts vals
    | TVariant cs => results <- variant_arms cs ;; emit (VariantLower cs results)
    | TOption x => results <- variant_arms (cases_of_option x) ;; emit (OptionLower x results)
    | TResult a b => results <- variant_arms (cases_of_result a b) ;; emit (ResultLower a b results)
    | TFixed x n =>
        emit (FixedLower x n) ;;;
        vals <- drain (N.to_nat n) ;;
        mapM_ (fun v => push v ;;; lower x) vals
    | _ => match lower_scalar_op t with Some i => emit i | None => fail SCastUnreachable end
    end.

  (** ** lifting *)
  (** flat_for_each_variant_arm, one arm *)
  Definition lift_arm (params : list wt) (block_inputs : list nat) (c : option ty) (body : M unit)
                      (has_result : bool) : M unit :=
    push_block ;;;
    (match c with
     | Some t =>
         temp <- flat_unwrap t ;;
         (if (length block_inputs <? length temp)%nat then fail SStackUnderflow else ret tt) ;;;
         push_all (firstn (length temp) block_inputs) ;;;
         (* cast(expected = slot type, actual = case type), zipped over the case's own types *)
         casts <- casts_m (firstn (length temp) (tl params)) temp ;;
         (if any_cast casts then emit (Bitcasts casts) else ret tt) ;;;
         body
     | None => ret tt
     end) ;;;
    finish_block (if has_result then (match c with Some _ => 1 | None => 0 end) else 0)%nat.

  Definition lift_list_with (e : ty) (read_e : nat -> asize -> M unit) : M unit :=
    if canon e then emit (ListCanonLift e)
    else
      push_block ;;;
      emit IterBasePointer ;;;
      addr <- pop ;;
      read_e addr asize0 ;;;
      finish_block 1 ;;;
      emit (ListLift e).

  Definition lift_map_with (k v : ty) (read_k read_v : nat -> asize -> M unit) : M unit :=
    push_block ;;;
    emit IterBasePointer ;;;
    entry_addr <- pop ;;
    read_k entry_addr asize0 ;;;
    read_v entry_addr (value_offset k v) ;;;
    finish_block 2 ;;;
    emit (MapLift k v).

  Definition load_ptr_len (t : ty) (addr : nat) (off : asize) : M unit :=
    push addr ;;;
    emit (Load LPtr off) ;;;
    push addr ;;;
    emit (Load LLen (a_add off (asize_of_align (sa_align t)))).

  Fixpoint read (t : ty) (addr : nat) (off : asize) {struct t} : M unit :=
    let fix read_each (ts : list ty) (cur : asize) {struct ts} : M unit :=
      match ts with
      | x :: ts' =>
          let o := align_to_arch cur (sa_align x) in
          read x addr (a_add off o) ;;; read_each ts' (a_add o (sa_size x))
      | [] => ret tt
      end in
    let fix read_arms (poff : asize) (cs : list (option ty)) {struct cs} : M unit :=
      match cs with
      | [] => ret tt
      | c :: cs' =>
          push_block ;;;
          (match c with Some x => read x addr poff | None => ret tt end) ;;;
          finish_block (match c with Some _ => 1 | None => 0 end)%nat ;;;
          read_arms poff cs'
      end in
    let variant_arms (tagb : N) (cs : list (option ty)) : M unit :=
      push addr ;;;
      emit (Load (int_load tagb) off) ;;;
      read_arms (a_add off (sa_payload_offset tagb cs)) cs in
    match t with
    | TString => load_ptr_len t addr off ;;; emit StringLift
    | TList e => load_ptr_len t addr off ;;; lift_list_with e (read e)
    | TMap k v => load_ptr_len t addr off ;;; lift_map_with k v (read k) (read v)
    | TRecord fs => read_each fs asize0 ;;; emit (RecordLift fs)
    | TTuple ts => read_each ts asize0 ;;; emit (TupleLift ts)
    | TFlags n =>
        (if (n =? 0)%N then ret tt
         else if (n <=? 8)%N then push addr ;;; emit (Load LI32_8U off)
         else if (n <=? 16)%N then push addr ;;; emit (Load LI32_16U off)
         else mapM_ (fun i => push addr ;;; emit (Load LI32 (a_add_bytes off (N.of_nat i * 4))))
                    (seq 0 (N.to_nat (flags_count n)))) ;;;
        emit (FlagsLift n)
    | TVariant cs => variant_arms (int_bytes (N.of_nat (length cs))) cs ;;; emit (VariantLift cs)
    | TOption x => variant_arms 1%N (cases_of_option x) ;;; emit (OptionLift x)
    | TResult a b => variant_arms 1%N (cases_of_result a b) ;;; emit (ResultLift a b)
    | TEnum n => push addr ;;; emit (Load (int_load (int_bytes n)) off) ;;; emit (EnumLift n)
    | TFixed x n =>
        push_block ;;;
        emit IterBasePointer ;;;
        elemaddr <- pop ;;
        read x elemaddr off ;;;
        finish_block 1 ;;;
        push addr ;;;
        emit (FixedLiftFromMemory x n)
    | _ =>
        match scalar_load t, lift_scalar_op t with
        | Some l, Some i => push addr ;;; emit (Load l off) ;;; emit i
        | _, _ => fail SCastUnreachable
        end
    end.

  Fixpoint lift (t : ty) {struct t} : M unit :=
    let fix lift_each (ts : list ty) (args : list nat) {struct ts} : M unit :=
      (* flat_for_each_record_type: args.drain(..temp.len()) per field *)
      match ts with
      | x :: ts' =>
          temp <- flat_unwrap x ;;
          (if (length args <? length temp)%nat then fail SStackUnderflow else ret tt) ;;;
          push_all (firstn (length temp) args) ;;;
          lift x ;;;
          lift_each ts' (skipn (length temp) args)
      | [] => ret tt
      end in
    let record_types (ts : list ty) : M unit :=
      temp <- flat_unwrap t ;;
      args <- drain (length temp) ;;
      lift_each ts args in
    let fix arms (params : list wt) (inputs : list nat) (cs : list (option ty)) {struct cs} : M unit :=
      match cs with
      | [] => ret tt
      | c :: cs' =>
          lift_arm params inputs c (match c with Some x => lift x | None => ret tt end) true ;;;
          arms params inputs cs'
      end in
    let variant_arms (cs : list (option ty)) : M unit :=
      params <- flat_unwrap t ;;
      (* stack.drain(len + 1 - params.len()..) *)
      inputs <- drain (length params - 1) ;;
      arms params inputs cs in
    match t with
    | TString => emit StringLift
    | TList e => lift_list_with e (read e)
    | TMap k v => lift_map_with k v (read k) (read v)
    | TRecord fs => record_types fs ;;; emit (RecordLift fs)
    | TTuple ts => record_types ts ;;; emit (TupleLift ts)
    | TVariant cs => variant_arms cs ;;; emit (VariantLift cs)
    | TOption x => variant_arms (cases_of_option x) ;;; emit (OptionLift x)
    | TResult a b => variant_arms (cases_of_result a b) ;;; emit (ResultLift a b)
    | TFixed x n =>
        temp <- flat_unwrap x ;;
        let per := length temp in
        args <- drain (per * N.to_nat n) ;;
        (fix go (k : nat) (args : list nat) {struct k} : M unit :=
           match k with
           | O => ret tt
           | S k' =>
               (if (length args <? per)%nat then fail SStackUnderflow else ret tt) ;;;
               push_all (firstn per args) ;;; lift x ;;; go k' (skipn per args)
           end) (N.to_nat n) args ;;;
        emit (FixedLift x n)
    | _ => match lift_scalar_op t with Some i => emit i | None => fail SCastUnreachable end
    end.

  (** ** deallocation *)
  Inductive dealloc_what := DLists | DListsAndOwn.
  Definition handles (w : dealloc_what) : bool := match w with DLists => false | DListsAndOwn => true end.

  Fixpoint needs_deallocate (w : dealloc_what) (t : ty) {struct t} : bool :=
    match t with
    | TString | TList _ | TMap _ _ => true
    | TOwn | TFuture _ | TStream _ => handles w
    | TRecord fs | TTuple fs => existsb (needs_deallocate w) fs
    | TVariant cs => existsb (fun c => match c with Some x => needs_deallocate w x | None => false end) cs
    | TOption x => needs_deallocate w x
    | TResult a b => match a with Some x => needs_deallocate w x | None => false end
                     || match b with Some x => needs_deallocate w x | None => false end
    | TFixed x _ => needs_deallocate w x
    | _ => false
    end.

  Fixpoint dealloc_indirect (w : dealloc_what) (t : ty) (addr : nat) (off : asize) {struct t} : M unit :=
    let fix fields (ts : list ty) (cur : asize) {struct ts} : M unit :=
      match ts with
      | x :: ts' =>
          let o := align_to_arch cur (sa_align x) in
          dealloc_indirect w x addr (a_add off o) ;;; fields ts' (a_add o (sa_size x))
      | [] => ret tt
      end in
    let fix arms (poff : asize) (cs : list (option ty)) {struct cs} : M unit :=
      match cs with
      | [] => ret tt
      | c :: cs' =>
          push_block ;;;
          (match c with Some x => dealloc_indirect w x addr poff | None => ret tt end) ;;;
          finish_block 0 ;;;
          arms poff cs'
      end in
    let variant (tagb : N) (cs : list (option ty)) : M unit :=
      push addr ;;;
      emit (Load (int_load tagb) off) ;;;
      arms (a_add off (sa_payload_offset tagb cs)) cs ;;;
      emit (GuestDeallocateVariant (length cs)) in
    if negb (needs_deallocate w t) then ret tt else
    match t with
    | TString => load_ptr_len t addr off ;;; emit GuestDeallocateString
    | TList e =>
        load_ptr_len t addr off ;;;
        push_block ;;;
        emit IterBasePointer ;;;
        elemaddr <- pop ;;
        dealloc_indirect w e elemaddr asize0 ;;;
        finish_block 0 ;;;
        emit (GuestDeallocateList e)
    | TMap k v =>
        load_ptr_len t addr off ;;;
        push_block ;;;
        emit IterBasePointer ;;;
        entry_addr <- pop ;;
        dealloc_indirect w k entry_addr asize0 ;;;
        dealloc_indirect w v entry_addr (value_offset k v) ;;;
        finish_block 0 ;;;
        emit (GuestDeallocateMap k v)
    | TOwn | TFuture _ | TStream _ =>
        (* the guard [what.handles()] holds here because needs_deallocate returned true *)
        match scalar_load t, lift_scalar_op t with
        | Some l, Some i => push addr ;;; emit (Load l off) ;;; emit i ;;; emit (DropHandle t)
        | _, _ => fail SUnreachableDealloc
        end
    | TRecord fs => fields fs asize0
    | TTuple ts => fields ts asize0
    | TVariant cs => variant (int_bytes (N.of_nat (length cs))) cs
    | TOption x => variant 1%N (cases_of_option x)
    | TResult a b => variant 1%N (cases_of_result a b)
    | TFixed x n =>
        (* elements are stored inline, one after another *)
        let es := sa_size x in
        mapM_ (fun i => dealloc_indirect w x addr
                          (a_add off (az (a_bytes es * N.of_nat i) (a_ptrs es * N.of_nat i))))
              (seq 0 (N.to_nat n))
    | _ => ret tt          (* ErrorContext => {}, Flags, Enum, … *)
    end.

  Fixpoint dealloc (w : dealloc_what) (t : ty) {struct t} : M unit :=
    let fix each (ts : list ty) (args : list nat) {struct ts} : M unit :=
      match ts with
      | x :: ts' =>
          temp <- flat_unwrap x ;;
          (if (length args <? length temp)%nat then fail SStackUnderflow else ret tt) ;;;
          push_all (firstn (length temp) args) ;;;
          dealloc w x ;;;
          each ts' (skipn (length temp) args)
      | [] => ret tt
      end in
    let record_types (ts : list ty) : M unit :=
      temp <- flat_unwrap t ;;
      args <- drain (length temp) ;;
      each ts args in
    let fix arms (params : list wt) (inputs : list nat) (cs : list (option ty)) {struct cs} : M unit :=
      match cs with
      | [] => ret tt
      | c :: cs' =>
          lift_arm params inputs c (match c with Some x => dealloc w x | None => ret tt end) false ;;;
          arms params inputs cs'
      end in
    let variant (cs : list (option ty)) : M unit :=
      params <- flat_unwrap t ;;
      inputs <- drain (length params - 1) ;;
      arms params inputs cs ;;;
      emit (GuestDeallocateVariant (length cs)) in
    match t with
    | TString => emit GuestDeallocateString
    | TList e =>
        push_block ;;;
        emit IterBasePointer ;;;
        elemaddr <- pop ;;
        dealloc_indirect w e elemaddr asize0 ;;;
        finish_block 0 ;;;
        emit (GuestDeallocateList e)
    | TMap k v =>
        push_block ;;;
        emit IterBasePointer ;;;
        entry_addr <- pop ;;
        dealloc_indirect w k entry_addr asize0 ;;;
        dealloc_indirect w v entry_addr (value_offset k v) ;;;
        finish_block 0 ;;;
        emit (GuestDeallocateMap k v)
    | TOwn | TFuture _ | TStream _ =>
        if handles w then
          match lift_scalar_op t with
          | Some i => emit i ;;; emit (DropHandle t)
          | None => fail SUnreachableDealloc
          end
        else (_ <- pop ;; ret tt)
    | TRecord fs => record_types fs
    | TTuple ts => record_types ts
    | TVariant cs => variant cs
    | TOption x => variant (cases_of_option x)
    | TResult a b => variant (cases_of_result a b)
    | TFixed x n =>
        (* flat_for_each_record_type over [size] copies of the element type *)
        temp_all <- flat_unwrap t ;;
        args <- drain (length temp_all) ;;
        (fix go (k : nat) (args : list nat) {struct k} : M unit :=
           match k with
           | O => ret tt
           | S k' =>
               temp <- flat_unwrap x ;;
               (if (length args <? length temp)%nat then fail SStackUnderflow else ret tt) ;;;
               push_all (firstn (length temp) args) ;;;
               dealloc w x ;;;
               go k' (skipn (length temp) args)
           end) (N.to_nat n) args
    | _ => _ <- pop ;; ret tt
    end.

  Definition stack_must_be_empty : M unit :=
    s <- get ;; match stack s with [] => ret tt | _ => fail SAssertStackEmpty end.

  (** [deallocate_in_types] *)
  Definition deallocate_in_types (w : dealloc_what) (types : list ty) (operands : list nat) (indirect : bool) : M unit :=
    if indirect then
      match operands with
      | [addr] =>
          mapM_ (fun '(o, t) => dealloc_indirect w t addr o) (sa_field_offsets types) ;;;
          stack_must_be_empty
      | _ => fail SAssertOperands
      end
    else
      (fix go (types : list ty) (operands : list nat) {struct types} : M unit :=
         match types with
         | [] => match operands with [] => ret tt | _ => fail SAssertOperands end
         | t :: types' =>
             temp <- flat_unwrap t ;;
             (if (length operands <? length temp)%nat then fail SAssertOperands else ret tt) ;;;
             push_all (firstn (length temp) operands) ;;;
             dealloc w t ;;;
             stack_must_be_empty ;;;
             go types' (skipn (length temp) operands)
         end) types operands.

  (** ** [Generator::call] *)
  Inductive lift_lower := LiftArgsLowerResults | LowerArgsLiftResults.

  Definition opt_list {A} (o : option A) : list A := match o with Some x => [x] | None => [] end.

  Definition get_sig (v : abi_variant) (fn : func) : M wsig :=
    match wasm_signature v fn with SigOk s => ret s | SigPanic _ => fail SSigPanic end.

  (** write_params_to_memory / read_results_from_memory over the optional result type *)
  Definition write_result (r : option ty) (ptr : nat) : M unit :=
    match r with
    | Some t => v <- pop ;; push v ;;; write t ptr (a_add asize0 (align_to_arch asize0 (sa_align t)))
    | None => ret tt
    end.
  Definition read_result (r : option ty) (ptr : nat) : M unit :=
    match r with
    | Some t => read t ptr (a_add asize0 (align_to_arch asize0 (sa_align t)))
    | None => ret tt
    end.

  Definition call (fn : func) (v : abi_variant) (ll : lift_lower) (async_ : bool) : M unit :=
    sig <- get_sig v fn ;;
    let realloc_v :=
      match v, ll, async_ with
      | GuestImport, LowerArgsLiftResults, _ => false
      | (GuestExport | GuestExportAsync | GuestExportAsyncStackful), LiftArgsLowerResults, true => false
      | _, _, _ => true
      end in
    s0 <- get ;;
    (match realloc s0 with None => ret tt | Some _ => fail SReallocSet end) ;;;
    (match ll with
     | LowerArgsLiftResults =>
         set_realloc (Some realloc_v) ;;;
         (if s_indirect sig then
            let '(size, al) := sa_record_tys (f_params fn) in
            ptr <- (match v with
                    | GuestImport => return_pointer size al
                    | GuestImportAsync => fail STodoAsyncImportIndirect
                    | GuestExport => emit (Malloc size al) ;;; pop
                    | GuestExportAsync | GuestExportAsyncStackful => fail STodoAsyncExportIndirect
                    end) ;;
            (fix go (ps : list ty) (nth : nat) (offset : asize) {struct ps} : M unit :=
               match ps with
               | [] => ret tt
               | t :: ps' =>
                   emit (GetArg nth) ;;;
                   let o := align_to_arch offset (sa_align t) in
                   write t ptr o ;;;
                   go ps' (S nth) (a_add o (sa_size t))
               end) (f_params fn) 0%nat asize0 ;;;
            push ptr
          else
            (fix go (ps : list ty) (nth : nat) {struct ps} : M unit :=
               match ps with
               | [] => ret tt
               | t :: ps' => emit (GetArg nth) ;;; lower t ;;; go ps' (S nth)
               end) (f_params fn) 0%nat) ;;;
         set_realloc None ;;;
         (match v with
          | GuestImport =>
              if s_retptr sig then
                let '(size, al) := sa_record_tys (opt_list (f_result fn)) in
                ptr <- return_pointer size al ;;
                set_retp (Some ptr) ;;; push ptr
              else ret tt
          | _ => ret tt
          end) ;;;
         s1 <- get ;;
         (if (length (stack s1) =? length (s_params sig))%nat then ret tt else fail SAssertStackParams) ;;;
         emit (CallWasm sig) ;;;
         (if s_retptr sig then
            ptr <- (match v with
                    | GuestImport =>
                        (match s_results sig with [] => ret tt | _ => fail SAssertResultsEmpty end) ;;;
                        s2 <- get ;;
                        (match retp s2 with
                         | Some p => set_retp None ;;; ret p
                         | None => fail SRetptrUnwrap
                         end)
                    | GuestExport => pop
                    | _ => fail SUnreachableRetptrAsync
                    end) ;;
            (match v, async_ with
             | GuestExport, true => push ptr
             | _, _ =>
                 read_result (f_result fn) ptr ;;;
                 emit (Flush (match f_result fn with Some _ => 1 | None => 0 end)%nat)
             end)
          else if negb async_ then
            match f_result fn with Some t => lift t | None => ret tt end
          else ret tt) ;;;
         (if async_ then emit (AsyncTaskReturn (s_results sig))
          else emit (Return (match f_result fn with Some _ => 1 | None => 0 end)%nat))
     | LiftArgsLowerResults =>
         let max_flat_params := match v, async_ with GuestImportAsync, true => 4%nat | _, _ => 16%nat end in
         (if s_indirect sig then
            emit (GetArg 0) ;;;
            ptr <- pop ;;
            (fix go (ps : list ty) (offset : asize) {struct ps} : M unit :=
               match ps with
               | [] => ret tt
               | t :: ps' =>
                   let o := align_to_arch offset (sa_align t) in
                   read t ptr o ;;;
                   go ps' (a_add o (sa_size t))
               end) (f_params fn) asize0
          else
            (fix go (ps : list ty) (offset : nat) {struct ps} : M unit :=
               match ps with
               | [] => ret tt
               | t :: ps' =>
                   match flat_types t max_flat_params with
                   | None => fail SPanicFlatParam
                   | Some types =>
                       mapM_ (fun i => emit (GetArg (offset + i))) (seq 0 (length types)) ;;;
                       lift t ;;;
                       go ps' (offset + length types)%nat
                   end
               end) (f_params fn) 0%nat) ;;;
         emit (CallInterface (length (f_params fn)) (match f_result fn with Some _ => true | None => false end) async_) ;;;
         let '(lower_to_memory, async_flat_results) :=
           if async_ then
             let results := match f_result fn with
                            | Some t => flat_types t max_flat_params
                            | None => Some []
                            end in
             (match results with None => true | Some _ => false end, Some results)
           else (s_retptr sig, None) in
         (if is_export v && s_indirect sig && negb async_ then
            let '(size, al) := sa_record_tys (f_params fn) in
            emit (GetArg 0) ;;; emit (GuestDeallocate size al)
          else ret tt) ;;;
         set_realloc (Some realloc_v) ;;;
         (if negb lower_to_memory then
            match f_result fn with Some t => lower t | None => ret tt end
          else
            match s_retptr sig, v with
            | true, (GuestImport | GuestImportAsync) =>
                emit (GetArg (length (s_params sig) - 1)) ;;;
                ptr <- pop ;;
                write_result (f_result fn) ptr
            | _, (GuestExport | GuestExportAsync) =>
                let '(size, al) := sa_record_tys (opt_list (f_result fn)) in
                ptr <- return_pointer size al ;;
                write_result (f_result fn) ptr ;;;
                push ptr
            | _, (GuestImport | GuestImportAsync) => fail SUnreachableLowerNoRetptr
            | _, GuestExportAsyncStackful => fail STodoStackful
            end) ;;;
         (match v, async_flat_results with
          | (GuestImport | GuestImportAsync), None =>
              if async_ then fail SUnreachableAsyncImportNoReturn
              else emit (Return (length (s_results sig)))
          | (GuestImport | GuestImportAsync), Some results =>
              if async_ then emit (AsyncTaskReturn (match results with Some r => r | None => [] end))
              else emit (AsyncTaskReturn (match results with Some r => r | None => [WPtr] end))
          | _, Some results => emit (AsyncTaskReturn (match results with Some r => r | None => [WPtr] end))
          | _, None =>
              if async_ then
                emit (AsyncTaskReturn (if (4 <? length (s_results sig))%nat then [WPtr] else s_results sig))
              else emit (Return (length (s_results sig)))
          end) ;;;
         set_realloc None
     end) ;;;
    s3 <- get ;;
    (match realloc s3 with None => ret tt | Some _ => fail SReallocSet end) ;;;
    stack_must_be_empty.

  Definition post_return (fn : func) : M unit :=
    sig <- get_sig GuestExport fn ;;
    (if s_retptr sig then ret tt else fail SAssertRetptr) ;;;
    emit (GetArg 0) ;;;
    addr <- pop ;;
    deallocate_in_types DLists (opt_list (f_result fn)) [addr] true ;;;
    emit (Return 0).

  Definition guest_export_needs_post_return (fn : func) : bool :=
    match f_result fn with Some t => needs_deallocate DLists t | None => false end.
  Definition guest_export_params_have_allocations (fn : func) : bool :=
    existsb (needs_deallocate DLists) (f_params fn).

  (** ** public entry points (operands handed in by the caller are fresh ids 0, 1, …) *)
  Definition lower_to_memory (t : ty) : M unit :=      (* address = operand 0, value = operand 1 *)
    ids <- fresh 2 ;;
    match ids with
    | [address; value] => set_realloc (Some true) ;;; push value ;;; write t address asize0
    | _ => fail SStackUnderflow
    end.
  Definition lower_flat (t : ty) : M unit :=           (* value = operand 0; result = the final stack *)
    ids <- fresh 1 ;;
    match ids with
    | [value] => push value ;;; set_realloc (Some true) ;;; lower t
    | _ => fail SStackUnderflow
    end.
  Definition lift_from_memory (t : ty) : M unit :=     (* address = operand 0; result = the final stack top *)
    ids <- fresh 1 ;;
    match ids with
    | [address] => read t address asize0
    | _ => fail SStackUnderflow
    end.
End gen.
