(** [Resolve::wasm_signature] (as modelled in Sig.v) is the canonical ABI's [flatten_functype]. *)
From Coq Require Import List ZArith NArith Bool Lia Arith.
From WB Require Import Wit.Ty Canon.Spec Abi.Sig Abi.Instr Abi.Cast Abi.CastSem Abi.CastProofs Abi.SigProofs.
Import ListNotations.

(** The spec (definitions.py [flatten_functype]); [ptr] is the pointer core type at this width. *)
Definition spec_functype (pw : N) (v : abi_variant) (fn : func) : list ct * list ct :=
  let ptr := ptr_ct pw in
  let fp := concat (map (Spec.flatten pw) (f_params fn)) in
  let fr := match f_result fn with Some t => Spec.flatten pw t | None => [] end in
  let p16 := if (16 <? length fp)%nat then [ptr] else fp in
  let p4 := if (4 <? length fp)%nat then [ptr] else fp in
  match v with
  | GuestImport => if (1 <? length fr)%nat then (p16 ++ [ptr], []) else (p16, fr)
  | GuestExport => if (1 <? length fr)%nat then (p16, [ptr]) else (p16, fr)
  | GuestImportAsync => if (0 <? length fr)%nat then (p4 ++ [ptr], [CI32]) else (p4, [CI32])
  | GuestExportAsync => (p16, [CI32])            (* callback ABI: the core function returns a status code *)
  | GuestExportAsyncStackful => (p16, [])
  end.

Lemma wflat_nonempty t : valid_ty t = true -> wflat t <> [].
Proof.
  induction t using ty_ind'; cbn [valid_ty wflat]; intros Hv; try discriminate.
  - (* fixed *) apply andb_prop in Hv. destruct Hv as [Hv Hn].
    apply N.ltb_lt in Hn. specialize (IHt Hv).
    destruct (N.to_nat n) eqn:E; [lia|]. cbn [repeat concat].
    destruct (wflat t); [congruence | discriminate].
  - (* record *) apply andb_prop in Hv. destruct Hv as [Hne Hall].
    destruct fs as [|f fs]; [discriminate|]. cbn [map concat].
    inversion H as [|? ? Hf Hfs]; subst. cbn [forallb] in Hall. apply andb_prop in Hall.
    specialize (Hf (proj1 Hall)). destruct (wflat f); [congruence | discriminate].
  - (* tuple *) apply andb_prop in Hv. destruct Hv as [Hne Hall].
    destruct ts as [|f fs]; [discriminate|]. cbn [map concat].
    inversion H as [|? ? Hf Hfs]; subst. cbn [forallb] in Hall. apply andb_prop in Hall.
    specialize (Hf (proj1 Hall)). destruct (wflat f); [congruence | discriminate].
  - (* flags *) apply N.ltb_lt in Hv. unfold flags_count.
    destruct (N.eqb_spec n 0); [lia|].
    destruct (N.leb_spec n 16).
    + cbn. discriminate.
    + assert (1 <= (n + 31) / 32)%N by (apply N.div_le_lower_bound; lia).
      destruct (N.to_nat ((n + 31) / 32)) eqn:E; [lia|]. cbn. discriminate.
Qed.

Lemma push_flat_list_spec ps cap :
  push_ok (ft_new cap) (concat (map wflat ps)) (push_flat_list ps (ft_new cap)).
Proof.
  unfold push_flat_list.
  apply (push_list_ok ps).
  - apply Forall_forall. intros x _. apply push_flat_spec.
  - unfold wf. cbn. lia.
Qed.

Lemma concat_map_resolve pw ps : pw = 4%N \/ pw = 8%N ->
  map (resolve pw) (concat (map wflat ps)) = concat (map (Spec.flatten pw) ps).
Proof.
  intros Hpw. rewrite concat_map, map_map. f_equal.
  apply map_ext. intros t. apply wflat_is_spec_flatten. exact Hpw.
Qed.

Lemma params_fact ps ok p max :
  push_flat_list ps (ft_new 17) = (ok, p) -> (max <= 16)%nat ->
  (negb ok || (max <? ft_cur p)%nat) = (max <? length (concat (map wflat ps)))%nat
  /\ ((max <? length (concat (map wflat ps)))%nat = false -> ft_types p = concat (map wflat ps)).
Proof.
  intros E Hmax. pose proof (push_flat_list_spec ps 17) as Hp. rewrite E in Hp.
  unfold push_ok in Hp. cbn [ft_new ft_types ft_cap length] in Hp. rewrite Nat.add_0_l in Hp.
  destruct (Nat.leb_spec (length (concat (map wflat ps))) 17) as [Hfit|Hfit].
  - injection Hp as -> ->. unfold ft_cur. cbn [negb orb mk ft_types ft_new app]. split; [reflexivity|]. reflexivity.
  - destruct Hp as [Hok _]. cbn [fst] in Hok. subst ok. cbn [negb orb]. split.
    + symmetry. apply Nat.ltb_lt. lia.
    + intros H. apply Nat.ltb_ge in H. lia.
Qed.

Lemma result_fact t rok r :
  push_flat t (ft_new 1) = (rok, r) ->
  ft_over r = (1 <? length (wflat t))%nat /\ ((1 <? length (wflat t))%nat = false -> ft_types r = wflat t).
Proof.
  intros E. pose proof (push_flat_spec t (ft_new 1)) as H.
  assert (Hw : wf (ft_new 1)) by (unfold wf; cbn; lia).
  specialize (H Hw). rewrite E in H. unfold push_ok in H. cbn [ft_new ft_types ft_cap length] in H.
  rewrite Nat.add_0_l in H.
  destruct (Nat.leb_spec (length (wflat t)) 1) as [Hfit|Hfit].
  - injection H as -> ->. cbn [mk ft_over ft_types ft_new app]. split.
    + symmetry. apply Nat.ltb_ge. exact Hfit.
    + reflexivity.
  - destruct H as [_ [_ Hov]]. cbn [snd] in Hov. rewrite Hov. split.
    + symmetry. apply Nat.ltb_lt. exact Hfit.
    + intros H. apply Nat.ltb_ge in H. lia.
Qed.

(** For every signature of valid types (methods excluded: exported methods take the resource rep as a
    pointer, which differs from the spec's i32 only on a 64-bit layout), every ABI variant and both pointer
    widths, wit-parser's signature is the canonical one; [s_indirect] says whether the flat-parameter limit
    (16, or 4 for async imports) was crossed and [s_retptr] whether the result goes through memory. *)
Theorem wasm_signature_is_canonical pw v fn :
  pw = 4%N \/ pw = 8%N ->
  f_method fn = false ->
  match f_result fn with Some t => valid_ty t = true | None => True end ->
  exists s, wasm_signature v fn = SigOk s
    /\ (map (resolve pw) (s_params s), map (resolve pw) (s_results s)) = spec_functype pw v fn
    /\ s_indirect s = (match v with GuestImportAsync => 4 | _ => 16 end <? length (concat (map (Spec.flatten pw) (f_params fn))))%nat.
Proof.
  intros Hpw Hm Hres.
  unfold wasm_signature, spec_functype. rewrite Hm.
  rewrite <- (concat_map_resolve pw (f_params fn) Hpw). rewrite map_length.
  set (FP := concat (map wflat (f_params fn))) in *.
  destruct (push_flat_list (f_params fn) (ft_new 17)) as [ok p] eqn:E.
  assert (Hptr : resolve pw WPtr = ptr_ct pw) by reflexivity.
  set (max := match v with GuestImportAsync => 4%nat | _ => 16%nat end).
  assert (Hmax : (max <= 16)%nat) by (destruct v; cbn; lia).
  destruct (params_fact (f_params fn) ok p max E Hmax) as [Hind Htys]. fold FP in Hind, Htys.
  rewrite Hind. rewrite andb_false_r. cbn [andb].
  assert (Hp : map (resolve pw) (if (max <? length FP)%nat then [WPtr] else ft_types p)
               = if (max <? length FP)%nat then [ptr_ct pw] else map (resolve pw) FP).
  { destruct (max <? length FP)%nat eqn:Hlt; [reflexivity|]. rewrite (Htys eq_refl). reflexivity. }
  assert (Hlen : (length (if (max <? length FP)%nat then [WPtr] else ft_types p) <? 17)%nat = true).
  { apply Nat.ltb_lt. destruct (max <? length FP)%nat eqn:Hlt; [cbn; lia|].
    rewrite (Htys eq_refl). apply Nat.ltb_ge in Hlt. lia. }
  destruct (f_result fn) as [t|] eqn:Er.
  - pose proof (wflat_nonempty t Hres) as Hne.
    pose proof (wflat_is_spec_flatten pw t Hpw) as Hfl. unfold flat_agrees in Hfl.
    rewrite <- Hfl. rewrite map_length.
    assert (Hpos : (0 <? length (wflat t))%nat = true).
    { apply Nat.ltb_lt. destruct (wflat t); [congruence | cbn; lia]. }
    destruct (push_flat t (ft_new 1)) as [rok r] eqn:Et.
    destruct (result_fact t rok r Et) as [Hov Hrt].
    destruct v; subst max; cbn [is_export] in *; rewrite ?Hov, ?Hlen, ?Hpos;
      try (destruct (1 <? length (wflat t))%nat eqn:H1);
      eexists; (split; [reflexivity|]); cbn [s_params s_results s_indirect map];
      rewrite ?map_app, ?Hp; cbn [map]; rewrite ?Hptr; try rewrite (Hrt eq_refl); split; reflexivity.
  - destruct v; subst max; cbn [is_export ft_new ft_over ft_types length] in *; rewrite ?Hlen;
      eexists; (split; [reflexivity|]); cbn [s_params s_results s_indirect map];
      rewrite ?map_app, ?Hp; cbn [map Nat.ltb Nat.leb]; rewrite ?Hptr; split; reflexivity.
Qed.
