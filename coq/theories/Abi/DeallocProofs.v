(** C03, decision part: a post-return is generated exactly when the result can hold a heap buffer; the
    lists-and-own mode additionally visits exactly the types that can hold an owned handle. *)
From Coq Require Import List ZArith NArith Bool Lia.
From WB Require Import Wit.Ty Canon.Spec Abi.Sig Abi.Instr Abi.Cast Abi.Gen Abi.CastSem Abi.Sem Abi.Check.
Import ListNotations.

(** the type can hold an owned handle (own / future / stream) at any depth *)
Fixpoint owns_handle (t : ty) : bool :=
  match t with
  | TOwn | TFuture _ | TStream _ => true
  | TList x | TFixed x _ | TOption x => owns_handle x
  | TMap k v => owns_handle k || owns_handle v
  | TRecord fs | TTuple fs => existsb owns_handle fs
  | TVariant cs => existsb (fun c => match c with Some x => owns_handle x | None => false end) cs
  | TResult a b => match a with Some x => owns_handle x | None => false end
                   || match b with Some x => owns_handle x | None => false end
  | _ => false
  end.

Lemma existsb_ext_Forall {A} (f g : A -> bool) l : Forall (fun x => f x = g x) l -> existsb f l = existsb g l.
Proof. induction 1 as [|x l Hx Hl IH]; cbn; [reflexivity | rewrite Hx, IH; reflexivity]. Qed.

Lemma existsb_orb {A} (f g : A -> bool) l : existsb (fun x => f x || g x) l = existsb f l || existsb g l.
Proof.
  induction l as [|x l IH]; cbn; [reflexivity|]. rewrite IH.
  destruct (f x), (g x), (existsb f l), (existsb g l); reflexivity.
Qed.

Theorem needs_deallocate_lists_iff_heap t : needs_deallocate DLists t = has_heap t.
Proof.
  induction t using ty_ind'; cbn [needs_deallocate has_heap handles]; try reflexivity; try assumption.
  - apply existsb_ext_Forall. exact H.
  - apply existsb_ext_Forall. exact H.
  - apply existsb_ext_Forall. eapply Forall_impl; [|exact H]. intros [x|] Hx; [exact Hx | reflexivity].
  - destruct ok as [x|], err as [y|]; cbn [OptP] in *;
      repeat match goal with Hq : needs_deallocate _ _ = _ |- _ => rewrite Hq; clear Hq end; reflexivity.
Qed.

Theorem needs_deallocate_own_iff t : needs_deallocate DListsAndOwn t = has_heap t || owns_handle t.
Proof.
  induction t using ty_ind'; cbn [needs_deallocate has_heap owns_handle handles orb]; try reflexivity; try assumption.
  - rewrite <- existsb_orb. apply existsb_ext_Forall. exact H.
  - rewrite <- existsb_orb. apply existsb_ext_Forall. exact H.
  - rewrite <- existsb_orb. apply existsb_ext_Forall. eapply Forall_impl; [|exact H].
    intros [x|] Hx; [exact Hx | reflexivity].
  - destruct ok as [x|], err as [y|]; cbn [OptP] in *;
      repeat match goal with Hq : needs_deallocate _ _ = _ |- _ => rewrite Hq; clear Hq end;
      repeat match goal with |- context [has_heap ?z] => destruct (has_heap z) end;
      repeat match goal with |- context [owns_handle ?z] => destruct (owns_handle z) end; reflexivity.
Qed.

(** [guest_export_needs_post_return] *)
Theorem post_return_iff_heap fn :
  guest_export_needs_post_return fn = match f_result fn with Some t => has_heap t | None => false end.
Proof.
  unfold guest_export_needs_post_return. destruct (f_result fn); [apply needs_deallocate_lists_iff_heap | reflexivity].
Qed.

Theorem params_have_allocations_iff fn :
  guest_export_params_have_allocations fn = existsb has_heap (f_params fn).
Proof.
  unfold guest_export_params_have_allocations. apply existsb_ext_Forall.
  apply Forall_forall. intros t _. apply needs_deallocate_lists_iff_heap.
Qed.

(** a value of a type that can hold no heap buffer owns no allocation in the spec's lowering *)
Example post_return_examples :
  guest_export_needs_post_return {| f_params := []; f_result := Some TErrCtx; f_method := false |} = false
  /\ guest_export_needs_post_return {| f_params := []; f_result := Some (TFixed TString 3); f_method := false |} = true
  /\ guest_export_needs_post_return {| f_params := []; f_result := Some (TOption (TRecord [TU8; TList TU8])); f_method := false |} = true
  /\ guest_export_needs_post_return {| f_params := [TString]; f_result := Some (TTuple [TOwn; TF64]); f_method := false |} = false.
Proof. vm_compute. repeat split; reflexivity. Qed.
