(** * [Generator::call] for an async (callback) export (GuestExportAsync, LiftArgsLowerResults, async) never panics *)
From Coq Require Import List ZArith NArith Bool Arith Lia.
From WB Require Import Wit.Ty Canon.Spec Abi.Sig Abi.Instr Abi.Cast Abi.Gen Abi.CastProofs Abi.SigProofs Abi.SigFuncProofs
                       Abi.GenDiscipline Abi.GenFlatDiscipline Abi.GenFlatLift Abi.GenCallImport Abi.GenCallExport.
Import ListNotations.

Lemma export_async_sig_facts fn sig : f_method fn = false -> wasm_signature GuestExportAsync fn = SigOk sig ->
  s_indirect sig = (16 <? length (FPs fn))%nat /\ s_retptr sig = false.
Proof.
  intros Hm Hsig. unfold wasm_signature in Hsig. rewrite Hm in Hsig. unfold FPs.
  destruct (push_flat_list (f_params fn) (ft_new 17)) as [ok p] eqn:E.
  destruct (params_fact (f_params fn) ok p 16 E (le_n 16)) as [Hind Htys].
  rewrite Hind in Hsig.
  destruct (16 <? length (concat (map wflat (f_params fn))))%nat eqn:Ei; cbn [negb andb orb] in Hsig;
    injection Hsig as <-; cbn; split; reflexivity.
Qed.

Theorem call_export_async_ok canon fn sig :
  f_method fn = false ->
  forallb valid_ty (f_params fn) = true ->
  wasm_signature GuestExportAsync fn = SigOk sig ->
  ok_with (call canon fn GuestExportAsync LiftArgsLowerResults true) gst0 (fun _ s' => stack s' = [] /\ realloc s' = None).
Proof.
  intros Hm Hvp Hsig.
  destruct (export_async_sig_facts fn sig Hm Hsig) as [Hind Hrp].
  unfold call, get_sig. rewrite Hsig.
  apply ok_bind. unfold ok_with at 1, ret.
  apply ok_bind. unfold ok_with at 1, get.
  apply ok_bind. unfold ok_with at 1. cbn [gst0 realloc ret].
  apply ok_bind.
  eapply ok_weaken with (P := fun _ s' => stack s' = [] /\ realloc s' = None).
  2:{ intros [] s' [Hs' Hr']. apply ok_bind. unfold ok_with at 1, get. rewrite Hr'.
      apply ok_bind. unfold ok_with at 1, ret.
      unfold stack_must_be_empty, ok_with, bind, get. rewrite Hs'. unfold ret. split; assumption. }
  (* phase A: lift the parameters *)
  apply ok_bind.
  eapply ok_weaken with (P := fun _ s1 => exists P, stack s1 = P /\ length P = length (f_params fn) /\ realloc s1 = None).
  { rewrite Hind. destruct (16 <? length (FPs fn))%nat eqn:Ei.
    - eapply ok_seq; [eapply (ok_emit0 (GetArg 0) gst0 []); reflexivity|]. intros s1 Hs1 Hf1.
      cbn [results_len seq rev app] in Hs1.
      apply ok_bind. eapply ok_pop'; [exact Hs1|]. intros s2 Hs2 Hf2.
      eapply ok_weaken; [eapply (read_params_ok canon _ (f_params fn) asize0 s2 [] Hs2)|].
      intros [] s3 [vals [Hvl [Hs3 Hf3]]]. exists vals. rewrite app_nil_r in Hs3.
      split; [exact Hs3|]. split; [exact Hvl|].
      destruct Hf3 as [Hq3 _]. destruct Hf2 as [Hq2 _]. destruct Hf1 as [Hq1 _]. cbn [gst0 realloc] in Hq1. congruence.
    - apply Nat.ltb_ge in Ei.
      eapply ok_weaken; [eapply (lift_params_ok canon (f_params fn) 0 gst0 [] (fits_params fn Ei) Hvp); reflexivity|].
      intros [] s3 [vals [Hvl [Hs3 Hf3]]]. exists vals. rewrite app_nil_r in Hs3.
      split; [exact Hs3|]. split; [exact Hvl|]. destruct Hf3 as [Hq3 _]. cbn [gst0 realloc] in Hq3. exact Hq3. }
  intros [] s1 [P [Hs1 [HlP Hr1]]].
  (* phase B: the interface call *)
  eapply ok_seqn.
  { eapply (ok_emit_n (CallInterface _ _ true) s1 P []); [rewrite app_nil_r; exact Hs1 | cbn [operands_len]; exact HlP]. }
  intros s2 R HlR Hs2 Hf2. cbn [results_len] in HlR. rewrite app_nil_r in Hs2.
  assert (Hr2 : realloc s2 = None) by (destruct Hf2 as [Hq _]; congruence).
  cbn [negb is_export andb]. rewrite andb_false_r.
  apply ok_bind. unfold ok_with at 1, ret.
  apply ok_bind. eapply ok_weaken; [apply ok_set_realloc|]. intros [] s4 [Hs4 [Hr4 Hp4]].
  (* phase D: the result goes to task.return, flat iff it fits 16 *)
  destruct (f_result fn) as [t|] eqn:Eres.
  - rewrite flat_types_spec.
    destruct R as [|v [|? ?]]; try discriminate HlR.
    destruct (Nat.leb_spec (length (wflat t)) 16) as [Hfit|Hbig]; cbn [negb].
    + (* flat *)
      apply ok_bind.
      eapply ok_weaken.
      { eapply (lower_ok canon t) with (x := v) (st := []) (r := false); [exact Hfit | congruence | congruence]. }
      intros [] s5 [vals [Hvl [Hs5 Hf5]]]. rewrite app_nil_r in Hs5.
      apply ok_bind.
      eapply ok_weaken; [eapply (ok_emit_stk (AsyncTaskReturn (wflat t)) s5 vals []); [rewrite app_nil_r; exact Hs5 | exact Hvl]|].
      intros [] s6 [Hs6 Hf6]. cbn [results_len seq rev app] in Hs6.
      eapply ok_weaken; [apply ok_set_realloc|]. intros [] s7 [Hs7 [Hr7 _]]. split; congruence.
    + (* through a return area *)
      rewrite Hrp.
      apply ok_bind.
      eapply ok_weaken with (P := fun _ s5 => exists p, stack s5 = [p] /\ realloc s5 = Some false).
      { cbn [opt_list]. destruct (sa_record_tys [t]) as [size al].
        apply ok_bind. eapply ok_weaken; [apply ok_return_pointer|]. intros ptr sb [Hsb [Hrb Hpb]].
        eapply ok_seq with (st := []).
        { cbn [write_result]. apply ok_bind. eapply (ok_pop' sb v []); [congruence|]. intros sc Hsc Hfc.
          eapply ok_seq; [eapply ok_push'; exact Hsc|]. intros sd Hsd Hfd.
          eapply ok_weaken.
          { eapply (write_ok canon t ptr _ sd v [] false Hsd).
            destruct Hfd as [Hq1 _]. destruct Hfc as [Hq2 _]. congruence. }
          intros [] se [H1 H2]. split; [exact H1 | fr]. }
        intros sc Hsc Hfc.
        eapply ok_weaken; [eapply ok_push'; exact Hsc|]. intros [] sd [Hsd Hfd].
        exists ptr. split; [exact Hsd|]. destruct Hfd as [Hq1 _]. destruct Hfc as [Hq2 _]. congruence. }
      intros [] s5 [p [Hs5 Hr5]].
      apply ok_bind.
      eapply ok_weaken; [eapply (ok_emit1 (AsyncTaskReturn [WPtr]) s5 p []); [exact Hs5 | reflexivity]|].
      intros [] s6 [Hs6 Hf6]. cbn [results_len seq rev app] in Hs6.
      eapply ok_weaken; [apply ok_set_realloc|]. intros [] s7 [Hs7 [Hr7 _]]. split; congruence.
  - (* no result *)
    cbn [negb]. destruct R; [|discriminate HlR].
    apply ok_bind. unfold ok_with at 1, ret.
    apply ok_bind.
    eapply ok_weaken; [eapply (ok_emit0 (AsyncTaskReturn []) s4 []); [congruence | reflexivity]|].
    intros [] s6 [Hs6 Hf6]. cbn [results_len seq rev app] in Hs6.
    eapply ok_weaken; [apply ok_set_realloc|]. intros [] s7 [Hs7 [Hr7 _]]. split; congruence.
Qed.
