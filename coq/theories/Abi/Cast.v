(** Model of [abi::cast] (crates/core/src/abi.rs): which [Bitcast] converts a core value of type [from]
    into the slot type [to]; [None] is the Rust [unreachable!("Don't know how to bitcast …")]. *)
From Coq Require Import List ZArith NArith Bool.
From WB Require Import Wit.Ty Abi.Sig Abi.Instr.
Import ListNotations.

Definition cast_simple (from to : wt) : option bitcast :=
  match from, to with
  | WI32, WI32 | WI64, WI64 | WF32, WF32 | WF64, WF64 | WPtr, WPtr | WPtr64, WPtr64 | WLen, WLen => Some BNone
  | WI32, WI64 => Some BI32ToI64
  | WF32, WI32 => Some BF32ToI32
  | WF64, WI64 => Some BF64ToI64
  | WI64, WI32 => Some BI64ToI32
  | WI32, WF32 => Some BI32ToF32
  | WI64, WF64 => Some BI64ToF64
  | WF32, WI64 => Some BF32ToI64
  | WI64, WF32 => Some BI64ToF32
  | WI64, WPtr64 => Some BI64ToP64
  | WPtr, WPtr64 => Some BPToP64
  | WPtr64, WI64 => Some BP64ToI64
  | WPtr64, WPtr => Some BP64ToP
  | WI32, WPtr => Some BI32ToP
  | WPtr, WI32 => Some BPToI32
  | WI32, WLen => Some BI32ToL
  | WLen, WI32 => Some BLToI32
  | WI64, WLen => Some BI64ToL
  | WLen, WI64 => Some BLToI64
  | WPtr, WLen => Some BPToL
  | WLen, WPtr => Some BLToP
  | _, _ => None
  end.

Definition seq2 (a b : option bitcast) : option bitcast :=
  match a, b with Some x, Some y => Some (BSeq x y) | _, _ => None end.

(** The recursion of the Rust function is at most two levels deep; it is unfolded here. *)
Definition cast (from to : wt) : option bitcast :=
  match from, to with
  | (WI32 | WF32 | WF64 | WLen), WPtr64 => seq2 (cast_simple from WI64) (cast_simple WI64 WPtr64)
  | WPtr64, (WI32 | WF32 | WF64 | WLen) => seq2 (cast_simple WPtr64 WI64) (cast_simple WI64 to)
  | WF32, (WPtr | WLen) => seq2 (cast_simple WF32 WI32) (cast_simple WI32 to)
  | (WPtr | WLen), WF32 => seq2 (cast_simple from WI32) (cast_simple WI32 WF32)
  | _, _ => cast_simple from to
  end.
