(** C04: slot joining is total on the pairs that arise, lossless, and coincides with the canonical ABI's
    reinterpret / zero-extend / wrap rules. *)
From Coq Require Import List ZArith NArith Bool Lia.
From WB Require Import Wit.Ty Canon.Spec Abi.Sig Abi.Instr Abi.Cast Abi.CastSem.
Import ListNotations.
Local Open Scope N_scope.

(** * [wjoin] is a semilattice and agrees with the spec's [join] at both pointer widths *)
Lemma wjoin_comm a b : wjoin a b = wjoin b a.
Proof. destruct a, b; reflexivity. Qed.
Lemma wjoin_idem a : wjoin a a = a.
Proof. destruct a; reflexivity. Qed.
Lemma wjoin_assoc a b c : wjoin (wjoin a b) c = wjoin a (wjoin b c).
Proof. destruct a, b, c; reflexivity. Qed.

Lemma wjoin_resolve pw a b : pw = 4 \/ pw = 8 ->
  resolve pw (wjoin a b) = Spec.join (resolve pw a) (resolve pw b).
Proof. intros [-> | ->]; destruct a, b; reflexivity. Qed.

(** [a <= j]: [j] absorbs [a]. *)
Definition wle (a j : wt) : Prop := wjoin a j = j.

Lemma wle_join_l a b : wle a (wjoin a b).
Proof. unfold wle. rewrite <- wjoin_assoc, wjoin_idem. reflexivity. Qed.
Lemma wle_join_r a b : wle b (wjoin a b).
Proof. rewrite wjoin_comm. apply wle_join_l. Qed.
Lemma wle_trans a b c : wle a b -> wle b c -> wle a c.
Proof. unfold wle. intros H1 H2. rewrite <- H2, <- wjoin_assoc, H1. reflexivity. Qed.
Lemma wle_refl a : wle a a.
Proof. apply wjoin_idem. Qed.

(** The slot type after folding any list of case types into it absorbs each of them. *)
Lemma wle_fold_join (l : list wt) (acc a : wt) :
  wle a acc \/ In a l -> wle a (fold_left wjoin l acc).
Proof.
  revert acc. induction l as [|x l IH]; intros acc [H|H]; cbn [fold_left].
  - exact H.
  - destruct H.
  - apply IH. left. eapply wle_trans; [exact H | apply wle_join_l].
  - destruct H as [<- | H].
    + apply IH. left. apply wle_join_r.
    + apply IH. right. exact H.
Qed.

(** * Totality: the generator can convert every pair that arises *)
Lemma cast_total_le a j : wle a j -> cast a j <> None /\ cast j a <> None.
Proof. unfold wle. destruct a, j; cbn; intros H; try discriminate H; split; discriminate. Qed.

Theorem cast_total a b :
  cast a (wjoin a b) <> None /\ cast (wjoin a b) a <> None.
Proof. apply cast_total_le, wle_join_l. Qed.

(** and conversely the pairs the Rust code declares unreachable are never related by join *)
Lemma cast_none_not_le a j : cast a j = None -> ~ wle a j /\ ~ wle j a.
Proof. unfold wle. destruct a, j; cbn; intros H; try discriminate H; split; discriminate. Qed.

(** * Round trip and agreement with the spec *)
Definition casted (pw : N) (from to : wt) (x : N) : N :=
  match cast from to with Some c => cast_sem pw c x | None => x end.

Lemma pow2_le_mono a b : a <= b -> 2 ^ a <= 2 ^ b.
Proof. intros. apply N.pow_le_mono_r; lia. Qed.

Lemma trunc_small bits x : x < 2 ^ bits -> trunc bits x = x.
Proof. intros. unfold trunc. apply N.mod_small. exact H. Qed.

Lemma lt_pow2_mono a b x : a <= b -> x < 2 ^ a -> x < 2 ^ b.
Proof. intros Hab Hx. eapply N.lt_le_trans; [exact Hx | apply pow2_le_mono; exact Hab]. Qed.

(** Lowering into the joined slot is the identity on bit patterns (reinterpret / zero-extend). *)
Theorem cast_up_is_zero_extend pw a j x : pw = 4 \/ pw = 8 -> wle a j ->
  casted pw a j x = x \/ x >= 2 ^ wt_bits pw a.
Proof.
  intros Hpw H. unfold wle in H.
  destruct (N.lt_ge_cases x (2 ^ wt_bits pw a)) as [Hx | Hx]; [left | right; lia].
  destruct Hpw as [-> | ->]; destruct a, j; cbn in H; try discriminate H; cbn in Hx |- *;
    unfold casted; cbn; try reflexivity;
    repeat (rewrite trunc_small; [|first [exact Hx | eapply lt_pow2_mono; [|exact Hx]; cbn; lia]]); reflexivity.
Qed.

(** Lifting out of the joined slot keeps the low bits of the case's own width (wrap / reinterpret). *)
Theorem cast_down_is_wrap pw a j y : pw = 4 \/ pw = 8 -> wle a j -> y < 2 ^ wt_bits pw j ->
  casted pw j a y = trunc (wt_bits pw a) y.
Proof.
  intros Hpw H Hy. unfold wle in H.
  destruct Hpw as [-> | ->]; destruct a, j; cbn in H; try discriminate H; cbn in Hy |- *;
    unfold casted; cbn; try reflexivity;
    try (symmetry; apply trunc_small; first [exact Hy | eapply lt_pow2_mono; [|exact Hy]; cbn; lia]);
    try (rewrite (trunc_small 64) by (first [exact Hy | eapply lt_pow2_mono; [|exact Hy]; cbn; lia]); reflexivity);
    try (rewrite (trunc_small 32) by (first [exact Hy | eapply lt_pow2_mono; [|exact Hy]; cbn; lia]);
         symmetry; apply trunc_small; first [exact Hy | eapply lt_pow2_mono; [|exact Hy]; cbn; lia]).
Qed.

Theorem cast_roundtrip pw a b x : pw = 4 \/ pw = 8 -> x < 2 ^ wt_bits pw a ->
  casted pw (wjoin a b) a (casted pw a (wjoin a b) x) = x.
Proof.
  intros Hpw Hx.
  pose proof (wle_join_l a b) as Hle.
  destruct (cast_up_is_zero_extend pw a (wjoin a b) x Hpw Hle) as [-> | Hge]; [|lia].
  rewrite cast_down_is_wrap; [apply trunc_small; exact Hx | exact Hpw | exact Hle |].
  eapply lt_pow2_mono; [|exact Hx].
  unfold wle in Hle. destruct Hpw as [-> | ->]; destruct a, b; cbn; lia.
Qed.

(** agreement with Spec.coerce_down (lift_flat_variant) and with the identity retagging of
    lower_flat_variant, at the resolved core types *)
Theorem cast_down_matches_spec pw a j y : pw = 4 \/ pw = 8 -> wle a j -> y < 2 ^ wt_bits pw j ->
  Spec.coerce_down (resolve pw a) y = (resolve pw a, casted pw j a y).
Proof.
  intros Hpw H Hy. rewrite cast_down_is_wrap by assumption.
  unfold Spec.coerce_down, trunc. f_equal.
  destruct Hpw as [-> | ->]; destruct a; reflexivity.
Qed.

(** Exhaustive table (finite domain, lifted with forallb_forall): every ordered pair related by join
    has both conversions, every other ordered pair of distinct types has none. *)
Definition pairs : list (wt * wt) := list_prod all_wt all_wt.
Definition pair_ok (p : wt * wt) : bool :=
  let '(a, b) := p in
  let j := wjoin a b in
  match cast a j, cast j a with Some _, Some _ => true | _, _ => false end.
Lemma all_pairs_ok : forallb pair_ok pairs = true.
Proof. vm_compute. reflexivity. Qed.
Theorem cast_total_table a b : In (a, b) pairs -> pair_ok (a, b) = true.
Proof. intros H. exact (proj1 (forallb_forall pair_ok pairs) all_pairs_ok (a, b) H). Qed.

(** Non-vacuity: a 64-bit float stored in a slot shared with a pointer, on wasm32 and wasm64. *)
Example roundtrip_example :
  wjoin WF64 WPtr = WPtr64 /\ wjoin WF32 WLen = WLen /\
  casted 4 WPtr64 WF64 (casted 4 WF64 WPtr64 13830554455654793216) = 13830554455654793216 /\
  casted 8 WLen WF32 (casted 8 WF32 WLen 1078530011) = 1078530011 /\
  casted 4 WI64 WI32 4294967298 = 2.
Proof. vm_compute. repeat split; reflexivity. Qed.
