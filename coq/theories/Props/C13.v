(** C13 — Every backend's core imports/exports match the world's canonical ABI.
    LEVEL: translation validation.  [CoreDecls.expected] is the specification (the legacy core names and
    core signatures the component model assigns to the items of a world; tied to wit-parser's
    wasm_import_name / wasm_export_name / wasm_signature and wit-component's dummy_module on every world
    explored); [CoreDecls.check_decls] is the checker that is run (extracted) on the declarations scraped
    from every generated binding.  The theorems below are the proof obligation of that checker: what an
    empty error list means, for ALL worlds and ALL declaration lists. *)
From Coq Require Import List String.
From WB Require Import Valid.CoreDecls Valid.CoreDeclsProofs.
Import ListNotations.

(** Soundness.  If the checker reports nothing then
    (1) every scraped declaration is, by direction, module, field and core signature, an item the
        component model assigns to the world (so no import is unresolvable and no export is silently
        ignored by the encoder), and an [async-lift] export comes with its callback;
    (2) for every export the world requires, one of its admissible core exports is declared;
    (3) no two exports share a name. *)
Theorem C13_check_decls_sound : forall w ds,
  check_decls w ds = [] ->
  (forall d, In d ds ->
     exists i, In i (expected w) /\ decl_is d i /\
               (forall n, ci_needs i = Some n -> In n (export_names ds)))
  /\ (forall alts, In alts (required w) -> exists n, In n alts /\ In n (export_names ds))
  /\ NoDup (export_names ds).
Proof. exact check_decls_sound. Qed.

(** (2) spelled out: every exported function of the world (world level or in an exported interface)
    has its sync export or, if its WIT type is async, an async-lift / async-lift-stackful export. *)
Theorem C13_every_exported_function_present : forall w ds,
  check_decls w ds = [] ->
  (forall f, In f (w_exp_funcs w) ->
     In (sync_export None f) (export_names ds) \/
     (f_async f = true /\ (In (async_export None f) (export_names ds) \/ In (stackful_export None f) (export_names ds))))
  /\ (forall i f, In i (w_exp_ifaces w) -> In f (i_funcs i) ->
     let k := Some (i_key i) in
     In (sync_export k f) (export_names ds) \/
     (f_async f = true /\ (In (async_export k f) (export_names ds) \/ In (stackful_export k f) (export_names ds)))).
Proof. exact check_decls_exports_every_function. Qed.

(** Completeness (no false alarms): on a world whose table is unambiguous (checked per world by the
    extracted [unambiguous]) every declaration list with properties (1)-(3) passes. *)
Theorem C13_check_decls_complete : forall w ds,
  NoDup (map (fun i => (ci_dir i, ci_module i, ci_field i)) (expected w)) ->
  (forall d, In d ds ->
     exists i, In i (expected w) /\ decl_is d i /\
               (forall n, ci_needs i = Some n -> In n (export_names ds))) ->
  (forall alts, In alts (required w) -> exists n, In n alts /\ In n (export_names ds)) ->
  NoDup (export_names ds) ->
  check_decls w ds = [].
Proof. exact check_decls_complete. Qed.

(** Non-vacuity: [ex_ok_passes] (a world with an exported resource, a sync and an async function with a
    stream payload; ten declarations pass), [ex_snake_dtor_rejected] (the C backend's `#[dtor]my_thing`),
    [ex_async_on_sync_rejected], [ex_missing_callback_rejected], [ex_missing_export_rejected]
    in Valid/CoreDeclsProofs.v. *)
Example C13_nonvacuous : check_decls ex_w ex_ok = [] /\ ex_ok <> [] /\ required ex_w <> [].
Proof. split; [exact ex_ok_passes|split; discriminate]. Qed.

Print Assumptions C13_check_decls_sound.
Print Assumptions C13_every_exported_function_present.
Print Assumptions C13_check_decls_complete.
