(** C20 — Futures deliver exactly one value and never strand a writer.
    Model: WB.Async.FutureOp (crates/guest-rust/src/rt/async_support/future_support.rs on top of
    waitable.rs, against the component-model host future of harness/crates/rtmock).
    Tie: harness/crates/rtmock/src/bin/futures.rs (the REAL FutureWriter / FutureReader) vs the extracted
    model on seeded scenario lines (checks/c20.py).

    Quantifier of every theorem: ALL traces [tr : list act] — future creation (own / imported), write,
    poll, cancel, drop of either end and of in-progress operations, transfer of the readable end, the
    peer's reads / writes / drop of its end, and delivery of any pending event in any order — for both
    task C-ABI versions [v2], payloads with and without heap data ([ANew true|false]).  An action that is
    not applicable is a no-op ([=skip]); polling / cancelling an operation that has already completed
    is the runtime's documented panic and ends the run ([s_ok = false]). *)
From Coq Require Import NArith ZArith List Bool.
From WB Require Import Async.FutureOp Async.FutureOpReach Async.FutureOpChecks Async.FutureOpProofs.
Import ListNotations.

(** (1) No host trap is reachable from the public API — in particular [future.drop-writable] is never
    called on an end that has neither written nor seen the reader go away ([TrDropUnwritten]), no
    operation is started on a busy / finished end, nothing is cancelled while joined to a set, no
    completion callback outlives its operation — and none of the runtime's "unreachable" panics
    (unexpected return code, poll after cancel) is reachable either. *)
Theorem C20_no_host_trap : forall v2 tr, clean_log (s_log (exec v2 tr)) = true.
Proof. exact (fun v2 tr => si_clean _ (exec_inv v2 tr)). Qed.

Theorem C20_no_trap_token : forall v2 tr f t, ~ In (ETok f (KTrap t)) (s_log (exec v2 tr)).
Proof. exact no_trap_entry. Qed.

Theorem C20_only_documented_panics : forall v2 tr f p,
  In (ETok f (KOut (OPanic p))) (s_log (exec v2 tr)) -> p = PRepoll \/ p = PRecancel.
Proof. exact no_bad_panic_entry. Qed.

(** The host model does trap when asked to: dropping the writable end of a fresh future. *)
Example trap_is_expressible :
  clean_toks (mlog (h_drop EW (mkMs true (fut0 false false) false []))) = false.
Proof. reflexivity. Qed.

(** (2) Exactly once.  For every future of every run: the host moves at most one value
    ([xfer]); what the readable side obtained (lifted by the guest's reader, or received by the peer)
    is nothing yet or exactly that value — never two, never another one; what the writing side was
    told was delivered is nothing yet or exactly that value; that value is one that was written
    (the user's, the default closure's, or — imported future — the peer's); and a user write is
    accepted only while no value has been moved (so "the user's value" is unambiguous). *)
Theorem C20_exactly_once : forall v2 tr sf,
  s_ok (exec v2 tr) = true -> In sf (futs (exec v2 tr)) ->
  let c := core sf in
  let yielded := got (fg c) ++ peer_recv (fh c) in
  (length (xfer (fg c)) <= 1)%nat
  /\ (yielded = [] \/ yielded = xfer (fg c))
  /\ (sent (fg c) = [] \/ sent (fg c) = xfer (fg c))
  /\ (forall v, In v (xfer (fg c)) -> provenance_ok c v = true)
  /\ (write_ready c = true -> xfer (fg c) = []).
Proof. exact exec_exactly_once. Qed.

(** (3) [FutureWrite::cancel] answers [AlreadySent | Dropped v | Cancelled v (+ the writer)] exactly as
    the host's code says ([wcancel_spec], [wcancel_writer_back] in FutureOpChecks.v: the code is the
    one delivered earlier to the operation, else the return value of the single [future.cancel-write]
    call; never polled = [Cancelled v] without any call), whatever the state the run is in; likewise
    [FutureRead::cancel] ([Ok value-moved-by-the-host | Err reader]). *)
Theorem C20_cancel_reports_host_code : forall v2 tr i sf,
  s_ok (exec v2 tr) = true -> nth_error (futs (exec v2 tr)) i = Some sf ->
  forall s,
  let '(ok, c1, _, toks) := cstep v2 s (core sf) FWCancel in
  wcancel_spec (core sf) toks = true /\ (ok = true -> wcancel_writer_back (core sf) c1 toks = true).
Proof. exact exec_cancel. Qed.

Theorem C20_read_cancel_reports_host_code : forall v2 tr i sf,
  s_ok (exec v2 tr) = true -> nth_error (futs (exec v2 tr)) i = Some sf ->
  forall s,
  let '(_, c1, _, toks) := cstep v2 s (core sf) FRCancel in rcancel_spec (core sf) c1 toks = true.
Proof. exact exec_rcancel. Qed.

(** (4) Handles and ledger, at every point of every run: each guest handle end has been dropped /
    handed to the peer at most once, and exactly once as soon as it is out of the guest's table;
    lowered buffers, [Cleanup] areas and live payload values never go negative (no double free, no
    double drop); the default closure runs at most once per future. *)
Theorem C20_handles_and_ledger : forall v2 tr sf,
  s_ok (exec v2 tr) = true -> In sf (futs (exec v2 tr)) ->
  let c := core sf in
  (n_dropw (fg c) + b2n (e_live (hw (fh c))) = b2n (negb (f_imp c)))%nat
  /\ (n_dropr (fg c) + n_taker (fg c) + b2n (e_live (hr (fh c))) = 1)%nat
  /\ (0 <= g_low (fg c))%Z /\ (0 <= g_area (fg c))%Z /\ (0 <= g_live (fg c))%Z
  /\ (n_default (fg c) <= 1)%nat.
Proof. exact exec_handles. Qed.

(** (5) Quiescence: let any run that has not panicked be followed by the clean-up suffix (the user
    drops whatever it still holds — including unfinished writes and unwritten writers —, the peer
    reads and then drops its readable ends, every pending event is delivered).  Then ([final_ok]):
    both ends of every future are out of the guest's table, each dropped (or handed over) exactly
    once; nothing is registered with the task; no operation, no [DeferredWrite] is alive; lowered
    buffers, areas and live values are all back to zero; the readable side obtained exactly the value
    the host moved and the writing side was told so; and unless the readable side gave its end up
    before any value had been moved, exactly one value WAS moved — a writer whose write was dropped
    mid-flight, or that was dropped unwritten, still delivered (the default value) through
    write_and_forget / DeferredWrite, or observed the reader gone. *)
Theorem C20_quiescence : forall v2 tr,
  s_ok (exec v2 tr) = true ->
  let s' := exec v2 (tr ++ cleanup (count_new tr)) in
  s_ok s' = true /\ Forall (fun sf => final_ok (core sf) = true) (futs s').
Proof. exact exec_cleanup. Qed.

(** Non-vacuity: concrete traces meeting the hypotheses. *)
(* cancel racing a completion: the peer has read, the event is undelivered -> AlreadySent, and the
   peer holds the user's value 5 *)
Example ex_cancel_race :
  let s := exec true [ANew true; ATransfer 0; AWrite 0 5; AWPoll 0; APeerRead 0; AWCancel 0] in
  s_ok s = true
  /\ In (ETok 0 (KCancel EW COMPLETED)) (s_log s) /\ In (ETok 0 (KOut OAlreadySent)) (s_log s)
  /\ su_peer (summarise s) = [[5%N]].
Proof. vm_compute. intuition. Qed.

(* a write dropped mid-flight: cancelled by the host, the value comes back and is dropped, the
   default value 777 is written in the background and reaches the peer after the clean-up suffix *)
Example ex_default_value :
  let tr := [ANew true; ATransfer 0; AWrite 0 5; AWPoll 0; AWDropOp 0] in
  let s := exec true (tr ++ cleanup (count_new tr)) in
  s_ok s = true /\ su_peer (summarise s) = [[777%N]]
  /\ Forall (fun sf => final_ok (core sf) = true) (futs s).
Proof. vm_compute. intuition. Qed.

(* the documented misuse panic ends the run *)
Example ex_misuse : s_ok (exec false [ANew false; AWrite 0 1; AWCancel 0; AWCancel 0]) = false.
Proof. reflexivity. Qed.

Print Assumptions C20_no_host_trap.
Print Assumptions C20_no_trap_token.
Print Assumptions C20_only_documented_panics.
Print Assumptions C20_exactly_once.
Print Assumptions C20_cancel_reports_host_code.
Print Assumptions C20_read_cancel_reports_host_code.
Print Assumptions C20_handles_and_ledger.
Print Assumptions C20_quiescence.
