(** * C08 — Rust async imports and exports deliver the same values as sync ones; exactly one task.return or one
    cancellation; an async import keeps its lowered parameters alive until the callee has started.

    What is PROVED in this development about the async paths is proved elsewhere and only RESTATED here (closed by
    [exact]), so that the evidence of C08 names exactly what it stands on:
    - C02: for the async ABI variants too the core signature the generator uses is the canonical one (parameters flat iff
      they fit 16 — 4 for async-lowered imports —, async variants return a status code, results leave through task.return /
      the results pointer);
    - C21: for every host behaviour and every poll/drop history of an async import call, the lowered parameter lists are
      released exactly once and only after a status that implies the callee STARTED, the results are lifted exactly once and
      only after RETURNED, the subtask handle is dropped exactly once, the parameter/result area is freed exactly once and
      never touched afterwards (model Async/SubtaskOp.v of crates/guest-rust/src/rt/async_support/subtask.rs);
    - C22: the export task executor frees the task box exactly once, after the task exited.
    What C08 itself adds is DIFFERENTIAL (checks/c08.py): the same random signatures bound sync and async
    (`--async all`) by the Rust generator, compiled natively, driven by the Coq canonical-ABI oracle as the host and by the
    mock async host harness/crates/rtmock: values, allocation ledgers and completion events of the two bindings compared.
    There is no theorem here about crates/rust/src/{bindgen,interface}.rs. *)
From Coq Require Import List NArith ZArith Arith Bool Permutation.
From WB Require Props.C02 Props.C21 Props.C22.
Import ListNotations.

Section FromC02.
  Import WB.Wit.Ty WB.Canon.Spec WB.Abi.Sig WB.Abi.CastSem WB.Abi.SigProofs WB.Abi.SigFuncProofs.
  Theorem C08_async_core_signature_is_canonical : forall pw v fn,
    pw = 4%N \/ pw = 8%N ->
    f_method fn = false ->
    match f_result fn with Some t => valid_ty t = true | None => True end ->
    exists s, wasm_signature v fn = SigOk s
      /\ (map (resolve pw) (s_params s), map (resolve pw) (s_results s)) = spec_functype pw v fn
      /\ s_indirect s = (match v with GuestImportAsync => 4 | _ => 16 end
                         <? length (concat (map (Spec.flatten pw) (f_params fn))))%nat.
  Proof. exact WB.Props.C02.C02_core_signature_is_canonical. Qed.
End FromC02.

Section FromC21.
  Import WB.Async.Host WB.Async.SubtaskOp WB.Async.SubtaskOpSpec WB.Async.SubtaskOpProofs.
  Local Open Scope N_scope.
  (** no monitor rule is ever broken: in particular the parameter lists are released only after a status implying the callee
      started, results lifted only after RETURNED, nothing touches the area after it was freed, the host never traps *)
  Theorem C08_async_import_protocol_safe : forall c tr,
    valid_trace c tr = true ->
    m_bad (mon_run (final_log c tr)) = None /\ s_err (final_state c tr) = None.
  Proof. exact WB.Props.C21.C21_safety. Qed.

  (** once the call's future has completed or been dropped, everything happened exactly once *)
  Theorem C08_async_import_exactly_once : forall c tr,
    valid_trace c tr = true -> quiescent (final_state c tr) = true ->
    mon_final (a_area c) (mon_run (final_log c tr)) = None.
  Proof. exact WB.Props.C21.C21_exactly_once. Qed.
End FromC21.

Section FromC22.
  Import WB.Async.Host WB.Async.Task WB.Async.TaskSpec WB.Async.TaskLemmas WB.Async.TaskCallback WB.Async.TaskLinear WB.Async.TaskCtx WB.Async.TaskInv.
  Theorem C08_export_task_box_freed_once : forall sc,
    valid sc = true -> e_start (sc_env sc) = true -> failed (run sc) = false ->
    NoDup (boxfrees (run sc)) /\ NoDup (boxnews (run sc)) /\ incl (boxfrees (run sc)) (boxnews (run sc))
    /\ (forall t, In t (boxfrees (run sc)) ->
          tk_alive (get_task t (run sc)) = false /\ tk_exited (get_task t (run sc)) = true)
    /\ (forall t, tk_alive (get_task t (run sc)) = true -> In t (boxnews (run sc)) /\ ~ In t (boxfrees (run sc))).
  Proof. exact WB.Props.C22.C22_task_box_freed_once. Qed.
End FromC22.

Print Assumptions C08_async_core_signature_is_canonical.
Print Assumptions C08_async_import_protocol_safe.
Print Assumptions C08_async_import_exactly_once.
Print Assumptions C08_export_task_box_freed_once.
