(** C30 — MoonBit output forms a consistent package graph.
    Proved part: WB.Core.MbtPkg (model of crates/moonbit/src/pkg.rs [qualify_package] + the C26 Ns model);
    tie: harness/crates/mbtpkg `qualify` (the real pkg.rs, #[path]-included) vs the extracted model.
    Validated part: WB.Valid.PkgGraph.check, extracted and run on the real generator output. *)
From Coq Require Import List String Ascii NArith.
From WB Require Import Core.Ns Core.MbtPkg Core.MbtPkgProofs Valid.PkgGraph Valid.PkgGraphProofs.
Import ListNotations.
Local Open Scope string_scope.

(** For EVERY history of [qualify_package] calls (any packages, any order): in the final state, inside one
    package [this] two imported packages [n1], [n2] that carry the same alias are the same package. *)
Theorem C30_alias_injective_per_package : forall calls outs rf this i n1 n2 a,
  run [] calls = (outs, rf) ->
  assoc this rf = Some i ->
  assoc n1 (packages i) = Some a -> assoc n2 (packages i) = Some a -> n1 = n2.
Proof. exact alias_injective. Qed.

(** For every history and every call in it: the answer is "" iff the package refers to itself; otherwise it
    is "@alias." where (name -> alias) is recorded in the FINAL imports of [this] (so it is in the import
    list rendered from them, under the path project/name-with-slashes), and the alias is the last dot-free
    segment of the package name, verbatim, optionally followed by a decimal counter. *)
Theorem C30_returned_alias_is_recorded : forall project pre this name post outs rf,
  run [] (pre ++ (this, name) :: post) = (outs, rf) ->
  answer_ok project rf this name (nth (List.length pre) outs "BAD").
Proof. exact returned_alias_recorded. Qed.

(** The same question is always answered with the same alias ("exactly one alias"). *)
Theorem C30_one_alias_per_reference : forall calls outs rf i j this name,
  run [] calls = (outs, rf) ->
  nth_error calls i = Some (this, name) -> nth_error calls j = Some (this, name) ->
  nth i outs "BAD" = nth j outs "BAD".
Proof. exact same_question_same_answer. Qed.

(** The directory derived from a package name ends with the name's last segment unchanged. *)
Theorem C30_path_keeps_name : forall name,
  dots_to_slashes name = last_seg name \/
  exists pre, dots_to_slashes name = pre ++ String "/"%char (last_seg name).
Proof. exact path_keeps_last_seg. Qed.

(** The verified checker run on the real output: it reports nothing iff the output is a consistent
    package graph. *)
Theorem C30_checker_sound : forall o, check o = [] -> consistent o.
Proof. exact check_sound. Qed.

Theorem C30_checker_complete : forall o, consistent o -> check o = [].
Proof. exact check_complete. Qed.

(** Non-vacuity. *)
Example C30_ex_history :
  run [] [("world.w", "interface.a.b.types"); ("world.w", "interface.c.d.types");
          ("world.w", "interface.a.b.types"); ("gen", "world.w"); ("world.w", "world.w");
          ("world.w", "interface.a.b.types0"); ("world.w", "async-core")]
  = (["@types."; "@types0."; "@types."; "@w."; ""; "@types01."; "@async-core."],
     [("world.w", {| packages := [("async-core", "async-core"); ("interface.a.b.types0", "types01");
                                  ("interface.c.d.types", "types0"); ("interface.a.b.types", "types")];
                     ins := {| defined := ["async-core"; "types01"; "types0"; "types"]; tmpc := 2%N |} |});
      ("gen", {| packages := [("world.w", "w")]; ins := {| defined := ["w"]; tmpc := 0%N |} |})]).
Proof. vm_compute. reflexivity. Qed.

Example C30_ex_entries :
  import_entries "my/root-pkg" {| packages := [("interface.dep.other-pkg.leaf-iface", "leaf-iface")]; ins := ns_init |}
  = [("my/root-pkg/interface/dep/other-pkg/leaf-iface", "leaf-iface")].
Proof. vm_compute. reflexivity. Qed.

Definition ex_good : output := {|
  o_project := "my/root-pkg"; o_external := ["moonbitlang/core/"];
  o_pkgs := [ {| p_dir := "interface/dep/other-pkg/types"; p_imports := []; p_refs := [] |};
              {| p_dir := "interface/dep2/other-pkg/types0"; p_imports := []; p_refs := [] |};
              {| p_dir := "world/http-proxy";
                 p_imports := [("my/root-pkg/interface/dep/other-pkg/types", "types");
                               ("my/root-pkg/interface/dep2/other-pkg/types0", "types0");
                               ("moonbitlang/core/deque", "deque")];
                 p_refs := ["types"; "types0"; "types"; "deque"] |} ];
  o_expected := ["world/http-proxy"; "interface/dep/other-pkg/types"; "interface/dep2/other-pkg/types"] |}.

Example C30_ex_good : check ex_good = [].
Proof. vm_compute. reflexivity. Qed.

(** ... and the checker does reject each kind of defect. *)
Example C30_ex_bad :
  check {| o_project := "p"; o_external := [];
           o_pkgs := [ {| p_dir := "a"; p_imports := [("p/b", "x"); ("p/c", "x"); ("p/b", "y"); ("q/z", "z")];
                          p_refs := ["x"; "w"] |};
                       {| p_dir := "b"; p_imports := []; p_refs := [] |};
                       {| p_dir := "b"; p_imports := []; p_refs := [] |} ];
           o_expected := ["b"; "interface/my-ns/leaf"; "a1x"] |}
  = [Undeclared "a" "w"; DupAlias "a" "x"; DupPath "a" "p/b"; MissingPkg "a" "p/c"; MissingPkg "a" "q/z";
     DupDir "b"; MissingExpected "interface/my-ns/leaf"; MissingExpected "a1x"].
Proof. vm_compute. reflexivity. Qed.

Print Assumptions C30_alias_injective_per_package.
Print Assumptions C30_returned_alias_is_recorded.
Print Assumptions C30_one_alias_per_reference.
Print Assumptions C30_path_keeps_name.
Print Assumptions C30_checker_sound.
Print Assumptions C30_checker_complete.
