(** C26 — Fresh temporary names never collide with defined names.
    Model: WB.Core.Ns (crates/core/src/ns.rs); tie: harness/corelib `ns` vs extracted model. *)
From Coq Require Import List String.
From WB Require Import Core.Ns Core.NsProofs.
Import ListNotations.

(** For every history of define/fresh requests, split at any request [o]: with [K] = every name
    given to [insert] or returned by [tmp] before it,
    - a [tmp] request returns a name not in [K] (and the search loop never runs out of fuel);
    - an [insert] request succeeds iff its name is not in [K] (a duplicate is reported as a conflict). *)
Theorem C26_fresh_names_never_collide : forall pre o post,
  let outs := ns_run ns_init (pre ++ o :: post) in
  verdict (known pre (firstn (List.length pre) outs)) o (nth (List.length pre) outs OutOfFuel).
Proof. exact ns_history_correct. Qed.

Theorem C26_tmp_total : forall s name, ns_tmp s name <> None.
Proof. exact ns_tmp_total. Qed.

Print Assumptions C26_fresh_names_never_collide.
Print Assumptions C26_tmp_total.
