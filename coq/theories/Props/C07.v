(** * Props/C07.v — property C07: "Rust guest bindings keep resource and handle ownership exact".

    The model ([Core/ResourceOwn.v]) is a state machine over operation lists: the host side is the Component Model
    handle table of the guest instance (own / borrow entries, LIFO index reuse, resource.drop running the exported
    destructor), the guest side is what the Rust generator emits: [Resource<T>] wrappers with the [u32::MAX] "taken"
    sentinel, [Option<T>] boxes of exported resources, borrow temporaries of the export glue.  An operation list that
    misuses a Rust value (moved / dropped wrapper) or in which the host breaks the CM protocol ends in [EApi] and is
    outside the theorems; [ETrap] = the host traps because of what the guest did, [EPanic] = the guest panics.

    What the four theorems say about the property text:
    - [C07_no_trap_no_panic] — "no use after transfer, no double drop": for EVERY operation list that is not [EApi],
      the run ends without error: the guest never drops a stale / absent / lent handle, never passes an own handle it
      no longer holds, never leaves a borrow undropped when an export returns (host traps), and never unwraps a taken
      or freed rep or runs the destructor twice (guest panics).
    - [C07_ownership_invariant] — "own handles are transferred / dropped exactly once; the exported resource's Rust value
      is destroyed exactly once and only by the destructor": in every reachable state [Inv] holds (every table entry is
      held by exactly one live wrapper and vice versa, wrapper and entry agree on own/borrow and kind, every live box
      has exactly one owner — an own handle here or one held outside —, freed indices are not in the table, …) and the
      counting [Ledger] holds: #own handles created = #dropped by the guest + #taken by the host + #still in the table;
      #borrow handles lent = #dropped + #outstanding; #boxes created = #destructor runs + #live boxes, no box address is
      destructed twice and a destructed box is never live; #values boxed = #destroyed + #moved out by [into_inner] +
      #still boxed.
    - [C07_borrows_release_nothing] — "borrows are never dropped beyond what the canonical ABI requires and never
      release the owner": lending a handle to an import ([UPassBorrow]) changes neither the table nor any wrapper nor
      any box; returning from an export ([HExportEnd]) drops exactly the borrow entries that were lent (none is left),
      leaves every own entry, every box and every user-owned wrapper untouched.
    - [C07_quiescent] — nothing leaks: once the user holds no wrapper and no export is active, the table is empty and
      the only live boxes are those whose own handle is held outside the component.
    Proofs: [Core/ResourceOwnProofs.v] (and the [Core/ResourceOwnProofs*.v] files it names). *)
From Coq Require Import List NArith Bool Permutation.
From WB Require Import Core.ResourceOwn Core.ResourceOwnSpec Core.ResourceOwnProofs.
Import ListNotations.
Local Open Scope N_scope.

Theorem C07_no_trap_no_panic :
  forall ops : list op,
    match err (run ops) with Some (EApi _) => False | _ => True end ->
    err (run ops) = None.
Proof. exact no_trap_no_panic. Qed.
Print Assumptions C07_no_trap_no_panic.

Theorem C07_ownership_invariant :
  forall ops : list op, err (run ops) = None -> Inv (run ops) /\ Ledger (run ops).
Proof. exact invariant. Qed.
Print Assumptions C07_ownership_invariant.

Theorem C07_borrows_release_nothing :
  (forall (ops : list op) (w : N), err (run ops) = None ->
     let s' := step (run ops) (UPassBorrow w) in
     tbl s' = tbl (run ops) /\ ws s' = ws (run ops) /\ reps s' = reps (run ops) /\ hostown s' = hostown (run ops)) /\
  (forall ops : list op, err (run ops) = None ->
     let s' := step (run ops) HExportEnd in
     err s' = None ->
     own_entries s' = own_entries (run ops) /\ borrow_entries s' = [] /\ reps s' = reps (run ops) /\
     filter (fun p => negb (w_temp (snd p))) (ws s') = filter (fun p => negb (w_temp (snd p))) (ws (run ops))).
Proof. exact borrows_release_nothing. Qed.
Print Assumptions C07_borrows_release_nothing.

Theorem C07_quiescent :
  forall ops : list op,
    err (run ops) = None -> in_export (run ops) = false -> ws (run ops) = [] ->
    tbl (run ops) = [] /\ Permutation (keys (reps (run ops))) (hostown (run ops)).
Proof. exact quiescent. Qed.
Print Assumptions C07_quiescent.

(** ** Non-vacuity *)

(** sixteen operations, every constructor of [op] at least once, no error; handle index 1 is reused three times (LIFO) *)
Definition ex_all : list op :=
  [UNew 7; UGet 0; HGiveOwnImported 100; UPassBorrow 1; UPassOwn 0; HExportBegin; HLendBorrowImported 200;
   HBorrowExportedGet 4096; UPassBorrow 2; HExportEnd; HGiveOwnExported 4096; UIntoInner 3; UNew 9; UPassOwn 4;
   HDropOwnExported 4104; UDrop 1].

Example ex_all_final :
  run ex_all =
  {| tbl := []; freeh := [2; 1]; nexth := 3; ws := []; nextw := 5; reps := []; nextrep := 4112; hostown := [];
     in_export := false; need_drop := 0;
     log := [EvDropCall 2 true; EvValDestroyed 9; EvDtor 4104; EvHostTook 1 4104; EvNewHandle 1 true; EvNewBox 4104 9;
             EvDtor 4096; EvDropCall 1 true; EvValToUser 7; EvNewHandle 1 true; EvDropCall 1 false; EvLend 1;
             EvNewHandle 1 false; EvHostTook 1 4096; EvLend 2; EvNewHandle 2 true; EvNewHandle 1 true; EvNewBox 4096 7];
     err := None |}.
Proof. vm_compute. reflexivity. Qed.

(** in the middle of the export activation: one borrow entry held by a temporary, one own entry, a box owned outside *)
Example ex_all_mid :
  let s := run (firstn 9 ex_all) in
  err s = None /\ in_export s = true /\ need_drop s = 1 /\ hostown s = [4096] /\ reps s = [(4096, RSome 7)] /\
  tbl s = [(1, {| e_kind := Imported; e_rep := 200; e_own := false; e_lends := 0 |});
           (2, {| e_kind := Imported; e_rep := 100; e_own := true; e_lends := 0 |})] /\
  ws s = [(2, {| w_kind := Imported; w_handle := 1; w_temp := true |});
          (1, {| w_kind := Imported; w_handle := 2; w_temp := false |})].
Proof. vm_compute. repeat split. Qed.

(** the hypotheses of the theorems are met by it: the invariant holds at the end, and in the middle the second half of
    [C07_borrows_release_nothing] applies non-trivially (a borrow entry is really dropped, the own entry stays) *)
Example ex_all_inv : Inv (run ex_all) /\ Ledger (run ex_all).
Proof. apply C07_ownership_invariant. vm_compute. reflexivity. Qed.

Example ex_export_end_effect :
  let s := run (firstn 9 ex_all) in let s' := step s HExportEnd in
  err s' = None /\ length (borrow_entries s) = 1%nat /\ borrow_entries s' = [] /\ own_entries s' = own_entries s /\
  length (own_entries s) = 1%nat.
Proof. vm_compute. repeat split. Qed.

(** an exported resource: new -> own handle passed to the host -> the host lends a borrow of it to an export (the code
    calls get()) -> the host gives the own handle back -> into_inner.  The box is freed once ([EvDtor 4096] once), the
    value is handed to the user once ([EvValToUser 42] once) and never destroyed by the bindings. *)
Definition ex_roundtrip : list op :=
  [UNew 42; UPassOwn 0; HExportBegin; HBorrowExportedGet 4096; HExportEnd; HGiveOwnExported 4096; UIntoInner 1].

Example ex_roundtrip_final :
  let s := run ex_roundtrip in
  err s = None /\ tbl s = [] /\ ws s = [] /\ reps s = [] /\ hostown s = [] /\
  log s = [EvDtor 4096; EvDropCall 1 true; EvValToUser 42; EvNewHandle 1 true; EvHostTook 1 4096; EvNewHandle 1 true;
           EvNewBox 4096 42] /\
  cnt is_dtor s = 1%nat /\ cnt is_touser s = 1%nat /\ cnt is_destroyed s = 0%nat.
Proof. vm_compute. repeat split. Qed.

(** [C07_quiescent] applies to both (no wrapper left, no export active) *)
Example ex_roundtrip_quiescent :
  tbl (run ex_roundtrip) = [] /\ Permutation (keys (reps (run ex_roundtrip))) (hostown (run ex_roundtrip)).
Proof. apply C07_quiescent; vm_compute; reflexivity. Qed.

(** what is excluded: operation lists that misuse a moved Rust value, or a host that breaks the protocol, end in [EApi] *)
Example ex_api_use_after_move : err (run [HGiveOwnImported 5; UPassOwn 0; UDrop 0]) = Some (EApi 8).
Proof. vm_compute. reflexivity. Qed.
Example ex_api_host_double_drop :
  err (run [UNew 1; UPassOwn 0; HDropOwnExported 4096; HDropOwnExported 4096]) = Some (EApi 7).
Proof. vm_compute. reflexivity. Qed.
