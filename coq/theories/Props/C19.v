(** * Props/C19.v — stream writes and reads transfer each value exactly once, in order.

    Model: Async/AbiBuf.v ([AbiBuffer], return codes, ledger), Async/StreamOp.v (write / read
    operations, [write_all] / [write_one] / [next] / [collect], the futures-stream adapter, a stream
    host whose every choice is an input).  Proofs: Async/AbiBufProofs.v, StreamOpBase.v, StreamOpW.v
    (writer end), StreamOpR.v (reader end), StreamOpProofs.v (both ends).

    Quantifier: [reachable k s] = [s] is the state after ANY list of actions ([act]: write n /
    write_buf / write_all / write_one / poll with host answers / host event / delivery / cancel /
    drop of the future / into_vec / drop of the buffer / drop of an end, on both ends, incl. the
    adapter), for ANY payload kind [k] (canonical, lifted, lifted with owned lists), with the
    answers of a well-behaved host ([strict = true]: known codes, counts within what is offered
    and in flight, CANCELLED only from a cancel intrinsic) chosen freely — how many items each
    transfer moves, when the peer is reported dropped, whether a completion wins the race against
    a cancellation (event ready but undelivered / delivered but unpolled / none).  No size bound. *)
From Coq Require Import NArith List Bool Permutation Sorted.
From WB Require Import Async.AbiBuf Async.AbiBufProofs Async.StreamOp Async.StreamOpBase
                       Async.StreamOpW Async.StreamOpR Async.StreamOpProofs.
Import ListNotations.
Local Open Scope N_scope.

(** (1) What entered reader vectors ++ what the host stored into the outstanding read's buffer ++
    what is in flight = what the host took from the writer: nothing is lost, duplicated or
    reordered; the taken items are strictly increasing ids (ids are handed out in hand-over order),
    hence pairwise distinct. *)
Theorem C19_exactly_once_in_order : forall k s,
  reachable k s ->
  r_log (s_r s) ++ r_inbuf (s_r s) ++ pipe s = w_sent (s_w s)
  /\ StronglySorted N.lt (w_sent (s_w s))
  /\ NoDup (w_sent (s_w s))
  /\ Forall (fun x => x < w_next (s_w s)) (w_sent (s_w s)).
Proof. exact once_in_order. Qed.

(** (2) Every resolved write / read reports exactly the count the host moved for it
    ([w_rep] / [r_rep]: one pair (moved by the host, reported by the operation) per resolution;
    [Dropped] and [Cancelled] report 0). *)
Theorem C19_counts_reported : forall k s,
  reachable k s ->
  Forall (fun p => fst p = snd p) (w_rep (s_w s)) /\ Forall (fun p => fst p = snd p) (r_rep (s_r s)).
Proof. exact counts_reported. Qed.

(** (3) Every value handed to the writer API (ids 0 .. next-1) is exactly one of: taken by the host,
    handed back to the caller ([into_vec], the result of [write_all] / [write_one]), dropped by the
    runtime (a discarded buffer / future), or still in the live buffer; nothing is live once no
    future and no buffer exists. *)
Theorem C19_values_accounted : forall k s,
  reachable k s ->
  Permutation (nseq 0 (N.to_nat (w_next (s_w s))))
              (w_sent (s_w s) ++ w_ret (s_w s) ++ w_drop (s_w s) ++ w_live s)
  /\ (w_fut (s_w s) = None -> w_buf (s_w s) = None -> w_live s = []).
Proof. exact values_accounted. Qed.

(** (4) The ledger of lowered heap buffers and Cleanup areas: nothing is ever released twice or
    lifted from garbage, and when no operation and no buffer is alive every lowered buffer has been
    released by exactly one [dealloc_lists] or consumed by exactly one [lift], every area freed. *)
Theorem C19_ledger_balanced : forall k s,
  reachable k s ->
  lg_err (w_lg (s_w s)) = false /\ lg_err (r_lg (s_r s)) = false
  /\ (quiescent s -> w_lg (s_w s) = lg_empty /\ r_lg (s_r s) = lg_empty).
Proof. exact ledger_balanced. Qed.

(** Every scenario that runs to its end (the script, then the drop of whatever is still alive) ends
    quiescent: both ledgers are empty — each lowered heap buffer was released exactly once — and every
    handed value was transferred, returned or dropped. *)
Theorem C19_completed_run_balanced : forall k acts s ts,
  run true k acts = (s, ts, OEnd) ->
  quiescent s /\ w_lg (s_w s) = lg_empty /\ r_lg (s_r s) = lg_empty
  /\ Permutation (nseq 0 (N.to_nat (w_next (s_w s)))) (w_sent (s_w s) ++ w_ret (s_w s) ++ w_drop (s_w s)).
Proof. exact completed_run_balanced. Qed.

(** … where the ledgers are, by construction, the folds of [lg_tok_w] / [lg_tok_r] over exactly the
    tokens ([lower], [dealloc_lists], [lift], area new/free, items stored by the host) each action emits. *)
Theorem C19_ledger_is_fold_of_trace : forall k a s s' t,
  step true k a s = Ok (s', t) ->
  match a with
  | AW _ => w_lg (s_w s') = lg_toks_w k t (w_lg (s_w s)) /\ s_r s' = s_r s
  | AR _ => r_lg (s_r s') = lg_toks_r k t (r_lg (s_r s)) /\ s_w s' = s_w s
  end.
Proof. exact ledger_is_fold_of_trace. Qed.

(** (5) Every value that entered a reader vector is handed to the caller, dropped exactly once
    (a discarded read / [next] / [collect] / adapter), or still held. *)
Theorem C19_reader_values_accounted : forall k s,
  reachable k s ->
  Permutation (r_log (s_r s))
              (r_got (s_r s) ++ r_dropped (s_r s) ++ rc_items (rcfg_of (s_r s)) ++ held_of (s_r s)).
Proof. exact reader_values_accounted. Qed.

(** (6) [ReturnCode::decode] inverts the host's encoding [code | n << 4] for every count below
    2^28 (the canonical ABI's limit, enforced on the guest side by the [MAX_LENGTH] clamp), and
    panics exactly on words no host produces. *)
Theorem C19_return_code_roundtrip : forall r, rcode_count r < 268435456 -> decode (encode r) = Some r.
Proof. exact decode_encode. Qed.

Theorem C19_decode_total_on_host_codes : forall v, decode v = None <-> v <> BLOCKED /\ 3 <= N.land v 15.
Proof. exact decode_none_iff. Qed.

(** ** Non-vacuity: a scenario with a partial transfer, a blocked write resolved by an event that
    races with a cancel, a read that takes part of what is in flight, values returned and dropped. *)
Definition C2 : N := 32.  Definition C1 : N := 16.  Definition D1 : N := 17.
Definition ex_acts : list act :=
  [ AW (AWrite 4); AW (AWPoll [C1]);            (* write 4, host takes 1 *)
    AW AWriteBuf; AW (AWPoll [BLOCKED]);        (* resume: blocked *)
    AW (AWEvent C2);                            (* host takes 2 more, event not delivered *)
    AR (ARead 2); AR (ARPoll [C2]);             (* reader gets 2 of the 3 in flight *)
    AW (AWCancel []);                           (* cancel loses the race: Complete(2) *)
    AW AWIntoVec;                               (* the 4th value comes back *)
    AW (AWriteAll 2); AW (AWPoll [D1]);         (* write_all: 1 taken, peer dropped, 1 returned *)
    AR ANext; AR (ARPoll [BLOCKED]); AR (ARDropFut [C1]) ].  (* next() dropped while a value arrives *)

Example C19_nonvacuous :
  let '(s, _, o) := run true KLists ex_acts in
  (o, w_sent (s_w s), r_log (s_r s), pipe s, w_ret (s_w s), w_drop (s_w s), w_rep (s_w s), r_rep (s_r s),
   r_got (s_r s), r_dropped (s_r s), w_lg (s_w s), r_lg (s_r s))
  = (OEnd, [0;1;2;4], [0;1;2], [4], [3;5], [], [(1,1);(2,2);(1,1);(0,0)], [(2,2);(1,1)],
     [0;1], [2], lg_empty, lg_empty).
Proof. vm_compute. reflexivity. Qed.

Example C19_nonvacuous_reachable : exists s ts, run true KLists ex_acts = (s, ts, OEnd) /\ reachable KLists s /\ quiescent s.
Proof.
  destruct (run true KLists ex_acts) as [[s ts] o] eqn:E.
  exists s, ts. assert (o = OEnd /\ quiescent s).
  { revert E. vm_compute. intros [= <- _ <-]. repeat split. }
  destruct H as [-> Q]. split; [reflexivity|]. split; [right; exists ex_acts, ts, OEnd; exact E|exact Q].
Qed.

Example C19_roundtrip_nonvacuous : decode (encode (RDropped 268435455)) = Some (RDropped 268435455).
Proof. reflexivity. Qed.

Print Assumptions C19_exactly_once_in_order.
Print Assumptions C19_counts_reported.
Print Assumptions C19_values_accounted.
Print Assumptions C19_ledger_balanced.
Print Assumptions C19_completed_run_balanced.
Print Assumptions C19_ledger_is_fold_of_trace.
Print Assumptions C19_reader_values_accounted.
Print Assumptions C19_return_code_roundtrip.
Print Assumptions C19_decode_total_on_host_codes.
