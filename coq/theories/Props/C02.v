(** C02 — call glue follows the canonical calling convention for every signature.
    Proved here (unbounded, all signatures of valid types, all five ABI variants, pointer widths 4 and 8):
    the core signature the generator calls/exports is the canonical [flatten_functype] — parameters flat iff
    they fit 16 (4 for async imports) else one pointer, results flat iff at most one else through a return
    pointer (imports: extra parameter; exports: returned pointer), async variants return a status code.
    The glue-level statement (exactly one core call / one task.return, values = Spec lowering, parameter
    record freed once, stack empty) is the executable predicate family WB.Abi.Check.check_call_import /
    check_call_export evaluated by the check on the REAL streams. *)
From Coq Require Import List NArith Arith.
From WB Require Import Wit.Ty Canon.Spec Abi.Sig Abi.Instr Abi.CastSem Abi.Gen Abi.SigProofs Abi.SigFuncProofs Abi.GenDiscipline Abi.GenCallImport Abi.GenCallExport Abi.GenCallExportAsync.
Import ListNotations.

Theorem C02_core_signature_is_canonical : forall pw v fn,
  pw = 4%N \/ pw = 8%N ->
  f_method fn = false ->
  match f_result fn with Some t => valid_ty t = true | None => True end ->
  exists s, wasm_signature v fn = SigOk s
    /\ (map (resolve pw) (s_params s), map (resolve pw) (s_results s)) = spec_functype pw v fn
    /\ s_indirect s = (match v with GuestImportAsync => 4 | _ => 16 end
                       <? length (concat (map (Spec.flatten pw) (f_params fn))))%nat.
Proof. exact wasm_signature_is_canonical. Qed.

(** The glue of a synchronous import call (Generator::call, GuestImport, LowerArgsLiftResults), for EVERY
    non-method signature whose result type is well-formed and every is_list_canonical oracle: no panic site is
    reached - realloc is unset at entry and exit, parameters are lowered flat (<= 16) or written into a parameter
    area, the stack holds exactly sig.params.len() operands at the core call (the assert_eq! in abi.rs), a result of
    more than one flat value is read back through the return pointer that was taken exactly once
    (return_pointer.take().unwrap() succeeds), a flat result is lifted from exactly the core results, and the final
    assert!(stack.is_empty()) holds. *)
Theorem C02_sync_import_call_never_panics : forall canon fn sig,
  f_method fn = false ->
  match f_result fn with Some t => valid_ty t = true | None => True end ->
  wasm_signature GuestImport fn = SigOk sig ->
  ok_with (call canon fn GuestImport LowerArgsLiftResults false) gst0 (fun _ s' => stack s' = [] /\ realloc s' = None).
Proof. exact call_import_sync_ok. Qed.

(** The glue of a synchronous export (Generator::call, GuestExport, LiftArgsLowerResults), for EVERY non-method
    signature of well-formed types: no panic site is reached - parameters are lifted from exactly the flat core
    arguments ("failed to flatten types during direct parameter lifting" never fires) or read from the parameter
    area, which is then freed by exactly one GuestDeallocate; the interface call receives exactly one operand per
    parameter; the result is lowered flat or written to a return area whose pointer is returned; the Return
    instruction consumes exactly sig.results.len() operands; realloc is unset and the stack empty at the end. *)
Theorem C02_sync_export_call_never_panics : forall canon fn sig,
  f_method fn = false ->
  forallb valid_ty (f_params fn) = true ->
  match f_result fn with Some t => valid_ty t = true | None => True end ->
  wasm_signature GuestExport fn = SigOk sig ->
  ok_with (call canon fn GuestExport LiftArgsLowerResults false) gst0 (fun _ s' => stack s' = [] /\ realloc s' = None).
Proof. exact call_export_sync_ok. Qed.

(** The glue of an async (callback-ABI) export (GuestExportAsync, LiftArgsLowerResults, async): for EVERY non-method
    signature with well-formed parameter types no panic site is reached; the result is handed to task.return flat
    exactly when its flattening fits 16 values (AsyncTaskReturn then consumes exactly that many operands) and
    through a return area otherwise (one pointer operand); realloc unset and stack empty at the end. *)
Theorem C02_async_export_call_never_panics : forall canon fn sig,
  f_method fn = false ->
  forallb valid_ty (f_params fn) = true ->
  wasm_signature GuestExportAsync fn = SigOk sig ->
  ok_with (call canon fn GuestExportAsync LiftArgsLowerResults true) gst0 (fun _ s' => stack s' = [] /\ realloc s' = None).
Proof. exact call_export_async_ok. Qed.

Print Assumptions C02_async_export_call_never_panics.
Print Assumptions C02_sync_export_call_never_panics.
Print Assumptions C02_sync_import_call_never_panics.
Print Assumptions C02_core_signature_is_canonical.
