(** C14 — Every backend's scalar conversions implement the canonical ABI mapping.

    Data: Scalar/Generated.v is REGENERATED on every run from the text the Rust, C, C++, C#, Go,
    MoonBit and D generators emit now for a probe world (`import h-<t>`/`export e-<t>` of type
    `func(x: <t>) -> <t>` for every scalar <t>): one [conv] per (language, direction, type, site),
    holding the conversion expression in the surface AST of its language (Scalar/Expr.v).
    Semantics: [elab] (Expr.v) gives each surface operator the meaning it has in that language, as a
    function Z -> option Z on machine integers ([eval]).  Specification: [spec_lower]/[spec_lift]
    (ScalarSpec.v) = lower_flat / lift_flat of CanonicalABI restricted to scalars.

    [conv_ok c] is the property for one site, quantified over ALL inputs:
      Lower:  for every WIT value v of the type, [eval e v = Some r] with
              [r mod 2^w = spec_lower t v]  (unsigned extended zero-, signed sign-extended, bool 0/1,
              char its scalar value, floats and 64-bit values bit-exact);
      Lift:   for EVERY value x of the w-bit variable holding the core value (all 2^32 / 2^64 bit
              patterns), whenever [spec_lift t (x mod 2^w) = Some v] then [eval e x = Some v]
              (narrow integers from the low bits with their own signedness, bool: any non-zero is
              true, char: judged where the canonical ABI does not trap).

    The statements below are stable; the data they talk about is regenerated.  Site-by-site
    instances (and the exhaustive 2^8 / 2^16 enumerations, and the refutations of the recorded
    findings with their witnesses) are in Scalar/GeneratedProps.v. *)
From Coq Require Import ZArith List String Bool.
From WB Require Import Scalar.Expr Scalar.ScalarSpec Scalar.Normalize Scalar.NormalizeProofs
  Scalar.Generated Scalar.GeneratedProps.
Import ListNotations.
Open Scope Z_scope.

(** Recorded findings (same keys as known-findings.txt; `<lang>:<Instruction>`):
    - (moonbit:S8FromI32 / moonbit:S16FromI32 — emitted as `(x - 0x100)` / `(x - 0x10000)` — were repaired in
      /repo by a `fix:` commit and are no longer excluded: the regenerated sites are proved correct);
    - rust:BoolFromI32 — `bool_lift(x as u8)`: only the low 8 bits are tested (0x100 lifts to
      false) and debug builds panic on 2..255, where convert_int_to_bool says "any non-zero". *)
Definition known_keys : list string :=
  ["rust:BoolFromI32"]%string.
Definition known (c : conv) : bool := existsb (String.eqb (conv_key c)) known_keys.

(** C14_full (the property as stated, no exclusions):
      Forall conv_ok all_conversions.
    It is FALSE of the current generators: GeneratedProps.v proves [~ conv_ok c] for each site of
    the known class (theorems C14_<site>_refuted, each with its concrete input). *)

(** Meta-theorem 1: the abstract evaluator is sound on every input of the assumed type. *)
Theorem C14_norm_sound : forall dt e s, norm dt e = Some s ->
  forall x, in_range dt x -> eval e x = denote s x.
Proof. exact norm_sound. Qed.

(** Meta-theorem 2: the specification shapes used by the checker denote lower_flat / lift_flat. *)
Theorem C14_spec_lower_shape : forall t v, in_range (mty_of t) v ->
  denote_body (sb (spec_lower_shape t)) v = spec_lower t v.
Proof. exact spec_lower_shape_correct. Qed.

Theorem C14_spec_lift_shape : forall t src x, in_range src x ->
  denote (spec_lift_shape t src) x = spec_lift t (x mod 2 ^ Z.of_nat (core_bits t)).
Proof. exact spec_lift_shape_correct. Qed.

(** Meta-theorem 3: a site accepted by the checker has the property, for all inputs. *)
Theorem C14_checker_sound : forall c, check_conv c = true -> conv_ok c.
Proof. exact check_conv_sound. Qed.

(** Meta-theorem 4: enumeration over a narrow domain is a proof for every value of the type. *)
Theorem C14_exhaustive_sound : forall c src e dst,
  exhaustive_lower c = true -> elab (c_lex c) = Some (src, e, dst) ->
  forall v, wit_value (c_ty c) v ->
    in_range src v /\
    exists r, eval e v = Some r /\ r mod 2 ^ Z.of_nat (core_bits (c_ty c)) = spec_lower (c_ty c) v.
Proof. exact exhaustive_lower_sound. Qed.

Lemma all_checked : forallb (fun c => known c || check_conv c) all_conversions = true.
Proof. vm_compute. reflexivity. Qed.

(** THE PROPERTY over everything the generators emit now, outside the recorded classes. *)
Theorem C14_all : Forall (fun c => known c = false -> conv_ok c) all_conversions.
Proof.
  apply Forall_forall. intros c Hin Hk.
  pose proof all_checked as H. rewrite forallb_forall in H. specialize (H c Hin).
  rewrite Hk in H. apply check_conv_sound. exact H.
Qed.

(** Every backend, both directions, every scalar type, at an import and at an export, is present
    in the regenerated data (7 x 2 x 12 x 2 sites; Rust lifts that depend on cfg!(debug_assertions)
    appear once per build mode). *)
Definition covered (l : lang) (d : dir) (t : sty) : bool :=
  (2 <=? List.length (filter (fun c =>
     String.eqb (lang_name (c_lang c)) (lang_name l) &&
     String.eqb (instr_name (c_dir c) (c_ty c)) (instr_name d t)) all_conversions))%nat.

Theorem C14_coverage :
  forallb (fun l => forallb (fun d => forallb (covered l d) all_sty) [Lower; Lift])
          [LangRust; LangC; LangCpp; LangCSharp; LangGo; LangMoonBit; LangD] = true.
Proof. vm_compute. reflexivity. Qed.

(** Restriction proved for the recorded boolean class: on the inputs a canonical host produces
    (0 and 1) the lift is right. *)
Theorem C14_known_bool_partial :
  Forall (fun c => known c = true -> c_ty c = SBool -> bool01_ok c = true) all_conversions.
Proof.
  apply Forall_forall. intros c Hin Hk Ht.
  assert (H : forallb (fun c => negb (known c) || negb (match c_ty c with SBool => true | _ => false end) || bool01_ok c)
                      all_conversions = true) by (vm_compute; reflexivity).
  rewrite forallb_forall in H. specialize (H c Hin). rewrite Hk, Ht in H. exact H.
Qed.

(** Non-vacuity: the data is not empty, the property holds of a concrete non-trivial site for a
    non-trivial reason, and a wrong expression is rejected. *)
Example C14_nonvacuous_data : (300 <=? List.length all_conversions)%nat = true.
Proof. vm_compute. reflexivity. Qed.

Example C14_nonvacuous_lift :
  let c := mk_conv LangC Lift SS8 "example" (LK KC I32 I8 (KCast I8 KVar)) in
  conv_ok c /\ eval_l (c_lex c) 200 = Some (-56) /\ eval_l (c_lex c) (-1) = Some (-1).
Proof. split; [apply check_conv_sound; vm_compute; reflexivity | split; vm_compute; reflexivity]. Qed.

Example C14_nonvacuous_reject :
  let c := mk_conv LangMoonBit Lift SS8 "example" (LMbt MInt MInt (MSub MVar 256)) in
  check_conv c = false /\ ~ conv_ok c.
Proof. split; [vm_compute; reflexivity | apply (disagreement_refutes _ 0); vm_compute; reflexivity]. Qed.

Print Assumptions C14_all.
Print Assumptions C14_norm_sound.
Print Assumptions C14_checker_sound.
Print Assumptions C14_coverage.
Print Assumptions C14_known_bool_partial.
