(** C03 — cleanup code frees exactly the heap data the lowering allocated.
    Proved here (unbounded, all types): the decision half — a post-return entry point is generated exactly
    when the result type can hold a heap buffer (string/list/map at any depth), lists-only cleanup visits
    exactly those types, lists-and-own cleanup exactly the types that can also hold an owned handle.
    The ledger half ("each buffer freed exactly once with its own size/alignment, nothing else; owned handles
    dropped exactly once, in lists-and-own mode only") is the executable predicate family
    WB.Abi.Check.check_dealloc / check_post_return evaluated by the check on the REAL streams; two genuine
    defects it found are repaired (known-findings.txt: fixed). *)
From Coq Require Import List NArith Bool.
From WB Require Import Wit.Ty Canon.Spec Abi.Sig Abi.Instr Abi.Gen Abi.Check Abi.DeallocProofs Abi.GenDiscipline Abi.GenDeallocDiscipline Abi.SigProofs Abi.GenFlatDealloc Abi.GenPostReturn.
Import ListNotations.

Theorem C03_lists_cleanup_iff_heap : forall t, needs_deallocate DLists t = has_heap t.
Proof. exact needs_deallocate_lists_iff_heap. Qed.

Theorem C03_own_cleanup_iff : forall t, needs_deallocate DListsAndOwn t = has_heap t || owns_handle t.
Proof. exact needs_deallocate_own_iff. Qed.

Theorem C03_post_return_iff_heap : forall fn,
  guest_export_needs_post_return fn = match f_result fn with Some t => has_heap t | None => false end.
Proof. exact post_return_iff_heap. Qed.

Theorem C03_params_have_allocations_iff : forall fn,
  guest_export_params_have_allocations fn = existsb has_heap (f_params fn).
Proof. exact params_have_allocations_iff. Qed.

(** The in-memory cleanup traversal (deallocate_indirect), for EVERY type, cleanup mode, address operand and offset:
    no panic site is reached and the operand stack is left exactly as found - every pointer/length pair it loads is
    consumed by exactly one GuestDeallocate*, every loaded handle by one DropHandle, every loaded discriminant by
    one GuestDeallocateVariant. *)
Theorem C03_memory_cleanup_traversal_is_stack_neutral : forall w t addr off s st,
  stack s = st ->
  ok_with (dealloc_indirect w t addr off) s (fun _ s' => stack s' = st /\ frame s s').
Proof. exact dealloc_indirect_ok. Qed.

Print Assumptions C03_memory_cleanup_traversal_is_stack_neutral.
(** The direct-operand cleanup (deallocate), for EVERY type that fits the 16-slot buffer and whose flags types have
    1..32 members (what the component model admits), both cleanup modes: given exactly the flattened number of
    operands it reaches no panic site and consumes exactly those operands.  The flags hypothesis was forced by the
    proof: deallocate pops ONE operand for a flags value whatever its word count, so a (CM-invalid) two-word flags
    type leaves an operand behind - [C03_direct_cleanup_wide_flags_refuted]. *)
Theorem C03_direct_cleanup_consumes_flattened_operands : forall w t,
  flags_one_word t = true -> length (wflat t) <= 16 ->
  forall s top st, stack s = top ++ st -> length top = length (wflat t) ->
  ok_with (dealloc w t) s (fun _ s' => stack s' = st /\ frame s s').
Proof. exact dealloc_ok. Qed.

Theorem C03_direct_cleanup_wide_flags_refuted :
  match dealloc DLists (TFlags 40) {| stack := [1; 0]; nxt := 2; evs := []; retp := None; realloc := None |} with
  | Ok _ s' => stack s' = [0]
  | Err _ => False
  end.
Proof. exact dealloc_wide_flags_leaves_an_operand. Qed.

Print Assumptions C03_direct_cleanup_consumes_flattened_operands.
Print Assumptions C03_direct_cleanup_wide_flags_refuted.
(** The public entry points deallocate_lists_in_types / deallocate_lists_and_own_in_types, both operand forms: starting
    from an empty stack they reach no panic site - none of the operand-count assertions, no split_at out of range,
    no assert!(stack.is_empty()) - and end with an empty stack. *)
Theorem C03_deallocate_in_types_indirect_never_panics : forall w types addr s,
  stack s = [] -> ok_with (deallocate_in_types w types [addr] true) s (fun _ s' => stack s' = []).
Proof. exact deallocate_in_types_indirect_ok. Qed.

Theorem C03_deallocate_in_types_direct_never_panics : forall w types operands s,
  Forall (fun t => length (wflat t) <= 16) types -> forallb flags_one_word types = true ->
  length operands = length (concat (map wflat types)) -> stack s = [] ->
  ok_with (deallocate_in_types w types operands false) s (fun _ s' => stack s' = []).
Proof. exact deallocate_in_types_direct_ok. Qed.

Print Assumptions C03_deallocate_in_types_indirect_never_panics.
Print Assumptions C03_deallocate_in_types_direct_never_panics.
(** post_return is safe exactly where the generator asks for it: whenever guest_export_needs_post_return holds for an
    export with a well-formed result type, wit-parser's signature has a return pointer (the assert!(sig.retptr)
    holds) and the post-return body completes with an empty operand stack.  (False before /repo bbdfee6 for
    error-context results.) *)
Theorem C03_post_return_never_panics_when_requested : forall fn t sig,
  f_result fn = Some t -> Spec.valid_ty t = true ->
  guest_export_needs_post_return fn = true ->
  wasm_signature GuestExport fn = SigOk sig ->
  s_retptr sig = true /\ ok_with (post_return fn) gst0 (fun _ s' => stack s' = []).
Proof. exact post_return_ok. Qed.

Print Assumptions C03_post_return_never_panics_when_requested.
Print Assumptions C03_lists_cleanup_iff_heap.
Print Assumptions C03_own_cleanup_iff.
Print Assumptions C03_post_return_iff_heap.
Print Assumptions C03_params_have_allocations_iff.
