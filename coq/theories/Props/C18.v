(** C18 — the async runtime registers, delivers and unregisters waitables exactly.
    Model: WB.Async.WaitOp (waitable.rs: WaitableOperation / CompletionStatus / CabiTask, instantiated by the
    runtime's subtask, stream-read, stream-write and future-read operations) over WB.Async.Host and the
    harness-owned tasks of both C ABI versions; tie: rtmock bin `waitop` (hook H1) vs the extracted model on
    action lists over up to three operations, C18's rules also evaluated on the real logs (checks/c18.py).

    Full statement (any number of operations):

      C18_full : forall c tr, valid_trace c tr = true ->
                 Inv (final c tr) /\ has_trap (full_log c tr) = false.

    [valid_trace] = Rust API contract + CM host protocol + the v1 same-task assumption the code documents;
    [Inv] = (i) a registered operation is in progress, alive, has no unconsumed code and is joined to its
    task's set, (ii) nothing is cancelled or dropped while in a set or a map, (iii) every completion handed
    to the guest is consumed by exactly one in_progress_update (or is still in its slot), (iv) no map entry
    points to a dropped operation — for action lists of ANY length, moves between tasks included.

    Proved below for universes with ONE operation of any kind under two tasks of any C ABI versions
    ([C18_invariant_one_operation_partial]); what is missing for [C18_full] is the interplay of several
    operations (shared waitable set, handle reuse), which is covered by the differential leg (1-3
    operations, model == real code, rules evaluated on the real logs and [inv_ok] on the model's final state)
    and, in the thorough tier, by exhaustive exploration of the 16 two-operation universes with two v2 tasks (5.7*10^5
    states) with the extracted model (checks/c18.py, coverage key `two_operation_universes_explored`), not by a Coq proof: the reachable sets there have
    3*10^4 - 6*10^4 states per configuration, beyond what the VM explores within the build budget. *)
From Coq Require Import NArith ZArith List Bool.
From WB Require Import Async.Host Async.WaitOp Async.WaitOpProofs Async.WaitOpInv.
Import ListNotations.
Local Open Scope N_scope.

Theorem C18_invariant_one_operation_partial : forall c tr,
  universe1 c = true -> valid_trace c tr = true ->
  Inv (final c tr) /\ has_trap (full_log c tr) = false.
Proof. exact waitop_invariant. Qed.

(** Without the v1 same-task assumption (iv) fails: the operation is dropped, yet task 1 (C ABI v1) still
    maps its waitable to it.  Replayed on the real code by corpus/C18.txt (maps=[];[1]). *)
Theorem C18_v1_move_refuted :
  let c := mkWcfg true false [KSr] in
  let tr := [APoll 0 0 None; APoll 1 0 None; ADrop 1 0 None] in
  let s := final c tr in
  valid_trace c tr = false
  /\ valid_trace c [APoll 0 0 None] = true
  /\ same_task_rule (final c [APoll 0 0 None]) 1 0 = false
  /\ o_phase (get_op s 0) = OGone
  /\ t_map (get_task s 1) = [(1, 0)]
  /\ w_err s = None.
Proof. exact v1_move_refuted. Qed.

(** Same outcome when the operation is registered nowhere at the time it moves from a v2 to a v1 task. *)
Theorem C18_v2_to_v1_move_after_delivery_refuted :
  let c := mkWcfg true false [KSt] in
  let tr := [APoll 0 0 (Some 0); AHost 0 1; ADeliver 0 None; APoll 1 0 None; ADrop 1 0 None] in
  let s := final c tr in
  valid_trace c tr = false
  /\ valid_trace c [APoll 0 0 (Some 0); AHost 0 1; ADeliver 0 None] = true
  /\ in_some_map (final c [APoll 0 0 (Some 0); AHost 0 1; ADeliver 0 None]) 1 = false
  /\ o_phase (get_op s 0) = OGone
  /\ t_map (get_task s 1) = [(1, 0)]
  /\ w_err s = None.
Proof. exact v2_to_v1_move_after_delivery_refuted. Qed.

(** Non-vacuity: [valid_move_example] in WaitOpInv.v (a v2->v2 move racing with a queued completion);
    one more: partial progress of an async call, then a cancellation race lost to RETURNED. *)
Example C18_example_subtask :
  let c := mkWcfg false true [KSt] in
  let tr := [APoll 1 0 (Some 0); AHost 0 1; ADeliver 1 None; APoll 1 0 None; AHost 0 2; ADrop 1 0 (Some 2)] in
  valid_trace c tr = true /\ universe1 c = true /\ all_gone (final c tr) = true /\ w_updates (final c tr) = 3.
Proof. vm_compute. repeat split. Qed.

Print Assumptions C18_invariant_one_operation_partial.
Print Assumptions C18_v1_move_refuted.
Print Assumptions C18_v2_to_v1_move_after_delivery_refuted.
