(** C28 — Type analysis identifies exactly the structurally equal types.
    Model: WB.Core.TypesEq (crates/core/src/types.rs + the LiveTypes traversal it calls);
    specification: WB.Core.TypesEqSpec; tie: harness/crates/typestie vs the extracted model.

    Reading guide.  [T] is the Resolve's type table (position = TypeId), [wf_table T]: every
    definition mentions smaller ids only and none is Unknown (checked on every real Resolve by the
    harness).  [struct_eq T a b] := the full expansions of [a] and [b] are the same tree (same
    kind, same field / case / flag names in the same order, equal component types, aliases
    transparent, a resource equal only to itself).  [rep u x] = the root [find] returns.
    [ROk]/[RErr]: every panic site of the Rust code is an explicit [RErr] in the model. *)
From Coq Require Import List String Bool Arith.
From WB Require Import Core.TypesEq Core.TypesEqSpec Core.TypesEqUF Core.TypesEqWf Core.TypesEqEq
     Core.TypesEqCollect Core.TypesEqLive Core.TypesEqMerge Core.TypesEqContent Core.TypesEqUsage Core.TypesEqTop.
Import ListNotations.

(** (1) Whenever the union-find links structurally equal types only ([uf_ok]), the code's
    comparison (which consults the union-find first and compresses its paths) terminates
    without panic, answers exactly structural equality, and leaves every root unchanged. *)
Theorem C28_comparison_is_structural_equality : forall T u a b,
  wf_table T -> uf_ok T u -> has T a -> has T b ->
  exists r u', is_structurally_equal T u a b = ROk (r, u') /\
               (r = true <-> struct_eq T a b) /\ uf_ok T u' /\ (forall y, rep u' y = rep u y).
Proof. exact is_structurally_equal_correct. Qed.

(** (2a) For EVERY live list and EVERY may_alias predicate the two loops of collect_equal_types
    run to completion, keep the invariant, and types with the same representative are
    structurally equal. *)
Theorem C28_union_find_sound : forall T, wf_table T -> forall live, (forall x, In x live -> has T x) ->
  forall may, exists u, collect_unions T may uf_empty live = ROk u /\ uf_ok T u /\
                        (forall a b, rep u a = rep u b -> struct_eq T a b).
Proof. exact collect_sound. Qed.

(** (2b) With may_alias = true (merge-structurally-equal-types) the classes on the live types are
    EXACTLY the structural-equality classes. *)
Theorem C28_classes_exact : forall T, wf_table T -> forall live, (forall x, In x live -> has T x) ->
  forall may, (forall t, may t = true) ->
  forall u, collect_unions T may uf_empty live = ROk u ->
  forall a b, In a live -> In b live -> (rep u a = rep u b <-> struct_eq T a b).
Proof. exact collect_exact. Qed.

(** (2c) For an arbitrary may_alias: every aliasable live type ends in the class of the first
    earlier live type it is structurally equal to. *)
Theorem C28_first_earlier_equal : forall T, wf_table T -> forall live, (forall x, In x live -> has T x) ->
  forall may u, collect_unions T may uf_empty live = ROk u ->
  forall l1 t l2, live = l1 ++ t :: l2 -> may t = true ->
  forall pre e0 post, l1 = pre ++ e0 :: post -> struct_eq T t e0 ->
    (forall x, In x pre -> ~ struct_eq T t x) -> rep u t = rep u e0.
Proof. exact collect_first. Qed.

(** (3a) Content facts after [analyze] = the specification's predicates on the expansion. *)
Theorem C28_content_facts : forall T ws, wf_table T -> worlds_ok T ws ->
  exists m, analyze T ws = ROk m /\
    forall i, has T i -> exists v, im_get m i = Some v /\
      has_list v = spec_has_list T i /\ has_tuple v = spec_has_tuple T i /\
      has_resource v = spec_has_resource T i /\ has_borrow_handle v = spec_has_borrow T i /\
      has_own_handle v = spec_has_own T i.
Proof. exact content_facts. Qed.

(** (3b) Usage facts after [analyze]: borrowed / owned are reachability from parameters / results
    of the imported / exported functions (named types); the error flag is [spec_error_direct]. *)
Theorem C28_usage_facts : forall T ws, wf_table T -> worlds_ok T ws ->
  exists m, analyze T ws = ROk m /\
    forall i, has T i -> exists v, im_get m i = Some v /\
      (borrowed v = true <-> spec_borrowed T ws i) /\
      (owned v = true <-> spec_owned T ws i) /\
      (error v = true <-> spec_error_direct T ws i).
Proof. exact usage_facts. Qed.

(** (3c) C28_error_full (NOT a theorem of the code):
      forall T ws, wf_table T -> worlds_ok T ws -> exists m, analyze T ws = ROk m /\
        forall i, has T i -> exists v, im_get m i = Some v /\ (error v = true <-> spec_error T ws i).
    It holds outside the known class [aliased_error_result] (a function whose result type is an
    alias — `use`d or `type x = y` — of a result<_, E> with E a type id) ... *)
Theorem C28_error_fact_partial : forall T ws, wf_table T -> worlds_ok T ws -> ~ aliased_error_result T ws ->
  exists m, analyze T ws = ROk m /\
    forall i, has T i -> exists v, im_get m i = Some v /\ (error v = true <-> spec_error T ws i).
Proof. exact error_fact_partial. Qed.

(** ... and fails inside it: `record e {c: u32}  type r = result<u32, e>  type r2 = r
    import f: func() -> r2` — [e] is the error type of [f] but its flag stays false. *)
Theorem C28_error_fact_refuted :
  exists T ws i, wf_table T /\ worlds_ok T ws /\ aliased_error_result T ws /\ spec_error T ws i /\
                 exists m v, analyze T ws = ROk m /\ im_get m i = Some v /\ error v = false.
Proof. exact error_fact_refuted. Qed.

(** (3d) After collect_equal_types every member of a class carries the union of the facts of the
    class: for each of the eight flags ([fld] ranges over the projections, characterised by being
    an or-homomorphism), flag of the merged entry of [i] <-> some [j] with the same representative
    had it. *)
Theorem C28_equal_types_share_union : forall T w may m, wf_table T -> world_ok T w -> NoDup (keys m) ->
  exists live u1 m' u',
    live_world T w = ROk live /\ collect_unions T may uf_empty live = ROk u1 /\
    collect_equal_types T w may m uf_empty = ROk (m', u') /\ (forall y, rep u' y = rep u1 y) /\
    forall i v, im_get m i = Some v ->
      exists v', im_get m' i = Some v' /\
        forall fld : info -> bool, (forall a b, fld (info_or a b) = fld a || fld b) -> fld info0 = false ->
          (fld v' = true <-> exists j x, im_get m j = Some x /\ rep u1 j = rep u1 i /\ fld x = true).
Proof. exact share_union. Qed.

(** (4) analyze + collect_equal_types + get + get_representative_type on every id: no panic site
    ([unreachable!], index out of bounds, [assert!], [unwrap]) and no unbounded recursion. *)
Theorem C28_no_panic : forall T ws sel may, wf_table T -> worlds_ok T ws -> sel < List.length ws ->
  exists a, run_types T ws sel may = ROk a.
Proof. exact run_types_ok. Qed.

Print Assumptions C28_comparison_is_structural_equality.
Print Assumptions C28_union_find_sound.
Print Assumptions C28_classes_exact.
Print Assumptions C28_first_earlier_equal.
Print Assumptions C28_content_facts.
Print Assumptions C28_usage_facts.
Print Assumptions C28_error_fact_partial.
Print Assumptions C28_error_fact_refuted.
Print Assumptions C28_equal_types_share_union.
Print Assumptions C28_no_panic.
