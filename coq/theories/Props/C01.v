(** C01 — the shared ABI generator encodes and decodes every WIT value per the spec.
    Models: WB.Abi.Gen (abi.rs Generator), WB.Abi.Sig (wit-parser push_flat / SizeAlign), oracle WB.Canon.Spec,
    contract WB.Abi.Sem.  Proved here (unbounded): the flat form — for every type and every buffer bound the
    generator's [flat_types] is the ideal flattening when it fits and None exactly when it does not, and the
    ideal flattening resolves to the canonical ABI's [flatten] at pointer widths 4 and 8.
    The value-level statement ("the emitted stream, run under Sem, produces Spec.lower_flat / Spec.store and
    decodes Spec-valid encodings") is the executable predicate family WB.Abi.Check.check_lower_flat /
    check_lower_to_memory / check_lift_from_memory; it is evaluated by the check on the REAL streams and is
    not yet a theorem (see DESIGN.md, C01 staging). *)
From Coq Require Import List NArith Arith.
From WB Require Import Wit.Ty Canon.Spec Abi.Sig Abi.CastSem Abi.SigProofs.
Import ListNotations.

Theorem C01_flat_types_exact : forall t max,
  flat_types t max = if (length (wflat t) <=? max)%nat then Some (wflat t) else None.
Proof. exact flat_types_spec. Qed.

Theorem C01_flatten_is_canonical : forall pw t, pw = 4%N \/ pw = 8%N ->
  map (resolve pw) (wflat t) = Spec.flatten pw t.
Proof. exact wflat_is_spec_flatten. Qed.

Print Assumptions C01_flat_types_exact.
Print Assumptions C01_flatten_is_canonical.
