(** C01 — the shared ABI generator encodes and decodes every WIT value per the spec.
    Models: WB.Abi.Gen (abi.rs Generator), WB.Abi.Sig (wit-parser push_flat / SizeAlign), oracle WB.Canon.Spec,
    contract WB.Abi.Sem.  Proved here (unbounded): the flat form and the memory layout — for every type and every buffer bound the
    generator's [flat_types] is the ideal flattening when it fits and None exactly when it does not, and the
    ideal flattening resolves to the canonical ABI's [flatten] at pointer widths 4 and 8.
    The value-level statement ("the emitted stream, run under Sem, produces Spec.lower_flat / Spec.store and
    decodes Spec-valid encodings") is the executable predicate family WB.Abi.Check.check_lower_flat /
    check_lower_to_memory / check_lift_from_memory; it is evaluated by the check on the REAL streams and is
    not yet a theorem (see DESIGN.md, C01 staging). *)
From Coq Require Import List NArith Arith.
From WB Require Import Wit.Ty Canon.Spec Abi.Sig Abi.Instr Abi.CastSem Abi.Gen Abi.SigProofs Abi.LayoutProofs Abi.GenDiscipline Abi.GenFlatDiscipline Abi.GenFlatLift.
Import ListNotations.

Theorem C01_flat_types_exact : forall t max,
  flat_types t max = if (length (wflat t) <=? max)%nat then Some (wflat t) else None.
Proof. exact flat_types_spec. Qed.

Theorem C01_flatten_is_canonical : forall pw t, pw = 4%N \/ pw = 8%N ->
  map (resolve pw) (wflat t) = Spec.flatten pw t.
Proof. exact wflat_is_spec_flatten. Qed.

(** Memory form, layout: wit-parser's symbolic (bytes + pointers) sizes, alignments, record field offsets and
    variant payload offsets — everything the generator puts into load/store offsets, Malloc/GuestDeallocate and
    return-area sizes — evaluate to the canonical ABI's at BOTH pointer widths, for every type (including the
    cases where the 32- and 64-bit maxima of variant cases come from different cases). *)
Theorem C01_size_is_canonical : forall pw t, pw = 4%N \/ pw = 8%N ->
  a_size pw (sa_size t) = Spec.elem_size pw t.
Proof. exact size_is_canonical. Qed.

Theorem C01_alignment_is_canonical : forall pw t, pw = 4%N \/ pw = 8%N ->
  a_align pw (sa_align t) = Spec.alignment pw t.
Proof. exact align_is_canonical. Qed.

Theorem C01_field_offsets_are_canonical : forall pw, pw = 4%N \/ pw = 8%N -> forall ts cur s,
  a_size pw cur = s ->
  map (fun '(o, t) => (a_size pw o, t)) (sa_field_offsets_from cur ts) = Spec.field_offsets_from pw s ts.
Proof. exact field_offsets_canonical. Qed.

Theorem C01_payload_offset_is_canonical : forall pw tagb cs, pw = 4%N \/ pw = 8%N ->
  tagb = 1%N \/ tagb = 2%N \/ tagb = 4%N ->
  a_size pw (sa_payload_offset tagb cs) = Spec.payload_offset pw tagb cs.
Proof. exact payload_offset_canonical. Qed.

(** Memory form, stack discipline: for EVERY type, every is_list_canonical oracle, every address operand and offset,
    the memory-mode lowering of the generator model reaches no panic site (no stack underflow, no missing realloc,
    no unreachable arm), consumes exactly the value operand it is given and leaves realloc / return-pointer
    untouched; the public entry point lower_to_memory therefore always completes with an empty stack. *)
Theorem C01_memory_lowering_consumes_its_operand : forall canon t addr off s x st r,
  stack s = x :: st -> realloc s = Some r ->
  ok_with (write canon t addr off) s (fun _ s' => stack s' = st /\ frame s s').
Proof. exact write_ok. Qed.

Theorem C01_lower_to_memory_never_panics : forall canon t,
  ok_with (lower_to_memory canon t) gst0 (fun _ s' => stack s' = []).
Proof. exact lower_to_memory_never_panics. Qed.

(** Memory form, lifting side: for EVERY type, address operand and offset the memory-mode lifting reaches no panic
    site and pushes exactly one operand (the lifted value) on top of the untouched stack; the public entry point
    lift_from_memory always completes with exactly one operand. *)
Theorem C01_memory_lifting_produces_one_operand : forall canon t addr off s st,
  stack s = st ->
  ok_with (read canon t addr off) s (fun _ s' => exists v, stack s' = v :: st /\ frame s s').
Proof. exact read_ok. Qed.

Theorem C01_lift_from_memory_never_panics : forall canon t,
  ok_with (lift_from_memory canon t) gst0 (fun _ s' => exists v, stack s' = [v]).
Proof. exact lift_from_memory_never_panics. Qed.

(** Flat form, stack discipline: for EVERY type whose flattening fits the 16-slot buffer, the flat lowering reaches no
    panic site (stack underflow, unset realloc, flat_types(..).unwrap(), unreachable cast), consumes its one operand
    and leaves exactly as many core values as the canonical flatten has entries - every variant arm included, after
    bitcasts and zero padding. *)
Theorem C01_flat_lowering_produces_flattened_count : forall canon t,
  length (wflat t) <= 16 -> forall s x st r, stack s = x :: st -> realloc s = Some r ->
  ok_with (lower canon t) s
    (fun _ s' => exists vals, length vals = length (wflat t) /\ stack s' = vals ++ st /\ frame s s').
Proof. exact lower_ok. Qed.

Theorem C01_lower_flat_canonical_count : forall canon pw t, pw = 4%N \/ pw = 8%N ->
  length (Spec.flatten pw t) <= 16 ->
  ok_with (lower_flat canon t) gst0 (fun _ s' => length (stack s') = length (Spec.flatten pw t)).
Proof. exact lower_flat_canonical_count. Qed.

(** Flat form, lifting side: for EVERY well-formed type that fits, given exactly the flattened number of core
    operands on top of the stack the flat lifting reaches no panic site (underflow in a drain or per-field / per-arm
    split, flat_types(..).unwrap(), unreachable cast) and replaces them by exactly one operand. *)
Theorem C01_flat_lifting_consumes_flattened_count : forall canon t,
  Spec.valid_ty t = true -> length (wflat t) <= 16 ->
  forall s top st, stack s = top ++ st -> length top = length (wflat t) ->
  ok_with (lift canon t) s (fun _ s' => exists v, stack s' = v :: st /\ frame s s').
Proof. exact lift_ok. Qed.

Example C01_flat_discipline_nonvacuous :
  let t := TRecord [TU8; TOption (TVariant [Some TF32; Some TS64; None; Some TString]); TFixed TU32 3%N] in
  Spec.valid_ty t = true /\ length (wflat t) <= 16.
Proof. split; [reflexivity | apply Nat.leb_le; vm_compute; reflexivity]. Qed.

Print Assumptions C01_flat_types_exact.
Print Assumptions C01_flat_lifting_consumes_flattened_count.
Print Assumptions C01_flat_lowering_produces_flattened_count.
Print Assumptions C01_lower_flat_canonical_count.
Print Assumptions C01_memory_lifting_produces_one_operand.
Print Assumptions C01_lift_from_memory_never_panics.
Print Assumptions C01_memory_lowering_consumes_its_operand.
Print Assumptions C01_lower_to_memory_never_panics.
Print Assumptions C01_size_is_canonical.
Print Assumptions C01_alignment_is_canonical.
Print Assumptions C01_field_offsets_are_canonical.
Print Assumptions C01_payload_offset_is_canonical.
Print Assumptions C01_flatten_is_canonical.
