(** C17 — Async selection directives select exactly the documented functions.
    Model: WB.Core.AsyncFilter (crates/core/src/async_.rs); tie: harness/corelib `asyncfilter` drives the real
    AsyncFilterSet on random worlds and directive lists and is compared with the extracted model; a second
    tie checks the `[async-lower]`/`[async-lift]` names in real Rust, C and MoonBit generator output and the
    Rust generator's "unused async option" error against the same model. *)
From Coq Require Import List String Ascii Bool Arith.
From WB Require Import Core.PkgName Core.AsyncFilter Core.AsyncFilterProofs.
Import ListNotations.

(** A function is bound asynchronously exactly when the FIRST directive (in the order given) that matches
    its name and direction enables it; when no directive matches, exactly when the WIT declares it async. *)
Theorem C17_is_async_first_match : forall st q,
  (forall pre d post, opts st = pre ++ d :: post ->
     (forall x, In x pre -> qmatches x q = false) -> qmatches d q = true ->
     snd (is_async st q) = enabled d)
  /\ ((forall d, In d (opts st) -> qmatches d q = false) -> snd (is_async st q) = qasync q).
Proof. exact is_async_first_match. Qed.

(** The answers of a whole run never depend on earlier queries (the [used] set is write-only). *)
Theorem C17_answers_independent_of_history : forall qs st,
  snd (run st qs) = map (fun q => snd (is_async st q)) qs.
Proof. exact run_answers. Qed.

(** parse / Display round trip: printing a parsed directive reproduces the text (for EVERY text), so
    [parse] is injective and [parse (display d) = d] for every parsed [d]. *)
Theorem C17_parse_display_roundtrip : forall s,
  display (parse s) = s /\ parse (display (parse s)) = parse s.
Proof. intros s. split; [apply display_parse|apply parse_display_parse]. Qed.

(** A directive other than [all] that matches none of the queried (function, direction) pairs makes
    [ensure_all_used] fail. *)
Theorem C17_unused_rejected : forall texts qs k d,
  nth_error (map parse texts) k = Some d -> is_all d = false ->
  (forall q, In q qs -> qmatches d q = false) ->
  ensure_all_used (fst (run (fset_of texts) qs)) <> None.
Proof. exact unused_rejected. Qed.

(** Exact verdict: [ensure_all_used] succeeds iff every directive other than [all] was the first match
    of at least one query (so a directive shadowed by an earlier one is rejected too). *)
Theorem C17_ensure_all_used_exact : forall texts qs,
  ensure_all_used (fst (run (fset_of texts) qs)) = None <->
  forall k d, nth_error (map parse texts) k = Some d -> is_all d = false ->
              exists q, In q qs /\ decided_by (map parse texts) q = Some k.
Proof. exact ensure_all_used_exact. Qed.

(** The error text is the text of a directive that decided no query. *)
Theorem C17_error_names_unused : forall texts qs msg,
  ensure_all_used (fst (run (fset_of texts) qs)) = Some msg ->
  exists k t, nth_error texts k = Some t /\ msg = t /\ is_all (parse t) = false
              /\ forall q, In q qs -> decided_by (map parse texts) q <> Some k.
Proof. exact ensure_error_names_unused. Qed.

(** [used] only grows, over one query and over any run. *)
Theorem C17_used_monotone : forall qs st k, In k (used st) -> In k (used (fst (run st qs))).
Proof. exact run_used_monotone. Qed.

(** * Non-vacuity: a concrete run exercising every constructor *)
Definition Q (k : option string) (n : string) (imp asy : bool) : query :=
  {| qkey := option_map lit k; qname := lit n; qimport := imp; qasync := asy |}.
Definition texts0 : list str :=
  map lit ["-import:t:p/i#f"; "t:p/i#f"; "export:g"; "-[method]r.m"; "import:nope"; "-all"; "all"]%string.
Definition qs0 : list query :=
  [Q (Some "t:p/i") "f" true false;      (* first match: -import:t:p/i#f  -> sync  *)
   Q (Some "t:p/i") "f" false false;     (* first match: t:p/i#f          -> async *)
   Q None "g" false false;               (* export:g                      -> async *)
   Q None "g" true true;                 (* falls to -all                 -> sync although the WIT says async *)
   Q None "[method]r.m" true true]%string. (* -[method]r.m                -> sync *)

Example C17_run_example :
  let '(bs, verdict, shown) := run_texts texts0 qs0 in
  bs = [false; true; true; false; false]
  /\ verdict = Some (lit "import:nope")
  /\ shown = texts0.
Proof. vm_compute. auto. Qed.

(** hypotheses of [C17_unused_rejected] are satisfiable: directive #4 (import:nope) is not [all] and
    matches no query of [qs0] *)
Example C17_unused_rejected_nonvacuous :
  exists d, nth_error (map parse texts0) 4 = Some d /\ is_all d = false
            /\ forallb (fun q => negb (qmatches d q)) qs0 = true.
Proof. eexists. vm_compute. auto. Qed.

(** and the success side of the exact theorem is reachable *)
Example C17_all_used_example :
  ensure_all_used (fst (run (fset_of (map lit ["-import:t:p/i#f"; "all"; "export:zzz"]%string)) qs0)) = Some (lit "export:zzz")
  /\ ensure_all_used (fst (run (fset_of (map lit ["-import:t:p/i#f"; "all"]%string)) qs0)) = None
  /\ snd (is_async (fset_of []) (Q None "h" true true)) = true
  /\ snd (is_async (fset_of []) (Q None "h" true false)) = false.
Proof. vm_compute. auto. Qed.

Print Assumptions C17_is_async_first_match.
Print Assumptions C17_answers_independent_of_history.
Print Assumptions C17_parse_display_roundtrip.
Print Assumptions C17_unused_rejected.
Print Assumptions C17_ensure_all_used_exact.
Print Assumptions C17_error_names_unused.
Print Assumptions C17_used_monotone.
