(** C32 -- The generate! macro tracks every WIT file it reads.
    Model: WB.Core.MacroFiles (crates/guest-rust/macro/src/lib.rs: the `path`/`inline` arms of
    Config::parse, parse_source, the include_bytes! loop of Config::expand).  wit-parser's
    Resolve::push_path is outside the repository: in the first three theorems it is an arbitrary function
    [walk] (normalised path -> error | (reported source paths, files read)); the last three use the
    executable transcription [walk_tree] of wit-parser 0.257's directory walk that the check compares
    with the real macro on every run (rustc dep-info for "tracked", strace for "read").

    LEVEL "other": what is proved is the macro's own bookkeeping; that the files wit-parser really opens
    are the ones it reports is established per run by the differential leg, not by proof. *)
From Coq Require Import List String.
From WB Require Import Core.MacroFiles Core.MacroFilesProofs.
Import ListNotations.

(** In every branch of parse_source (explicit path list, inline + path, inline alone with/without a
    default `wit` directory, nothing) the tracked files are exactly the union, over the paths that branch
    parses, of what wit-parser reports for them; the parsed paths are the normalised given paths (or the
    default directory); an error on any path means no expansion at all. *)
Theorem C32_tracked_is_union_of_walks :
  forall (path : Type) (root_join canon : path -> path) (exists_ : path -> bool)
         (walk : path -> option (list path * list path)) (default_dir : path)
         (s : option (@source path)) (o : @outcome path),
    parse_source path root_join canon exists_ walk default_dir s = Some o ->
    parsed o = map (norm path root_join canon) (paths_of path exists_ default_dir s) /\
    tracked o = flat_map (reported path walk) (parsed o) /\
    readf o = flat_map (read_by path walk) (parsed o) /\
    Forall (fun n => walk n <> None) (parsed o).
Proof. exact tracked_is_union_of_walks. Qed.

(** Hence: if wit-parser reports every file it reads, every file read is tracked. *)
Theorem C32_read_subset_tracked :
  forall (path : Type) (root_join canon : path -> path) (exists_ : path -> bool)
         (walk : path -> option (list path * list path)) (default_dir : path),
    (forall n s r, walk n = Some (s, r) -> incl r s) ->
    forall s o, parse_source path root_join canon exists_ walk default_dir s = Some o ->
    incl (readf o) (tracked o).
Proof. exact read_subset_tracked. Qed.

(** A `path:` field is what gets parsed, whether it is written before or after `inline:`. *)
Theorem C32_path_field_is_parsed :
  forall (path : Type) (fs : list (@field path)) s0 s ps,
    fields_source path s0 fs = Some s -> In (FPath ps) fs -> src_paths path s = Some ps.
Proof. exact path_field_is_parsed. Qed.

(** On concrete directory trees, with wit-parser's walk as transcribed: read is a subset of tracked for every macro
    invocation none of whose parsed directories has a binary-encoded WIT package directly in `deps/`. *)
Theorem C32_tree_read_subset_tracked : forall fs fields o,
  macro_tree fs fields = Some o ->
  Forall (fun p => deps_clean fs p = true) (parsed o) ->
  incl (readf o) (tracked o).
Proof. exact macro_tree_read_subset_tracked. Qed.

(** C32_full (FALSE, kept visible): the previous statement without the [deps_clean] hypothesis.
    Refuted: `wit/deps/dep.wasm` is read (decoded and merged) but never reported by wit-parser
    (`ParsedFile::Package(_) => continue` in parse_deps_dir), so the macro cannot track it. *)
Theorem C32_wasm_dep_refuted :
  exists o, macro_tree wasm_dep_tree [] = Some o /\
            In ["wit"; "deps"; "dep.wasm"]%string (readf o) /\
            ~ In ["wit"; "deps"; "dep.wasm"]%string (tracked o) /\
            tracked o = [["wit"; "world.wit"]; ["wit"; "deps"; "other.wit"]]%string.
Proof. exact wasm_dep_read_not_tracked. Qed.

(** Non-vacuity: inline + two paths (a package directory with deps/, ignored files, a sub-directory and a
    nested deps/, plus a single file) parses, tracks five files, reads exactly those. *)
Example C32_nonvacuous :
  exists o, macro_tree demo_tree [FInline; FOther; FPath [["api"]; ["single.wit"]]]%string = Some o /\
    tracked o = [["api"; "world.wit"]; ["api"; "types.wit"]; ["api"; "deps"; "logging"; "log.wit"];
                 ["api"; "deps"; "clock.wit"]; ["single.wit"]]%string /\
    readf o = tracked o /\
    Forall (fun p => deps_clean demo_tree p = true) (parsed o).
Proof. exact demo_tree_tracked. Qed.

Print Assumptions C32_tracked_is_union_of_walks.
Print Assumptions C32_read_subset_tracked.
Print Assumptions C32_path_field_is_parsed.
Print Assumptions C32_tree_read_subset_tracked.
Print Assumptions C32_wasm_dep_refuted.
