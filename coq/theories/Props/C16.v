(** C16 — "Generators handle every valid world without panicking … The Markdown documentation generator supports every
    WIT type."   PROVED PART ONLY (level "other"): the type dispatch of the Markdown generator and the shared dispatch
    of wit_bindgen_core every backend goes through.  The whole-generator statement for the 8 backends is carried by the
    differential leg of checks/c16.py and is labelled so in the evidence.
    Model: WB.Core.MdTotal (anchors listed there); proofs: WB.Core.MdTotalProofs; tie: translator tables scanned from
    the current source + correspondence run of the extracted model against the real Markdown generator.

    C16_full (FALSE of the faithful model, hence of the code — kept visible, not proved):
        forall w, world_shape w = true -> md_generate w = Done.
    It fails on exactly the classes named by [world_known] (keys in known-findings.txt):
      markdown:…:print_ty:TypeDefKind::FixedLengthList(..)=>todo!(),   anonymous fixed-length list in any position
      markdown:…:type_future:todo!() / type_stream:todo!()              [type t = future<…>] / [type t = stream<…>]
      <every backend>:crates/core/src/lib.rs:define_type:TypeDefKind::Handle(_)=>panic!(…)   [type t = own<r>] *)
From Coq Require Import List NArith Bool.
From WB Require Import Core.MdTotal Core.MdTotalProofs.
Import ListNotations.

(** Exact characterisation: Markdown's [print_ty] finishes without a panic on [t] iff no constructor it declines is
    reachable from [t] through anonymous types ([ty_ok] = well shaped and free of anonymous fixed-length lists). *)
Theorem C16_md_print_ty_exact : forall t, print_ty t = Done <-> ty_ok t = true.
Proof. exact print_ty_done_iff. Qed.

(** On anything wit-parser can produce the only panic [print_ty] can raise is the fixed-length-list [todo!()]. *)
Theorem C16_md_print_ty_only_site : forall t s, shape_ty t = true -> print_ty t = Panic s -> s = SitePrintTyFixedLengthList.
Proof. exact print_ty_shape_site. Qed.

(** Whole Markdown run (core [generate] + [define_type] + Markdown callbacks), exact characterisation. *)
Theorem C16_md_generate_exact : forall w, md_generate w = Done <-> world_ok w = true.
Proof. exact md_generate_done_iff. Qed.

(** [C16_md_partial]: shape [forall x, ~ KnownClass x -> P x] — every world wit-parser can produce that is outside the
    known classes is documented without a panic, whatever constructors it uses and wherever it uses them. *)
Theorem C16_md_partial : forall w, world_shape w = true -> world_known w = false -> md_generate w = Done.
Proof. exact md_generate_supported. Qed.

Example C16_md_partial_nonvacuous : world_shape w_rich = true /\ world_known w_rich = false /\ md_generate w_rich = Done.
Proof. exact w_rich_in_scope. Qed.

(** Witnesses [exists x, KnownClass x /\ ~ P x] (each replayed on the real code on every run). *)
Theorem C16_md_refuted_anon_fixed_length_list :
  exists w, world_shape w = true /\ world_known w = true /\ md_generate w = Panic SitePrintTyFixedLengthList.
Proof. exists w_anon_fixed. repeat split; vm_compute; reflexivity. Qed.

Theorem C16_md_refuted_named_future :
  exists w, world_shape w = true /\ world_known w = true /\ md_generate w = Panic SiteMdTypeFuture.
Proof. exists w_named_future. repeat split; vm_compute; reflexivity. Qed.

Theorem C16_md_refuted_named_stream :
  exists w, world_shape w = true /\ world_known w = true /\ md_generate w = Panic SiteMdTypeStream.
Proof. exists w_named_stream. repeat split; vm_compute; reflexivity. Qed.

Theorem C16_md_refuted_handle_alias :
  exists w, world_shape w = true /\ world_known w = true /\ md_generate w = Panic SiteDefineTypeHandle.
Proof. exists w_handle_alias. repeat split; vm_compute; reflexivity. Qed.

(** The shared dispatch: for EVERY generator built on [wit_bindgen_core::define_type] (any callbacks [g]) a named alias
    of a handle type panics before any callback runs … *)
Theorem C16_core_define_type_handle_alias_refuted : forall g named r,
  define_type g named (KHandleOwn r) = Panic SiteDefineTypeHandle /\
  define_type g named (KHandleBorrow r) = Panic SiteDefineTypeHandle.
Proof. exact define_type_handle_panics. Qed.

(** … and that (with [Unknown], which wit-parser never leaves behind) is the only panic the dispatch adds: with total
    callbacks it finishes on every other constructor. *)
Theorem C16_core_define_type_partial : forall g, callbacks_total g -> forall named k,
  define_type g named k = Done <-> (is_handle_alias k = false /\ k <> KUnknown).
Proof. exact define_type_done_iff_total. Qed.

Example C16_core_define_type_partial_nonvacuous :
  callbacks_total {| type_record := fun _ _ => Done; type_resource := fun _ => Done; type_flags := fun _ => Done;
                     type_tuple := fun _ _ => Done; type_variant := fun _ _ => Done; type_option := fun _ _ => Done;
                     type_result := fun _ _ _ => Done; type_enum := fun _ => Done; type_alias := fun _ _ => Done;
                     type_list := fun _ _ => Done; type_fixed_length_list := fun _ _ _ => Done; type_map := fun _ _ _ => Done;
                     type_future := fun _ _ => Done; type_stream := fun _ _ => Done |}.
Proof. unfold callbacks_total; simpl; repeat split; reflexivity. Qed.

Print Assumptions C16_md_print_ty_exact.
Print Assumptions C16_md_print_ty_only_site.
Print Assumptions C16_md_generate_exact.
Print Assumptions C16_md_partial.
Print Assumptions C16_md_refuted_anon_fixed_length_list.
Print Assumptions C16_md_refuted_named_future.
Print Assumptions C16_md_refuted_named_stream.
Print Assumptions C16_md_refuted_handle_alias.
Print Assumptions C16_core_define_type_handle_alias_refuted.
Print Assumptions C16_core_define_type_partial.
