(** C21 — Async import calls release parameters and results exactly once.
    Model: WB.Async.SubtaskOp (subtask.rs + the WaitableOperation/CabiTask code it runs under) over
    WB.Async.Host; the property as an executable monitor: WB.Async.SubtaskOpSpec; tie: rtmock bin
    `subtask` (hook H1) vs the extracted model, monitor also run on the real logs (checks/c21.py).

    Quantifier: every abstract configuration [c] (task C ABI v1/v2, with/without a params/results
    area, call answered STARTING/STARTED with a handle or RETURNED without) and EVERY history [tr]
    (any length) of polls, host status events, deliveries and a Rust-side drop (with any cancel answer
    the CM allows) that respects the CM host protocol ([valid_trace]); flat/indirect parameters and
    heap data only change echoed instrumentation arguments ([render]). *)
From Coq Require Import NArith ZArith List Bool.
From WB Require Import Async.Host Async.SubtaskOp Async.SubtaskOpSpec Async.SubtaskOpProofs.
Import ListNotations.
Local Open Scope N_scope.

(** While the history runs no rule of the monitor is broken — each of dealloc_lists,
    dealloc_lists_and_own, results_lift, subtask.drop, subtask.cancel, area alloc/free happens at
    most once; dealloc_lists only after a status implying the callee started and never together
    with dealloc_lists_and_own, which needs STARTED_CANCELLED; results_lift only after RETURNED;
    subtask.drop only with a handle and after the resolution; subtask.cancel only while the call is in
    progress; nothing touches the params/results area after it was freed; the host never traps
    (in particular nothing is cancelled while joined to a set or dropped unresolved) — and the
    runtime never panics. *)
Theorem C21_safety : forall c tr,
  valid_trace c tr = true ->
  m_bad (mon_run (final_log c tr)) = None /\ s_err (final_state c tr) = None.
Proof. exact subtask_safety. Qed.

(** Once the future has completed or has been dropped, everything happened exactly once. *)
Theorem C21_exactly_once : forall c tr,
  valid_trace c tr = true -> quiescent (final_state c tr) = true ->
  mon_final (a_area c) (mon_run (final_log c tr)) = None.
Proof. exact subtask_exactly_once. Qed.

(** ... which means: *)
Theorem C21_counts : forall c tr,
  valid_trace c tr = true -> quiescent (final_state c tr) = true ->
  let m := mon_run (final_log c tr) in
  if m_called m then
    exists r, m_resolution m = Some r
      /\ m_dl m = b2n (negb (r =? STATUS_STARTED_CANCELLED))   (* lists freed once iff the callee started *)
      /\ m_dlo m = b2n (r =? STATUS_STARTED_CANCELLED)          (* lists+owned handles released once iff cancelled before start *)
      /\ m_lift m = b2n (r =? STATUS_RETURNED)                  (* results lifted once iff returned *)
      /\ m_stdrop m = b2n (m_handle m)                          (* handle dropped once iff one existed *)
      /\ m_alloc m = b2n (a_area c) /\ m_free m = m_alloc m     (* area freed exactly once *)
      /\ m_pdrop m = 0
  else m_pdrop m = 1 /\ m_lower m = 0 /\ m_alloc m = 0 /\ m_dl m = 0 /\ m_dlo m = 0 /\ m_lift m = 0
       /\ m_stdrop m = 0 /\ m_stcancel m = 0.
Proof. intros c tr H Hq. apply (mon_final_spec (a_area c)). now apply subtask_exactly_once. Qed.

(** A Rust-side drop is possible at every point of every valid history and leads to quiescence
    (so the two theorems above cover "drop at every point"). *)
Theorem C21_droppable_at_every_point : forall c tr,
  valid_trace c tr = true ->
  valid_trace c (tr ++ [ADrop None]) = true /\ quiescent (final_state c (tr ++ [ADrop None])) = true.
Proof. exact subtask_droppable. Qed.

(** Non-vacuity: see [valid_example], [valid_example_cancel_before_start], [monitor_rejects] in
    SubtaskOpProofs.v; one more here (returned immediately, no handle, no area). *)
Example C21_example_immediate :
  let c := mkAcfg true false 2 false in
  valid_trace c [APoll] = true /\ quiescent (final_state c [APoll]) = true
  /\ m_lift (mon_run (final_log c [APoll])) = 1 /\ m_stdrop (mon_run (final_log c [APoll])) = 0.
Proof. vm_compute. repeat split. Qed.

Print Assumptions C21_safety.
Print Assumptions C21_exactly_once.
Print Assumptions C21_counts.
Print Assumptions C21_droppable_at_every_point.
