(** C10 — C guest bindings carry every value across the boundary unchanged.

    LEVEL translation_validation.  What is PROVED here (all WIT types the C backend supports, pointer widths 4 and 8):
    the C data representation the generated header declares (WB.Core.CLayout, a transcription of crates/c/src/lib.rs
    type_record / type_variant / type_option / type_result / type_tuple / type_list / type_map / type_flags / type_enum
    / type_resource) has exactly the canonical-ABI size, alignment, field offsets and payload offset.  This is the fact
    the backend's list/string/map transport rests on: ListLower/ListCanonLower/StringLower/MapLower pass the user's
    buffer pointer to the host as is and ListLift/MapLift cast the host's buffer to the C element type, for every
    element type.

    Documented dependencies (proved elsewhere, not restated): the shared instruction stream every backend consumes —
    Props.C01 (C01_flat_types_exact, C01_flatten_is_canonical), Props.C02 (C02_core_signature_is_canonical),
    Props.C04 (C04_roundtrip, C04_lower_is_zero_extend, C04_lift_is_spec_coercion, C04_join_is_spec_join: the
    Bitcast table that crates/c perform_cast implements), Props.C14 (scalar conversion templates of the C backend).

    What is VALIDATED, not proved (checks/c10.py + lib/genrun_c.py): the FunctionBindgen::emit arms of crates/c/src/lib.rs,
    by compiling the generated C natively and running it against WB.Canon.Spec (extracted) as the component-model host.

    C10_full (the property as stated; not a theorem here): for every world W, option set o, function f of W and
    well-typed value v, running the generated export wrapper of f on Spec.lower_flat(v) delivers v to the C
    implementation, and Spec.lift_flat of what the generated wrappers hand to the host yields the value the C code
    passed. *)
From Coq Require Import List NArith.
From WB Require Import Wit.Ty Canon.Spec Core.CLayout Core.CLayoutProofs.
Import ListNotations.
Local Open Scope N_scope.

Theorem C10_c_layout_is_canonical : forall pw t, pw = 4 \/ pw = 8 -> c_supported t = true ->
  c_align pw (c_repr t) = alignment pw t /\ c_size pw (c_repr t) = elem_size pw t.
Proof. exact c_layout_is_canonical. Qed.

Theorem C10_c_field_offsets_are_canonical : forall pw fs, pw = 4 \/ pw = 8 -> forallb c_supported fs = true ->
  c_offsets pw (map c_repr fs) = map fst (field_offsets pw fs).
Proof. exact c_field_offsets_are_canonical. Qed.

Theorem C10_c_payload_offset_is_canonical : forall pw ds cs p ps, pw = 4 \/ pw = 8 ->
  forallb (fun o => match o with Some t => c_supported t | None => true end) cs = true ->
  payloads c_repr cs = p :: ps ->
  c_offsets pw [CInt ds; CUnion (p :: ps)] = [0; payload_offset pw ds cs].
Proof. exact c_payload_offset_is_canonical. Qed.

(** Outside the quantifier (flags with more than 32 members are not valid component types): the uint64_t the
    backend declares for 33..64 flags is 8-aligned, the canonical ABI aligns such flags to 4. *)
Theorem C10_wide_flags_layout_refuted : exists t, c_align 4 (c_repr t) <> alignment 4 t.
Proof. exact wide_flags_layout_refuted. Qed.

(** Non-vacuity: a supported type using every aggregate constructor; both pointer widths. *)
Example C10_example :
  let t := TRecord [TU8; TList TString; TOption TU64; TVariant [None; Some TString; Some (TTuple [TU8; TF32])];
                    TFlags 17; TResult (Some TF64) None; TMap TString TU32; TOwn; TEnum 300] in
  c_supported t = true /\ c_size 4 (c_repr t) = elem_size 4 t /\ c_size 8 (c_repr t) = 112.
Proof. vm_compute. repeat split; reflexivity. Qed.

Print Assumptions C10_c_layout_is_canonical.
Print Assumptions C10_c_field_offsets_are_canonical.
Print Assumptions C10_c_payload_offset_is_canonical.
Print Assumptions C10_wide_flags_layout_refuted.
