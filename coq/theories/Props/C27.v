(** C27 — Distinct packages get distinct generated module names.
    Model: WB.Core.PkgName (crates/core/src/path.rs [name_package_module] + heck 0.5 snake case +
    semver/u64 Display); tie: harness/corelib `pkgname` vs the extracted model.

    FULL STATEMENT (the property as given) — it is FALSE for the real code, see [C27_refuted]:

      C27_full : forall S, valid_set S = true -> one_ns S = true -> NoDup (module_names S).

    What is proved instead:
    - [C27_refuted], [C27_refuted_each_mechanism]: machine-checked counter-examples, one per collision
      mechanism of [PkgNameClass.classify]; the same witnesses are replayed on the real function by
      checks/c27.py in every run (keys in known-findings.txt);
    - [C27_partial_plain], [C27_partial_prerelease]: the statement on two restricted domains, unbounded;
    - [C27_collisions_classified]: in the model every collision falls in a [KnownClass];
    - [C27_dec_injective]: the decimal printing used for version numbers is injective. *)
From Coq Require Import List String Ascii NArith Bool.
From WB Require Import Core.PkgName Core.PkgNameClass Core.PkgNameProofs.
Import ListNotations.

(** Lower-case names that do not end in a digit + versions of the plain form major.minor.patch:
    all module names of one namespace are pairwise distinct. *)
Theorem C27_partial_plain : forall S,
  valid_set S = true -> one_ns S = true -> forallb plain_pkg S = true -> NoDup (module_names S).
Proof. exact plain_injective. Qed.

(** Lower-case names without digits + versions without build metadata whose pre-release part consists
    of dot-separated identifiers over [a-z0-9]: all module names of one namespace are pairwise distinct. *)
Theorem C27_partial_prerelease : forall S,
  valid_set S = true -> one_ns S = true -> forallb prerelease_pkg S = true -> NoDup (module_names S).
Proof. exact prerelease_injective. Qed.

(** In the model, two distinct packages of a set that receive the same module name always fall into one
    of the registered mechanism classes (i.e. [classify] never answers [MUnexplained] on a collision). *)
Theorem C27_collisions_classified : forall S a b, colliding S a b = true -> KnownClass S a b = true.
Proof. exact collisions_classified. Qed.

Theorem C27_dec_injective : forall a b, dec a = dec b -> a = b.
Proof. exact dec_injective. Qed.

(** * Witnesses *)
Definition s (x : string) : str := list_ascii_of_string x.
Definition V (a b c : N) (p q : string) : option version :=
  Some {| major := a; minor := b; patch := c; pre := s p; build := s q |}.
Definition P (n : string) (v : option version) : pkg := {| pns := s "foo"; pname := s n; pver := v |}.

(** foo:a@0.0.0+0 / foo:a@0.0.0-0  ->  a0_0_0_0 twice *)
Definition W_sep := [P "a" (V 0 0 0 "" "0"); P "a" (V 0 0 0 "0" "")].
(** foo:a@0.0.0 / foo:a@0.0.0--  ->  a0_0_0 twice *)
Definition W_fold := [P "a" (V 0 0 0 "" ""); P "a" (V 0 0 0 "-" "")].
(** foo:A / foo:a  ->  a twice *)
Definition W_namecase := [P "A" None; P "a" None].
(** foo:a@0.0.0-A / foo:a@0.0.0-a  ->  a0_0_0_a twice *)
Definition W_vercase := [P "a" (V 0 0 0 "A" ""); P "a" (V 0 0 0 "a" "")].
(** foo:a@0.0.0-a-b / foo:a@0.0.0-aB  ->  a0_0_0_a_b twice *)
Definition W_camel := [P "a" (V 0 0 0 "a-b" ""); P "a" (V 0 0 0 "aB" "")].
(** foo:a foo:a@10.0.0 foo:a1 foo:a1@0.0.0  ->  a a10_0_0 a1 a10_0_0 *)
Definition W_concat_vv := [P "a" None; P "a" (V 10 0 0 "" ""); P "a1" None; P "a1" (V 0 0 0 "" "")].
(** foo:a foo:a@0.0.0 foo:a0-0-0  ->  a a0_0_0 a0_0_0 *)
Definition W_concat_nv := [P "a" None; P "a" (V 0 0 0 "" ""); P "a0-0-0" None].

Definition nth_pkg (S : list pkg) (i : nat) : pkg := nth i S (P "" None).
Definition witness_ok (S : list pkg) (i j : nat) (m : mech) : bool :=
  valid_set S && one_ns S && colliding S (nth_pkg S i) (nth_pkg S j)
  && mech_eqb (classify S (nth_pkg S i) (nth_pkg S j)) m && negb (str_nodupb (module_names S)).

Lemma witnesses_ok :
  witness_ok W_sep 0 1 MSep && witness_ok W_fold 0 1 MFold && witness_ok W_namecase 0 1 MNameCase
  && witness_ok W_vercase 0 1 MVerCase && witness_ok W_camel 0 1 MCamel
  && witness_ok W_concat_vv 1 3 MConcatVV && witness_ok W_concat_nv 1 2 MConcatNV = true.
Proof. vm_compute. reflexivity. Qed.

Lemma mech_eqb_eq x y : mech_eqb x y = true -> x = y.
Proof. destruct x, y; simpl; congruence. Qed.

Lemma str_nodupb_complete l : NoDup l -> str_nodupb l = true.
Proof.
  induction 1 as [|x l Hn Hnd IH]; simpl; [reflexivity|]. rewrite IH, andb_true_r.
  apply negb_true_iff. destruct (existsb (str_eqb x) l) eqn:E; [|reflexivity].
  apply existsb_exists in E as (y & Hy & Exy). apply str_eqb_eq in Exy. subst. contradiction.
Qed.

(** The property as stated fails: a valid set of packages of one namespace, two of which (the same
    package name, versions 0.0.0+0 and 0.0.0-0) receive the same module name. *)
Theorem C27_refuted : exists S, valid_set S = true /\ one_ns S = true /\ ~ NoDup (module_names S).
Proof.
  exists W_sep. repeat split; try (vm_compute; reflexivity).
  intros H. apply str_nodupb_complete in H. vm_compute in H. discriminate.
Qed.

(** Every mechanism of the classification really occurs: for each one there is a valid set of packages of
    one namespace with a colliding pair of exactly that class. *)
Theorem C27_refuted_each_mechanism : forall m, m <> MUnexplained ->
  exists S a b, valid_set S = true /\ one_ns S = true /\ colliding S a b = true
                /\ classify S a b = m /\ ~ NoDup (module_names S).
Proof.
  assert (W : forall S i j m, witness_ok S i j m = true ->
              exists S a b, valid_set S = true /\ one_ns S = true /\ colliding S a b = true
                            /\ classify S a b = m /\ ~ NoDup (module_names S)).
  { intros S i j m H. unfold witness_ok in H.
    apply andb_prop in H as [H H5]. apply andb_prop in H as [H H4].
    apply andb_prop in H as [H H3]. apply andb_prop in H as [H1 H2].
    exists S, (nth_pkg S i), (nth_pkg S j).
    split; [exact H1|]. split; [exact H2|]. split; [exact H3|]. split; [now apply mech_eqb_eq|].
    intros Hn. apply str_nodupb_complete in Hn. rewrite Hn in H5. discriminate. }
  pose proof witnesses_ok as H.
  apply andb_prop in H as [H W7]. apply andb_prop in H as [H W6]. apply andb_prop in H as [H W5].
  apply andb_prop in H as [H W4]. apply andb_prop in H as [H W3]. apply andb_prop in H as [W1 W2].
  intros [] Hm; try congruence; eauto.
Qed.

(** * Non-vacuity *)
(** a set meeting every hypothesis of [C27_partial_plain], with names containing digits and dashes and a
    name carried by three versions: foo:a1b@1.0.0 foo:a1b@10.0.0 foo:a1b foo:a-b@1.0.0 foo:a1b-c *)
Example C27_partial_plain_nonvacuous :
  let S := [P "a1b" (V 1 0 0 "" ""); P "a1b" (V 10 0 0 "" ""); P "a1b" None; P "a-b" (V 1 0 0 "" ""); P "a1b-c" None] in
  valid_set S = true /\ one_ns S = true /\ forallb plain_pkg S = true
  /\ map (fun x => string_of_list_ascii x) (module_names S) = ["a1b1_0_0"; "a1b10_0_0"; "a1b"; "a_b"; "a1b_c"]%string.
Proof. vm_compute. auto. Qed.

Example C27_partial_prerelease_nonvacuous :
  let S := [P "ab" (V 1 0 0 "rc.1" ""); P "ab" (V 1 0 0 "rc.2" ""); P "ab" (V 1 0 0 "" ""); P "a-b" None; P "ab" (V 1 0 0 "rc1" "")] in
  valid_set S = true /\ one_ns S = true /\ forallb prerelease_pkg S = true
  /\ map (fun x => string_of_list_ascii x) (module_names S) = ["ab1_0_0_rc_1"; "ab1_0_0_rc_2"; "ab1_0_0"; "a_b"; "ab1_0_0_rc1"]%string.
Proof. vm_compute. auto. Qed.

(** [KnownClass] is not the trivial predicate: two versions that differ in the patch number are in no class *)
Example C27_known_class_is_narrow :
  let S := [P "a" (V 1 0 0 "" ""); P "a" (V 1 0 1 "" "")] in
  KnownClass S (nth_pkg S 0) (nth_pkg S 1) = false /\ colliding S (nth_pkg S 0) (nth_pkg S 1) = false.
Proof. vm_compute. auto. Qed.

Print Assumptions C27_partial_plain.
Print Assumptions C27_partial_prerelease.
Print Assumptions C27_refuted.
Print Assumptions C27_refuted_each_mechanism.
Print Assumptions C27_collisions_classified.
Print Assumptions C27_dec_injective.
