(** C23 — Cross-task wakeups are never lost or duplicated.

    Model: the inter-task wakeup part of WB.Async.Task ([wake_task], [itw_wake], [read_itw],
    [cancel_itw_read], [deliver]'s [consume_waitable_event] branch, their call sites in [task_cb] and
    [task_drop]) over the unit stream of WB.Async.Host; vocabulary in WB.Async.Wakeup.
    Tie: harness/crates/rtmock/src/bin/wakeups.rs (feature inter-task-wakeup, two tasks, wakes from
    the same task, another task, outside every task, a C-ABI callback, during polling, after
    exit) vs the extracted model, complete host log including every unit-stream call.

    The theorems below are per transition and hold in EVERY state, hence after every interleaving
    of wakes with the sleeping / polling / woken transitions of the task.

    FULL statement that is NOT true (C23_full): "for every valid scenario the runtime's asserts on
    the unit-stream return codes never fire".  [C23_stale_wake_refuted] is the counter-example
    (DESIGN.md section 6 item 6, confirmed on the real code): EVENT_CANCEL returns Exit without
    touching [sleep_state]; a task cancelled while SLEEPING stays SLEEPING for as long as a waker
    clone keeps its SharedTaskState alive; a later wake through that clone writes to the unit
    stream whose reader [TaskState::drop] has dropped, the host answers DROPPED and
    [assert_eq!(rc, COMPLETED | 1 << 4)] panics in the waking context.  The restriction of C23_full
    to the other scenarios is carried by the correspondence and search legs (no other assert
    ever fired in model or real code); its proof would need the invariant tying the task's
    [stream_reading] flag to the host's copy state of the reader. *)
From Coq Require Import NArith List Bool.
From WB Require Import Async.Host Async.Task Async.TaskSpec Async.TaskLemmas Async.TaskCallback
  Async.Wakeup Async.WakeupProofs.
Import ListNotations.
Local Open Scope N_scope.

(** *** A wake while SLEEPING writes exactly one unit (on the task's own writer) and leaves WOKEN. *)
Theorem C23_wake_while_sleeping_writes_one_unit : forall e t w wh,
  itw_on e -> tk_sleep (get_task t w) = SLEEPING -> tk_itw_w (get_task t w) = Some wh ->
  w_host (wake_task e t w) = fst (h_chan_write wh 1 (w_host w))
  /\ tk_sleep (get_task t (wake_task e t w)) = WOKEN
  /\ (failed (wake_task e t w) = true <-> failed w = true \/ snd (h_chan_write wh 1 (w_host w)) <> 16).
Proof. exact wake_while_sleeping. Qed.

(** *** Wakes while POLLING or WOKEN write nothing; repeated wakes before the next poll coalesce. *)
Theorem C23_wake_while_polling_or_woken_writes_nothing : forall e t w,
  tk_sleep (get_task t w) <> SLEEPING ->
  wake_task e t w = upd_task t (tk_with_sleep WOKEN) w.
Proof. exact wake_while_polling_or_woken. Qed.

Theorem C23_repeated_wakes_coalesce : forall e t w wh,
  itw_on e -> tk_sleep (get_task t w) = SLEEPING -> tk_itw_w (get_task t w) = Some wh ->
  w_host (wake_task e t (wake_task e t w)) = w_host (wake_task e t w).
Proof. exact second_wake_writes_nothing. Qed.

(** *** At most one read outstanding: one is started only when none is pending, and afterwards
    one is pending. *)
Theorem C23_read_not_restarted : forall e t w r,
  itw_on e -> tk_itw_r (get_task t w) = Some r -> tk_reading (get_task t w) = true ->
  read_itw e t w = w.
Proof. exact read_not_restarted. Qed.

Theorem C23_read_started_once : forall e t w r,
  itw_on e -> tk_itw_r (get_task t w) = Some r -> tk_reading (get_task t w) = false ->
  exists w1 c, hostr (h_chan_read r 1) w = (w1, c)
    /\ read_itw e t w =
       add_waitable t r (upd_task t (tk_with_reading true) (if N.eqb c BLOCKED then w1 else fail E_ITW_READ w1)).
Proof. exact read_started_once. Qed.

(** *** The pending read leaves the waitable set, then is cancelled; this is the first thing a
    callback does after delivering its event and the first thing [Drop for TaskState] does, so no
    read is pending when the task polls again or is destroyed. *)
Theorem C23_cancel_leaves_set_then_cancels : forall e t w r,
  itw_on e -> tk_reading (get_task t w) = true -> tk_itw_r (get_task t w) = Some r ->
  w_host (cancel_itw_read e t w) = fst (h_chan_cancel r false (h_join r 0 (w_host w)))
  /\ tk_reading (get_task t (cancel_itw_read e t w)) = false
  /\ failed (cancel_itw_read e t w) = failed w.
Proof. exact cancel_leaves_set_then_cancels. Qed.

Theorem C23_no_read_pending_after_cancel : forall e t w,
  itw_on e -> failed (cancel_itw_read e t w) = false ->
  tk_reading (get_task t (cancel_itw_read e t w)) = false.
Proof. exact no_read_pending_after_cancel. Qed.

(** *** The wakeup item is read exactly once: its event is consumed by the runtime itself. *)
Theorem C23_wakeup_event_consumed : forall e t w r code,
  itw_on e -> tk_itw_r (get_task t w) = Some r ->
  deliver e t r code w = upd_task t (tk_with_reading false) (hostf (h_join r 0) w).
Proof. exact itw_event_consumed. Qed.

(** *** Finding (C23_full refuted): wake through a waker that outlived a task cancelled while
    SLEEPING. *)
Theorem C23_stale_wake_refuted :
  exists sc, valid sc = true /\ err_class (run sc) = Some E_ITW_WRITE.
Proof. exists sc_stale_wake. split; vm_compute; reflexivity. Qed.

(** *** Non-vacuity. *)
Definition unit_calls (w : world) : list hostcall :=
  filter (fun c => match c with
                   | HWrite false _ _ _ | HRead false _ _ _ | HCancel false false _ _ | HDropEnd false _ _ | HChanNew false _ _ => true
                   | _ => false end) (h_log (w_host w)).
Definition answers (w : world) : list (N * N) :=
  flat_map (fun x => match x with VStart t c => [(t, c)] | VCb t _ _ _ c => [(t, c)] | _ => [] end) (rev (w_trace w)).

(** Task 1 sleeps on event 0 (Wait on its own set, read pending); task 0's body signals it while
    being polled: one unit written and answered COMPLETED(1); the host hands the event to task 1,
    which polls again and exits. *)
Example ex_cross_wake :
  valid sc_cross_wake = true /\ err_class (run sc_cross_wake) = None
  /\ unit_calls (run sc_cross_wake)
     = [HChanNew false 2 1; HRead false 1 1 4294967295; HWrite false 2 1 16; HDropEnd false true 2; HDropEnd false false 1]
  /\ answers (run sc_cross_wake) = [(1, 50); (0, 0); (1, 0)]
  /\ ctx_obs (run sc_cross_wake) = [true].
Proof. vm_compute. repeat split; reflexivity. Qed.

(** One task (async-spawn) waiting for two events, both signalled from outside before the next
    poll: exactly one write. *)
Example ex_coalesce :
  valid sc_coalesce = true /\ err_class (run sc_coalesce) = None
  /\ writes_on 2 (hlog (w_host (run sc_coalesce))) = [16]
  /\ answers (run sc_coalesce) = [(0, 1); (0, 50); (0, 0)].
Proof. vm_compute. repeat split; reflexivity. Qed.

(** The stale wake: the write is answered DROPPED(0) = 1. *)
Example ex_stale_wake :
  unit_calls (run sc_stale_wake)
  = [HChanNew false 2 1; HRead false 1 1 4294967295; HCancel false false 1 2; HDropEnd false false 1;
     HWrite false 2 1 1; HDropEnd false true 2].
Proof. vm_compute. reflexivity. Qed.

Print Assumptions C23_wake_while_sleeping_writes_one_unit.
Print Assumptions C23_wake_while_polling_or_woken_writes_nothing.
Print Assumptions C23_repeated_wakes_coalesce.
Print Assumptions C23_read_not_restarted.
Print Assumptions C23_read_started_once.
Print Assumptions C23_cancel_leaves_set_then_cancels.
Print Assumptions C23_no_read_pending_after_cancel.
Print Assumptions C23_wakeup_event_consumed.
Print Assumptions C23_stale_wake_refuted.
