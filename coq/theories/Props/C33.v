(** C33 — CLI check mode succeeds exactly when outputs are up to date.
    Model: WB.Core.CliCheck (src/bin/wit-bindgen.rs, the [for (name, contents) in files.iter()] loop
    of [main]); tie: the real binary built from the working tree, run on perturbed output directories,
    vs the extracted model.

    [fs p = Some bytes] iff reading the destination of [p] succeeds; [identical fs (p, c)] means the
    generated file exists with identical bytes; [files] is the generator output in iteration order. *)
From Coq Require Import List NArith.
From WB Require Import Core.Config Core.ConfigSpec Core.CliCheck Core.CliCheckProofs.
Import ListNotations.
Local Open Scope N_scope.

(** Check mode succeeds exactly when every file it would generate exists with identical bytes. *)
Theorem C33_ok_iff_up_to_date : forall fs files,
  run_check fs files = Ok <-> Forall (identical fs) files.
Proof. exact check_ok_iff. Qed.

(** What each failure means: the reported file is the FIRST one (in generation order) that is not
    identical; it is missing/unreadable, or differs and the line-ending condition holds, or differs
    otherwise. *)
Theorem C33_outcome_spec : forall fs files,
  match run_check fs files with
  | Ok => Forall (identical fs) files
  | ReadFailed p => exists pre c post, files = pre ++ (p, c) :: post /\ Forall (identical fs) pre /\
                                       fs p = None
  | LineEndingsOnly p => exists pre c post prev, files = pre ++ (p, c) :: post /\
        Forall (identical fs) pre /\ fs p = Some prev /\ prev <> c /\ line_endings_only prev c = true
  | NotUpToDate p => exists pre c post prev, files = pre ++ (p, c) :: post /\
        Forall (identical fs) pre /\ fs p = Some prev /\ prev <> c /\ line_endings_only prev c = false
  end.
Proof. exact check_outcome_spec. Qed.

(** The line-endings message is chosen exactly when both sides are UTF-8 text with the same lines and
    the existing file has no control character other than LF, CR, TAB. *)
Theorem C33_line_endings_condition : forall prev c,
  line_endings_only prev c = true <->
  exists up uc, utf8_decode prev = Some up /\ utf8_decode c = Some uc /\
                (forall ch, In ch up -> bad_control ch = false) /\ lines up = lines uc.
Proof. exact line_endings_only_iff. Qed.

(** A line-ending-only difference is reported as such: the existing file and the generated file are
    texts with the same lines [map fst ls1 = map fst ls2], each line terminated by LF or CRLF
    independently on the two sides (and the same unterminated last line), the existing text is free of
    other control characters, and every earlier file is up to date. *)
Theorem C33_line_ending_only_difference_reported : forall fs pre p c post prev ls1 ls2 tail,
  Forall (identical fs) pre -> fs p = Some prev -> prev <> c ->
  utf8_decode prev = Some (render ls1 ++ tail) -> utf8_decode c = Some (render ls2 ++ tail) ->
  Forall ok_line ls1 -> Forall ok_line ls2 -> map fst ls1 = map fst ls2 ->
  (forall ch, In ch (render ls1 ++ tail) -> bad_control ch = false) ->
  run_check fs (pre ++ (p, c) :: post) = LineEndingsOnly p.
Proof. exact crlf_only_difference_reported. Qed.

(** The same for ASCII files, stated on the bytes themselves. *)
Theorem C33_line_ending_only_difference_reported_ascii : forall fs pre p post ls1 ls2 tail,
  Forall (identical fs) pre ->
  fs p = Some (render ls1 ++ tail) -> render ls1 ++ tail <> render ls2 ++ tail ->
  Forall (fun b => b < 128) (render ls1 ++ tail) -> Forall (fun b => b < 128) (render ls2 ++ tail) ->
  Forall ok_line ls1 -> Forall ok_line ls2 -> map fst ls1 = map fst ls2 ->
  (forall ch, In ch (render ls1 ++ tail) -> bad_control ch = false) ->
  run_check fs (pre ++ (p, render ls2 ++ tail) :: post) = LineEndingsOnly p.
Proof. exact crlf_only_difference_reported_ascii. Qed.

Theorem C33_missing_file_reported : forall fs pre p c post,
  Forall (identical fs) pre -> fs p = None -> run_check fs (pre ++ (p, c) :: post) = ReadFailed p.
Proof. exact missing_file_reported. Qed.

(** Check mode never writes or modifies any file: the file system after the loop is the one before
    (the same function, without [--check], does write: see the example). *)
Theorem C33_check_never_writes : forall fs files, fst (run true fs files) = fs.
Proof. exact check_never_writes. Qed.

(** Non-vacuity.  Paths "a" = [97], "b" = [98]; generated "x\ny\n" for a, "z" for b. *)
Definition ex_files : list (path * bytes) := [([97], [120; 10; 121; 10]); ([98], [122])].
Definition ex_fs_ok : fsys := fs_of_list ex_files.
Definition ex_fs_crlf : fsys := fs_of_list [([97], [120; 13; 10; 121; 10]); ([98], [122])].
Definition ex_fs_missing : fsys := fs_of_list [([97], [120; 10; 121; 10])].
Definition ex_fs_binary : fsys := fs_of_list [([97], [120; 13; 10; 121; 10; 255]); ([98], [122])].
Definition ex_fs_ctl : fsys := fs_of_list [([97], [120; 13; 10; 121; 10]); ([98], [122; 13; 10; 12])].

Example C33_ex_ok : run_check ex_fs_ok ex_files = Ok /\ Forall (identical ex_fs_ok) ex_files.
Proof. split; [reflexivity|repeat constructor]. Qed.
Example C33_ex_crlf : run_check ex_fs_crlf ex_files = LineEndingsOnly [97].
Proof. reflexivity. Qed.
Example C33_ex_crlf_hyps :
  let ls1 := [([120], CrLf); ([121], Lf)] in let ls2 := [([120], Lf); ([121], Lf)] in
  ex_fs_crlf [97] = Some (render ls1 ++ []) /\ snd (hd ([], []) ex_files) = render ls2 ++ [] /\
  map fst ls1 = map fst ls2 /\ render ls1 ++ [] <> render ls2 ++ [].
Proof. cbn. repeat split; discriminate. Qed.
Example C33_ex_missing : run_check ex_fs_missing ex_files = ReadFailed [98].
Proof. reflexivity. Qed.
Example C33_ex_binary : run_check ex_fs_binary ex_files = NotUpToDate [97].
Proof. reflexivity. Qed.
Example C33_ex_first_wins : run_check ex_fs_ctl ex_files = LineEndingsOnly [97].
Proof. reflexivity. Qed.
Example C33_ex_write_mode_writes :
  fst (run false ex_fs_missing ex_files) [98] = Some [122] /\ ex_fs_missing [98] = None /\
  fst (run true ex_fs_missing ex_files) [98] = None.
Proof. repeat split. Qed.

Print Assumptions C33_ok_iff_up_to_date.
Print Assumptions C33_outcome_spec.
Print Assumptions C33_line_endings_condition.
Print Assumptions C33_line_ending_only_difference_reported.
Print Assumptions C33_line_ending_only_difference_reported_ascii.
Print Assumptions C33_missing_file_reported.
Print Assumptions C33_check_never_writes.
