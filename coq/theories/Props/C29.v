(** C29 — Markdown docs have valid links (and verbatim documentation text: search leg only).
    Proved part: WB.Core.MdLinks, model of the event pass of Markdown::finish (crates/markdown/src/lib.rs);
    tie: harness/crates/mdtie runs the REAL finish loop (lib.rs textually included) on arbitrary markdown
    + hrefs and compares the HTML with the HTML rendered from the model's plan.
    Validated part: WB.Valid.HtmlLinks.check, extracted and run on the real .html of random worlds. *)
From Coq Require Import List String Ascii Bool NArith.
From WB Require Import Core.MdLinks Core.MdLinksProofs Valid.HtmlLinks Valid.HtmlLinksProofs.
Import ListNotations.
Local Open Scope string_scope.

(** HYPOTHESIS about pulldown-cmark (what the comment in finish assumes): the parser's event stream never
    nests links and every End(Link) closes a Start(Link), i.e. [well_nested false evs = true].  TRUSTED:
    push_html renders Start(Link)/End(Link) as <a href>/</a>.  Under the hypothesis, for EVERY hrefs map
    and EVERY event stream, what finish hands to the HTML renderer never opens a link inside a link.
    (The hypothesis is evaluated on every stream of every run; it FAILS for autolinks inside inline links,
    see C29_generated_link_inside_link_refuted below.) *)
Theorem C29_pass_never_nests_links : forall h evs b,
  well_nested b evs = true -> well_nested b (pass h b evs) = true.
Proof. exact pass_well_nested. Qed.

(** C29_full (link half, on the model) — FALSE, kept visible:
      forall h evs i dst, balanced 0 evs = true ->
        nth_error (plan h false evs) i = Some (Some dst) -> depth_at 0 evs i = 0.
    pulldown-cmark 0.13 emits an autolink inside an inline link as nested Start(Link) events (found by this
    check's differential run; CommonMark forbids links in links, the code comment in finish relies on it). *)
Theorem C29_no_generated_link_inside_link_partial : forall h evs i dst,
  well_nested false evs = true ->
  nth_error (plan h false evs) i = Some (Some dst) -> depth_at 0 evs i = 0.
Proof. exact no_generated_link_inside_link_partial. Qed.

Theorem C29_generated_link_inside_link_refuted : exists h evs i dst,
  balanced 0 evs = true /\ nth_error (plan h false evs) i = Some (Some dst) /\ depth_at 0 evs i = 1.
Proof. exact generated_link_inside_link_refuted. Qed.

(** Exactly the code spans outside links whose text is a key of hrefs are wrapped, with hrefs' target. *)
Theorem C29_wrapped_iff_code_outside_link : forall h evs b i dst,
  nth_error (plan h b evs) i = Some (Some dst) <->
  exists c, nth_error evs i = Some (Code c) /\ in_link_at b evs i = false /\ lookup c h = Some dst.
Proof. exact plan_spec. Qed.

(** The pass only inserts: removing the wrappers gives the parser's stream back. *)
Theorem C29_pass_only_inserts : forall h evs b, unwrap (pass h b evs) (plan h b evs) = evs.
Proof. exact pass_only_inserts. Qed.

(** The verified checker run on the real HTML reports nothing iff no <a href> is opened while another
    is open, every </a> closes an <a>, and every href="#x" has an id/name x in the same document (or was
    written by a doc-comment author). *)
Theorem C29_checker_sound : forall d, check d = [] -> valid d.
Proof. exact check_sound. Qed.

Theorem C29_checker_complete : forall d, valid d -> check d = [].
Proof. exact check_complete. Qed.

(** Non-vacuity. *)
Definition ex_hrefs : hrefs := [("t", "#t"); ("foo", "#foo")].
Definition ex_evs : list ev :=
  [Other 0; Code "t"; Other 1; StartLink "#t"; Code "t"; EndLink; StartLink "http://x"; Other 2; Code "foo"; EndLink; Code "bar"].

Example C29_ex_hyp : well_nested false ex_evs = true.
Proof. reflexivity. Qed.

Example C29_ex_pass :
  pass ex_hrefs false ex_evs =
  [Other 0; StartLink "#t"; Code "t"; EndLink; Other 1; StartLink "#t"; Code "t"; EndLink;
   StartLink "http://x"; Other 2; Code "foo"; EndLink; Code "bar"].
Proof. reflexivity. Qed.

(** the hypothesis is needed: on a (hypothetical) nested input the single boolean is reset too early *)
Example C29_ex_hyp_needed :
  well_nested false (pass ex_hrefs false [StartLink "a"; StartLink "b"; EndLink; Code "t"; EndLink]) = false.
Proof. reflexivity. Qed.

Example C29_ex_good :
  check {| d_toks := [AOpen None ["w"]; AClose; AOpen (Some "#a_b_i") []; AClose; AOpen None ["a_b_i"]; AClose;
                      OtherId "h"; AOpen (Some "#h") []; AClose; AOpen (Some "http://x") []; AClose;
                      AOpen (Some "#q") []; AClose; AOpen (Some "#") []; AClose];
           d_authored := ["q"] |} = [].
Proof. reflexivity. Qed.

Example C29_ex_bad :
  check {| d_toks := [AOpen (Some "#q") []; AOpen (Some "#foo") []; AClose; AClose; AClose;
                      AOpen None ["foo"]; AOpen (Some "#bar") ["x"]; AClose; AClose];
           d_authored := [] |}
  = [Nested "#foo"; StrayClose; Dangling "q"; Dangling "bar"].
Proof. reflexivity. Qed.

Print Assumptions C29_pass_never_nests_links.
Print Assumptions C29_no_generated_link_inside_link_partial.
Print Assumptions C29_generated_link_inside_link_refuted.
Print Assumptions C29_wrapped_iff_code_outside_link.
Print Assumptions C29_pass_only_inserts.
Print Assumptions C29_checker_sound.
Print Assumptions C29_checker_complete.
