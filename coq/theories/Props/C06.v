(** * C06 (oracle side): the allocation ledger of the canonical-ABI oracle is predictable

    This file is shared: the block below is owned by the spec-ledger work; further C06 theorems are added
    by the genrun-rust package in their own block.

    [spec_allocs pw t v] ([Canon/SpecRoundtripLedger.v]) = the (size, align) of every NON-ZERO-sized allocation
    the oracle performs for [v : t], in allocation order, as a function of type and value only
    (string: (len, 1); list / map: (len * elem_size, alignment) BEFORE the elements' own allocations;
    fixed / record / tuple: concatenation in element / field order; variant / option / result: the active case).

    [C06_ledger_prediction_sound] (no hypothesis on pw, t, v beyond the run succeeding; in particular no
    [has_type] / [valid_ty] is needed): every successful [lower_flat] / [store], from ANY allocator state,
    appends to the ledger entries whose (size, align) sequence is exactly [spec_allocs pw t v] - so the flat and
    the memory form allocate the same sequence, and the sequence is independent of addresses, of memory and of
    the allocator state.  Presets are consumed one per entry, in order ([presets st' = skipn k (presets st)]); when
    at least [k] presets are available the entries' addresses are exactly the first [k] presets.  Zero-sized
    requests consume no preset and enter no entry.  The last two conjuncts are the prediction step of the
    two-step protocol: the sequence read off a run that starts with an empty ledger (the [allocs] service on
    [mstate0 base]) IS [spec_allocs pw t v], hence equals what any later run under presets enters.

    [C06_ledger_protocol_total] ([has_type t v] only): on a well-typed value both steps of the protocol succeed -
    [lower_flat] / [store] are total from ANY allocator state (bump or presets, arbitrary addresses) - and the
    re-run enters exactly the sequence predicted from [mstate0 base].

    [C06_ledger_blocks_wellformed] (0 < pw, bump allocator): every new ledger entry (p, s, a) has 0 < s, 0 < a,
    p mod a = 0, lies inside [next st, next st'), and the new entries are pairwise disjoint. *)
From Coq Require Import List ZArith NArith Bool.
From WB Require Import Wit.Ty Canon.Spec Canon.SpecRoundtripLedger Canon.SpecRoundtripLedgerTotal.
Import ListNotations.
Local Open Scope N_scope.

(* ===== block owned by the spec-ledger work (Canon/SpecRoundtripLedger.v) ===== *)

Theorem C06_ledger_prediction_sound :
  forall (pw : N) (t : ty) (v : val),
  (* flat form: any successful run, from any allocator state *)
  (forall st cs st', lower_flat pw t v st = Some (cs, st') ->
     exists new,
       allocs st' = (new ++ allocs st)%list /\
       map (fun '(_, s, a) => (s, a)) (rev new) = spec_allocs pw t v /\
       presets st' = skipn (length (spec_allocs pw t v)) (presets st) /\
       ((length (spec_allocs pw t v) <= length (presets st))%nat ->
          map (fun '(p, _, _) => p) (rev new) = firstn (length (spec_allocs pw t v)) (presets st))) /\
  (* memory form *)
  (forall a st st', store pw t v a st = Some st' ->
     exists new,
       allocs st' = (new ++ allocs st)%list /\
       map (fun '(_, s, a) => (s, a)) (rev new) = spec_allocs pw t v /\
       presets st' = skipn (length (spec_allocs pw t v)) (presets st) /\
       ((length (spec_allocs pw t v) <= length (presets st))%nat ->
          map (fun '(p, _, _) => p) (rev new) = firstn (length (spec_allocs pw t v)) (presets st))) /\
  (* the prediction step of the protocol: what the [allocs] service reads off a run that starts with an
     empty ledger is [spec_allocs], whatever the base address / allocator state *)
  (forall st0 cs0 st0', allocs st0 = [] -> lower_flat pw t v st0 = Some (cs0, st0') ->
     map (fun '(_, s, a) => (s, a)) (rev (allocs st0')) = spec_allocs pw t v) /\
  (forall a0 st0 st0', allocs st0 = [] -> store pw t v a0 st0 = Some st0' ->
     map (fun '(_, s, a) => (s, a)) (rev (allocs st0')) = spec_allocs pw t v).
Proof. exact ledger_prediction_sound. Qed.

Theorem C06_ledger_blocks_wellformed :
  forall (pw : N), 0 < pw -> forall (t : ty) (v : val) (st : mstate), presets st = [] ->
  (forall cs st', lower_flat pw t v st = Some (cs, st') ->
     exists new,
       allocs st' = (new ++ allocs st)%list /\
       presets st' = [] /\ next st <= next st' /\
       Forall (fun '(p, s, a) => 0 < s /\ 0 < a /\ p mod a = 0 /\ next st <= p /\ p + s <= next st') new /\
       ForallOrdPairs (fun x y => let '(p, s, _) := x in let '(q, r, _) := y in p + s <= q \/ q + r <= p) new) /\
  (forall a st', store pw t v a st = Some st' ->
     exists new,
       allocs st' = (new ++ allocs st)%list /\
       presets st' = [] /\ next st <= next st' /\
       Forall (fun '(p, s, a) => 0 < s /\ 0 < a /\ p mod a = 0 /\ next st <= p /\ p + s <= next st') new /\
       ForallOrdPairs (fun x y => let '(p, s, _) := x in let '(q, r, _) := y in p + s <= q \/ q + r <= p) new).
Proof. exact ledger_blocks_wellformed. Qed.

Print Assumptions C06_ledger_prediction_sound.
Print Assumptions C06_ledger_blocks_wellformed.

Theorem C06_ledger_protocol_total :
  forall (pw : N) (t : ty) (v : val), has_type t v = true ->
  (* flat form: the prediction run (empty ledger, bump from [base]) and the re-run from ANY state [st] (e.g. with the
     guest allocator's addresses as presets) both succeed, and the re-run enters exactly the predicted sequence *)
  (forall base st, exists cs0 st0' cs st',
      lower_flat pw t v (mstate0 base) = Some (cs0, st0') /\
      lower_flat pw t v st = Some (cs, st') /\
      let pred := map (fun '(_, s, a) => (s, a)) (rev (allocs st0')) in
      exists new,
        allocs st' = (new ++ allocs st)%list /\
        map (fun '(_, s, a) => (s, a)) (rev new) = pred /\
        presets st' = skipn (length pred) (presets st) /\
        ((length pred <= length (presets st))%nat ->
           map (fun '(p, _, _) => p) (rev new) = firstn (length pred) (presets st))) /\
  (* memory form *)
  (forall base a0 a st, exists st0' st',
      store pw t v a0 (mstate0 base) = Some st0' /\
      store pw t v a st = Some st' /\
      let pred := map (fun '(_, s, a) => (s, a)) (rev (allocs st0')) in
      exists new,
        allocs st' = (new ++ allocs st)%list /\
        map (fun '(_, s, a) => (s, a)) (rev new) = pred /\
        presets st' = skipn (length pred) (presets st) /\
        ((length pred <= length (presets st))%nat ->
           map (fun '(p, _, _) => p) (rev new) = firstn (length pred) (presets st))).
Proof. exact ledger_protocol_total. Qed.
Print Assumptions C06_ledger_protocol_total.

(** Non-vacuity: concrete runs, bump allocator AND a concrete preset list, both pointer widths. *)
Definition c06_t1 : ty :=
  TRecord [TU8; TList TString; TOption TU64; TVariant [Some TF32; None; Some TS64]].
Definition c06_v1 : val :=
  VRec [VNum 200; VList [VStr [104; 105]; VStr []; VStr [255]];
        VVar 1 (Some (VNum 18446744073709551615)); VVar 2 (Some (VNum (-5)))].
Definition c06_t2 : ty :=
  TTuple [TMap TString TS32; TFixed (TList TU16) 2; TResult (Some TString) None;
          TList (TRecord [TU16; TList TU8]); TList TU64].
Definition c06_v2 : val :=
  VRec [VList [VRec [VStr [97]; VNum (-1)]; VRec [VStr [98; 99]; VNum 7]];
        VList [VList [VNum 1; VNum 2; VNum 3]; VList []];
        VVar 0 (Some (VStr [1; 2; 3; 4; 5]));
        VList [VRec [VNum 65535; VList [VNum 1; VNum 2; VNum 3]]; VRec [VNum 0; VList []]];
        VList []].

Definition c06_presets (ps : list N) : mstate := {| mem := fun _ => 0; next := 0; allocs := []; presets := ps |}.
Definition c06_run_flat (pw : N) (t : ty) (v : val) (st : mstate) : option (list (N * N * N) * list N) :=
  match lower_flat pw t v st with Some (_, st') => Some (rev (allocs st'), presets st') | None => None end.
Definition c06_run_mem (pw : N) (t : ty) (v : val) (a : N) (st : mstate) : option (list (N * N * N) * list N) :=
  match store pw t v a st with Some st' => Some (rev (allocs st'), presets st') | None => None end.

Example C06_ex1_pred_8 : spec_allocs 8 c06_t1 c06_v1 = [(48, 8); (2, 1); (1, 1)].
Proof. vm_compute. reflexivity. Qed.
Example C06_ex1_pred_4 : spec_allocs 4 c06_t1 c06_v1 = [(24, 4); (2, 1); (1, 1)].
Proof. vm_compute. reflexivity. Qed.
Example C06_ex1_bump_8 :
  c06_run_flat 8 c06_t1 c06_v1 (mstate0 65536) = Some ([(65536, 48, 8); (65584, 2, 1); (65586, 1, 1)], []).
Proof. vm_compute. reflexivity. Qed.
Example C06_ex1_presets_8 :
  c06_run_flat 8 c06_t1 c06_v1 (c06_presets [1000; 2000; 3000; 4000])
  = Some ([(1000, 48, 8); (2000, 2, 1); (3000, 1, 1)], [4000]).
Proof. vm_compute. reflexivity. Qed.
Example C06_ex1_mem_presets_4 :
  c06_run_mem 4 c06_t1 c06_v1 64 (c06_presets [1000; 2000; 3000])
  = Some ([(1000, 24, 4); (2000, 2, 1); (3000, 1, 1)], []).
Proof. vm_compute. reflexivity. Qed.

Example C06_ex2_pred_8 :
  spec_allocs 8 c06_t2 c06_v2
  = [(48, 8); (1, 1); (2, 1); (6, 2); (5, 1); (48, 8); (3, 1)].
Proof. vm_compute. reflexivity. Qed.
Example C06_ex2_bump_matches_pred_8 :
  match c06_run_flat 8 c06_t2 c06_v2 (mstate0 65536) with
  | Some (l, ps) => (map (fun '(_, s, a) => (s, a)) l, ps)
  | None => ([], [0])
  end = (spec_allocs 8 c06_t2 c06_v2, []).
Proof. vm_compute. reflexivity. Qed.
Example C06_ex2_presets_8 :
  c06_run_flat 8 c06_t2 c06_v2 (c06_presets [800; 700; 600; 500; 400; 300; 200; 100])
  = Some ([(800, 48, 8); (700, 1, 1); (600, 2, 1); (500, 6, 2); (400, 5, 1); (300, 48, 8); (200, 3, 1)], [100]).
Proof. vm_compute. reflexivity. Qed.
Example C06_ex2_mem_matches_pred_4 :
  match c06_run_mem 4 c06_t2 c06_v2 128 (mstate0 65536) with
  | Some (l, ps) => (map (fun '(_, s, a) => (s, a)) l, ps)
  | None => ([], [0])
  end = (spec_allocs 4 c06_t2 c06_v2, []).
Proof. vm_compute. reflexivity. Qed.

Example C06_ex_hyps : has_type c06_t1 c06_v1 && has_type c06_t2 c06_v2 = true.
Proof. vm_compute. reflexivity. Qed.

(* ===== end of the spec-ledger block ===== *)

(* ===== facts imported from the instruction-level and runtime properties (not re-proved here) ===== *)
(** The differential leg of C06 relies on three facts that are theorems elsewhere in this development; they are restated
    here (closed by [exact]) so that the evidence of C06 names exactly what it stands on:
    - whether a post-return function is generated at all is decided exactly by "the result type can hold heap data"
      (C03, about the model [Abi/Gen.v] of crates/core/src/abi.rs, tied token-for-token to the real generator);
    - a scratch buffer owned by a [Cleanup] is released by exactly one [dealloc] with the layout it was allocated with, and
      [cabi_dealloc] frees iff the size is non-zero (C24, about the model [Core/Realloc.v] of crates/guest-rust/src/rt/mod.rs
      and of the [cabi_dealloc] text the Rust generator emits). *)
From WB Require Abi.Sig Abi.Gen Abi.Check Abi.DeallocProofs Core.Realloc Core.ReallocSpec Core.ReallocProofs.

Section ImportedFromC03.
  Import WB.Abi.Sig WB.Abi.Gen WB.Abi.Check WB.Abi.DeallocProofs.
  Theorem C06_post_return_generated_iff_heap : forall fn,
    guest_export_needs_post_return fn = match f_result fn with Some t => has_heap t | None => false end.
  Proof. exact post_return_iff_heap. Qed.
End ImportedFromC03.

Section ImportedFromC24.
  Import WB.Core.Realloc WB.Core.ReallocSpec WB.Core.ReallocProofs.
  Theorem C06_scratch_buffer_freed_exactly_once :
    forall (A : allocator) (debug : bool), contract A ->
    forall h0 : heap A, wf_blocks (live A h0) ->
    forall ops, history_consistent A debug (init A h0) ops ->
    forall s i x s',
      In (s, ODrop i, x, s') (trace A debug (init A h0) ops) ->
      exists c, entry (st_hs s) i = Some c /\ drop_post A s i c x s'.
  Proof. exact scratch_drop. Qed.

  Theorem C06_dealloc_frees_iff_nonzero :
    forall (A : allocator) (debug : bool), contract A ->
    forall h0 : heap A, wf_blocks (live A h0) ->
    forall ops, history_consistent A debug (init A h0) ops ->
    forall s pr size align x s',
      In (s, ODealloc pr size align, x, s') (trace A debug (init A h0) ops) ->
      dealloc_post A s pr size align x s'.
  Proof. exact dealloc_frees_iff_nonzero. Qed.
End ImportedFromC24.

Print Assumptions C06_post_return_generated_iff_heap.
Print Assumptions C06_scratch_buffer_freed_exactly_once.
Print Assumptions C06_dealloc_frees_iff_nonzero.
