(** * C05 (oracle side): the canonical-ABI oracle [Canon/Spec.v] round-trips every well-typed value

    FULL theorem, all constructors of [ty] covered: bool, u8..u64, s8..s64, f32, f64, char, string,
    error-context, list, fixed-length list, map, record, tuple, variant, enum, option, result, flags,
    own, borrow, future, stream (handles / future / stream / error-context are u32 table indices in this model).

    For pw in {4, 8}, every type [t] with [valid_ty t] and [bounded_ty t], every value [v] of that type, every
    state [st] of the bump allocator ([presets st = []]) and ARBITRARY initial memory [mem st]:
    (A) flat form: [lower_flat] is total; its result has exactly the core types [flatten pw t]; allocation only
        moves the bump pointer up and never writes below the old [next st]; and, when every address handed out
        fits a pointer ([next st' < 2^(8*pw)]), every core value is in range for its core type and
        [lift_flat] over the final memory (indeed over ANY memory that agrees with it on the freshly allocated
        range [next st, next st'), with ANY further core values appended) returns [v] and leaves exactly the rest.
    (B) memory form: for a target area [a, a + elem_size pw t) lying below the bump pointer, [store] is total,
        writes only inside the target area and at fresh addresses >= [next st], and (same pointer condition)
        [load] over the final memory (indeed over any memory agreeing with it on the target area and on the
        freshly allocated range) returns [v].

    Side conditions (each is necessary; see the comment at the top of [Canon/SpecRoundtrip.v] and the
    [..._needed] examples below):
    - [valid_ty t]: Spec.v's own predicate; used only for [0 < elem_size pw t] (list lengths are bounded by
      the bytes allocated for the elements);
    - [bounded_ty t] ([Canon/SpecRoundtripEq.v]): every variant / enum inside [t] has at most 2^32 cases, so that a
      case index fits the i32 discriminant / the [disc_size] bytes;
    - [next st' < 2 ^ (8 * pw)]: pointers and lengths fit [pw] bytes (strict: a length may equal [next st']).

    Proof files: [Canon/SpecRoundtripArith.v] (little-endian, flags, signed integers), [Canon/SpecRoundtripEq.v]
    (twins of Spec.v's local fixpoints + equation lemmas, layout facts), [Canon/SpecRoundtripMem.v] (B),
    [Canon/SpecRoundtripFlat.v] (A), [Canon/SpecRoundtrip.v] (conjunction). *)
From Coq Require Import List ZArith NArith Bool.
From WB Require Import Wit.Ty Canon.Spec Canon.SpecRoundtripEq Canon.SpecRoundtrip.
Import ListNotations.
Local Open Scope N_scope.

Theorem C05_spec_host_sound :
  forall pw : N, pw = 4 \/ pw = 8 ->
  forall t : ty, valid_ty t = true -> bounded_ty t = true ->
  forall v : val, has_type t v = true ->
  forall st : mstate, presets st = [] ->
  (* (A) flat form: lowering is total; lifting the lowered core values returns [v] and consumes exactly them *)
  (exists cs st',
      lower_flat pw t v st = Some (cs, st') /\
      presets st' = [] /\ next st <= next st' /\
      (forall b, b < next st -> mem st' b = mem st b) /\
      map fst cs = flatten pw t /\ length cs = length (flatten pw t) /\
      (next st' < 2 ^ (8 * pw) ->
         Forall (fun c : cval => snd c < 2 ^ ct_bits (fst c)) cs /\
         lift_flat pw t (mem st') cs = Some (v, []) /\
         (forall m rest, (forall b, next st <= b < next st' -> m b = mem st' b) ->
            lift_flat pw t m (cs ++ rest) = Some (v, rest)))) /\
  (* (B) memory form: storing into an already allocated area is total; loading returns [v] *)
  (forall a, a + elem_size pw t <= next st ->
     exists st',
       store pw t v a st = Some st' /\
       presets st' = [] /\ next st <= next st' /\
       (forall b, b < next st -> ~ (a <= b < a + elem_size pw t) -> mem st' b = mem st b) /\
       (next st' < 2 ^ (8 * pw) ->
          load pw t (mem st') a = Some v /\
          (forall m, (forall b, (a <= b < a + elem_size pw t) \/ (next st <= b < next st') -> m b = mem st' b) ->
             load pw t m a = Some v))).
Proof. exact spec_host_sound. Qed.

Print Assumptions C05_spec_host_sound.

(** ** Non-vacuity: concrete types and values meeting every hypothesis, round trip checked by computation
    for both pointer widths (memories are functions, so the lifted / loaded VALUE is compared). *)
Definition ex_t1 : ty :=
  TRecord [TU8; TList TString; TOption TU64; TVariant [Some TF32; None; Some TS64]].
Definition ex_v1 : val :=
  VRec [VNum 200; VList [VStr [104; 105]; VStr []; VStr [255]];
        VVar 1 (Some (VNum 18446744073709551615)); VVar 2 (Some (VNum (-5)))].

Definition ex_t2 : ty :=
  TTuple [TMap TString TS32; TFixed TS16 3; TFlags 40; TEnum 3; TResult (Some TChar) None; TBool;
          TFuture None; TOption (TOption TF64); TList (TRecord [TU16; TList TU8])].
Definition ex_v2 : val :=
  VRec [VList [VRec [VStr [97]; VNum (-1)]; VRec [VStr [98; 99]; VNum 2147483647]];
        VList [VNum (-32768); VNum 0; VNum 32767];
        VFlags (true :: false :: true :: repeat false 36 ++ [true]);
        VVar 2 None; VVar 0 (Some (VNum 1114111)); VBool true; VNum 7;
        VVar 1 (Some (VVar 1 (Some (VFloat 9221120237041090561))));
        VList [VRec [VNum 65535; VList [VNum 1; VNum 2; VNum 3]]; VRec [VNum 0; VList []]]].

Definition ex_hyps (t : ty) (v : val) (st : mstate) : bool :=
  valid_ty t && bounded_ty t && has_type t v && match presets st with [] => true | _ => false end.

(** flat form: lower, check the fits-a-pointer side condition, lift from the resulting memory *)
Definition ex_flat_rt (pw : N) (t : ty) (v : val) (st : mstate) : option (bool * option (val * list cval)) :=
  match lower_flat pw t v st with
  | Some (cs, st') => Some (next st' <? 2 ^ (8 * pw), lift_flat pw t (mem st') cs)
  | None => None
  end.
(** memory form: store at [a] (checked to lie below the bump pointer), load back *)
Definition ex_mem_rt (pw : N) (t : ty) (v : val) (a : N) (st : mstate) : option (bool * option val) :=
  match store pw t v a st with
  | Some st' => Some ((a + elem_size pw t <=? next st) && (next st' <? 2 ^ (8 * pw)), load pw t (mem st') a)
  | None => None
  end.

Example C05_ex1_hyps : ex_hyps ex_t1 ex_v1 (mstate0 64) = true.
Proof. vm_compute. reflexivity. Qed.
Example C05_ex1_flat_4 : ex_flat_rt 4 ex_t1 ex_v1 (mstate0 64) = Some (true, Some (ex_v1, [])).
Proof. vm_compute. reflexivity. Qed.
Example C05_ex1_flat_8 : ex_flat_rt 8 ex_t1 ex_v1 (mstate0 64) = Some (true, Some (ex_v1, [])).
Proof. vm_compute. reflexivity. Qed.
Example C05_ex1_mem_4 : ex_mem_rt 4 ex_t1 ex_v1 8 (mstate0 64) = Some (true, Some ex_v1).
Proof. vm_compute. reflexivity. Qed.
Example C05_ex1_mem_8 : ex_mem_rt 8 ex_t1 ex_v1 8 (mstate0 64) = Some (true, Some ex_v1).
Proof. vm_compute. reflexivity. Qed.

Example C05_ex2_hyps : ex_hyps ex_t2 ex_v2 (mstate0 256) = true.
Proof. vm_compute. reflexivity. Qed.
Example C05_ex2_flat_4 : ex_flat_rt 4 ex_t2 ex_v2 (mstate0 256) = Some (true, Some (ex_v2, [])).
Proof. vm_compute. reflexivity. Qed.
Example C05_ex2_flat_8 : ex_flat_rt 8 ex_t2 ex_v2 (mstate0 256) = Some (true, Some (ex_v2, [])).
Proof. vm_compute. reflexivity. Qed.
Example C05_ex2_mem_4 : ex_mem_rt 4 ex_t2 ex_v2 16 (mstate0 256) = Some (true, Some ex_v2).
Proof. vm_compute. reflexivity. Qed.
Example C05_ex2_mem_8 : ex_mem_rt 8 ex_t2 ex_v2 16 (mstate0 256) = Some (true, Some ex_v2).
Proof. vm_compute. reflexivity. Qed.

(** The side conditions are not decoration: without the fits-a-pointer condition the round trip fails
    (a 4-byte pointer cannot hold an address >= 2^32) ... *)
Example C05_ptr_bound_needed :
  ex_mem_rt 4 TString (VStr [1; 2; 3]) 0 (mstate0 4294967296) = Some (false, Some (VStr [0; 0; 0])).
Proof. vm_compute. reflexivity. Qed.
(** ... and without [bounded_ty] a case index >= 2^32 is truncated by the i32 discriminant. *)
Example C05_bounded_needed :
  ex_flat_rt 4 (TEnum 4294967297) (VVar 4294967296 None) (mstate0 0) = Some (true, Some (VVar 0 None, [])).
Proof. vm_compute. reflexivity. Qed.
