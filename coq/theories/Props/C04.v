(** C04 — Variant payload slot joining is lossless and matches the spec.
    Model: WB.Abi.Cast ([abi::cast]), WB.Abi.Sig.wjoin (wit-parser's [join]), WB.Abi.CastSem (reference
    semantics of each Bitcast on bit-vectors).  Tie: real [abi::cast] on all 49 pairs (harness/corelib `cast`)
    and real [join] observed through flat_types (absdump); backend half: lib/scalar.backend_casts_leg. *)
From Coq Require Import List NArith.
From WB Require Import Wit.Ty Canon.Spec Abi.Sig Abi.Instr Abi.Cast Abi.CastSem Abi.CastProofs.
Import ListNotations.
Local Open Scope N_scope.

(** No valid WIT type produces a slot pair the generator cannot convert: a slot type is a fold of [join]
    over the case types that share the slot, every such fold absorbs each case type, and whenever [j]
    absorbs [a] both conversions exist.  Conversely the pairs the Rust code calls unreachable are never
    related by join. *)
Theorem C04_slot_absorbs_cases : forall (l : list wt) (acc a : wt),
  wle a acc \/ In a l -> wle a (fold_left wjoin l acc).
Proof. exact wle_fold_join. Qed.

Theorem C04_total : forall a j, wle a j -> cast a j <> None /\ cast j a <> None.
Proof. exact cast_total_le. Qed.

Theorem C04_unreachable_pairs_never_arise : forall a j, cast a j = None -> ~ wle a j /\ ~ wle j a.
Proof. exact cast_none_not_le. Qed.

(** Lossless, for every bit pattern of the source type, on wasm32 and wasm64. *)
Theorem C04_roundtrip : forall pw a b x, pw = 4 \/ pw = 8 -> x < 2 ^ wt_bits pw a ->
  casted pw (wjoin a b) a (casted pw a (wjoin a b) x) = x.
Proof. exact cast_roundtrip. Qed.

(** Coincides with the canonical ABI: into the slot = reinterpret / zero-extend (identity on the bit
    pattern, what Spec.lower_flat's retagging does); out of the slot = wrap / reinterpret of the low bits
    (Spec.coerce_down of lift_flat_variant); and wit-parser's 7-type join is the spec's join at both
    pointer widths. *)
Theorem C04_lower_is_zero_extend : forall pw a j x, pw = 4 \/ pw = 8 -> wle a j ->
  casted pw a j x = x \/ x >= 2 ^ wt_bits pw a.
Proof. exact cast_up_is_zero_extend. Qed.

Theorem C04_lift_is_spec_coercion : forall pw a j y, pw = 4 \/ pw = 8 -> wle a j -> y < 2 ^ wt_bits pw j ->
  Spec.coerce_down (resolve pw a) y = (resolve pw a, casted pw j a y).
Proof. exact cast_down_matches_spec. Qed.

Theorem C04_join_is_spec_join : forall pw a b, pw = 4 \/ pw = 8 ->
  resolve pw (wjoin a b) = Spec.join (resolve pw a) (resolve pw b).
Proof. exact wjoin_resolve. Qed.

Print Assumptions C04_slot_absorbs_cases.
Print Assumptions C04_total.
Print Assumptions C04_unreachable_pairs_never_arise.
Print Assumptions C04_roundtrip.
Print Assumptions C04_lower_is_zero_extend.
Print Assumptions C04_lift_is_spec_coercion.
Print Assumptions C04_join_is_spec_join.
