(** C24 -- Guest allocation entry points honour size, alignment and contents.
    Model: WB.Core.Realloc ([cabi_realloc], [Cleanup::{new,forget,drop}] of crates/guest-rust/src/rt/mod.rs
    and the [cabi_dealloc] text emitted by crates/rust/src/lib.rs), over an abstract global allocator
    [A : allocator] that is only assumed to meet the GlobalAlloc contract ([contract A], a hypothesis,
    satisfiable: [C24_contract_satisfiable]).  Statements: WB.Core.ReallocSpec.
    Tie: harness/crates/realloctie (function text cut out of the working tree, run natively under a
    checking allocator) vs the extracted model over the bump allocator of ReallocBump.v.

    A history is any list of requests; [history_consistent] says each request is consistent with the
    results before it (a reallocation names a live earlier result with its exact size and alignment,
    alignments are powers of two, a Cleanup is dropped/forgotten at most once) and -- the restriction
    explained below -- that no reallocation shrinks a non-empty block to size zero. *)
From Coq Require Import List NArith Permutation.
From WB Require Import Core.Realloc Core.ReallocSpec Core.ReallocProofs Core.ReallocBump Core.ReallocBumpProofs.
Import ListNotations.
Local Open Scope N_scope.

(** C24_full (FALSE of the real code, kept visible): the statement of [C24_realloc_honours_requests]
    with [history_consistent] NOT excluding requests [(p, old_len <> 0, align, new_len = 0)].
    Refuted by [C24_shrink_to_zero_refuted]; the class is reported by the check under the key
    [realloc:shrink-to-zero]. *)

(** Every reallocation request of every consistent history either returns a pointer that is non-null,
    aligned as requested, equal to [align] itself for a (0,0) request (with no allocator call), whose
    first min(old,new) bytes are the old block's bytes, that is now a live block of the requested
    size, all other result blocks keeping their place and bytes -- or does not return at all, and then
    only because the underlying allocator itself answered null (it never returns null). *)
Theorem C24_realloc_honours_requests :
  forall (A : allocator) (debug : bool), contract A ->
  forall h0 : heap A, wf_blocks (live A h0) ->
  forall ops, history_consistent A debug (init A h0) ops ->
  forall s pr old_len align new_len x s',
    In (s, ORealloc pr old_len align new_len, x, s') (trace A debug (init A h0) ops) ->
    realloc_post A debug s pr old_len align new_len x s'.
Proof. exact realloc_honours_requests. Qed.

(** The excluded class is a genuine exception: a consistent request that shrinks a live 1-byte block to
    0 bytes is answered by a trap (debug: the [debug_assert_ne!]; release: [realloc] is called with
    new_size = 0, outside GlobalAlloc's contract), not by a pointer. *)
Theorem C24_shrink_to_zero_refuted : forall debug,
  exists ops s pr old_len align new_len x s',
    In (s, ORealloc pr old_len align new_len, x, s') (trace bump debug (init bump (bump_init None)) ops) /\
    req_consistent bump s pr old_len align new_len /\
    shrink_to_zero old_len new_len /\
    ~ realloc_post bump debug s pr old_len align new_len x s'.
Proof. exact shrink_to_zero_refuted. Qed.

(** Scratch allocations: [Cleanup::new] returns null exactly when the size is zero (and then no Cleanup
    and no allocator call), otherwise one aligned live block owned by the Cleanup. *)
Theorem C24_scratch_null_iff_zero_size :
  forall (A : allocator) (debug : bool), contract A ->
  forall h0 : heap A, wf_blocks (live A h0) ->
  forall ops, history_consistent A debug (init A h0) ops ->
  forall s size align x s',
    In (s, ONew size align, x, s') (trace A debug (init A h0) ops) -> new_post A s size align x s'.
Proof. exact scratch_new. Qed.

(** Dropping a Cleanup makes exactly one dealloc call, with the layout it was allocated with, on a block
    that is live at that moment and is not live afterwards; the Cleanup no longer exists. *)
Theorem C24_scratch_freed_exactly_once :
  forall (A : allocator) (debug : bool), contract A ->
  forall h0 : heap A, wf_blocks (live A h0) ->
  forall ops, history_consistent A debug (init A h0) ops ->
  forall s i x s',
    In (s, ODrop i, x, s') (trace A debug (init A h0) ops) ->
    exists c, entry (st_hs s) i = Some c /\ drop_post A s i c x s'.
Proof. exact scratch_drop. Qed.

(** [forget] makes no allocator call: the block stays live and is handed over. *)
Theorem C24_scratch_forget_keeps_block :
  forall (A : allocator) (debug : bool), contract A ->
  forall h0 : heap A, wf_blocks (live A h0) ->
  forall ops, history_consistent A debug (init A h0) ops ->
  forall s i x s',
    In (s, OForget i, x, s') (trace A debug (init A h0) ops) ->
    exists c, entry (st_hs s) i = Some c /\ forget_post A s i c x s'.
Proof. exact scratch_forget. Qed.

(** [cabi_dealloc] frees (once, the named live block) iff the size is non-zero. *)
Theorem C24_dealloc_frees_iff_nonzero :
  forall (A : allocator) (debug : bool), contract A ->
  forall h0 : heap A, wf_blocks (live A h0) ->
  forall ops, history_consistent A debug (init A h0) ops ->
  forall s pr size align x s',
    In (s, ODealloc pr size align, x, s') (trace A debug (init A h0) ops) ->
    dealloc_post A s pr size align x s'.
Proof. exact dealloc_frees_iff_nonzero. Qed.

(** No leak, no double free: after any consistent history the allocator's live blocks are exactly the
    blocks still owned (results not yet reallocated/freed, existing Cleanups) plus what was live before,
    and they are pairwise disjoint. *)
Theorem C24_no_leak_no_double_free :
  forall (A : allocator) (debug : bool), contract A ->
  forall h0 : heap A, wf_blocks (live A h0) ->
  forall ops, history_consistent A debug (init A h0) ops ->
  let s := final A debug (init A h0) ops in
  Permutation (live A (st_heap s)) (owned A s ++ live A h0) /\ wf_blocks (live A (st_heap s)).
Proof. exact allocation_accounting. Qed.

(** Non-vacuity.  The contract is satisfiable (by the executable allocator the tie runs the model on)... *)
Theorem C24_contract_satisfiable : contract bump.
Proof. exact bump_contract. Qed.

(** ...and a 13-request history using every kind of request is consistent on it, in both build profiles,
    with the outputs one expects (the load through the moved block returns the stored 77, the (0,0)
    request returns its alignment 4, the empty scratch allocation is null). *)
Example C24_nonvacuous_history : forall debug,
  history_consistent bump debug (init bump (bump_init None)) demo_ops /\
  nth 3 (outs debug None demo_ops) XInvalid = XByte 77 /\
  nth 4 (outs debug None demo_ops) XInvalid = XRet 4 [] /\
  nth 7 (outs debug None demo_ops) XInvalid = XNew 0 false [] /\
  nth 6 (outs debug None demo_ops) XInvalid = XUnit [ACdealloc 64 24 8].
Proof.
  intros debug. split; [exact (demo_consistent debug)|]. rewrite (demo_outs debug). cbn. auto.
Qed.

Print Assumptions C24_realloc_honours_requests.
Print Assumptions C24_shrink_to_zero_refuted.
Print Assumptions C24_scratch_null_iff_zero_size.
Print Assumptions C24_scratch_freed_exactly_once.
Print Assumptions C24_scratch_forget_keeps_block.
Print Assumptions C24_dealloc_frees_iff_nonzero.
Print Assumptions C24_no_leak_no_double_free.
Print Assumptions C24_contract_satisfiable.
