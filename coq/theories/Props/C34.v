(** C34 — Test configuration is read from exactly the leading comment block.
    Model: WB.Core.Config (crates/test/src/config.rs: [parse_test_config] up to the call of the TOML
    parser, [StringList] -> [Vec<String>]); spec vocabulary: WB.Core.ConfigSpec;
    tie: harness/crates/cfgtie (the real config.rs, #[path]-included) vs the extracted model.

    A file is read as lines [(text, terminator)] with terminator LF or CRLF ([render]); [ok_line]
    only says that this reading is the unique one (no LF inside a text, an LF-terminated text does
    not end in CR).  [with_marker m cfg] are the lines [cfg] each prefixed by the marker [m]. *)
From Coq Require Import List NArith.
From WB Require Import Core.Config Core.ConfigSpec Core.ConfigProofs.
Import ListNotations.
Local Open Scope N_scope.

(** The text handed to the TOML parser is the leading marker lines with the marker removed, joined
    by "\n" — for ANY [rest] after the first line that does not start with the marker. *)
Theorem C34_config_is_leading_block : forall m cfg other e rest,
  Forall ok_line (with_marker m cfg) -> ok_line (other, e) -> starts_with m other = false ->
  config_text m (render (with_marker m cfg) ++ render_line (other, e) ++ rest)
  = join [LF] (map fst cfg).
Proof. exact config_is_leading_block. Qed.

(** Files with no such line: every terminated line is a configuration line; an unterminated last
    line counts iff it starts with the marker ([tail_shape]). *)
Theorem C34_config_all_marker_lines : forall m cfg tail extra,
  Forall ok_line (with_marker m cfg) -> ~ In LF tail -> tail_shape m tail extra ->
  config_text m (render (with_marker m cfg) ++ tail) = join [LF] (map fst cfg ++ extra).
Proof. exact config_all_marker_lines. Qed.

(** The two shapes above are exhaustive: together the two theorems determine the configuration
    text of EVERY file and marker. *)
Theorem C34_every_file_has_one_of_the_shapes : forall m contents,
  exists cfg, Forall ok_line (with_marker m cfg) /\
    ((exists other e rest, ok_line (other, e) /\ starts_with m other = false /\
        contents = render (with_marker m cfg) ++ render_line (other, e) ++ rest)
     \/ (exists tail extra, ~ In LF tail /\ tail_shape m tail extra /\
        contents = render (with_marker m cfg) ++ tail)).
Proof. exact every_file_has_shape. Qed.

(** Nothing after the first non-marker line matters, whatever precedes it. *)
Theorem C34_nothing_after_first_other_line : forall m pre other e rest1 rest2,
  Forall ok_line pre -> ok_line (other, e) -> starts_with m other = false ->
  config_text m (render pre ++ render_line (other, e) ++ rest1)
  = config_text m (render pre ++ render_line (other, e) ++ rest2).
Proof. exact nothing_after_first_other_line. Qed.

(** A whitespace-separated string means the list of its words: [Words s ws] (a reading of [s] as
    whitespace / maximal non-whitespace runs, Unicode White_Space) holds for exactly one [ws], the one
    the code computes; so [String s] and [List ws] give the same arguments. *)
Theorem C34_words_iff : forall s ws, Words s ws <-> to_vec (SLString s) = ws.
Proof. exact words_iff. Qed.

Theorem C34_string_means_list_of_words : forall s ws,
  Words s ws -> to_vec (SLString s) = to_vec (SLList ws).
Proof. exact string_means_list_of_words. Qed.

Theorem C34_joined_words_roundtrip : forall ws, Forall word ws ->
  to_vec (SLString (join [SPACE] ws)) = to_vec (SLList ws).
Proof. exact joined_words_roundtrip. Qed.

(** Non-vacuity.  Characters: '/'=47 '@'=64 'a'=97 '='=61 '1'=49 'b'=98 '2'=50 'x'=120 ' '=32. *)
Definition ex_m : str := [47; 47; 64].
Definition ex_cfg : list (str * eol) := [([97; 61; 49], CrLf); ([], Lf); ([98; 61; 50; CR], CrLf)].
Definition ex_other : str := [120; 32; 47; 47; 64].
Definition ex_rest : str := [47; 47; 64; 98; 61; 51; LF; 120].

Ltac not_in_concrete := cbn; intuition discriminate.
Ltac not_ends_cr :=
  let l := fresh "l" in let E := fresh "E" in
  intros [l E]; do 8 (destruct l as [|? l]; cbn in E; [try discriminate E|]); discriminate E.

Example C34_ex_hyps :
  Forall ok_line (with_marker ex_m ex_cfg) /\ ok_line (ex_other, Lf) /\ starts_with ex_m ex_other = false.
Proof.
  split; [|split; [|reflexivity]].
  - repeat constructor; cbn [fst snd]; try discriminate; try not_in_concrete.
    intros _. not_ends_cr.
  - split; cbn [fst snd]; [not_in_concrete|intros _; not_ends_cr].
Qed.

Example C34_ex_leading_block :
  config_text ex_m (render (with_marker ex_m ex_cfg) ++ render_line (ex_other, Lf) ++ ex_rest)
  = [97; 61; 49; LF; LF; 98; 61; 50; CR].
Proof. vm_compute. reflexivity. Qed.

Example C34_ex_all_marker_lines :
  tail_shape ex_m (ex_m ++ [98]) [[98]] /\
  config_text ex_m (render (with_marker ex_m ex_cfg) ++ ex_m ++ [98])
  = [97; 61; 49; LF; LF; 98; 61; 50; CR; LF; 98].
Proof. split; [constructor; discriminate|vm_compute; reflexivity]. Qed.

(** "a \t b<NBSP>c" has the words a, b, c. *)
Example C34_ex_words :
  Words [32; 97; 32; 9; 98; 160; 99] [[97]; [98]; [99]] /\
  to_vec (SLString [32; 97; 32; 9; 98; 160; 99]) = [[97]; [98]; [99]].
Proof.
  split; [|vm_compute; reflexivity].
  apply (W_cons [32] [97] [32; 9; 98; 160; 99]); try reflexivity; [split; [discriminate|reflexivity]|].
  apply (W_cons [32; 9] [98] [160; 99]); try reflexivity; [split; [discriminate|reflexivity]|].
  apply (W_cons [160] [99] []); try reflexivity; try exact I; [split; [discriminate|reflexivity]|].
  now apply (W_nil []).
Qed.

Example C34_ex_roundtrip : Forall word [[97; 98]; [45; 45; 120]] /\
  to_vec (SLString (join [SPACE] [[97; 98]; [45; 45; 120]])) = [[97; 98]; [45; 45; 120]].
Proof. split; [repeat constructor; discriminate|vm_compute; reflexivity]. Qed.

Print Assumptions C34_config_is_leading_block.
Print Assumptions C34_config_all_marker_lines.
Print Assumptions C34_every_file_has_one_of_the_shapes.
Print Assumptions C34_nothing_after_first_other_line.
Print Assumptions C34_words_iff.
Print Assumptions C34_string_means_list_of_words.
Print Assumptions C34_joined_words_roundtrip.
