(** C15 — "Binding generation is deterministic": generating twice for the same WIT input and options, in separate
    processes, yields byte-identical files with identical names.   PROVED PART ONLY (level "other").
    A Gallina function is deterministic by construction; the content of the property is that no hidden input (hash seed,
    address layout) reaches the output.  The only channel for that in the generators is the iteration order of std
    HashMap/HashSet.  For every such iteration on the way to output (list re-scanned from the source on every run,
    corpus/C15-sites.txt) the collection is modelled as a list in ARBITRARY order and the emission is proved invariant
    under permutation — or, for the sites that have no ordering step, proved NOT invariant (finding).
    The whole-generator statement rests on the multi-process differential leg of checks/c15.py and is labelled so.

    C15_full (not a theorem: it is about 8 whole generators): forall backend opts world, output in process p = output in process q. *)
From Coq Require Import List String NArith Permutation Sorted.
From WB Require Import Core.Determinism Core.DeterminismProofs.
Import ListNotations.

(** [Vec::sort] after collecting a hash collection: the result does not depend on the iteration order, for ANY total
    antisymmetric transitive order (used at every "collect, sort, join" site). *)
Theorem C15_sort_erases_iteration_order : forall (A : Type) (leb : A -> A -> bool),
  (forall x y, leb x y = true \/ leb y x = true) ->
  (forall x y z, leb x y = true -> leb y z = true -> leb x z = true) ->
  (forall x y, leb x y = true -> leb y x = true -> x = y) ->
  forall l l', Permutation l l' -> isort leb l = isort leb l'.
Proof. exact @isort_canon. Qed.

(** MoonBit [write_moon_pkg], "import" list from [Imports.packages : HashMap]. *)
Theorem C15_moonbit_pkg_imports_order_independent : forall project es es',
  Permutation es es' -> render_moon_deps project es = render_moon_deps project es'.
Proof. exact render_moon_deps_perm. Qed.

(** MoonBit [write_moon_pkg], link "exports" list from [self.export : HashMap]. *)
Theorem C15_moonbit_pkg_exports_order_independent : forall realloc es es',
  Permutation es es' -> render_moon_exports realloc es = render_moon_exports realloc es'.
Proof. exact render_moon_exports_perm. Qed.

(** [Types::collect_equal_types]: both loops over [type_info : HashMap] — the merged flags of every class and the final
    [TypeInfo] of every type do not depend on the iteration order ([|=] is commutative, associative, idempotent). *)
Theorem C15_types_merge_order_independent : forall find es es', Permutation es es' ->
  (forall k, merged find es k = merged find es' k) /\ (forall id, type_info_after find es id = type_info_after find es' id).
Proof. intros find es es' P. split; [apply merged_perm | apply type_info_after_perm]; exact P. Qed.

(** [Files]: pushes with distinct names are iterated in name order whatever the order of the pushes. *)
Theorem C15_files_order_independent : forall ps ps', Permutation ps ps' ->
  files_iter ps = files_iter ps' /\ StronglySorted (fun a b => sleb (fst a) (fst b) = true) (files_iter ps).
Proof. intros ps ps' P. split; [apply files_iter_perm; exact P | apply files_iter_name_sorted]. Qed.

(** Feeding one hash collection into another ([extend], [retain], [collect::<HashSet>]) transports membership only. *)
Theorem C15_into_hash_collection_order_independent : forall (es es' : list string),
  Permutation es es' -> forall x, In x es <-> In x es'.
Proof. exact render_lines_same_lines. Qed.

(** FINDING (refuted): a hash collection written out element by element with no ordering step depends on the order —
    C# `bidirectional_types_src.iter()…join("\n")` (<World>.cs) and `by_resource(…, new_resources.keys())` (interface
    files); formerly also MoonBit `for b in builtins.iter()` and `for … in self.export.iter()` (repaired: 6c38ab3, 8cfe635). *)
Theorem C15_unordered_emission_refuted : exists es es', Permutation es es' /\ render_lines es <> render_lines es'.
Proof. exact render_lines_refuted. Qed.

Example C15_nonvacuous_deps :
  render_moon_deps "p" [("b.c", "x"); ("a", "y")]%string = render_moon_deps "p" [("a", "y"); ("b.c", "x")]%string
  /\ render_moon_deps "p" [("b.c", "x"); ("a", "y")]%string =
     ("{ ""path"" : ""p/a"", ""alias"" : ""y"" }," ++ nl ++ "{ ""path"" : ""p/b/c"", ""alias"" : ""x"" }")%string.
Proof. exact deps_example. Qed.

Example C15_nonvacuous_merge :
  let find := fun x => if N.eqb x 3 then 1%N else x in
  type_info_after find [(1, 1); (3, 4); (2, 2)]%N 3%N = Some 5%N /\
  type_info_after find [(2, 2); (3, 4); (1, 1)]%N 1%N = Some 5%N.
Proof. exact merged_example. Qed.

Print Assumptions C15_sort_erases_iteration_order.
Print Assumptions C15_moonbit_pkg_imports_order_independent.
Print Assumptions C15_moonbit_pkg_exports_order_independent.
Print Assumptions C15_types_merge_order_independent.
Print Assumptions C15_files_order_independent.
Print Assumptions C15_into_hash_collection_order_independent.
Print Assumptions C15_unordered_emission_refuted.
