(** C25 — Source buffer preserves text and tracks indentation by brace structure.
    Model: WB.Core.Source (crates/core/src/source.rs); vocabulary: WB.Core.SourceSpec;
    tie: harness/corelib `source` vs the extracted [observe] (checks/c25.py).

    Of the four sub-statements only literal_transparent holds at full strength.  The other three are
    false on the real code as stated (witnesses below, replayed on the real [Source] by the check);
    for each the strongest restriction found is proved, and it covers the dominant real usage:
    fragments that are whole lines ([uwriteln!], multi-line format strings ending in '\n').

    C25_full (kept visible; FALSE, see the [_refuted] theorems):
      text_preserved_full            := forall ops st outs, run_b source_default ops = Some (st, outs) ->
                                          erase_lead (as_str st) = erase_lead (ops_text ops)
      indent_follows_braces_full     := forall frags st outs t d, (no '\r') ->
                                          run_b source_default (map Push frags) = Some (st, outs) ->
                                          layout (concat frags) = Some (t, d) -> as_str st = t
      balanced_restores_indent_full  := forall st f, start_state st -> char_balanced f = true ->
                                          ind (push_str st f) = ind st                                    *)
From Coq Require Import List Ascii Bool.
From WB Require Import Core.Source Core.SourceSpec Core.SourceProofs Core.SourceLiteral Core.SourceIndent
  Core.SourceBalanced Core.SourceLayout Core.SourceInert Core.SourceExamples.
Import ListNotations.

(** ** text_preserved *)
(** For every call sequence of push_str / push_str_literal / write! / indent / deindent / set_indent that
    does not panic and in which no fragment (A) is multi-line, starts with white space and continues a
    line holding non-white-space, or (B) starts with '}' outside a comment right behind two spaces that
    are not indentation ([run_safe], '\r'-free): erasing the white space at the start of every line of
    the buffer gives the same as erasing it from the concatenation of the appended fragments.
    Non-vacuity: [safe_demo_safe]. *)
Theorem C25_text_preserved_partial : forall ops st outs,
  run_b source_default ops = Some (st, outs) ->
  run_safe source_default ops = true ->
  erase_lead (as_str st) = erase_lead (ops_text ops).
Proof. exact text_preserved_safe. Qed.

(** ... in particular for every sequence of whole-line fragments.  Non-vacuity: [whole_demo_ok]. *)
Theorem C25_text_preserved_whole_lines : forall ops st outs,
  forallb bop_aligned ops = true ->
  run_b source_default ops = Some (st, outs) ->
  erase_lead (as_str st) = erase_lead (ops_text ops).
Proof. exact text_preserved_whole_lines. Qed.

Theorem C25_text_preserved_refuted : ~ text_preserved_full.
Proof. exact text_preserved_full_false. Qed.
Theorem C25_text_preserved_refuted_pop :
  buf_of wit_pop = Some wit_pop_out /\ erase_lead wit_pop_out <> erase_lead (ops_text wit_pop).
Proof. exact text_preserved_refuted_pop. Qed.
Theorem C25_text_preserved_refuted_trim :
  buf_of wit_trim = Some wit_trim_out /\ erase_lead wit_trim_out <> erase_lead (ops_text wit_trim).
Proof. exact text_preserved_refuted_trim. Qed.

(** ** indent_follows_braces *)
(** A fragment appended at a line start outside a comment is laid out exactly as the nesting of its own
    lines says ([render]: braces that open at line ends / close at line starts outside "//" lines, two
    spaces per level, empty lines stay empty), whatever was appended before.  Non-vacuity: the unit
    tests [newline_remap], [if_else], [trim_ws]. *)
Theorem C25_indent_block : forall st f t dn,
  start_state st ->
  render (frag_single f) (ends_with_lf f) (ind st) (rust_lines f) = Some (t, dn) ->
  as_str (push_str st f) = as_str st ++ t /\ ind (push_str st f) = dn.
Proof. exact push_block. Qed.

(** Every call sequence of whole-line fragments (push_str, push_str_literal, write!, indent, deindent,
    set_indent) whose declarative layout [spec_run] exists (no closer below depth 0, no deindent below 0)
    runs without panic and produces exactly that layout.  Non-vacuity: [whole_demo_ok]. *)
Theorem C25_indent_follows_braces_partial : forall ops t d,
  forallb bop_aligned ops = true -> spec_run 0 ops = Some (t, d) ->
  exists st outs, run_b source_default ops = Some (st, outs) /\ as_str st = t /\ ind st = d.
Proof. exact indent_whole_lines. Qed.

(** ... and for push_str sequences whose one-line fragments start in column 0 that layout is the layout
    of the concatenated text: indentation follows the lines, not the call boundaries. *)
Theorem C25_indent_follows_braces_layout_partial : forall frags t d,
  forallb whole_lines frags = true -> forallb col0_single frags = true ->
  layout (concat frags) = Some (t, d) ->
  exists st outs, run_b source_default (map Push frags) = Some (st, outs) /\ as_str st = t /\ ind st = d.
Proof. exact indent_layout_whole_lines. Qed.

(** A brace-neutral one-line piece ([inert]: no '\n'; trimmed, it neither starts with '}' or "//" nor ends
    with '{') appended in ANY state only appends — behind the indentation when it starts a line — and leaves
    indentation level and comment state alone.  Non-vacuity: [inert_demo]. *)
Theorem C25_inert_piece : forall st p,
  inert p = true -> p <> [] ->
  push_str st p = mkSource (rev p ++ (if continuing st then rbuf st else spaces (2 * ind st) ++ rbuf st))
                           (ind st) (in_comment st) true.
Proof. exact push_inert_piece. Qed.

Theorem C25_indent_follows_braces_refuted : ~ indent_follows_braces_full.
Proof. exact indent_follows_braces_full_false. Qed.

(** ** literal_transparent — holds at full strength, for every state and every literal.
    Non-vacuity: [literal_demo], [literal_text_does_not_change_indentation]. *)
Theorem C25_literal_transparent : forall st f,
  ind (push_str_literal st f) = ind st
  /\ in_comment (push_str_literal st f) = in_comment st && negb (has_lf f).
Proof. exact literal_transparent. Qed.

(** ** balanced_restores_indent *)
(** A fragment whose lines are brace-balanced (open/close events of its lines form a balanced word),
    appended at a line start outside a comment, restores the indentation.  Non-vacuity: [balanced_demo]. *)
Theorem C25_balanced_restores_indent_partial : forall st f,
  start_state st -> balanced_lines (rust_lines f) = true -> ind (push_str st f) = ind st.
Proof. exact balanced_restores_fragment. Qed.

(** The same for code appended by any number of whole-line push_str / write! calls with literal text in
    between.  Non-vacuity: [balanced_seq_demo]. *)
Theorem C25_balanced_restores_indent_sequence_partial : forall ops st0 st outs,
  start_state st0 -> forallb bop_aligned ops = true -> forallb text_only ops = true ->
  balanced_lines (ops_code_lines ops) = true ->
  run_b st0 ops = Some (st, outs) -> ind st = ind st0.
Proof. exact balanced_restores_sequence. Qed.

Theorem C25_balanced_restores_indent_refuted : ~ balanced_restores_indent_full.
Proof. exact balanced_restores_indent_full_false. Qed.

Print Assumptions C25_text_preserved_partial.
Print Assumptions C25_text_preserved_whole_lines.
Print Assumptions C25_text_preserved_refuted.
Print Assumptions C25_indent_block.
Print Assumptions C25_indent_follows_braces_partial.
Print Assumptions C25_indent_follows_braces_layout_partial.
Print Assumptions C25_inert_piece.
Print Assumptions C25_indent_follows_braces_refuted.
Print Assumptions C25_literal_transparent.
Print Assumptions C25_balanced_restores_indent_partial.
Print Assumptions C25_balanced_restores_indent_sequence_partial.
Print Assumptions C25_balanced_restores_indent_refuted.
