(** C11 — C guest bindings release exactly the memory and handles they own.

    LEVEL translation_validation.  PROVED here, for every WIT type the C backend carries and every value (no size bound),
    about WB.Core.COwnership — [owned]: the separately allocated buffers a value owns (what the canonical ABI's
    store/lower request from realloc), [release]: a transcription of the `*_free` helpers crates/c/src/lib.rs
    define_dtor + free generate, relative to the generator's helper table `dtor_funcs` ([reg]):
      - whatever the table holds, a helper releases only blocks the value owns and each of them at most once
        (no foreign free, no double free);
      - when every member type that owns memory is registered, it releases exactly the owned blocks (no leak).
    REFUTED (and exhibited on the real code by checks/c11.py as known finding c:free-helper:member-helper-not-called):
    with an incomplete table the helper leaks; the real generator reaches such a table for types (re)defined for an
    export after the same anonymous member type was defined for an import.

    VALIDATED, not proved (checks/c11.py + lib/genrun_c.py, allocation ledger under malloc/realloc/free of the natively
    compiled bindings): post-return frees exactly the blocks of the returned value, import arguments stay live and
    unmodified, helpers on oracle-built values free exactly the blocks Spec's `allocs` lists, --autodrop-borrows drops
    each borrowed handle once, and the destructor of an exported resource is reachable through the export name the
    component encoder wires (`<iface>#[dtor]<resource>`) and runs once per drop.

    C11_full (not a theorem here): for every world, option set, function and value, the allocation ledger after
    export call + post-return equals the ledger before the call; `T_free(v)` frees exactly Spec.allocs(v); every block
    live before an import call is live and unmodified after it; each host drop of an owned handle of an exported
    resource runs the user destructor exactly once. *)
From Coq Require Import List NArith ZArith.
From WB Require Import Wit.Ty Canon.Spec Core.COwnership Core.COwnershipProofs.
Import ListNotations.
Local Open Scope N_scope.

Theorem C11_free_helper_never_frees_foreign_or_twice : forall pw reg t v b,
  pw = 4 \/ pw = 8 -> c_own_ok t = true ->
  (cnt b (release pw reg t v) <= cnt b (owned pw t v))%nat.
Proof. intros pw reg t v b Hpw Hok. exact (release_ok pw Hpw reg false ltac:(discriminate) t Hok v b). Qed.

Theorem C11_free_helper_frees_exactly_owned : forall pw reg t v b,
  pw = 4 \/ pw = 8 -> (forall t', reg t' = true) -> c_own_ok t = true ->
  cnt b (release pw reg t v) = cnt b (owned pw t v).
Proof. intros pw reg t v b Hpw Hreg Hok. exact (release_ok pw Hpw reg true (fun _ => Hreg) t Hok v b). Qed.

Theorem C11_free_helper_incomplete_table_refuted :
  exists reg t v b, c_own_ok t = true /\ (cnt b (release 4 reg t v) < cnt b (owned 4 t v))%nat.
Proof. exact release_leaks_when_member_unregistered. Qed.

(** Non-vacuity: a value that owns five blocks; the complete helper releases all five. *)
Example C11_example :
  let t := TRecord [TU8; TList TString; TOption (TList TU32); TVariant [None; Some TString]] in
  let v := VRec [VNum 7%Z; VList [VStr [104; 105]; VStr []; VStr [33]]; VVar 1 (Some (VList [VNum 1%Z; VNum 2%Z]));
                 VVar 1 (Some (VStr [1; 2; 3]))] in
  c_own_ok t = true /\
  owned 4 t v = [(24, 4); (2, 1); (1, 1); (8, 4); (3, 1)] /\
  release 4 (fun _ => true) t v = [(2, 1); (1, 1); (24, 4); (8, 4); (3, 1)].
Proof. vm_compute. repeat split; reflexivity. Qed.

Print Assumptions C11_free_helper_never_frees_foreign_or_twice.
Print Assumptions C11_free_helper_frees_exactly_owned.
Print Assumptions C11_free_helper_incomplete_table_refuted.
