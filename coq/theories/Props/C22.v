(** C22 — Export task executor answers callbacks consistently and frees tasks once.

    Model: WB.Async.Task (crates/guest-rust/src/rt/async_support.rs, spawn.rs / spawn_disabled.rs,
    inter_task_wakeup*.rs, waitable.rs as used by the driver's operations) over WB.Async.Host.
    Tie: harness/crates/rtmock/src/bin/tasks.rs (real start_task / callback / block_on, features
    {default, async-spawn, inter-task-wakeup, both}) vs the extracted model, complete host log.

    Quantifier: [valid sc] — every scenario (task bodies = finite scripts over await / yield /
    spawn / Rust-only events; any sequence of start, NONE, host-chosen events, CANCEL and host
    progress, all enabled-or-skipped by the driver's guards; both drivers; all four feature sets)
    whose run does not end in one of the runtime's documented user errors and in which the model's
    fuel / the block_on deadlock detector do not give up.

    FULL statement that is NOT proved (C22_full): "for every valid scenario the runtime never
    panics": [forall sc, valid sc = true -> err_class (run sc) = None].  It is false as it stands:
    see [C22_block_on_yield_refuted] (finding: block_on panics when the body yields before any
    waitable set exists) — and C23 adds the stale-waker class.  The version restricted to the
    complement of [known_class] would need the coupling invariant between the task's registration
    map and the host's set membership (C18's invariant); it is carried by the correspondence and
    search legs only (no other panic class was ever produced by model or real code). *)
From Coq Require Import NArith List Bool Permutation.
From WB Require Import Async.Host Async.Task Async.TaskSpec Async.TaskLemmas Async.TaskCallback
  Async.TaskLinear Async.TaskCtx Async.TaskInv.
Import ListNotations.
Local Open Scope N_scope.

Lemma valid_no_raw : forall sc, valid sc = true -> no_raw (sc_actions sc) = true.
Proof. intros sc H. unfold valid in H. now apply andb_true_iff in H as [H _]. Qed.

(** *** [CallbackCode::encode] is injective. *)
Theorem C22_encode_injective : forall c1 c2, encode c1 = encode c2 -> c1 = c2.
Proof. exact encode_injective. Qed.

(** *** Exit <-> EVENT_CANCEL, or no Rust work and no registered waitable remain.
    ([task_cb] = [TaskState::callback]; [w'] = the state in which it returns; for every state [w],
    reachable or not, and every event.) *)
Theorem C22_exit_iff : forall e t e0 e1 e2 w w' c,
  task_cb e t e0 e1 e2 w = (w', c) -> failed w' = false ->
  (c = CExit <-> e0 = 6 \/ (tasks_empty e (get_task t w') = true /\ tk_waitables (get_task t w') = [])).
Proof. exact exit_iff. Qed.

(** *** Wait names the task's own waitable set ... *)
Theorem C22_wait_names_own_set : forall e t e0 e1 e2 w w' s,
  task_cb e t e0 e1 e2 w = (w', CWait s) -> failed w' = false ->
  tk_set (get_task t w') = Some s.
Proof. exact wait_own_set. Qed.

(** ... and is the answer whenever something is pending and no wake occurred: all bodies done but
    waitables registered, or a body is pending and the sleep state is not WOKEN. *)
Theorem C22_wait_when_pending : forall e t e0 e1 e2 w w' c,
  task_cb e t e0 e1 e2 w = (w', c) -> failed w' = false -> e0 <> 6 ->
  (tasks_empty e (get_task t w') = true /\ tk_waitables (get_task t w') <> []) \/
  (tasks_empty e (get_task t w') = false /\ tk_sleep (get_task t w') <> 1) ->
  exists s, c = CWait s.
Proof. exact wait_when_pending. Qed.

(** *** Yield only when woken during polling (state WOKEN, which the loop reset to POLLING before
    the poll) and no event was available: nothing registered, or [poll] just answered "none". *)
Theorem C22_yield_only_when_woken : forall e t e0 e1 e2 w w',
  task_cb e t e0 e1 e2 w = (w', CYield) -> failed w' = false ->
  tasks_empty e (get_task t w') = false /\ tk_sleep (get_task t w') = 1 /\
  (tk_waitables (get_task t w') = [] \/
   exists s a b l, tk_set (get_task t w') = Some s /\ hlog (w_host w') = HPoll s 0 a b :: l).
Proof. exact yield_only_when_woken. Qed.

(** *** Context slot 0: between callbacks it holds the task state exactly for the tasks that exist;
    while a callback runs it is null — every observation of the slot made by a body reads null. *)
Theorem C22_context_slot : forall sc,
  valid sc = true -> e_start (sc_env sc) = true -> failed (run sc) = false ->
  (forall t, ctx_of t (run sc) <> None <-> tk_alive (get_task t (run sc)) = true)
  /\ Forall (fun n => n = true) (ctx_obs (run sc)).
Proof.
  intros sc V S NF. destruct (run_start_mode sc (valid_no_raw sc V) S NF) as [_ C]. exact C.
Qed.

(** Locally: whatever [TaskState::callback] executes starts and ends with the slot null and adds
    only null observations. *)
Theorem C22_slot_null_while_running : forall e t e0 e1 e2 w,
  slot_null w -> obs_ok w ->
  slot_null (fst (task_cb e t e0 e1 e2 w)) /\ obs_ok (fst (task_cb e t e0 e1 e2 w)).
Proof. intros. now apply CK_task_cb. Qed.

(** *** Spawned work finishes before exit: a body future is destroyed unfinished only by
    EVENT_CANCEL (never under block_on). *)
Theorem C22_spawned_work_finishes : forall sc,
  valid sc = true ->
  (e_start (sc_env sc) = true -> forallb (fun a => negb (is_cancel a)) (sc_actions sc) = true) ->
  udrops (run sc) = [].
Proof. intros sc V. apply no_unfinished_drop_without_cancel. now apply valid_no_raw. Qed.

(** *** Released exactly once: no body future is destroyed twice, every destroyed one was created,
    the created ones are (as a multiset) the destroyed ones plus those still owned by a task, a
    task that does not exist owns none; a task box is freed at most once, only after it was
    allocated, and its task is gone for good. *)
Theorem C22_released_exactly_once : forall sc,
  valid sc = true ->
  NoDup (ended (run sc)) /\ incl (ended (run sc)) (w_created (run sc))
  /\ Permutation (w_created (run sc)) (ended (run sc) ++ live_bodies (run sc))
  /\ (forall t, tk_alive (get_task t (run sc)) = false -> task_ids (get_task t (run sc)) = []).
Proof.
  intros sc V. pose proof (valid_no_raw sc V) as NR.
  destruct (ended_once sc NR) as [A B]. destruct (run_linear sc NR) as ([_ P] & D & _).
  repeat split; auto.
Qed.

Theorem C22_task_box_freed_once : forall sc,
  valid sc = true -> e_start (sc_env sc) = true -> failed (run sc) = false ->
  NoDup (boxfrees (run sc)) /\ NoDup (boxnews (run sc)) /\ incl (boxfrees (run sc)) (boxnews (run sc))
  /\ (forall t, In t (boxfrees (run sc)) ->
        tk_alive (get_task t (run sc)) = false /\ tk_exited (get_task t (run sc)) = true)
  /\ (forall t, tk_alive (get_task t (run sc)) = true -> In t (boxnews (run sc)) /\ ~ In t (boxfrees (run sc))).
Proof.
  intros sc V S NF. destruct (run_start_mode sc (valid_no_raw sc V) S NF) as [[A B C D E G] _].
  split; [exact A|split; [exact C|split; [exact G|split; [exact B|]]]].
  intros t AL. split; [now apply E|]. intros HF. destruct (B t HF). congruence.
Qed.

(** *** Finding: [block_on] panics on a body that yields before any waitable set exists
    ([block_on]'s Yield arm: [state.shared.waitable_set ... .as_ref().unwrap()]).  The witness is
    [block_on(async { yield_async().await })] with default features; it is a valid scenario. *)
Definition sc_block_on_yield : scenario :=
  mkSc (mkEnv (mkCfg false false) false [] [[SYield]] [0] 200) [].

Theorem C22_block_on_yield_refuted :
  exists sc, valid sc = true /\ err_class (run sc) = Some E_BLOCKON_YIELD.
Proof. exists sc_block_on_yield. split; vm_compute; reflexivity. Qed.

(** *** Non-vacuity: valid scenarios that reach every answer and both release paths. *)
(** async-spawn + inter-task-wakeup, start_task driver: the root spawns a body and awaits an import
    call; the spawned body yields.  Answers: Yield, Wait, Exit; everything finishes. *)
Definition sc_ex1 : scenario :=
  mkSc (mkEnv (mkCfg true true) true [mkOp KSub false false] [[SSpawn 1; SCtx; SAwait 0]; [SYield; SCtx]] [0] 400)
       [AStart 0; ANone 0; AResolve 0; AEvent 0; ANone 0].
Example ex1_valid : valid sc_ex1 = true. Proof. vm_compute. reflexivity. Qed.
Example ex1_outcome :
  err_class (run sc_ex1) = None /\ ended (run sc_ex1) = [0; 1] /\ udrops (run sc_ex1) = []
  /\ boxfrees (run sc_ex1) = [0] /\ ctx_obs (run sc_ex1) = [true; true]
  /\ map (fun x => match x with VStart _ c | VCb _ _ _ _ c => c | _ => 99 end)
         (filter (fun x => match x with VStart _ _ | VCb _ _ _ _ _ => true | _ => false end) (rev (w_trace (run sc_ex1))))
     = [1; 34; 0].
Proof. vm_compute. repeat split; reflexivity. Qed.

(** default features: the task is cancelled while it waits for an import call: the unfinished body is
    destroyed exactly once, by the cancellation. *)
Definition sc_ex2 : scenario :=
  mkSc (mkEnv (mkCfg false false) true [mkOp KSRead false false] [[SAwait 0]] [0] 400)
       [AStart 0; ACancel 0].
Example ex2_valid : valid sc_ex2 = true. Proof. vm_compute. reflexivity. Qed.
Example ex2_outcome :
  err_class (run sc_ex2) = None /\ ended (run sc_ex2) = [0] /\ udrops (run sc_ex2) = [0]
  /\ boxfrees (run sc_ex2) = [0] /\ tk_alive (get_task 0 (run sc_ex2)) = false.
Proof. vm_compute. repeat split; reflexivity. Qed.

(** block_on with a spawned body and two operations. *)
Definition sc_ex3 : scenario :=
  mkSc (mkEnv (mkCfg true false) false [mkOp KSub false true; mkOp KFRead false false]
              [[SSpawn 1; SAwait 0]; [SAwait 1]] [0] 600)
       [AProgress 0; AResolve 1].
Example ex3_valid : valid sc_ex3 = true. Proof. vm_compute. reflexivity. Qed.
Example ex3_outcome : err_class (run sc_ex3) = None /\ udrops (run sc_ex3) = [] /\ length (ended (run sc_ex3)) = 2%nat.
Proof. vm_compute. repeat split; reflexivity. Qed.

Print Assumptions C22_encode_injective.
Print Assumptions C22_exit_iff.
Print Assumptions C22_wait_names_own_set.
Print Assumptions C22_wait_when_pending.
Print Assumptions C22_yield_only_when_woken.
Print Assumptions C22_context_slot.
Print Assumptions C22_slot_null_while_running.
Print Assumptions C22_spawned_work_finishes.
Print Assumptions C22_released_exactly_once.
Print Assumptions C22_task_box_freed_once.
Print Assumptions C22_block_on_yield_refuted.
