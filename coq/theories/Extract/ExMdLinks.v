From Coq Require Import ExtrOcamlBasic ExtrOcamlString.
From WB Require Import Core.MdLinks.
Extraction Language OCaml.
Extraction "../build/extracted/mdlinks_model.ml" plan pass.
