From Coq Require Import ExtrOcamlBasic ExtrOcamlString.
From WB Require Import Core.Ns Core.MbtPkg.
Extraction Language OCaml.
Extraction "../build/extracted/mbtpkg_model.ml" run dump import_entries.
