From Coq Require Import ExtrOcamlBasic ExtrOcamlString.
From WB Require Import Core.PkgName Core.PkgNameClass.
Extraction Language OCaml.
Extraction "../build/extracted/pkgname_model.ml"
  module_names name_package_module valid_set one_ns classify colliding undec dec version_to_string str_eqb.
