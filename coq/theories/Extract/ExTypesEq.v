From Coq Require Import ExtrOcamlBasic ExtrOcamlString.
From WB Require Import Core.TypesEq Core.TypesEqSpec.
Extraction Language OCaml.
Extraction "../build/extracted/typeseq_model.ml"
  run_types live_world
  wf_tableb expansions seqb struct_eqb check_sound check_complete check_first check_merge check_postorder
  desc_table spec_info all_funcs aliased_error_resultb mem.
