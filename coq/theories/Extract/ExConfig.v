From Coq Require Import ExtrOcamlBasic ExtrOcamlString.
From WB Require Import Core.Config.
Extraction Language OCaml.
Extraction "../build/extracted/config_model.ml" config_text to_vec dependency_worlds splits_in_two.
