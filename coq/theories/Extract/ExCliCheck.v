From Coq Require Import ExtrOcamlBasic ExtrOcamlString.
From WB Require Import Core.CliCheck.
Extraction Language OCaml.
Extraction "../build/extracted/clicheck_model.ml" run_check_list run fs_of_list line_endings_only utf8_decode.
