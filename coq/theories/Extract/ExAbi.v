From Coq Require Import ExtrOcamlBasic ExtrOcamlString List.
From WB Require Import Wit.Ty Canon.Spec Abi.Sig Abi.Instr Abi.Cast Abi.CastSem Abi.Gen Abi.Sem Abi.Check.
Extraction Language OCaml.
Extraction "../build/extracted/abi_model.ml"
  Gen.call Gen.post_return Gen.lower_flat Gen.lower_to_memory Gen.lift_from_memory Gen.deallocate_in_types
  Gen.guest_export_needs_post_return Gen.guest_export_params_have_allocations Gen.fresh Gen.bind Gen.gst0
  Sig.flat_types Sig.wasm_signature Sig.sa Sig.wjoin Cast.cast
  Spec.flatten Spec.elem_size Spec.alignment Spec.store Spec.load Spec.lower_flat Spec.lift_flat Spec.mstate0
  Ty.has_type Spec.valid_ty
  Check.check_lower_flat Check.check_lower_to_memory Check.check_lift_from_memory Check.check_dealloc
  Check.check_post_return Check.check_call_import Check.check_call_export Check.has_heap Check.owned_handles Sem.run_events.
