From Coq Require Import ExtrOcamlBasic ExtrOcamlString.
From WB Require Import Async.Host Async.SubtaskOp Async.SubtaskOpSpec.
Extraction Language OCaml.
Extraction "../build/extracted/subtask_model.ml" model_run c21_check valid_trace valid_cfg quiescent
  s_t s_res s_wakes s_err s_phase t_map t_clones mkCfg mkAcfg.
