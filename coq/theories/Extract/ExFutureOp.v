From Coq Require Import ExtrOcamlBasic ExtrOcamlString.
From WB Require Import Async.FutureOp.
Extraction Language OCaml.
Extraction "../build/extracted/futureop_model.ml" run cleanup count_new clean_log quiescent_fut exec cstep fut0 clean_toks.
