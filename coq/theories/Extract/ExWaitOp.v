From Coq Require Import ExtrOcamlBasic ExtrOcamlString.
From WB Require Import Async.Host Async.WaitOp Async.WaitOpProofs.
Extraction Language OCaml.
Extraction "../build/extracted/waitop_model.ml" model_run valid_trace w_tasks w_wakes w_err w_bad w_handed w_updates w_ops
  t_map t_clones mkWcfg inv_ok prun explore_cfg2.
