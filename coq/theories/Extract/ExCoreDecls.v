From Coq Require Import ExtrOcamlBasic ExtrOcamlString.
From WB Require Import Valid.CoreDecls.
Extraction Language OCaml.
Extraction "../build/extracted/coredecls_model.ml" check_decls expected required unambiguous builtin_items.
