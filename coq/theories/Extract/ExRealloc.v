From Coq Require Import NArith List ExtrOcamlBasic ExtrOcamlString.
From WB Require Import Core.Realloc Core.ReallocSpec Core.ReallocBump.
Extraction Language OCaml.

Definition bump_consistent (debug : bool) (fail : option N) (ops : list op) : bool :=
  history_consistentb bump debug (init bump (bump_init fail)) ops.

Extraction "../build/extracted/realloc_model.ml"
  bump_run bump_consistent bump_tab bump_hs bump_live bump_rd mem_block entry.
