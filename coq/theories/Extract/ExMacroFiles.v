From Coq Require Import List String ExtrOcamlBasic ExtrOcamlString.
From WB Require Import Core.MacroFiles.
Extraction Language OCaml.
Extraction "../build/extracted/macrofiles_model.ml" macro_tree deps_clean.
