From Coq Require Import ExtrOcamlBasic ExtrOcamlString.
From WB Require Import Valid.PkgGraph.
Extraction Language OCaml.
Extraction "../build/extracted/pkggraph_model.ml" check.
