(** Extraction of the executable part of the C14 / C04-backend development: the regenerated data
    (Generated.v), the language semantics ([elab]/[eval]), the specification and the checkers.
    Used by lib/scalar.py (through ocaml/scalar_driver.ml) to decide which per-site theorems to
    state and to evaluate the property's statement on boundary/random inputs; every verdict that
    matters is re-established by the kernel in Scalar/GeneratedProps.v / Props/C14.v. *)
From Coq Require Import ExtrOcamlBasic ExtrOcamlString.
From WB Require Import Scalar.Expr Scalar.ScalarSpec Scalar.Normalize Scalar.Generated.
Extraction Language OCaml.
Extraction "../build/extracted/scalar_model.ml"
  all_conversions all_casts check_conv check_cast agrees_at cast_agrees_at eval_l bool01_ok
  spec_lower spec_lift elab c_lex k_lex all_sty lower_agrees lift_agrees.
