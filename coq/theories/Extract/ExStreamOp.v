From Coq Require Import ExtrOcamlBasic ExtrOcamlString.
From WB Require Import Async.AbiBuf Async.StreamOp.
Extraction Language OCaml.
Extraction "../build/extracted/stream_model.ml" run decode encode ab_new ab_advance ab_take_vec ab_drop.
