From Coq Require Import ExtrOcamlBasic ExtrOcamlString.
From WB Require Import Core.AsyncFilter.
Extraction Language OCaml.
Extraction "../build/extracted/asyncfilter_model.ml" run_texts parse display any_enabled fset_of.
