From Coq Require Import ExtrOcamlBasic ExtrOcamlString.
From WB Require Import Core.Ns.
Extraction Language OCaml.
Extraction "../build/extracted/ns_model.ml" ns_run ns_init.
