(** Extraction of the executable task-executor model (C22, C23 tie). *)
From Coq Require Import ExtrOcamlBasic ExtrOcamlString.
From WB Require Import Async.Host Async.Task.
Extraction Language OCaml.
Extraction "../build/extracted/task_model.ml" run_log mkSc mkEnv mkCfg mkOp.
