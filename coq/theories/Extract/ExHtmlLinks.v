From Coq Require Import ExtrOcamlBasic ExtrOcamlString.
From WB Require Import Valid.HtmlLinks.
Extraction Language OCaml.
Extraction "../build/extracted/htmllinks_model.ml" check.
