From Coq Require Import ExtrOcamlBasic ExtrOcamlString.
From WB Require Import Core.MdTotal.
Extraction Language OCaml.
Extraction "../build/extracted/mdtotal_model.ml" md_generate md_define print_ty define_type md_iface_gen world_shape world_known.
