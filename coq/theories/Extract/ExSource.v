From Coq Require Import ExtrOcamlBasic ExtrOcamlString.
From WB Require Import Core.Source Core.SourceSpec.
Extraction Language OCaml.
Extraction "../build/extracted/source_model.ml" observe classify classify_block.
