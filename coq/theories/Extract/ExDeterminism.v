From Coq Require Import ExtrOcamlBasic ExtrOcamlString.
From WB Require Import Core.Determinism.
Extraction Language OCaml.
Extraction "../build/extracted/determinism_model.ml" render_moon_deps render_moon_exports type_info_after files_iter render_lines.
