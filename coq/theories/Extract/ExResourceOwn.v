From Coq Require Import ExtrOcamlBasic ExtrOcamlString.
From WB Require Import Core.ResourceOwn.
Extraction Language OCaml.
Extraction "../build/extracted/resown_model.ml" step init run err_class.
