(** WIT value types as finite trees (aliases resolved) and their values.
    Field/case names are irrelevant to the canonical ABI and are omitted; resources are opaque
    (own/borrow handles are indices).  Integers are [Z], floats are raw bit patterns [N]
    (so NaN payloads are first class), strings are byte lists. *)
From Coq Require Import List ZArith NArith Bool Lia.
Import ListNotations.

Inductive ty : Type :=
| TBool | TU8 | TS8 | TU16 | TS16 | TU32 | TS32 | TU64 | TS64 | TF32 | TF64 | TChar | TString | TErrCtx
| TList (t : ty)
| TFixed (t : ty) (n : N)
| TMap (k v : ty)
| TRecord (fs : list ty)
| TTuple (ts : list ty)
| TVariant (cs : list (option ty))
| TEnum (n : N)
| TOption (t : ty)
| TResult (ok err : option ty)
| TFlags (n : N)
| TOwn | TBorrow
| TFuture (p : option ty)
| TStream (p : option ty).

(** Nested induction principle. *)
Definition OptP (P : ty -> Prop) (o : option ty) : Prop :=
  match o with Some t => P t | None => True end.

Section ty_ind'.
  Variable P : ty -> Prop.
  Hypothesis HBool : P TBool.   Hypothesis HU8 : P TU8.   Hypothesis HS8 : P TS8.
  Hypothesis HU16 : P TU16.     Hypothesis HS16 : P TS16. Hypothesis HU32 : P TU32.
  Hypothesis HS32 : P TS32.     Hypothesis HU64 : P TU64. Hypothesis HS64 : P TS64.
  Hypothesis HF32 : P TF32.     Hypothesis HF64 : P TF64. Hypothesis HChar : P TChar.
  Hypothesis HString : P TString. Hypothesis HErrCtx : P TErrCtx.
  Hypothesis HList : forall t, P t -> P (TList t).
  Hypothesis HFixed : forall t n, P t -> P (TFixed t n).
  Hypothesis HMap : forall k v, P k -> P v -> P (TMap k v).
  Hypothesis HRecord : forall fs, Forall P fs -> P (TRecord fs).
  Hypothesis HTuple : forall ts, Forall P ts -> P (TTuple ts).
  Hypothesis HVariant : forall cs, Forall (OptP P) cs -> P (TVariant cs).
  Hypothesis HEnum : forall n, P (TEnum n).
  Hypothesis HOption : forall t, P t -> P (TOption t).
  Hypothesis HResult : forall ok err, OptP P ok -> OptP P err -> P (TResult ok err).
  Hypothesis HFlags : forall n, P (TFlags n).
  Hypothesis HOwn : P TOwn.  Hypothesis HBorrow : P TBorrow.
  Hypothesis HFuture : forall p, OptP P p -> P (TFuture p).
  Hypothesis HStream : forall p, OptP P p -> P (TStream p).

  Fixpoint ty_ind' (t : ty) : P t :=
    let fix go_list (l : list ty) : Forall P l :=
      match l with [] => Forall_nil _ | x :: xs => Forall_cons _ (ty_ind' x) (go_list xs) end in
    let go_opt (o : option ty) : OptP P o :=
      match o with Some x => ty_ind' x | None => I end in
    let fix go_olist (l : list (option ty)) : Forall (OptP P) l :=
      match l with [] => Forall_nil _ | x :: xs => Forall_cons _ (go_opt x) (go_olist xs) end in
    match t with
    | TBool => HBool | TU8 => HU8 | TS8 => HS8 | TU16 => HU16 | TS16 => HS16 | TU32 => HU32
    | TS32 => HS32 | TU64 => HU64 | TS64 => HS64 | TF32 => HF32 | TF64 => HF64 | TChar => HChar
    | TString => HString | TErrCtx => HErrCtx
    | TList t => HList t (ty_ind' t)
    | TFixed t n => HFixed t n (ty_ind' t)
    | TMap k v => HMap k v (ty_ind' k) (ty_ind' v)
    | TRecord fs => HRecord fs (go_list fs)
    | TTuple ts => HTuple ts (go_list ts)
    | TVariant cs => HVariant cs (go_olist cs)
    | TEnum n => HEnum n
    | TOption t => HOption t (ty_ind' t)
    | TResult ok err => HResult ok err (go_opt ok) (go_opt err)
    | TFlags n => HFlags n
    | TOwn => HOwn | TBorrow => HBorrow
    | TFuture p => HFuture p (go_opt p)
    | TStream p => HStream p (go_opt p)
    end.
End ty_ind'.

(** The case list a variant-like type presents to the ABI. *)
Definition cases_of_option (t : ty) : list (option ty) := [None; Some t].
Definition cases_of_result (ok err : option ty) : list (option ty) := [ok; err].

(** Values.  One constructor family serves several types:
    [VNum]: all integer types, char (scalar value), handles/future/stream/error-context (table index);
    [VRec]: records and tuples;  [VList]: lists, fixed-length lists and maps (entries as [VRec [k;v]]);
    [VVar i p]: variants, options ([0]=none,[1]=some), results ([0]=ok,[1]=err) and enums (no payload);
    [VFlags]: one boolean per declared flag. *)
Inductive val : Type :=
| VBool (b : bool)
| VNum (z : Z)
| VFloat (bits : N)
| VStr (bytes : list N)
| VList (vs : list val)
| VRec (vs : list val)
| VVar (case : N) (payload : option val)
| VFlags (bs : list bool).

Section val_ind'.
  Variable P : val -> Prop.
  Hypothesis HB : forall b, P (VBool b).
  Hypothesis HN : forall z, P (VNum z).
  Hypothesis HF : forall b, P (VFloat b).
  Hypothesis HS : forall b, P (VStr b).
  Hypothesis HL : forall vs, Forall P vs -> P (VList vs).
  Hypothesis HR : forall vs, Forall P vs -> P (VRec vs).
  Hypothesis HV : forall c p, match p with Some v => P v | None => True end -> P (VVar c p).
  Hypothesis HFl : forall bs, P (VFlags bs).
  Fixpoint val_ind' (v : val) : P v :=
    let fix go (l : list val) : Forall P l :=
      match l with [] => Forall_nil _ | x :: xs => Forall_cons _ (val_ind' x) (go xs) end in
    match v with
    | VBool b => HB b | VNum z => HN z | VFloat b => HF b | VStr b => HS b
    | VList vs => HL vs (go vs) | VRec vs => HR vs (go vs)
    | VVar c p => HV c p (match p with Some x => val_ind' x | None => I end)
    | VFlags bs => HFl bs
    end.
End val_ind'.

(** Typing (boolean). *)
Definition in_range (lo hi z : Z) : bool := ((lo <=? z) && (z <? hi))%Z.
Definition is_scalar_value (z : Z) : bool :=
  (in_range 0 55296 z || in_range 57344 1114112 z)%Z.   (* 0xD800, 0xE000, 0x110000 *)

Fixpoint has_type (t : ty) (v : val) {struct t} : bool :=
  let fix all2 (ts : list ty) (vs : list val) {struct ts} : bool :=
    match ts, vs with
    | [], [] => true
    | t :: ts', v :: vs' => has_type t v && all2 ts' vs'
    | _, _ => false
    end in
  let opt (o : option ty) (p : option val) : bool :=
    match o, p with
    | None, None => true
    | Some t, Some v => has_type t v
    | _, _ => false
    end in
  let fix nthcase (cs : list (option ty)) (i : nat) (p : option val) {struct cs} : bool :=
    match cs, i with
    | [], _ => false
    | c :: _, O => opt c p
    | _ :: cs', S j => nthcase cs' j p
    end in
  match t, v with
  | TBool, VBool _ => true
  | TU8, VNum z => in_range 0 256 z
  | TS8, VNum z => in_range (-128) 128 z
  | TU16, VNum z => in_range 0 65536 z
  | TS16, VNum z => in_range (-32768) 32768 z
  | TU32, VNum z => in_range 0 4294967296 z
  | TS32, VNum z => in_range (-2147483648) 2147483648 z
  | TU64, VNum z => in_range 0 18446744073709551616 z
  | TS64, VNum z => in_range (-9223372036854775808) 9223372036854775808 z
  | TF32, VFloat b => (b <? 4294967296)%N
  | TF64, VFloat b => (b <? 18446744073709551616)%N
  | TChar, VNum z => is_scalar_value z
  | TString, VStr bs => forallb (fun b => (b <? 256)%N) bs
  | TErrCtx, VNum z | TOwn, VNum z | TBorrow, VNum z | TFuture _, VNum z | TStream _, VNum z =>
      in_range 0 4294967296 z
  | TList t, VList vs => forallb (has_type t) vs
  | TFixed t n, VList vs => (N.of_nat (length vs) =? n)%N && forallb (has_type t) vs
  | TMap k v, VList vs =>
      forallb (fun e => match e with VRec [a; b] => has_type k a && has_type v b | _ => false end) vs
  | TRecord fs, VRec vs => all2 fs vs
  | TTuple ts, VRec vs => all2 ts vs
  | TVariant cs, VVar i p => (i <? N.of_nat (length cs))%N && nthcase cs (N.to_nat i) p
  | TEnum n, VVar i None => (i <? n)%N
  | TOption t, VVar i p => nthcase (cases_of_option t) (N.to_nat i) p
  | TResult ok err, VVar i p => nthcase (cases_of_result ok err) (N.to_nat i) p
  | TFlags n, VFlags bs => (N.of_nat (length bs) =? n)%N
  | _, _ => false
  end.
