(** Scalar/Normalize.v — abstract evaluator of core expressions into SHAPES, and the boolean
    checkers built on it.  DEFINITIONS ONLY; soundness is proved in NormalizeProofs.v.

    A shape describes a function Z -> option Z on ALL inputs of a machine type symbolically:
      - a BIT MAP [bm]: output bit i (of the infinite two's-complement expansion of the result)
        is either constant 0 or input bit j; finitely many explicit bits plus one source for
        all higher bits.  "take the low k bits as signed/unsigned and embed them in w bits",
        "bit-reinterpret", "identity", "mask with a constant" are all bit maps;
      - a NON-ZERO TEST of a bit map (result 0/1);
      - optionally GUARDED (defined only where a bit map's value is 0/1, or is a Unicode scalar
        value). *)
From Coq Require Import ZArith List Bool String.
From WB Require Import Scalar.Expr Scalar.ScalarSpec.
Import ListNotations.
Open Scope Z_scope.

Inductive bsrc := BZ | BIn (j : nat).

Definition bsrc_eqb (a b : bsrc) : bool :=
  match a, b with
  | BZ, BZ => true
  | BIn i, BIn j => Nat.eqb i j
  | _, _ => false
  end.

Definition bm := (list bsrc * bsrc)%type.

Definition bget (m : bm) (i : nat) : bsrc := nth i (fst m) (snd m).

Definition src_eval (x : Z) (b : bsrc) : bool :=
  match b with BZ => false | BIn j => Z.testbit x (Z.of_nat j) end.

(** Value of an infinite two's-complement bit string given by a finite prefix and the bit that
    repeats for ever after it. *)
Fixpoint bval (l : list bool) (h : bool) : Z :=
  match l with
  | [] => if h then -1 else 0
  | b :: r => Z.b2z b + 2 * bval r h
  end.

Definition bm_denote (m : bm) (x : Z) : Z :=
  bval (map (src_eval x) (fst m)) (src_eval x (snd m)).

(** The variable itself, known to lie in the range of type [t]. *)
Definition var_bm (t : cty) : bm :=
  (map BIn (seq 0 (bits t)), if signed t then BIn (bits t - 1) else BZ).

(** Conversion to a k-bit type. *)
Definition convk_bm (k : nat) (sg : bool) (m : bm) : bm :=
  (map (bget m) (seq 0 k), if sg then bget m (k - 1) else BZ).
Definition conv_bm (t : cty) (m : bm) : bm := convk_bm (bits t) (signed t) m.

(** Bitwise and with a non-negative constant. *)
Definition and_bm (c : Z) (m : bm) : bm :=
  (map (fun i => if Z.testbit c (Z.of_nat i) then bget m i else BZ) (seq 0 (Z.to_nat (Z.log2 c + 1))), BZ).

Definition bm_len (m : bm) : nat := List.length (fst m).

Definition bm_eqb (a b : bm) : bool :=
  forallb (fun i => bsrc_eqb (bget a i) (bget b i)) (seq 0 (S (Nat.max (bm_len a) (bm_len b)))).

(** Input bits a bit map looks at (used to compare non-zero tests). *)
Definition bm_srcs (m : bm) : list nat :=
  flat_map (fun b => match b with BIn j => [j] | BZ => [] end) (fst m ++ [snd m]).

Definition incl_b (a b : list nat) : bool := forallb (fun i => existsb (Nat.eqb i) b) a.

Inductive body := SBits (m : bm) | SNez (m : bm).
Inductive guard := GNone | GBool01 (m : bm) | GChar (m : bm).
Record shape := mk_shape { sg : guard; sb : body }.

Definition denote_body (b : body) (x : Z) : Z :=
  match b with
  | SBits m => bm_denote m x
  | SNez m => if bm_denote m x =? 0 then 0 else 1
  end.

Definition guard_ok (g : guard) (x : Z) : bool :=
  match g with
  | GNone => true
  | GBool01 m => let v := bm_denote m x in (v =? 0) || (v =? 1)
  | GChar m => is_scalar (bm_denote m x)
  end.

Definition denote (s : shape) (x : Z) : option Z :=
  if guard_ok (sg s) x then Some (denote_body (sb s) x) else None.

(** [norm dt e]: shape of [e] on inputs known to lie in the range of [dt]. *)
Fixpoint norm (dt : cty) (e : cexpr) : option shape :=
  match e with
  | CVar => Some (mk_shape GNone (SBits (var_bm dt)))
  | CConv t e =>
      match norm dt e with
      | Some (mk_shape g (SBits m)) => Some (mk_shape g (SBits (conv_bm t m)))
      | Some (mk_shape g (SNez m)) =>
          if (wrap t 0 =? 0) && (wrap t 1 =? 1) then Some (mk_shape g (SNez m)) else None
      | None => None
      end
  | CIte a b e =>
      if (a =? 1) && (b =? 0) then
        match norm dt e with
        | Some (mk_shape g (SBits m)) => Some (mk_shape g (SNez m))
        | Some (mk_shape g (SNez m)) => Some (mk_shape g (SNez m))
        | None => None
        end
      else None
  | CSubC t c e =>
      if c =? 0 then
        match norm dt e with
        | Some (mk_shape g (SBits m)) => Some (mk_shape g (SBits (conv_bm t m)))
        | _ => None
        end
      else None
  | CAndC c e =>
      if 0 <=? c then
        match norm dt e with
        | Some (mk_shape g (SBits m)) => Some (mk_shape g (SBits (and_bm c m)))
        | _ => None
        end
      else None
  | CBool01 e =>
      match norm dt e with
      | Some (mk_shape GNone (SBits m)) => Some (mk_shape (GBool01 m) (SBits m))
      | Some (mk_shape GNone (SNez m)) => Some (mk_shape GNone (SNez m))
      | _ => None
      end
  | CCharChk e =>
      match norm dt e with
      | Some (mk_shape GNone (SBits m)) => Some (mk_shape (GChar m) (SBits m))
      | _ => None
      end
  end.

(** Sufficient syntactic test for "two bodies denote the same function". *)
Definition single_bit (m : bm) : option nat :=
  match bm_srcs m with [j] => Some j | _ => None end.

Definition body_eqb (a b : body) : bool :=
  match a, b with
  | SBits m1, SBits m2 => bm_eqb m1 m2
  | SNez m1, SNez m2 => incl_b (bm_srcs m1) (bm_srcs m2) && incl_b (bm_srcs m2) (bm_srcs m1)
  | SNez m1, SBits m2 | SBits m2, SNez m1 =>
      (* a test of ONE input bit is that bit, zero-extended *)
      match single_bit m1 with
      | Some j => bm_eqb m2 ([BIn j], BZ)
      | None => false
      end
  end.

(** The implementation's guard must be no stronger than the specification's. *)
Definition guard_le (gimpl gspec : guard) : bool :=
  match gimpl, gspec with
  | GNone, _ => true
  | GChar m, GChar m' => bm_eqb m m'
  | GBool01 m, GBool01 m' => bm_eqb m m'
  | _, _ => false
  end.

(** Post-processing of the implementation's result before comparison: a lowered value is
    compared as an unsigned core value. *)
Definition post_body (t : cty) (b : body) : body :=
  match b with SBits m => SBits (conv_bm t m) | SNez m => SNez m end.

(* ------------------------------------------------------------------------------------------ *)
(** * Specification shapes *)

Definition spec_lower_shape (t : sty) : shape :=
  mk_shape GNone (SBits (conv_bm (core_u t) (var_bm (mty_of t)))).

(** lift: the language-level variable of machine type [src] (32 or 64 bits) holds the core value. *)
Definition spec_lift_shape (t : sty) (src : cty) : shape :=
  let core := conv_bm (core_u t) (var_bm src) in
  match t with
  | SBool => mk_shape GNone (SNez core)
  | SChar => mk_shape (GChar core) (SBits core)
  | _ => mk_shape GNone (SBits (conv_bm (mty_of t) core))
  end.

(* ------------------------------------------------------------------------------------------ *)
(** * Conversions and their checker *)

Inductive lang := LangRust | LangC | LangCpp | LangCSharp | LangGo | LangMoonBit | LangD.

Definition lang_name (l : lang) : string :=
  match l with
  | LangRust => "rust" | LangC => "c" | LangCpp => "cpp" | LangCSharp => "csharp" | LangGo => "go"
  | LangMoonBit => "moonbit" | LangD => "d"
  end%string.

Record conv := mk_conv {
  c_lang : lang;
  c_dir : dir;
  c_ty : sty;
  c_site : string;        (* where it was scraped: "import-param", "export-result", … (+ "/debug") *)
  c_lex : lexpr }.

Definition conv_key (c : conv) : string :=
  (lang_name (c_lang c) ++ ":" ++ instr_name (c_dir c) (c_ty c))%string.

(** THE PROPERTY for one conversion site. *)
Definition conv_ok (c : conv) : Prop :=
  match elab (c_lex c) with
  | None => False
  | Some (src, e, dst) =>
      match c_dir c with
      | Lower =>
          bits dst = core_bits (c_ty c) /\
          forall v, wit_value (c_ty c) v ->
            in_range src v /\
            exists r, eval e v = Some r /\ r mod 2 ^ Z.of_nat (core_bits (c_ty c)) = spec_lower (c_ty c) v
      | Lift =>
          bits src = core_bits (c_ty c) /\
          forall x, in_range src x ->
            forall v, spec_lift (c_ty c) (x mod 2 ^ Z.of_nat (core_bits (c_ty c))) = Some v ->
              eval e x = Some v
      end
  end.

(** Inputs on which a lift has to be judged: every value of the variable's type — except for
    char, where the canonical ABI traps unless the core value is a scalar value, so only inputs
    below 2^21 are judged (what each backend does outside is recorded, not judged). *)
Definition lift_dom (t : sty) (src : cty) : cty := match t with SChar => TU21 | _ => src end.

Definition check_conv (c : conv) : bool :=
  match elab (c_lex c) with
  | None => false
  | Some (src, e, dst) =>
      match c_dir c with
      | Lower =>
          Nat.eqb (bits dst) (core_bits (c_ty c)) && sub_range (mty_of (c_ty c)) src &&
          match norm (mty_of (c_ty c)) e with
          | Some (mk_shape GNone b) =>
              body_eqb (post_body (core_u (c_ty c)) b) (sb (spec_lower_shape (c_ty c)))
          | _ => false
          end
      | Lift =>
          Nat.eqb (bits src) (core_bits (c_ty c)) &&
          let dt := lift_dom (c_ty c) src in
          match norm dt e with
          | Some (mk_shape g b) =>
              let s := spec_lift_shape (c_ty c) dt in
              guard_le g (sg s) && body_eqb b (sb s)
          | None => false
          end
      end
  end.

(** Concrete evaluation of the property's statement at one input (used by the exhaustive
    theorems, the refutations and the search leg).  [Lower]: the input is a WIT value;
    [Lift]: the input is the language-level variable holding the core value. *)
Definition lower_agrees (t : sty) (m : Z) (src : cty) (e : cexpr) (x : Z) : bool :=
  negb (wit_valueb t x) ||
  (in_rangeb src x && match eval e x with Some r => r mod m =? spec_lower t x | None => false end).

Definition lift_agrees (t : sty) (m : Z) (src : cty) (e : cexpr) (x : Z) : bool :=
  negb (in_rangeb src x) ||
  match spec_lift t (x mod m) with
  | None => true
  | Some v => match eval e x with Some r => r =? v | None => false end
  end.

Definition agrees_at (c : conv) (x : Z) : bool :=
  match elab (c_lex c) with
  | None => false
  | Some (src, e, dst) =>
      match c_dir c with
      | Lower => lower_agrees (c_ty c) (2 ^ Z.of_nat (core_bits (c_ty c))) src e x
      | Lift => lift_agrees (c_ty c) (2 ^ Z.of_nat (core_bits (c_ty c))) src e x
      end
  end.

(** The 2^k consecutive integers starting at [from]. *)
Fixpoint pow2range (k : nat) (from : Z) : list Z :=
  match k with
  | O => [from]
  | S k => pow2range k from ++ pow2range k (from + 2 ^ Z.of_nat k)
  end.

(** All WIT values of a narrow type (8/16-bit, bool). *)
Definition narrow_domain (t : sty) : option (nat * Z) :=
  match t with
  | SBool => Some (1%nat, 0)
  | SU8 => Some (8%nat, 0) | SS8 => Some (8%nat, -128)
  | SU16 => Some (16%nat, 0) | SS16 => Some (16%nat, -32768)
  | _ => None
  end.

Definition exhaustive_lower (c : conv) : bool :=
  match c_dir c, narrow_domain (c_ty c), elab (c_lex c) with
  | Lower, Some (k, from), Some (src, e, _) =>
      let m := 2 ^ Z.of_nat (core_bits (c_ty c)) in
      forallb (lower_agrees (c_ty c) m src e) (pow2range k from)
  | _, _, _ => false
  end.

(** Weaker statement kept for the boolean lifts that are a recorded finding: canonical hosts
    only ever produce 0 and 1. *)
Definition bool01_ok (c : conv) : bool :=
  match c_dir c, c_ty c with
  | Lift, SBool => agrees_at c 0 && agrees_at c 1
  | _, _ => false
  end.

(* ------------------------------------------------------------------------------------------ *)
(** * Variant-slot casts (C04 backend half) *)

Record castsite := mk_cast {
  k_lang : lang;
  k_cast : bitcast;
  k_site : string;
  k_lex : lexpr }.

Definition cast_ok (k : castsite) : Prop :=
  match elab (k_lex k) with
  | None => False
  | Some (src, e, dst) =>
      bits src = bc_from_bits (k_cast k) /\ bits dst = bc_to_bits (k_cast k) /\
      forall x, in_range src x ->
        exists r, eval e x = Some r /\
          r mod 2 ^ Z.of_nat (bc_to_bits (k_cast k)) =
          BitcastSpec.sem (k_cast k) (x mod 2 ^ Z.of_nat (bc_from_bits (k_cast k)))
            mod 2 ^ Z.of_nat (bc_to_bits (k_cast k))
  end.

Definition ubits (k : nat) : cty := if Nat.eqb k 64 then U64 else U32.

(** Shape of the specified cast on the unsigned view of a [src]-typed variable. *)
Fixpoint bitcast_bm (b : bitcast) (m : bm) : bm :=
  match b with
  | I64ToI32 | I64ToF32 | P64ToP | I64ToL => conv_bm U32 m
  | BSeq a b => bitcast_bm b (bitcast_bm a m)
  | _ => m
  end.

Definition check_cast (k : castsite) : bool :=
  match elab (k_lex k) with
  | None => false
  | Some (src, e, dst) =>
      Nat.eqb (bits src) (bc_from_bits (k_cast k)) && Nat.eqb (bits dst) (bc_to_bits (k_cast k)) &&
      (Nat.eqb (bits src) 32 || Nat.eqb (bits src) 64) &&
      (Nat.eqb (bits dst) 32 || Nat.eqb (bits dst) 64) &&
      match norm src e with
      | Some (mk_shape GNone (SBits m)) =>
          bm_eqb (conv_bm (ubits (bits dst)) m)
                 (conv_bm (ubits (bits dst)) (bitcast_bm (k_cast k) (conv_bm (ubits (bits src)) (var_bm src))))
      | _ => false
      end
  end.

Definition cast_agrees_at (k : castsite) (x : Z) : bool :=
  match elab (k_lex k) with
  | None => false
  | Some (src, e, dst) =>
      negb (in_rangeb src x) ||
      match eval e x with
      | Some r => r mod 2 ^ Z.of_nat (bc_to_bits (k_cast k)) =?
                  BitcastSpec.sem (k_cast k) (x mod 2 ^ Z.of_nat (bc_from_bits (k_cast k)))
                    mod 2 ^ Z.of_nat (bc_to_bits (k_cast k))
      | None => false
      end
  end.
