(** Scalar/ScalarSpec.v — the Component Model canonical ABI's flat lowering / lifting of scalar
    values, and the variant-payload slot conversions ([BitcastSpec]).  DEFINITIONS ONLY.

    Transcribed from design/mvp/canonical-abi/definitions.py (CanonicalABI.md, "Flat Lifting" and
    "Flat Lowering") WITHOUT looking at wit-bindgen:

      lower_flat:  Bool -> [int(v)]       U8..U64 -> [v]          Char -> [char_to_i32(v)]
                   S8,S16,S32 -> lower_flat_signed(v, 32)         S64 -> lower_flat_signed(v, 64)
                   F32 -> [maybe_scramble_nan32(v)]  (bit pattern kept; NaN canonicalisation is a host option)
      lower_flat_signed(i, bits):  if i < 0: i += 1 << bits ; return [i]

      lift_flat:   Bool -> convert_int_to_bool(next i32)   = bool(i)           (any non-zero is true)
                   U8/U16/U32 -> lift_flat_unsigned(32, w) = i % (1 << w)
                   S8/S16/S32 -> lift_flat_signed(32, w)   = i %= (1<<w); if i >= (1<<(w-1)): i - (1<<w)
                   U64/S64 likewise with core width 64
                   Char -> convert_i32_to_char(i): trap_if(i >= 0x110000); trap_if(0xD800 <= i <= 0xDFFF); chr(i)
                   F32/F64 -> canonicalize_nan(next f32/f64)  (bit pattern kept)

    Core wasm values are given here as UNSIGNED integers in [0, 2^w) (w = 32 or 64); WIT values as
    the mathematical integer (bool 0/1, char = scalar value, float = raw bit pattern). *)
From Coq Require Import ZArith List Bool String.
From WB Require Import Scalar.Expr.
Import ListNotations.
Open Scope Z_scope.

Inductive sty := SBool | SU8 | SS8 | SU16 | SS16 | SU32 | SS32 | SU64 | SS64 | SF32 | SF64 | SChar.
Inductive dir := Lower | Lift.

Definition all_sty : list sty := [SBool; SU8; SS8; SU16; SS16; SU32; SS32; SU64; SS64; SF32; SF64; SChar].

(** Width of the core wasm value that carries the type. *)
Definition core_bits (t : sty) : nat :=
  match t with SU64 | SS64 | SF64 => 64 | _ => 32 end%nat.
Definition core_u (t : sty) : cty := match t with SU64 | SS64 | SF64 => U64 | _ => U32 end.

(** The machine type whose value range is exactly the WIT type's value set (for char: a superset,
    the 21-bit unsigned numbers; the scalar-value restriction is added by [wit_value]). *)
Definition mty_of (t : sty) : cty :=
  match t with
  | SBool => TBool | SU8 => U8 | SS8 => I8 | SU16 => U16 | SS16 => I16 | SU32 => U32 | SS32 => I32
  | SU64 => U64 | SS64 => I64 | SF32 => TF32 | SF64 => TF64 | SChar => TU21
  end.

Definition wit_value (t : sty) (v : Z) : Prop :=
  in_range (mty_of t) v /\ (t = SChar -> is_scalar v = true).

Definition wit_valueb (t : sty) (v : Z) : bool :=
  in_rangeb (mty_of t) v && match t with SChar => is_scalar v | _ => true end.

(** lower_flat restricted to scalars: WIT value -> unsigned core value. *)
Definition spec_lower (t : sty) (v : Z) : Z :=
  match t with
  | SBool | SU8 | SU16 | SU32 | SU64 | SChar | SF32 | SF64 => v
  | SS8 | SS16 | SS32 => if v <? 0 then v + 2 ^ 32 else v
  | SS64 => if v <? 0 then v + 2 ^ 64 else v
  end.

Definition lift_unsigned (w i : Z) : Z := i mod 2 ^ w.
Definition lift_signed (w i : Z) : Z :=
  let i := i mod 2 ^ w in if 2 ^ (w - 1) <=? i then i - 2 ^ w else i.

(** lift_flat restricted to scalars: unsigned core value (ANY value in [0,2^w)) -> WIT value;
    [None] = the canonical ABI traps. *)
Definition spec_lift (t : sty) (i : Z) : option Z :=
  match t with
  | SBool => Some (if i =? 0 then 0 else 1)
  | SU8 => Some (lift_unsigned 8 i)
  | SU16 => Some (lift_unsigned 16 i)
  | SU32 => Some (lift_unsigned 32 i)
  | SU64 => Some (lift_unsigned 64 i)
  | SS8 => Some (lift_signed 8 i)
  | SS16 => Some (lift_signed 16 i)
  | SS32 => Some (lift_signed 32 i)
  | SS64 => Some (lift_signed 64 i)
  | SF32 | SF64 => Some i
  | SChar => if (1114112 <=? i) || ((55296 <=? i) && (i <=? 57343)) then None else Some i
  end.

(** Name of the wit-bindgen instruction ([abi::Instruction]) that a backend's [emit] turns into
    the conversion: used for the finding keys "<lang>:<Instr>". *)
Definition instr_name (d : dir) (t : sty) : string :=
  match d, t with
  | Lower, SBool => "I32FromBool" | Lower, SU8 => "I32FromU8" | Lower, SS8 => "I32FromS8"
  | Lower, SU16 => "I32FromU16" | Lower, SS16 => "I32FromS16" | Lower, SU32 => "I32FromU32"
  | Lower, SS32 => "I32FromS32" | Lower, SU64 => "I64FromU64" | Lower, SS64 => "I64FromS64"
  | Lower, SF32 => "CoreF32FromF32" | Lower, SF64 => "CoreF64FromF64" | Lower, SChar => "I32FromChar"
  | Lift, SBool => "BoolFromI32" | Lift, SU8 => "U8FromI32" | Lift, SS8 => "S8FromI32"
  | Lift, SU16 => "U16FromI32" | Lift, SS16 => "S16FromI32" | Lift, SU32 => "U32FromI32"
  | Lift, SS32 => "S32FromI32" | Lift, SU64 => "U64FromI64" | Lift, SS64 => "S64FromI64"
  | Lift, SF32 => "F32FromCoreF32" | Lift, SF64 => "F64FromCoreF64" | Lift, SChar => "CharFromI32"
  end%string.

(* ------------------------------------------------------------------------------------------ *)
(** * Variant payload slot conversions (C04, backend half)

    lower_flat_variant:   (have, want)                       lift_flat_variant (CoerceValueIter):
      ('f32','i32') -> encode_float_as_i32(v)                  ('i32','f32') -> decode_i32_as_float(x)
      ('i32','i64') -> v          (unsigned: ZERO-extension)   ('i64','i32') -> wrap_i64_to_i32(x)
      ('f32','i64') -> encode_float_as_i32(v)                  ('i64','f32') -> decode_i32_as_float(wrap_i64_to_i32(x))
      ('f64','i64') -> encode_float_as_i64(v)                  ('i64','f64') -> decode_i64_as_float(x)
    wit-bindgen refines i32 into I32 / Pointer / Length and i64 into I64 / PointerOrI64
    ([abi::Bitcast]); on wasm32 Pointer and Length ARE i32 and PointerOrI64 IS i64, so the
    refined casts mean what the underlying (have, want) pair means.  Values are unsigned. *)

Inductive bitcast :=
  | F32ToI32 | F64ToI64 | I32ToI64 | F32ToI64 | I32ToF32 | I64ToF64 | I64ToI32 | I64ToF32
  | P64ToI64 | I64ToP64 | P64ToP | PToP64 | I32ToP | PToI32 | PToL | LToP | I32ToL | LToI32
  | I64ToL | LToI64 | BNone32 | BNone64
  | BSeq (a b : bitcast).

Fixpoint bc_from_bits (b : bitcast) : nat :=
  match b with
  | F32ToI32 | I32ToI64 | F32ToI64 | I32ToF32 | PToP64 | I32ToP | PToI32 | PToL | LToP | I32ToL
  | LToI32 | LToI64 | BNone32 => 32
  | F64ToI64 | I64ToF64 | I64ToI32 | I64ToF32 | P64ToI64 | I64ToP64 | P64ToP | I64ToL | BNone64 => 64
  | BSeq a _ => bc_from_bits a
  end%nat.

Fixpoint bc_to_bits (b : bitcast) : nat :=
  match b with
  | F32ToI32 | I32ToF32 | I64ToI32 | I64ToF32 | P64ToP | I32ToP | PToI32 | PToL | LToP | I32ToL
  | LToI32 | I64ToL | BNone32 => 32
  | F64ToI64 | I32ToI64 | F32ToI64 | I64ToF64 | P64ToI64 | I64ToP64 | PToP64 | LToI64 | BNone64 => 64
  | BSeq _ b => bc_to_bits b
  end%nat.

Module BitcastSpec.
  (** [sem b x]: x is the unsigned source value in [0, 2^from); result is the unsigned target value. *)
  Fixpoint sem (b : bitcast) (x : Z) : Z :=
    match b with
    | F32ToI32 | F64ToI64 | I32ToF32 | I64ToF64 => x           (* bit reinterpretation *)
    | I32ToI64 | F32ToI64 | PToP64 | LToI64 => x               (* zero-extension of an unsigned value *)
    | I64ToI32 | I64ToF32 | P64ToP | I64ToL => x mod 2 ^ 32    (* wrap_i64_to_i32 *)
    | P64ToI64 | I64ToP64 | I32ToP | PToI32 | PToL | LToP | I32ToL | LToI32 | BNone32 | BNone64 => x
    | BSeq a b => sem b (sem a x)
    end.
End BitcastSpec.

Fixpoint bitcast_name (b : bitcast) : string :=
  match b with
  | F32ToI32 => "F32ToI32" | F64ToI64 => "F64ToI64" | I32ToI64 => "I32ToI64" | F32ToI64 => "F32ToI64"
  | I32ToF32 => "I32ToF32" | I64ToF64 => "I64ToF64" | I64ToI32 => "I64ToI32" | I64ToF32 => "I64ToF32"
  | P64ToI64 => "P64ToI64" | I64ToP64 => "I64ToP64" | P64ToP => "P64ToP" | PToP64 => "PToP64"
  | I32ToP => "I32ToP" | PToI32 => "PToI32" | PToL => "PToL" | LToP => "LToP" | I32ToL => "I32ToL"
  | LToI32 => "LToI32" | I64ToL => "I64ToL" | LToI64 => "LToI64" | BNone32 => "None" | BNone64 => "None"
  | BSeq a b => bitcast_name a ++ "+" ++ bitcast_name b
  end%string.
