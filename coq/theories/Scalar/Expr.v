(** Scalar/Expr.v — the expression languages of the C14 / C04-backend translator tie.

    DEFINITIONS ONLY (no proofs).  Three layers:

    1. [cexpr]: a core language of unary integer functions over mathematical integers [Z]
       (one free variable, the value being converted).  Every machine value is represented by
       the mathematical integer it denotes in its own type (i8 -1 is [-1], u8 255 is [255]);
       bool is 0/1; a float is its raw IEEE bit pattern as an unsigned number (never a Coq
       float); a char is its Unicode scalar value; pointers/usize are 32-bit unsigned (the
       generated code targets wasm32 only).  [eval : cexpr -> Z -> option Z]; [None] = the
       expression traps / panics / has no defined value on that input.

    2. Per-language surface ASTs — [rexpr] (Rust), [kexpr] (the cast-based languages C, C++,
       C#, Go, D; one AST with a per-language rule switch [klang]), [mexpr] (MoonBit) — whose
       constructors are 1:1 with the surface syntax the translator (lib/scalar.py) parses out
       of the GENERATED text, so that the translator itself carries no semantics.

    3. Elaboration functions [elab_rust], [elab_k], [elab_mbt] that type-check a surface
       expression against the type of its variable and give it THE OPERATOR SEMANTICS OF THAT
       LANGUAGE by translation into [cexpr].  These three functions are the trusted statement
       of what Rust `as`, C casts (clang: two's-complement narrowing), C# unchecked casts, Go
       conversions, D `cast`, MoonBit `to_int/to_byte/reinterpret_as_*/land/-` and the inline
       wasm helpers `i32.extend8_s/16_s` mean.  The Rust and C columns are differentially
       tested against rustc and clang on every run (checks/c14.py, "model validation").  *)
From Coq Require Import ZArith List Bool String.
Import ListNotations.
Open Scope string_scope.
Open Scope Z_scope.

(* ------------------------------------------------------------------------------------------ *)
(** * Machine types *)

Inductive cty :=
  | I8 | U8 | I16 | U16 | I32 | U32 | I64 | U64
  | TBool            (* 0 / 1 *)
  | TF32 | TF64      (* raw bit patterns, unsigned *)
  | TChar            (* Unicode scalar value, carried in 32 bits *)
  | TUsize | TPtr    (* wasm32: 32-bit unsigned *)
  | TP64             (* "pointer or i64" slot: 64-bit pattern *)
  | TU21.            (* 21-bit unsigned: only used as the DOMAIN of char lowering (scalar values < 2^21) *)

Definition cty_eqb (a b : cty) : bool :=
  match a, b with
  | I8, I8 | U8, U8 | I16, I16 | U16, U16 | I32, I32 | U32, U32 | I64, I64 | U64, U64
  | TBool, TBool | TF32, TF32 | TF64, TF64 | TChar, TChar | TUsize, TUsize | TPtr, TPtr
  | TP64, TP64 | TU21, TU21 => true
  | _, _ => false
  end.

Definition bits (t : cty) : nat :=
  match t with
  | I8 | U8 => 8 | I16 | U16 => 16 | I32 | U32 | TF32 | TChar | TUsize | TPtr => 32
  | I64 | U64 | TF64 | TP64 => 64 | TBool => 1 | TU21 => 21
  end%nat.

Definition signed (t : cty) : bool :=
  match t with I8 | I16 | I32 | I64 => true | _ => false end.

Definition is_int (t : cty) : bool :=
  match t with I8 | U8 | I16 | U16 | I32 | U32 | I64 | U64 | TUsize => true | _ => false end.

Definition is_float (t : cty) : bool := match t with TF32 | TF64 => true | _ => false end.

(** [wrapk k sg x]: reduce [x] modulo [2^k] into the unsigned range [0,2^k) or the signed
    (two's complement) range [-2^(k-1), 2^(k-1)). *)
Definition wrapk (k : nat) (sg : bool) (x : Z) : Z :=
  if sg then (x + 2 ^ (Z.of_nat k - 1)) mod 2 ^ Z.of_nat k - 2 ^ (Z.of_nat k - 1)
  else x mod 2 ^ Z.of_nat k.

Definition wrap (t : cty) (x : Z) : Z := wrapk (bits t) (signed t) x.

Definition lo (t : cty) : Z := if signed t then - 2 ^ (Z.of_nat (bits t) - 1) else 0.
Definition hi (t : cty) : Z := if signed t then 2 ^ (Z.of_nat (bits t) - 1) else 2 ^ Z.of_nat (bits t).
Definition in_range (t : cty) (x : Z) : Prop := lo t <= x < hi t.
Definition in_rangeb (t : cty) (x : Z) : bool := (lo t <=? x) && (x <? hi t).

(** Unicode scalar values. *)
Definition is_scalar (v : Z) : bool :=
  (0 <=? v) && (v <? 1114112) && negb ((55296 <=? v) && (v <=? 57343)).

(* ------------------------------------------------------------------------------------------ *)
(** * Core expressions *)

Inductive cexpr :=
  | CVar                                   (* the value being converted *)
  | CConv (t : cty) (e : cexpr)            (* integer conversion to [t]: wrap modulo 2^bits *)
  | CIte (a b : Z) (e : cexpr)             (* if e <> 0 then a else b   (CIte 1 0 = "e != 0") *)
  | CSubC (t : cty) (c : Z) (e : cexpr)    (* wrapping [e - c] in type [t] *)
  | CAndC (c : Z) (e : cexpr)              (* bitwise and with a constant *)
  | CBool01 (e : cexpr)                    (* checked bool: 0 or 1, anything else traps *)
  | CCharChk (e : cexpr).                  (* checked / assumed char: defined on scalar values only *)

Definition obind {A B} (o : option A) (f : A -> option B) : option B :=
  match o with Some a => f a | None => None end.

Fixpoint eval (e : cexpr) (x : Z) : option Z :=
  match e with
  | CVar => Some x
  | CConv t e => obind (eval e x) (fun v => Some (wrap t v))
  | CIte a b e => obind (eval e x) (fun v => Some (if v =? 0 then b else a))
  | CSubC t c e => obind (eval e x) (fun v => Some (wrap t (v - c)))
  | CAndC c e => obind (eval e x) (fun v => Some (Z.land v c))
  | CBool01 e => obind (eval e x) (fun v => if (v =? 0) || (v =? 1) then Some v else None)
  | CCharChk e => obind (eval e x) (fun v => if is_scalar v then Some v else None)
  end.

(** Substitution of [arg] for the variable of [body] (= calling a one-parameter helper). *)
Fixpoint csubst (body arg : cexpr) : cexpr :=
  match body with
  | CVar => arg
  | CConv t e => CConv t (csubst e arg)
  | CIte a b e => CIte a b (csubst e arg)
  | CSubC t c e => CSubC t c (csubst e arg)
  | CAndC c e => CAndC c (csubst e arg)
  | CBool01 e => CBool01 (csubst e arg)
  | CCharChk e => CCharChk (csubst e arg)
  end.

(** Result of elaboration: the core expression and the (machine) type of its value. *)
Definition typed := (cexpr * cty)%type.

Definition sub_range (a b : cty) : bool := (lo b <=? lo a) && (hi a <=? hi b).

(* ------------------------------------------------------------------------------------------ *)
(** * Rust *)

Inductive rty :=
  | Ri8 | Ru8 | Ri16 | Ru16 | Ri32 | Ru32 | Ri64 | Ru64 | Rbool | Rf32 | Rf64 | Rchar
  | Rusize | Rptr (* *mut u8 / *const u8 *) | Rmu64 (* ::core::mem::MaybeUninit<u64> *).

Definition rty_c (t : rty) : cty :=
  match t with
  | Ri8 => I8 | Ru8 => U8 | Ri16 => I16 | Ru16 => U16 | Ri32 => I32 | Ru32 => U32
  | Ri64 => I64 | Ru64 => U64 | Rbool => TBool | Rf32 => TF32 | Rf64 => TF64 | Rchar => TChar
  | Rusize => TUsize | Rptr => TPtr | Rmu64 => TP64
  end.

Inductive rexpr :=
  | RVar
  | RRef (e : rexpr)                       (* &e   (the AsI32-for-&T impl derefs it again) *)
  | RDeref (e : rexpr)                     (* *e *)
  | RAs (e : rexpr) (t : rty)              (* e as t *)
  | RFrom (t : rty) (e : rexpr)            (* t::from(e) — std impls exist for lossless widenings only *)
  | RToBits (e : rexpr)                    (* e.to_bits()         f32 -> u32, f64 -> u64 *)
  | RFromBits (t : rty) (e : rexpr)        (* t::from_bits(e)     u32 -> f32, u64 -> f64 *)
  | RMatchBool (e : rexpr) (vt vf : Z)     (* match e { true => vt, false => vf }  (i32 literals) *)
  | RNeZero (e : rexpr)                    (* e != 0 *)
  | RIfDebug (d r : rexpr)                 (* if cfg!(debug_assertions) { d } else { r } *)
  | RMatch01 (e : rexpr)                   (* match e { 0 => false, 1 => true, _ => panic!(..) } *)
  | RCharUnwrap (e : rexpr)                (* core::char::from_u32(e).unwrap() *)
  | RCharUnchecked (e : rexpr)             (* core::char::from_u32_unchecked(e)  (UB outside scalar values) *)
  | RCall (t : rty) (arg body : rexpr)     (* helper / trait method with one parameter of type t and this body *)
  | RMuNew (e : rexpr)                     (* ::core::mem::MaybeUninit::new(e) *)
  | RMuAssumeInit (e : rexpr)              (* e.assume_init() *)
  | RMuReadPtr (e : rexpr).                (* e.as_ptr().cast::<*mut u8>().read(): the first 4 bytes of the
                                              8-byte slot = its low 32 bits (wasm32 is little-endian) *)

Definition rty_eqb (a b : rty) : bool := cty_eqb (rty_c a) (rty_c b).

(** Which `as` casts Rust accepts between the modelled types and are value-modelled here:
    integer/usize/bool/char -> integer/usize ; u8 -> char ; integer/usize <-> raw pointer.
    Float <-> integer `as` casts convert VALUES (not bits) and are outside the model: [None]. *)
Definition rust_as_ok (from to : rty) : bool :=
  match to with
  | Ri8 | Ru8 | Ri16 | Ru16 | Ri32 | Ru32 | Ri64 | Ru64 | Rusize =>
      match from with
      | Rf32 | Rf64 | Rmu64 => false
      | _ => true
      end
  | Rptr => match from with Rusize | Rptr | Ri8 | Ru8 | Ri16 | Ru16 | Ri32 | Ru32 | Ri64 | Ru64 => true | _ => false end
  | Rchar => match from with Ru8 | Rchar => true | _ => false end
  | Rbool => match from with Rbool => true | _ => false end
  | Rf32 | Rf64 | Rmu64 => rty_eqb from to
  end.

Fixpoint elab_rust (debug : bool) (vt : rty) (e : rexpr) : option (cexpr * rty) :=
  match e with
  | RVar => Some (CVar, vt)
  | RRef e | RDeref e => elab_rust debug vt e
  | RAs e t =>
      match elab_rust debug vt e with
      | Some (c, s) => if rust_as_ok s t then Some (CConv (rty_c t) c, t) else None
      | None => None
      end
  | RFrom t e =>
      match elab_rust debug vt e with
      | Some (c, s) =>
          (* From<S> for T exists only when every S value is a T value *)
          if is_int (rty_c s) && is_int (rty_c t) && sub_range (rty_c s) (rty_c t)
          then Some (CConv (rty_c t) c, t) else None
      | None => None
      end
  | RToBits e =>
      match elab_rust debug vt e with
      | Some (c, Rf32) => Some (CConv U32 c, Ru32)
      | Some (c, Rf64) => Some (CConv U64 c, Ru64)
      | _ => None
      end
  | RFromBits t e =>
      match elab_rust debug vt e, t with
      | Some (c, Ru32), Rf32 => Some (CConv TF32 c, Rf32)
      | Some (c, Ru64), Rf64 => Some (CConv TF64 c, Rf64)
      | _, _ => None
      end
  | RMatchBool e a b =>
      match elab_rust debug vt e with
      | Some (c, Rbool) => Some (CConv I32 (CIte a b c), Ri32)
      | _ => None
      end
  | RNeZero e =>
      match elab_rust debug vt e with
      | Some (c, s) => if is_int (rty_c s) then Some (CIte 1 0 c, Rbool) else None
      | None => None
      end
  | RIfDebug d r => if debug then elab_rust debug vt d else elab_rust debug vt r
  | RMatch01 e =>
      match elab_rust debug vt e with
      | Some (c, s) => if is_int (rty_c s) then Some (CBool01 c, Rbool) else None
      | None => None
      end
  | RCharUnwrap e | RCharUnchecked e =>
      match elab_rust debug vt e with
      | Some (c, Ru32) => Some (CCharChk c, Rchar)
      | _ => None
      end
  | RCall t arg body =>
      match elab_rust debug vt arg, elab_rust debug t body with
      | Some (ca, ta), Some (cb, tb) => if rty_eqb ta t then Some (csubst cb ca, tb) else None
      | _, _ => None
      end
  | RMuNew e =>
      match elab_rust debug vt e with
      | Some (c, Ru64) => Some (CConv TP64 c, Rmu64)
      | _ => None
      end
  | RMuAssumeInit e =>
      match elab_rust debug vt e with
      | Some (c, Rmu64) => Some (CConv U64 c, Ru64)
      | _ => None
      end
  | RMuReadPtr e =>
      match elab_rust debug vt e with
      | Some (c, Rmu64) => Some (CConv TPtr c, Rptr)
      | _ => None
      end
  end.

(* ------------------------------------------------------------------------------------------ *)
(** * The cast-based languages: C, C++, C#, Go, D *)

Inductive klang := KC | KCpp | KCSharp | KGo | KD.

(** Types are named by their machine meaning; the translator maps each language's spelling
    (int8_t / sbyte / int8 / byte …) onto them, see [KTYPES] in lib/scalar.py. *)
Inductive kexpr :=
  | KVar
  | KCast (t : cty) (e : kexpr)            (* (T)e, T(e), unchecked((T)(e)), T(e) in Go, cast(T)(e) in D *)
  | KNeZero (e : kexpr)                    (* e != 0 *)
  | KCond (e : kexpr) (a b : Z)            (* e ? a : b    /  Go: var r int32; if e { r = a } else { r = b } *)
  | KPun (ta tb : cty) (e : kexpr)         (* C: ((union { ta a; tb b; }){ e }).b ; C++ std::bit_cast<tb, ta>(e) ;
                                              C#: BitConverter.<ta>BitsTo<tb>(e) ; D: (e).reinterpretCast!tb (ta = type of e) *)
  | KLit (z : Z).                          (* integer literal (only inside a comparison; never a whole expression) *)

(** Implicit conversion of a value of type [s] to a context of type [t] (argument passing,
    return, initialisation).  C and C++ convert any arithmetic type to any other (to bool:
    "!= 0"); C# and D only widen losslessly between integers; Go never converts implicitly. *)
Definition k_implicit (l : klang) (s t : cty) (c : cexpr) : option cexpr :=
  if cty_eqb s t then Some c else
  match l with
  | KC | KCpp =>
      if is_float s || is_float t then None
      else match t with TBool => Some (CIte 1 0 c) | _ => Some (CConv t c) end
  | KCSharp | KD =>
      (* lossless widening between integer types (D: also from/to its character types) *)
      if (is_int s || cty_eqb s TChar) && (is_int t || cty_eqb t TChar) && sub_range s t
      then Some (CConv t c) else None
  | KGo => None
  end.

(** Explicit cast. *)
Definition k_cast (l : klang) (s t : cty) (c : cexpr) : option cexpr :=
  if is_float s || is_float t then (if cty_eqb s t then Some c else None) else
  match t, s with
  | TBool, TBool => Some c
  | TBool, _ => match l with KC | KCpp | KD => Some (CIte 1 0 c) | _ => None end
  | _, TBool => match l with KC | KCpp | KD => Some (CConv t c) | _ => None end
  | _, _ => Some (CConv t c)
  end.

Fixpoint elab_k (l : klang) (vt : cty) (e : kexpr) : option typed :=
  match e with
  | KVar => Some (CVar, vt)
  | KLit _ => None
  | KCast t e =>
      match elab_k l vt e with
      | Some (c, s) => match k_cast l s t c with Some c' => Some (c', t) | None => None end
      | None => None
      end
  | KNeZero e =>
      match elab_k l vt e with
      | Some (c, s) => if is_int s || cty_eqb s TChar then Some (CIte 1 0 c, TBool) else
                       (* C/C++/D accept a bool operand too (promoted to int) *)
                       match l, s with
                       | (KC | KCpp | KD), TBool => Some (CIte 1 0 c, TBool)
                       | _, _ => None
                       end
      | None => None
      end
  | KCond e a b =>
      match elab_k l vt e with
      | Some (c, TBool) => Some (CConv I32 (CIte a b c), I32)
      | Some (c, s) => match l with
                       | KC | KCpp => if is_int s then Some (CConv I32 (CIte a b c), I32) else None
                       | _ => None
                       end
      | None => None
      end
  | KPun ta tb e =>
      match elab_k l vt e with
      | Some (c, s) =>
          if Nat.eqb (bits ta) (bits tb) && (is_float ta || is_float tb)
          then match k_implicit l s ta c with
               | Some c' => Some (CConv tb c', tb)   (* same width: the bit pattern is kept *)
               | None => None
               end
          else None
      | None => None
      end
  end.

(** A whole conversion site: the expression is evaluated and then implicitly converted to the
    type the context demands (callee parameter type / function return type / declared local). *)
Definition elab_k_site (l : klang) (src dst : cty) (e : kexpr) : option (cty * cexpr * cty) :=
  match elab_k l src e with
  | Some (c, t) => match k_implicit l t dst c with
                   | Some c' => Some (src, c', dst)
                   | None => None
                   end
  | None => None
  end.

(* ------------------------------------------------------------------------------------------ *)
(** * MoonBit *)

Inductive mty := MInt | MUInt | MInt64 | MUInt64 | MByte | MBool | MChar | MFloat | MDouble.

Definition mty_c (t : mty) : cty :=
  match t with
  | MInt => I32 | MUInt => U32 | MInt64 => I64 | MUInt64 => U64 | MByte => U8 | MBool => TBool
  | MChar => TChar | MFloat => TF32 | MDouble => TF64
  end.

(** wasm instructions that may occur in an inline `extern "wasm"` helper body
    `(func (param i32) (result i32) local.get 0 <op>)`. *)
Inductive wasm_op := WExtend8S | WExtend16S.

Inductive mexpr :=
  | MVar
  | MMethod (name : string) (e : mexpr)    (* e.name()  or  Type::name(e) *)
  | MLand (e : mexpr) (c : Z)              (* e.land(c) *)
  | MSub (e : mexpr) (c : Z)               (* e - c *)
  | MNeZero (e : mexpr)                    (* e != 0 *)
  | MIf (e : mexpr) (a b : Z)              (* if e { a } else { b } *)
  | MWasm (op : wasm_op) (e : mexpr).      (* call of an inline-wasm helper whose body is `local.get 0 <op>` *)

Definition mty_eqb (a b : mty) : bool := cty_eqb (mty_c a) (mty_c b).

(** MoonBit core-library methods that occur (moonbitlang/core builtin):
    Byte::to_int zero-extends; Int::to_byte keeps the low 8 bits; Int::to_int64 sign-extends;
    Int64::to_int wraps; reinterpret_as_* keep the bit pattern; Char::to_int is the code point;
    Int::unsafe_to_char is the identity on scalar values and undefined elsewhere. *)
Definition m_method (name : string) (s : mty) : option (mty * (cexpr -> cexpr)) :=
  let is (n : string) := String.eqb name n in
  match s with
  | MByte => if is "to_int" then Some (MInt, CConv I32) else None
  | MChar => if is "to_int" then Some (MInt, CConv I32) else None
  | MInt64 =>
      if is "to_int" then Some (MInt, CConv I32)
      else if is "reinterpret_as_uint64" then Some (MUInt64, CConv U64)
      else if is "reinterpret_as_double" then Some (MDouble, CConv TF64)
      else None
  | MInt =>
      if is "to_byte" then Some (MByte, CConv U8)
      else if is "to_int64" then Some (MInt64, CConv I64)
      else if is "reinterpret_as_uint" then Some (MUInt, CConv U32)
      else if is "reinterpret_as_float" then Some (MFloat, CConv TF32)
      else if is "unsafe_to_char" then Some (MChar, fun c => CCharChk (CConv U32 c))
      else None
  | MUInt => if is "reinterpret_as_int" then Some (MInt, CConv I32) else None
  | MFloat => if is "reinterpret_as_int" then Some (MInt, CConv I32) else None
  | MUInt64 => if is "reinterpret_as_int64" then Some (MInt64, CConv I64) else None
  | MDouble => if is "reinterpret_as_int64" then Some (MInt64, CConv I64) else None
  | MBool => None
  end.

Fixpoint elab_mbt (vt : mty) (e : mexpr) : option (cexpr * mty) :=
  match e with
  | MVar => Some (CVar, vt)
  | MMethod name e =>
      match elab_mbt vt e with
      | Some (c, s) => match m_method name s with Some (t, f) => Some (f c, t) | None => None end
      | None => None
      end
  | MLand e k =>
      match elab_mbt vt e with
      | Some (c, MInt) => Some (CConv I32 (CAndC (wrap I32 k) c), MInt)
      | _ => None
      end
  | MSub e k =>
      match elab_mbt vt e with
      | Some (c, MInt) => Some (CSubC I32 k c, MInt)      (* Int arithmetic wraps *)
      | _ => None
      end
  | MNeZero e =>
      match elab_mbt vt e with
      | Some (c, MInt) => Some (CIte 1 0 c, MBool)
      | _ => None
      end
  | MIf e a b =>
      match elab_mbt vt e with
      | Some (c, MBool) => Some (CConv I32 (CIte a b c), MInt)
      | _ => None
      end
  | MWasm op e =>
      match elab_mbt vt e with
      | Some (c, MInt) =>
          match op with
          | WExtend8S => Some (CConv I32 (CConv I8 c), MInt)      (* i32.extend8_s *)
          | WExtend16S => Some (CConv I32 (CConv I16 c), MInt)    (* i32.extend16_s *)
          end
      | _ => None
      end
  end.

(* ------------------------------------------------------------------------------------------ *)
(** * A conversion site in any language *)

Inductive lexpr :=
  | LRust (debug : bool) (src dst : rty) (e : rexpr)
  | LK (l : klang) (src dst : cty) (e : kexpr)
  | LMbt (src dst : mty) (e : mexpr).

(** [elab l = Some (src, e, dst)]: machine type of the variable, core expression, machine type
    of the result.  Rust, Go and MoonBit have no implicit numeric conversions: the expression's
    own type must BE the type the context declares, otherwise the generated file would not
    compile and the site is rejected ([None]). *)
Definition elab (l : lexpr) : option (cty * cexpr * cty) :=
  match l with
  | LRust debug src dst e =>
      match elab_rust debug src e with
      | Some (c, t) => if rty_eqb t dst then Some (rty_c src, c, rty_c dst) else None
      | None => None
      end
  | LK l src dst e => elab_k_site l src dst e
  | LMbt src dst e =>
      match elab_mbt src e with
      | Some (c, t) => if mty_eqb t dst then Some (mty_c src, c, mty_c dst) else None
      | None => None
      end
  end.

Definition eval_l (l : lexpr) (x : Z) : option Z :=
  match elab l with Some (_, e, _) => eval e x | None => None end.

Definition src_of (l : lexpr) : option cty := match elab l with Some (s, _, _) => Some s | None => None end.
Definition dst_of (l : lexpr) : option cty := match elab l with Some (_, _, d) => Some d | None => None end.
