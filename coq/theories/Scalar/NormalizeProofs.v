(** Scalar/NormalizeProofs.v — soundness of the abstract evaluator and of the checkers, for ALL
    inputs (bit-vector reasoning through [Z.testbit] / [mod] lemmas; no enumeration). *)
From Coq Require Import ZArith List Bool String Lia.
From WB Require Import Scalar.Expr Scalar.ScalarSpec Scalar.Normalize.
Import ListNotations.
Open Scope Z_scope.

(* ------------------------------------------------------------------------------------------ *)
(** * Bits of wrapped numbers *)

Lemma testbit_high : forall n w i, 0 <= n -> - 2 ^ n <= w < 2 ^ n -> n <= i ->
  Z.testbit w i = (w <? 0).
Proof.
  intros n w i Hn Hw Hi.
  destruct (Z.ltb_spec w 0) as [Hneg | Hpos].
  - replace w with (- (- w)) by lia.
    rewrite Z.bits_opp by lia.
    assert (H0 : 0 <= Z.pred (- w) < 2 ^ n) by lia.
    rewrite <- (Z.mod_small (Z.pred (- w)) (2 ^ n)) by lia.
    rewrite Z.mod_pow2_bits_high by lia. reflexivity.
  - rewrite <- (Z.mod_small w (2 ^ n)) by lia.
    apply Z.mod_pow2_bits_high. lia.
Qed.

Lemma testbit_mod_pow2 : forall x k i, 0 <= i -> 0 <= k ->
  Z.testbit (x mod 2 ^ k) i = if i <? k then Z.testbit x i else false.
Proof.
  intros x k i Hi Hk. destruct (Z.ltb_spec i k).
  - apply Z.mod_pow2_bits_low. lia.
  - apply Z.mod_pow2_bits_high. lia.
Qed.

Definition swrap (k x : Z) : Z := (x + 2 ^ (k - 1)) mod 2 ^ k - 2 ^ (k - 1).

Lemma pow2_half : forall k, 0 < k -> 2 ^ k = 2 * 2 ^ (k - 1).
Proof. intros k Hk. replace k with (Z.succ (k - 1)) at 1 by lia. rewrite Z.pow_succ_r by lia. reflexivity. Qed.

Lemma swrap_range : forall k x, 0 < k -> - 2 ^ (k - 1) <= swrap k x < 2 ^ (k - 1).
Proof.
  intros k x Hk. unfold swrap.
  assert (Hp : 0 < 2 ^ k) by (apply Z.pow_pos_nonneg; lia).
  pose proof (Z.mod_pos_bound (x + 2 ^ (k - 1)) (2 ^ k) Hp).
  pose proof (pow2_half k Hk). lia.
Qed.

Lemma swrap_mod : forall k x, 0 < k -> swrap k x mod 2 ^ k = x mod 2 ^ k.
Proof.
  intros k x Hk. unfold swrap.
  rewrite Zminus_mod_idemp_l. f_equal. lia.
Qed.

Lemma swrap_testbit : forall k x i, 0 < k -> 0 <= i ->
  Z.testbit (swrap k x) i = Z.testbit x (if i <? k then i else k - 1).
Proof.
  intros k x i Hk Hi.
  assert (Hlow : forall j, 0 <= j < k -> Z.testbit (swrap k x) j = Z.testbit x j).
  { intros j Hj.
    rewrite <- (Z.mod_pow2_bits_low (swrap k x) k j) by lia.
    rewrite swrap_mod by lia. apply Z.mod_pow2_bits_low. lia. }
  destruct (Z.ltb_spec i k).
  - apply Hlow. lia.
  - pose proof (swrap_range k x Hk) as Hr.
    rewrite (testbit_high (k - 1) (swrap k x) i) by lia.
    rewrite <- (testbit_high (k - 1) (swrap k x) (k - 1)) by lia.
    apply Hlow. lia.
Qed.

Lemma wrapk_testbit : forall k sg x i, (0 < k)%nat ->
  Z.testbit (wrapk k sg x) (Z.of_nat i) =
  if sg then Z.testbit x (Z.of_nat (if (i <? k)%nat then i else (k - 1)%nat))
  else if (i <? k)%nat then Z.testbit x (Z.of_nat i) else false.
Proof.
  intros k sg x i Hk. unfold wrapk. destruct sg.
  - change ((x + 2 ^ (Z.of_nat k - 1)) mod 2 ^ Z.of_nat k - 2 ^ (Z.of_nat k - 1)) with (swrap (Z.of_nat k) x).
    rewrite swrap_testbit by lia.
    destruct (Nat.ltb_spec i k); destruct (Z.ltb_spec (Z.of_nat i) (Z.of_nat k)); try lia; f_equal; lia.
  - rewrite testbit_mod_pow2 by lia.
    destruct (Nat.ltb_spec i k); destruct (Z.ltb_spec (Z.of_nat i) (Z.of_nat k)); try lia; reflexivity.
Qed.

Lemma wrapk_id : forall k (sg : bool) x, (0 < k)%nat ->
  (if sg then - 2 ^ (Z.of_nat k - 1) else 0) <= x < (if sg then 2 ^ (Z.of_nat k - 1) else 2 ^ Z.of_nat k) ->
  wrapk k sg x = x.
Proof.
  intros k sg x Hk H. unfold wrapk. destruct sg.
  - pose proof (pow2_half (Z.of_nat k)). rewrite Z.mod_small by lia. lia.
  - apply Z.mod_small. lia.
Qed.

Lemma bits_pos : forall t, (0 < bits t)%nat.
Proof. destruct t; cbn; lia. Qed.

Lemma wrap_id : forall t x, in_range t x -> wrap t x = x.
Proof.
  intros t x H. unfold wrap. apply wrapk_id. apply bits_pos.
  unfold in_range, lo, hi in H. exact H.
Qed.

(* ------------------------------------------------------------------------------------------ *)
(** * Bit maps *)

Lemma bval_testbit : forall l h i, Z.testbit (bval l h) (Z.of_nat i) = nth i l h.
Proof.
  induction l as [| b r IH]; intros h i.
  - cbn [bval]. destruct i; destruct h; cbn [nth];
      try (apply Z.bits_m1; lia); apply Z.testbit_0_l.
  - cbn [bval]. destruct i as [| i].
    + cbn [nth]. rewrite Z.add_comm. apply Z.testbit_0_r.
    + cbn [nth]. rewrite Nat2Z.inj_succ, Z.add_comm.
      rewrite Z.testbit_succ_r by lia. apply IH.
Qed.

Lemma bm_testbit : forall m x i, Z.testbit (bm_denote m x) (Z.of_nat i) = src_eval x (bget m i).
Proof.
  intros m x i. unfold bm_denote, bget. rewrite bval_testbit. apply map_nth.
Qed.

Lemma bits_inj_nat : forall a b, (forall i, Z.testbit a (Z.of_nat i) = Z.testbit b (Z.of_nat i)) -> a = b.
Proof.
  intros a b H. apply Z.bits_inj'. intros n Hn.
  rewrite <- (Z2Nat.id n) by lia. apply H.
Qed.

Lemma nth_map_seq : forall (A : Type) (f : nat -> A) k i d,
  nth i (map f (seq 0 k)) d = if (i <? k)%nat then f i else d.
Proof.
  intros A f k i d. destruct (Nat.ltb_spec i k).
  - rewrite (nth_indep _ d (f 0%nat)) by (rewrite map_length, seq_length; lia).
    rewrite map_nth. rewrite seq_nth by lia. reflexivity.
  - apply nth_overflow. rewrite map_length, seq_length. lia.
Qed.

Lemma bget_convk : forall k sg m i,
  bget (convk_bm k sg m) i = if (i <? k)%nat then bget m i else if sg then bget m (k - 1) else BZ.
Proof. intros. unfold convk_bm, bget at 1. cbn [fst snd]. apply nth_map_seq. Qed.

Lemma convk_denote : forall k sg m x, (0 < k)%nat ->
  wrapk k sg (bm_denote m x) = bm_denote (convk_bm k sg m) x.
Proof.
  intros k sg m x Hk. apply bits_inj_nat. intro i.
  rewrite wrapk_testbit by assumption. rewrite (bm_testbit (convk_bm k sg m)), bget_convk.
  destruct sg; destruct (Nat.ltb_spec i k); rewrite ?bm_testbit; reflexivity.
Qed.

Lemma conv_denote : forall t m x, wrap t (bm_denote m x) = bm_denote (conv_bm t m) x.
Proof. intros. apply convk_denote. apply bits_pos. Qed.

Lemma bget_var : forall t i,
  bget (var_bm t) i = if (i <? bits t)%nat then BIn i else if signed t then BIn (bits t - 1) else BZ.
Proof. intros. unfold var_bm, bget. cbn [fst snd]. apply nth_map_seq. Qed.

Lemma var_denote : forall t x, in_range t x -> bm_denote (var_bm t) x = x.
Proof.
  intros t x H. apply bits_inj_nat. intro i.
  rewrite bm_testbit, bget_var.
  pose proof (bits_pos t) as Hk.
  unfold in_range, lo, hi in H.
  destruct (Nat.ltb_spec i (bits t)); [reflexivity |].
  destruct (signed t); cbn [src_eval].
  - rewrite (testbit_high (Z.of_nat (bits t) - 1) x (Z.of_nat i)) by lia.
    rewrite (testbit_high (Z.of_nat (bits t) - 1) x (Z.of_nat (bits t - 1))) by lia. reflexivity.
  - symmetry. rewrite <- (Z.mod_small x (2 ^ Z.of_nat (bits t))) by lia.
    apply Z.mod_pow2_bits_high. lia.
Qed.

Lemma bget_and : forall c m i,
  bget (and_bm c m) i =
  if (i <? Z.to_nat (Z.log2 c + 1))%nat then (if Z.testbit c (Z.of_nat i) then bget m i else BZ) else BZ.
Proof. intros. unfold and_bm, bget at 1. cbn [fst snd]. apply nth_map_seq. Qed.

Lemma and_denote : forall c m x, 0 <= c -> Z.land (bm_denote m x) c = bm_denote (and_bm c m) x.
Proof.
  intros c m x Hc. apply bits_inj_nat. intro i.
  rewrite Z.land_spec, !bm_testbit, bget_and.
  destruct (Nat.ltb_spec i (Z.to_nat (Z.log2 c + 1))).
  - destruct (Z.testbit c (Z.of_nat i)); [apply andb_true_r | apply andb_false_r].
  - pose proof (Z.log2_nonneg c).
    rewrite (Z.bits_above_log2 c (Z.of_nat i)) by lia. apply andb_false_r.
Qed.

Lemma bsrc_eqb_eq : forall a b, bsrc_eqb a b = true -> a = b.
Proof. destruct a, b; cbn; intros H; try discriminate; try reflexivity. apply Nat.eqb_eq in H. congruence. Qed.

Lemma bm_eqb_bget : forall a b, bm_eqb a b = true -> forall i, bget a i = bget b i.
Proof.
  intros a b H i. unfold bm_eqb in H. rewrite forallb_forall in H.
  set (n := Nat.max (bm_len a) (bm_len b)) in *.
  destruct (Nat.leb_spec i n) as [Hle | Hgt].
  - apply bsrc_eqb_eq, H. apply in_seq. lia.
  - assert (Hn : bget a n = bget b n) by (apply bsrc_eqb_eq, H, in_seq; lia).
    assert (La : (List.length (fst a) <= n)%nat) by (unfold n, bm_len; lia).
    assert (Lb : (List.length (fst b) <= n)%nat) by (unfold n, bm_len; lia).
    unfold bget in Hn |- *.
    rewrite (nth_overflow (fst a) (snd a)) by lia. rewrite (nth_overflow (fst b) (snd b)) by lia.
    rewrite (nth_overflow (fst a) (snd a)) in Hn by lia. rewrite (nth_overflow (fst b) (snd b)) in Hn by lia.
    exact Hn.
Qed.

Lemma bm_eqb_denote : forall a b, bm_eqb a b = true -> forall x, bm_denote a x = bm_denote b x.
Proof.
  intros a b H x. apply bits_inj_nat. intro i. rewrite !bm_testbit.
  rewrite (bm_eqb_bget a b H i). reflexivity.
Qed.

(** Zero test of a bit map = all the input bits it looks at are zero. *)
Lemma bget_in_srcs : forall m i j, bget m i = BIn j -> In j (bm_srcs m).
Proof.
  intros m i j H. unfold bm_srcs. apply in_flat_map. exists (BIn j). split; [| left; reflexivity].
  unfold bget in H. destruct (Nat.ltb_spec i (List.length (fst m))).
  - apply in_or_app. left. rewrite <- H. apply nth_In. assumption.
  - rewrite nth_overflow in H by lia. apply in_or_app. right. left. assumption.
Qed.

Lemma srcs_in_bget : forall m j, In j (bm_srcs m) -> exists i, bget m i = BIn j.
Proof.
  intros m j H. unfold bm_srcs in H. apply in_flat_map in H. destruct H as [b [Hb Hj]].
  destruct b; cbn in Hj; [contradiction |]. destruct Hj as [-> | []].
  apply in_app_or in Hb. destruct Hb as [Hb | [Hb | []]].
  - destruct (In_nth _ _ (snd m) Hb) as [i [Hi Hn]]. exists i. exact Hn.
  - exists (List.length (fst m)). unfold bget. rewrite nth_overflow by lia. exact Hb.
Qed.

Lemma bm_zero_iff : forall m x,
  bm_denote m x = 0 <-> (forall j, In j (bm_srcs m) -> Z.testbit x (Z.of_nat j) = false).
Proof.
  intros m x. split.
  - intros H j Hj. destruct (srcs_in_bget m j Hj) as [i Hi].
    pose proof (bm_testbit m x i) as Hb. rewrite H, Z.bits_0, Hi in Hb. symmetry. exact Hb.
  - intros H. apply bits_inj_nat. intro i. rewrite Z.bits_0, bm_testbit.
    destruct (bget m i) eqn:Hg; cbn [src_eval]; [reflexivity |].
    apply H. eapply bget_in_srcs. eassumption.
Qed.

Lemma incl_b_incl : forall a b, incl_b a b = true -> forall j, In j a -> In j b.
Proof.
  intros a b H j Hj. unfold incl_b in H. rewrite forallb_forall in H.
  specialize (H j Hj). apply existsb_exists in H. destruct H as [k [Hk He]].
  apply Nat.eqb_eq in He. congruence.
Qed.

Lemma nez_eq : forall m1 m2 x,
  incl_b (bm_srcs m1) (bm_srcs m2) = true -> incl_b (bm_srcs m2) (bm_srcs m1) = true ->
  (bm_denote m1 x =? 0) = (bm_denote m2 x =? 0).
Proof.
  intros m1 m2 x H12 H21.
  destruct (Z.eqb_spec (bm_denote m1 x) 0) as [E1 | N1]; destruct (Z.eqb_spec (bm_denote m2 x) 0) as [E2 | N2];
    try reflexivity; exfalso.
  - apply N2. apply bm_zero_iff. intros j Hj. rewrite bm_zero_iff in E1. apply E1. eapply incl_b_incl; eassumption.
  - apply N1. apply bm_zero_iff. intros j Hj. rewrite bm_zero_iff in E2. apply E2. eapply incl_b_incl; eassumption.
Qed.

Lemma single_bit_denote : forall m j x, single_bit m = Some j ->
  (if bm_denote m x =? 0 then 0 else 1) = bm_denote ([BIn j], BZ) x.
Proof.
  intros m j x H. unfold single_bit in H.
  destruct (bm_srcs m) as [| j' [| ? ?]] eqn:Hs; try discriminate. injection H as ->.
  change (bm_denote ([BIn j], BZ) x) with (Z.b2z (Z.testbit x (Z.of_nat j)) + 2 * 0).
  destruct (Z.eqb_spec (bm_denote m x) 0) as [E | N].
  - rewrite bm_zero_iff in E. rewrite (E j) by (rewrite Hs; left; reflexivity). reflexivity.
  - destruct (Z.testbit x (Z.of_nat j)) eqn:Hb; [reflexivity | exfalso].
    apply N. apply bm_zero_iff. intros j' Hj'. rewrite Hs in Hj'. destruct Hj' as [<- | []]. exact Hb.
Qed.

Lemma body_eqb_sound : forall a b, body_eqb a b = true -> forall x, denote_body a x = denote_body b x.
Proof.
  intros a b H x. destruct a as [m1 | m1], b as [m2 | m2]; cbn [body_eqb denote_body] in *.
  - apply bm_eqb_denote. exact H.
  - destruct (single_bit m2) as [j |] eqn:Hs; [| discriminate].
    rewrite (single_bit_denote m2 j x Hs). apply bm_eqb_denote. exact H.
  - destruct (single_bit m1) as [j |] eqn:Hs; [| discriminate].
    rewrite (single_bit_denote m1 j x Hs). symmetry. apply bm_eqb_denote. exact H.
  - apply andb_true_iff in H. destruct H as [H1 H2]. rewrite (nez_eq m1 m2 x H1 H2). reflexivity.
Qed.

(* ------------------------------------------------------------------------------------------ *)
(** * The abstract evaluator is sound on every input of the assumed type *)

Theorem norm_sound : forall dt e s, norm dt e = Some s ->
  forall x, in_range dt x -> eval e x = denote s x.
Proof.
  intros dt e. induction e as [| t e IH | a b e IH | t c e IH | c e IH | e IH | e IH];
    intros s Hn x Hx; cbn [norm] in Hn.
  - injection Hn as <-. unfold denote. cbn [sg sb guard_ok denote_body eval]. rewrite var_denote by assumption. reflexivity.
  - destruct (norm dt e) as [[g [m | m]] |] eqn:He; try discriminate.
    + injection Hn as <-. cbn [eval]. rewrite (IH _ eq_refl x Hx). unfold denote. cbn [sg sb denote_body obind].
      destruct (guard_ok g x); cbn [obind]; [| reflexivity]. rewrite conv_denote. reflexivity.
    + destruct ((wrap t 0 =? 0) && (wrap t 1 =? 1)) eqn:Hw; [| discriminate].
      injection Hn as <-. cbn [eval]. rewrite (IH _ eq_refl x Hx). unfold denote. cbn [sg sb denote_body obind].
      destruct (guard_ok g x); cbn [obind]; [| reflexivity].
      apply andb_true_iff in Hw. destruct Hw as [H0 H1]. apply Z.eqb_eq in H0, H1.
      destruct (bm_denote m x =? 0); congruence.
  - destruct ((a =? 1) && (b =? 0)) eqn:Hab; [| discriminate].
    apply andb_true_iff in Hab. destruct Hab as [Ha Hb]. apply Z.eqb_eq in Ha, Hb. subst a b.
    destruct (norm dt e) as [[g [m | m]] |] eqn:He; try discriminate; injection Hn as <-;
      cbn [eval]; rewrite (IH _ eq_refl x Hx); unfold denote; cbn [sg sb denote_body obind];
      destruct (guard_ok g x); cbn [obind]; try reflexivity.
    destruct (bm_denote m x =? 0); reflexivity.
  - destruct (c =? 0) eqn:Hc; [| discriminate]. apply Z.eqb_eq in Hc. subst c.
    destruct (norm dt e) as [[g [m | m]] |] eqn:He; try discriminate.
    injection Hn as <-. cbn [eval]. rewrite (IH _ eq_refl x Hx). unfold denote. cbn [sg sb denote_body obind].
    destruct (guard_ok g x); cbn [obind]; [| reflexivity]. rewrite Z.sub_0_r, conv_denote. reflexivity.
  - destruct (0 <=? c) eqn:Hc; [| discriminate]. apply Z.leb_le in Hc.
    destruct (norm dt e) as [[g [m | m]] |] eqn:He; try discriminate.
    injection Hn as <-. cbn [eval]. rewrite (IH _ eq_refl x Hx). unfold denote. cbn [sg sb denote_body obind].
    destruct (guard_ok g x); cbn [obind]; [| reflexivity]. rewrite and_denote by assumption. reflexivity.
  - destruct (norm dt e) as [[[| gm | gm] [m | m]] |] eqn:He; try discriminate; injection Hn as <-;
      cbn [eval]; rewrite (IH _ eq_refl x Hx); unfold denote; cbn [sg sb denote_body obind guard_ok].
    + reflexivity.
    + destruct (bm_denote m x =? 0); reflexivity.
  - destruct (norm dt e) as [[[| gm | gm] [m | m]] |] eqn:He; try discriminate; injection Hn as <-.
    cbn [eval]. rewrite (IH _ eq_refl x Hx). unfold denote. cbn [sg sb denote_body obind guard_ok]. reflexivity.
Qed.

(* ------------------------------------------------------------------------------------------ *)
(** * The specification shapes denote the canonical ABI functions *)

Ltac Zify.zify_post_hook ::= Z.div_mod_to_equations.

Lemma core_u_bits : forall t, bits (core_u t) = core_bits t.
Proof. destruct t; reflexivity. Qed.

Lemma wrap_core_u : forall t r, wrap (core_u t) r = r mod 2 ^ Z.of_nat (core_bits t).
Proof. destruct t; reflexivity. Qed.

Ltac range_consts H :=
  unfold in_range in H;
  match type of H with
  | ?a <= _ < ?b => let a' := eval vm_compute in a in let b' := eval vm_compute in b in
                    change a with a' in H; change b with b' in H
  end.

Lemma spec_lower_mod : forall t v, in_range (mty_of t) v ->
  spec_lower t v = v mod 2 ^ Z.of_nat (core_bits t).
Proof.
  intros t v H.
  destruct t; range_consts H; cbn [spec_lower core_bits];
    change (Z.of_nat 32) with 32; change (Z.of_nat 64) with 64;
    change (2 ^ 32) with 4294967296; change (2 ^ 64) with 18446744073709551616;
    try (destruct (Z.ltb_spec v 0)); lia.
Qed.

Lemma spec_lower_shape_correct : forall t v, in_range (mty_of t) v ->
  denote_body (sb (spec_lower_shape t)) v = spec_lower t v.
Proof.
  intros t v H. cbn [spec_lower_shape sb denote_body].
  rewrite <- conv_denote, var_denote by assumption.
  rewrite wrap_core_u. symmetry. apply spec_lower_mod. assumption.
Qed.

Lemma lift_unsigned_wrap : forall k i, lift_unsigned (Z.of_nat k) i = wrapk k false i.
Proof. reflexivity. Qed.

Lemma lift_signed_wrap : forall k i, (0 < k)%nat -> lift_signed (Z.of_nat k) i = wrapk k true i.
Proof.
  intros k i Hk. unfold lift_signed, wrapk.
  pose proof (pow2_half (Z.of_nat k) ltac:(lia)) as Hh.
  assert (Hp : 0 < 2 ^ (Z.of_nat k - 1)) by (apply Z.pow_pos_nonneg; lia).
  set (h := 2 ^ (Z.of_nat k - 1)) in *. rewrite Hh.
  rewrite <- (Zplus_mod_idemp_l i h (2 * h)).
  pose proof (Z.mod_pos_bound i (2 * h) ltac:(lia)) as Hr.
  set (r := i mod (2 * h)) in *.
  destruct (Z.leb_spec h r).
  - replace (r + h) with ((r - h) + 1 * (2 * h)) by lia.
    rewrite Z_mod_plus_full. rewrite Z.mod_small by lia. lia.
  - rewrite Z.mod_small by lia. lia.
Qed.

Lemma is_scalar_spec : forall i, 0 <= i ->
  is_scalar i = negb ((1114112 <=? i) || ((55296 <=? i) && (i <=? 57343))).
Proof.
  intros i Hi. unfold is_scalar.
  destruct (Z.leb_spec 0 i); [| lia].
  destruct (Z.ltb_spec i 1114112); destruct (Z.leb_spec 1114112 i); try lia; cbn;
    destruct ((55296 <=? i) && (i <=? 57343)); reflexivity.
Qed.

Lemma spec_lift_shape_correct : forall t src x, in_range src x ->
  denote (spec_lift_shape t src) x = spec_lift t (x mod 2 ^ Z.of_nat (core_bits t)).
Proof.
  intros t src x Hx.
  assert (Hcore : bm_denote (conv_bm (core_u t) (var_bm src)) x = x mod 2 ^ Z.of_nat (core_bits t)).
  { rewrite <- conv_denote, var_denote by assumption. apply wrap_core_u. }
  set (i := x mod 2 ^ Z.of_nat (core_bits t)) in *.
  assert (Hi : 0 <= i) by (apply Z.mod_pos_bound, Z.pow_pos_nonneg; lia).
  unfold denote.
  destruct t; cbn [spec_lift_shape sg sb guard_ok denote_body spec_lift mty_of];
    [ rewrite Hcore; reflexivity | .. | rewrite Hcore ];
    try (rewrite <- (conv_denote _ (conv_bm _ (var_bm src))), Hcore; unfold wrap; cbn [bits signed]).
  - rewrite <- lift_unsigned_wrap. reflexivity.
  - rewrite <- lift_signed_wrap by lia. reflexivity.
  - rewrite <- lift_unsigned_wrap. reflexivity.
  - rewrite <- lift_signed_wrap by lia. reflexivity.
  - rewrite <- lift_unsigned_wrap. reflexivity.
  - rewrite <- lift_signed_wrap by lia. reflexivity.
  - rewrite <- lift_unsigned_wrap. reflexivity.
  - rewrite <- lift_signed_wrap by lia. reflexivity.
  - (* f32 *) f_equal. unfold wrapk. change (core_bits SF32) with 32%nat in i. subst i. apply Z.mod_mod. lia.
  - (* f64 *) f_equal. unfold wrapk. change (core_bits SF64) with 64%nat in i. subst i. apply Z.mod_mod. lia.
  - (* char *) rewrite is_scalar_spec by assumption.
    destruct ((1114112 <=? i) || ((55296 <=? i) && (i <=? 57343))); reflexivity.
Qed.

(* ------------------------------------------------------------------------------------------ *)
(** * Soundness of the per-conversion checker *)

Lemma guard_le_sound : forall g gs x, guard_le g gs = true -> guard_ok gs x = true -> guard_ok g x = true.
Proof.
  intros g gs x H Hs. destruct g as [| m | m]; [reflexivity | |]; destruct gs as [| m' | m']; try discriminate;
    cbn [guard_le guard_ok] in *; rewrite (bm_eqb_denote m m' H x); exact Hs.
Qed.

Lemma post_body_denote : forall t b x,
  denote_body (post_body (core_u t) b) x = denote_body b x mod 2 ^ Z.of_nat (core_bits t).
Proof.
  intros t b x. destruct b as [m | m]; cbn [post_body denote_body].
  - rewrite <- conv_denote. apply wrap_core_u.
  - assert (1 < 2 ^ Z.of_nat (core_bits t)) by (destruct t; cbn; lia).
    destruct (bm_denote m x =? 0); symmetry; apply Z.mod_small; lia.
Qed.

Lemma sub_range_sound : forall a b x, sub_range a b = true -> in_range a x -> in_range b x.
Proof.
  intros a b x H Hx. unfold sub_range in H. apply andb_true_iff in H. destruct H as [H1 H2].
  apply Z.leb_le in H1, H2. unfold in_range in *. lia.
Qed.

Lemma lift_dom_sound : forall t src x v, bits src = core_bits t -> in_range src x ->
  spec_lift t (x mod 2 ^ Z.of_nat (core_bits t)) = Some v -> in_range (lift_dom t src) x.
Proof.
  intros t src x v Hb Hx Hv. destruct t; try exact Hx.
  cbn [lift_dom]. cbn [spec_lift core_bits] in Hv, Hb.
  change (Z.of_nat 32) with 32 in Hv. change (2 ^ 32) with 4294967296 in Hv.
  destruct (1114112 <=? x mod 4294967296) eqn:H1; [discriminate |]. apply Z.leb_gt in H1.
  unfold in_range, lo, hi in Hx. rewrite Hb in Hx.
  change (Z.of_nat 32 - 1) with 31 in Hx. change (Z.of_nat 32) with 32 in Hx.
  change (2 ^ 31) with 2147483648 in Hx. change (2 ^ 32) with 4294967296 in Hx.
  unfold in_range, lo, hi. cbn [signed bits]. change (2 ^ Z.of_nat 21) with 2097152.
  destruct (signed src); lia.
Qed.

Theorem check_conv_sound : forall c, check_conv c = true -> conv_ok c.
Proof.
  intros c H. unfold check_conv in H. unfold conv_ok.
  destruct (elab (c_lex c)) as [[[src e] dst] |]; [| discriminate].
  destruct (c_dir c).
  - (* Lower *)
    apply andb_true_iff in H. destruct H as [H Hn]. apply andb_true_iff in H. destruct H as [Hb Hsub].
    apply Nat.eqb_eq in Hb. split; [exact Hb |].
    destruct (norm (mty_of (c_ty c)) e) as [[[| gm | gm] b] |] eqn:He; try discriminate.
    intros v [Hv _]. split; [eapply sub_range_sound; eassumption |].
    exists (denote_body b v). split.
    + rewrite (norm_sound _ _ _ He v Hv). reflexivity.
    + rewrite <- post_body_denote. rewrite (body_eqb_sound _ _ Hn v).
      apply spec_lower_shape_correct. exact Hv.
  - (* Lift *)
    apply andb_true_iff in H. destruct H as [Hb Hn]. apply Nat.eqb_eq in Hb. split; [exact Hb |].
    cbv zeta in Hn.
    destruct (norm (lift_dom (c_ty c) src) e) as [[g b] |] eqn:He; [| discriminate].
    apply andb_true_iff in Hn. destruct Hn as [Hg Hbody].
    intros x Hx v Hv.
    pose proof (lift_dom_sound _ _ _ _ Hb Hx Hv) as Hd.
    rewrite <- (spec_lift_shape_correct (c_ty c) _ x Hd) in Hv.
    unfold denote in Hv.
    destruct (guard_ok (sg (spec_lift_shape (c_ty c) (lift_dom (c_ty c) src))) x) eqn:Hgs; [| discriminate].
    injection Hv as <-.
    rewrite (norm_sound _ _ _ He x Hd). unfold denote. cbn [sg sb].
    rewrite (guard_le_sound _ _ x Hg Hgs). rewrite (body_eqb_sound _ _ Hbody x). reflexivity.
Qed.

(* ------------------------------------------------------------------------------------------ *)
(** * Exhaustive checks over finite domains *)

Lemma pow2range_in : forall k from x, from <= x < from + 2 ^ Z.of_nat k -> In x (pow2range k from).
Proof.
  induction k as [| k IH]; intros from x H.
  - cbn in *. left. lia.
  - cbn [pow2range]. rewrite Nat2Z.inj_succ, Z.pow_succ_r in H by lia.
    apply in_or_app. destruct (Z.lt_ge_cases x (from + 2 ^ Z.of_nat k)).
    + left. apply IH. lia.
    + right. apply IH. lia.
Qed.

Lemma agrees_at_lower : forall c v src e dst,
  elab (c_lex c) = Some (src, e, dst) -> c_dir c = Lower -> agrees_at c v = true -> wit_value (c_ty c) v ->
  in_range src v /\ exists r, eval e v = Some r /\ r mod 2 ^ Z.of_nat (core_bits (c_ty c)) = spec_lower (c_ty c) v.
Proof.
  intros c v src e dst He Hd H [Hv Hs]. unfold agrees_at in H. rewrite He, Hd in H. unfold lower_agrees in H.
  assert (Hw : wit_valueb (c_ty c) v = true).
  { unfold wit_valueb. apply andb_true_iff. split.
    - unfold in_range in Hv. unfold in_rangeb. apply andb_true_iff. split; [apply Z.leb_le | apply Z.ltb_lt]; lia.
    - destruct (c_ty c); try reflexivity. apply Hs. reflexivity. }
  rewrite Hw in H. cbn [negb orb] in H. apply andb_true_iff in H. destruct H as [Hr H].
  split.
  - unfold in_rangeb in Hr. apply andb_true_iff in Hr. destruct Hr as [H1 H2].
    apply Z.leb_le in H1. apply Z.ltb_lt in H2. unfold in_range. lia.
  - destruct (eval e v) as [r |]; [| discriminate]. exists r. split; [reflexivity |]. apply Z.eqb_eq. exact H.
Qed.

Theorem exhaustive_lower_sound : forall c src e dst,
  exhaustive_lower c = true -> elab (c_lex c) = Some (src, e, dst) ->
  forall v, wit_value (c_ty c) v ->
    in_range src v /\ exists r, eval e v = Some r /\ r mod 2 ^ Z.of_nat (core_bits (c_ty c)) = spec_lower (c_ty c) v.
Proof.
  intros c src e dst H He v Hv. unfold exhaustive_lower in H.
  destruct (c_dir c) eqn:Hd; [| discriminate].
  destruct (narrow_domain (c_ty c)) as [[k from] |] eqn:Hn; [| discriminate].
  rewrite He in H. cbv zeta in H.
  rewrite forallb_forall in H.
  eapply agrees_at_lower; try eassumption. unfold agrees_at. rewrite He, Hd. apply H. apply pow2range_in.
  destruct Hv as [Hv _]. unfold in_range, lo, hi in Hv.
  destruct (c_ty c); cbn in Hn; try discriminate; injection Hn as <- <-; cbn in Hv |- *; lia.
Qed.

(** A concrete disagreement refutes [conv_ok]. *)
Theorem disagreement_refutes : forall c x, agrees_at c x = false -> ~ conv_ok c.
Proof.
  intros c x H Hok. unfold agrees_at in H. unfold conv_ok in Hok.
  destruct (elab (c_lex c)) as [[[src e] dst] |]; [| exact Hok].
  unfold lower_agrees, lift_agrees in H.
  destruct (c_dir c).
  - destruct Hok as [_ Hok].
    apply orb_false_iff in H. destruct H as [Hw H]. apply negb_false_iff in Hw.
    assert (Hv : wit_value (c_ty c) x).
    { unfold wit_valueb in Hw. apply andb_true_iff in Hw. destruct Hw as [Hr Hs]. split.
      - unfold in_rangeb in Hr. apply andb_true_iff in Hr. destruct Hr as [H1 H2].
        apply Z.leb_le in H1. apply Z.ltb_lt in H2. unfold in_range. lia.
      - intros Ht. rewrite Ht in Hs. exact Hs. }
    destruct (Hok x Hv) as [Hr [r [Hev Hm]]].
    assert (Hrb : in_rangeb src x = true).
    { unfold in_range in Hr. unfold in_rangeb. apply andb_true_iff. split; [apply Z.leb_le | apply Z.ltb_lt]; lia. }
    rewrite Hrb, Hev in H. cbn in H. apply Z.eqb_neq in H. contradiction.
  - destruct Hok as [_ Hok].
    apply orb_false_iff in H. destruct H as [Hr H]. apply negb_false_iff in Hr.
    assert (Hx : in_range src x).
    { unfold in_rangeb in Hr. apply andb_true_iff in Hr. destruct Hr as [H1 H2].
      apply Z.leb_le in H1. apply Z.ltb_lt in H2. unfold in_range. lia. }
    destruct (spec_lift (c_ty c) (x mod 2 ^ Z.of_nat (core_bits (c_ty c)))) as [v |] eqn:Hs; [| discriminate].
    rewrite (Hok x Hx v Hs) in H. rewrite Z.eqb_refl in H. discriminate.
Qed.

(* ------------------------------------------------------------------------------------------ *)
(** * Casts *)

Lemma ubits_wrap : forall k r, (k = 32 \/ k = 64)%nat -> wrap (ubits k) r = r mod 2 ^ Z.of_nat k.
Proof. intros k r [-> | ->]; reflexivity. Qed.

Lemma bitcast_bm_denote : forall b m x, bm_denote (bitcast_bm b m) x = BitcastSpec.sem b (bm_denote m x).
Proof.
  induction b; intros m x; cbn [bitcast_bm BitcastSpec.sem]; try reflexivity;
    try (rewrite <- conv_denote; reflexivity).
  rewrite IHb2, IHb1. reflexivity.
Qed.

Theorem check_cast_sound : forall k, check_cast k = true -> cast_ok k.
Proof.
  intros k H. unfold check_cast in H. unfold cast_ok.
  destruct (elab (k_lex k)) as [[[src e] dst] |]; [| discriminate].
  repeat (apply andb_true_iff in H; destruct H as [H ?]).
  rename H0 into Hn, H1 into Hd, H2 into Hs, H3 into Hto. apply Nat.eqb_eq in H, Hto.
  assert (Hs' : (bits src = 32 \/ bits src = 64)%nat)
    by (apply orb_true_iff in Hs; destruct Hs as [Hs | Hs]; apply Nat.eqb_eq in Hs; auto).
  assert (Hd' : (bits dst = 32 \/ bits dst = 64)%nat)
    by (apply orb_true_iff in Hd; destruct Hd as [Hd | Hd]; apply Nat.eqb_eq in Hd; auto).
  split; [exact H |]. split; [exact Hto |].
  destruct (norm src e) as [[[| gm | gm] [m | m]] |] eqn:He; try discriminate.
  intros x Hx. exists (bm_denote m x). split.
  - rewrite (norm_sound _ _ _ He x Hx). reflexivity.
  - rewrite <- Hto, <- H. rewrite <- !ubits_wrap by assumption.
    rewrite !conv_denote. rewrite (bm_eqb_denote _ _ Hn x).
    rewrite <- !conv_denote. rewrite bitcast_bm_denote. rewrite <- conv_denote.
    rewrite var_denote by assumption. reflexivity.
Qed.

Theorem cast_disagreement_refutes : forall k x, cast_agrees_at k x = false -> ~ cast_ok k.
Proof.
  intros k x H Hok. unfold cast_agrees_at in H. unfold cast_ok in Hok.
  destruct (elab (k_lex k)) as [[[src e] dst] |]; [| exact Hok].
  destruct Hok as [_ [_ Hok]].
  apply orb_false_iff in H. destruct H as [Hr H]. apply negb_false_iff in Hr.
  assert (Hx : in_range src x).
  { unfold in_rangeb in Hr. apply andb_true_iff in Hr. destruct Hr as [H1 H2].
    apply Z.leb_le in H1. apply Z.ltb_lt in H2. unfold in_range. lia. }
  destruct (Hok x Hx) as [r [Hev Hm]]. rewrite Hev in H. apply Z.eqb_neq in H. contradiction.
Qed.
