(** C05, part 1: arithmetic / little-endian / flags / signed-integer lemmas for the round-trip proofs of
    the canonical-ABI oracle [Canon/Spec.v].  Proofs only; no new definitions of the model. *)
From Coq Require Import List ZArith NArith Bool Lia.
From WB Require Import Wit.Ty Canon.Spec.
Import ListNotations.
Local Open Scope N_scope.
Local Ltac Zify.zify_post_hook ::= Z.to_euclidean_division_equations.

Lemma align_to_ge x a : 0 < a -> x <= align_to x a.
Proof. unfold align_to. intros. nia. Qed.

Lemma align_to_mod x a : 0 < a -> align_to x a mod a = 0.
Proof. unfold align_to. intros. apply N.mod_mul. lia. Qed.

Lemma align_to_0 a : 0 < a -> align_to 0 a = 0.
Proof. unfold align_to. intros. rewrite N.div_small by lia. reflexivity. Qed.

Lemma pow256_S n : pow256 (S n) = 256 * pow256 n.
Proof. unfold pow256. rewrite Nat2N.inj_succ, N.pow_succ_r'. reflexivity. Qed.

Lemma pow256_pos n : 0 < pow256 n.
Proof. unfold pow256. apply N.neq_0_lt_0, N.pow_nonzero. discriminate. Qed.

Lemma pow256_2 n : pow256 n = 2 ^ (8 * N.of_nat n).
Proof. unfold pow256. rewrite N.pow_mul_r. reflexivity. Qed.

Lemma store_le_other m a n x b : ~ (a <= b < a + N.of_nat n) -> store_le m a n x b = m b.
Proof.
  intros H. unfold store_le.
  destruct (a <=? b) eqn:E1; [|reflexivity].
  destruct (b <? a + N.of_nat n) eqn:E2; [|reflexivity].
  apply N.leb_le in E1. apply N.ltb_lt in E2. lia.
Qed.

Lemma store_le_in m a n x j : j < N.of_nat n ->
  store_le m a n x (a + j) = (x / 256 ^ j) mod 256.
Proof.
  intros H. unfold store_le.
  replace (a <=? a + j) with true by (symmetry; apply N.leb_le; lia).
  replace (a + j <? a + N.of_nat n) with true by (symmetry; apply N.ltb_lt; lia).
  cbn [andb]. unfold pow256. replace (a + j - a) with j by lia. rewrite N2Nat.id. reflexivity.
Qed.

Lemma load_le_ext m m' a n : (forall b, a <= b < a + N.of_nat n -> m b = m' b) ->
  load_le m a n = load_le m' a n.
Proof.
  revert a. induction n as [|n IH]; intros a H; [reflexivity|].
  cbn [load_le]. rewrite (H a) by lia. rewrite (IH (a + 1)); [reflexivity|].
  intros b Hb. apply H. lia.
Qed.

Lemma load_le_store_gen m a N0 x n j : j + N.of_nat n <= N.of_nat N0 ->
  load_le (store_le m a N0 x) (a + j) n = (x / 256 ^ j) mod pow256 n.
Proof.
  revert j. induction n as [|n IH]; intros j H.
  - cbn [load_le]. unfold pow256. cbn. rewrite N.mod_1_r. reflexivity.
  - cbn [load_le]. rewrite store_le_in by lia.
    replace (a + j + 1) with (a + (j + 1)) by lia. rewrite IH by lia.
    rewrite pow256_S. rewrite N.mod_mod by discriminate.
    rewrite N.pow_add_r, N.pow_1_r. rewrite <- N.div_div by (try discriminate; apply N.pow_nonzero; discriminate).
    rewrite (N.mod_mul_r _ 256 (pow256 n)); [reflexivity|discriminate|].
    pose proof (pow256_pos n). lia.
Qed.

Lemma load_le_store_le m a n x : load_le (store_le m a n x) a n = x mod pow256 n.
Proof.
  replace a with (a + 0) at 2 by lia. rewrite load_le_store_gen by lia.
  rewrite N.pow_0_r, N.div_1_r. reflexivity.
Qed.

Lemma load_le_store_le_small m a n x : x < pow256 n -> load_le (store_le m a n x) a n = x.
Proof. intros. rewrite load_le_store_le. apply N.mod_small. assumption. Qed.
(** ** store_bytes_at *)
Lemma store_bytes_at_other bs : forall m a b, ~ (a <= b < a + N.of_nat (length bs)) ->
  store_bytes_at m a bs b = m b.
Proof.
  induction bs as [|x bs IH]; intros m a b H; [reflexivity|].
  cbn [store_bytes_at]. cbn [length] in H. rewrite IH by lia.
  apply store_le_other. lia.
Qed.

Lemma store_bytes_at_nth bs : forall m a k, (k < length bs)%nat ->
  store_bytes_at m a bs (a + N.of_nat k) = nth k bs 0 mod 256.
Proof.
  induction bs as [|x bs IH]; intros m a k H; [cbn in H; lia|].
  cbn [store_bytes_at]. destruct k as [|k].
  - rewrite store_bytes_at_other by lia. replace (a + N.of_nat 0) with (a + 0) by lia.
    rewrite store_le_in by lia. rewrite N.pow_0_r, N.div_1_r. reflexivity.
  - cbn [length] in H. replace (a + N.of_nat (S k)) with (a + 1 + N.of_nat k) by lia.
    rewrite IH by lia. reflexivity.
Qed.

Lemma bytes_readback (m : N -> N) p bs :
  forallb (fun b => b <? 256) bs = true ->
  (forall k, (k < length bs)%nat -> m (p + N.of_nat k) = nth k bs 0 mod 256) ->
  map (fun k => m (p + N.of_nat k) mod 256) (seq 0 (length bs)) = bs.
Proof.
  intros Hb H. rewrite forallb_forall in Hb.
  apply (nth_ext _ _ (m (p + N.of_nat 0) mod 256) 0).
  - rewrite map_length, seq_length. reflexivity.
  - intros n Hn. rewrite map_length, seq_length in Hn.
    rewrite (map_nth (fun k => m (p + N.of_nat k) mod 256)). rewrite seq_nth by assumption.
    cbn [plus]. rewrite H by assumption. rewrite N.mod_mod by discriminate.
    apply N.mod_small. apply N.ltb_lt. apply Hb. apply nth_In. assumption.
Qed.

(** ** flags *)
Lemma flags_bits_lt bs : flags_bits bs < 2 ^ N.of_nat (length bs).
Proof.
  induction bs as [|b bs IH]; [cbn; lia|].
  cbn [flags_bits fold_right length]. fold (flags_bits bs).
  rewrite Nat2N.inj_succ, N.pow_succ_r'. destruct b; lia.
Qed.

Lemma bits_flags_bits bs : bits_flags (length bs) (flags_bits bs) = bs.
Proof.
  induction bs as [|b bs IH]; [reflexivity|].
  cbn [flags_bits fold_right length bits_flags]. fold (flags_bits bs). f_equal.
  - rewrite N.odd_add_mul_2. destruct b; reflexivity.
  - assert (E : ((if b then 1 else 0) + 2 * flags_bits bs) / 2 = flags_bits bs) by (destruct b; lia).
    rewrite E. exact IH.
Qed.

Lemma flags_size_bits n : n <= 8 * flags_size n.
Proof.
  unfold flags_size. destruct (N.eqb_spec n 0); [lia|].
  destruct (N.leb_spec n 8); [lia|]. destruct (N.leb_spec n 16); lia.
Qed.

Lemma flags_words_bits n : n <= 32 * flags_words n.
Proof.
  unfold flags_words. destruct (N.eqb_spec n 0); [lia|].
  destruct (N.leb_spec n 16); lia.
Qed.

Lemma flags_bits_fits_mem bs : flags_bits bs < pow256 (N.to_nat (flags_size (N.of_nat (length bs)))).
Proof.
  rewrite pow256_2, N2Nat.id. eapply N.lt_le_trans; [apply flags_bits_lt|].
  apply N.pow_le_mono_r; [discriminate|apply flags_size_bits].
Qed.

Lemma words_sum X w : forall j,
  fold_right (fun (c : cval) acc => snd c mod 2 ^ 32 + 2 ^ 32 * acc) 0
    (map (fun k => (CI32, (X / 2 ^ (32 * N.of_nat k)) mod 2 ^ 32)) (seq j w))
  = (X / 2 ^ (32 * N.of_nat j)) mod 2 ^ (32 * N.of_nat w).
Proof.
  induction w as [|w IH]; intros j.
  - cbn [seq map fold_right]. rewrite N.mul_0_r, N.pow_0_r, N.mod_1_r. reflexivity.
  - cbn [seq map fold_right snd]. rewrite IH.
    rewrite N.mod_mod by (apply N.pow_nonzero; discriminate).
    replace (32 * N.of_nat (S w)) with (32 + 32 * N.of_nat w) by lia.
    replace (32 * N.of_nat (S j)) with (32 * N.of_nat j + 32) by lia.
    rewrite !N.pow_add_r.
    rewrite <- N.div_div by (apply N.pow_nonzero; discriminate).
    rewrite (N.mod_mul_r _ (2 ^ 32) (2 ^ (32 * N.of_nat w))) by (apply N.pow_nonzero; discriminate).
    reflexivity.
Qed.

(** ** discriminants *)
Lemma disc_size_pos n : 0 < disc_size n.
Proof. unfold disc_size. destruct (n <=? 256); [lia|]. destruct (n <=? 65536); lia. Qed.

Lemma disc_fits n i : i < n -> n <= 2 ^ 32 -> i < pow256 (N.to_nat (disc_size n)).
Proof.
  intros Hi Hn. unfold disc_size.
  destruct (N.leb_spec n 256); [change (pow256 (N.to_nat 1)) with 256; lia|].
  destruct (N.leb_spec n 65536); [change (pow256 (N.to_nat 2)) with 65536; lia|].
  change (pow256 (N.to_nat 4)) with (2 ^ 32). lia.
Qed.
(** ** scalars *)
Lemma in_range_spec lo hi z : in_range lo hi z = true -> (lo <= z < hi)%Z.
Proof. unfold in_range. intros H. apply andb_true_iff in H. destruct H as [H1 H2].
  apply Z.leb_le in H1. apply Z.ltb_lt in H2. lia. Qed.

Ltac ev t := let v := eval vm_compute in t in change t with v in *.
Ltac ev_consts :=
  ev (2 ^ 8); ev (2 ^ 16); ev (2 ^ 32); ev (2 ^ 64);
  ev (2 ^ (8 - 1)); ev (2 ^ (16 - 1)); ev (2 ^ (32 - 1)); ev (2 ^ (64 - 1));
  ev (2 ^ Z.of_N 8)%Z; ev (2 ^ Z.of_N 16)%Z; ev (2 ^ Z.of_N 32)%Z; ev (2 ^ Z.of_N 64)%Z.

Ltac signed_tac :=
  intros; unfold to_signed, wrapZ; cbv zeta; ev_consts;
  match goal with |- context [?a <? ?b] => destruct (N.ltb_spec a b) end; lia.

Lemma signed_8_8 z : (-128 <= z < 128)%Z -> to_signed 8 (wrapZ 8 z) = z. Proof. signed_tac. Qed.
Lemma signed_16_16 z : (-32768 <= z < 32768)%Z -> to_signed 16 (wrapZ 16 z) = z. Proof. signed_tac. Qed.
Lemma signed_32_32 z : (-2147483648 <= z < 2147483648)%Z -> to_signed 32 (wrapZ 32 z) = z. Proof. signed_tac. Qed.
Lemma signed_64_64 z : (-9223372036854775808 <= z < 9223372036854775808)%Z -> to_signed 64 (wrapZ 64 z) = z. Proof. signed_tac. Qed.
Lemma signed_8_32 z : (-128 <= z < 128)%Z -> to_signed 8 (wrapZ 32 z) = z. Proof. signed_tac. Qed.
Lemma signed_16_32 z : (-32768 <= z < 32768)%Z -> to_signed 16 (wrapZ 32 z) = z. Proof. signed_tac. Qed.

Lemma wrapZ_lt bits z : wrapZ bits z < 2 ^ bits.
Proof.
  unfold wrapZ. assert (0 < 2 ^ Z.of_N bits)%Z by (apply Z.pow_pos_nonneg; lia).
  assert (E : 2 ^ bits = Z.to_N (2 ^ Z.of_N bits)).
  { rewrite <- (N2Z.id (2 ^ bits)). rewrite N2Z.inj_pow. reflexivity. }
  rewrite E. pose proof (Z.mod_pos_bound z (2 ^ Z.of_N bits) H). lia.
Qed.
