(** C05, part 5: the two round-trip theorems of the canonical-ABI oracle [Canon/Spec.v] in one statement,
    spelled out without auxiliary definitions (only [bounded_ty] from [SpecRoundtripEq]).

    Hypotheses, and why each is there:
    - [pw = 4 \/ pw = 8]: the two pointer widths the oracle is meant for ([ptr_ct] only distinguishes 8 from
      "anything else", so for other widths a pointer would not fit its core type).
    - [valid_ty t = true]: Spec.v's own well-formedness predicate.  Its only use in the proof is
      [0 < elem_size pw t], needed for lists/maps: the element count [n] of a list is transported in a
      [pw]-byte field and is only known to fit because the [n * elem_size] bytes of the elements were
      allocated below [2 ^ (8 * pw)]; a list of zero-sized elements (e.g. [list<record{}>], [list<flags 0>])
      has no such bound.
    - [bounded_ty t = true]: every variant has at most [2^32] cases and every enum at most [2^32] cases
      (recursively).  Needed because the discriminant is transported in an [i32] (flat form, read back as
      [d mod 2^32]) or in [disc_size] <= 4 bytes (memory form); with more cases a case index >= 2^32 would be
      truncated.  WIT itself cannot express such types; the clause is stated because [ty] can.
    - [has_type t v = true]: the value inhabits the type (integers in range, chars are scalar values,
      string bytes < 256, list lengths, case indices, one boolean per flag, float bit patterns < 2^32/2^64).
    - [presets st = []]: the allocator is the bump allocator (no embedder-supplied addresses).
    - [next st' < 2 ^ (8 * pw)] (only for the read-back conclusions, not for totality): every address handed out
      by the allocator, and every length, fits a [pw]-byte pointer.  Strict [<] because a string of length
      [2^(8*pw)] allocated at address 0 would otherwise have a length that does not fit.
    - (B) [a + elem_size pw t <= next st]: the target area was allocated before (it lies below the bump
      pointer), so that fresh allocations cannot overlap it. *)
From Coq Require Import List ZArith NArith Bool Lia.
From WB Require Import Wit.Ty Canon.Spec.
From WB Require Import Canon.SpecRoundtripArith Canon.SpecRoundtripEq Canon.SpecRoundtripMem Canon.SpecRoundtripFlat.
Import ListNotations.
Local Open Scope N_scope.

Theorem spec_host_sound :
  forall pw : N, pw = 4 \/ pw = 8 ->
  forall t : ty, valid_ty t = true -> bounded_ty t = true ->
  forall v : val, has_type t v = true ->
  forall st : mstate, presets st = [] ->
  (* (A) flat form *)
  (exists cs st',
      lower_flat pw t v st = Some (cs, st') /\
      presets st' = [] /\ next st <= next st' /\
      (forall b, b < next st -> mem st' b = mem st b) /\
      map fst cs = flatten pw t /\ length cs = length (flatten pw t) /\
      (next st' < 2 ^ (8 * pw) ->
         Forall (fun c : cval => snd c < 2 ^ ct_bits (fst c)) cs /\
         lift_flat pw t (mem st') cs = Some (v, []) /\
         (forall m rest, (forall b, next st <= b < next st' -> m b = mem st' b) ->
            lift_flat pw t m (cs ++ rest) = Some (v, rest)))) /\
  (* (B) memory form *)
  (forall a, a + elem_size pw t <= next st ->
     exists st',
       store pw t v a st = Some st' /\
       presets st' = [] /\ next st <= next st' /\
       (forall b, b < next st -> ~ (a <= b < a + elem_size pw t) -> mem st' b = mem st b) /\
       (next st' < 2 ^ (8 * pw) ->
          load pw t (mem st') a = Some v /\
          (forall m, (forall b, (a <= b < a + elem_size pw t) \/ (next st <= b < next st') -> m b = mem st' b) ->
             load pw t m a = Some v))).
Proof.
  intros pw Hpw t Hv Hb v Ht st Hp. split.
  - exact (lower_lift_roundtrip pw t v st Hpw Hv Hb Ht Hp).
  - intros a Ha.
    destruct (store_load_roundtrip pw t v a st Hpw Hv Hb Ht Hp Ha) as (st' & E & H1 & H2 & H3 & H4).
    exists st'. split; [exact E|]. split; [exact H1|]. split; [exact H2|]. split; [exact H3|].
    intros HB. split.
    + apply (H4 (mem st') HB). intros b _. reflexivity.
    + intros m Hm. exact (H4 m HB Hm).
Qed.
