(** C05, part 3: memory-form round trip of the canonical-ABI oracle: [load] after [store] returns the value. *)
From Coq Require Import List ZArith NArith Bool Lia.
From WB Require Import Wit.Ty Canon.Spec.
Import ListNotations.
Local Open Scope N_scope.
From WB Require Import Canon.SpecRoundtripArith Canon.SpecRoundtripEq.
Local Ltac Zify.zify_post_hook ::= Z.to_euclidean_division_equations.
Definition ptr_bound (pw : N) : N := 2 ^ (8 * pw).

Lemma pow256_pw pw : pow256 (pw_bytes pw) = ptr_bound pw.
Proof. unfold pw_bytes, ptr_bound. rewrite pow256_2, N2Nat.id. reflexivity. Qed.

Lemma st_alloc_bump st size al : presets st = [] ->
  st_alloc st size al =
  (align_to (next st) al,
   {| mem := mem st; next := align_to (next st) al + size;
      allocs := if size =? 0 then allocs st else (align_to (next st) al, size, al) :: allocs st;
      presets := presets st |}).
Proof. intros H. unfold st_alloc. rewrite H. destruct (size =? 0); reflexivity. Qed.

Lemma store_elems_cons sto sz v vs a st :
  store_elems sto sz (v :: vs) a st
  = match sto v a st with Some st' => store_elems sto sz vs (a + sz) st' | None => None end.
Proof. reflexivity. Qed.
Lemma load_elems_S ld sz k a :
  load_elems ld sz (S k) a
  = match ld a with
    | Some v => match load_elems ld sz k (a + sz) with Some vs => Some (v :: vs) | None => None end
    | None => None
    end.
Proof. reflexivity. Qed.

Section mem.
  Variable pw : N.
  Hypothesis Hpw : pw = 4 \/ pw = 8.
  Let B := ptr_bound pw.

  Lemma pw_pos : 0 < pw.
  Proof. destruct Hpw; subst; reflexivity. Qed.

  (** The memory-form round-trip contract of one (store, load) pair at element size [sz] for value [v]. *)
  Definition mem_ok (sz : N) (sto : val -> N -> mstate -> option mstate)
    (ld : (N -> N) -> N -> option val) (v : val) : Prop :=
    forall a st, presets st = [] -> a + sz <= next st ->
    exists st', sto v a st = Some st' /\ presets st' = [] /\ next st <= next st' /\
      (forall b, b < next st -> ~ (a <= b < a + sz) -> mem st' b = mem st b) /\
      (forall m, next st' < B ->
         (forall b, (a <= b < a + sz) \/ (next st <= b < next st') -> m b = mem st' b) ->
         ld m a = Some v).

  Lemma store_elems_ok sz sto ld vs : Forall (mem_ok sz sto ld) vs ->
    forall a st, presets st = [] -> a + N.of_nat (length vs) * sz <= next st ->
    exists st', store_elems sto sz vs a st = Some st' /\ presets st' = [] /\ next st <= next st' /\
      (forall b, b < next st -> ~ (a <= b < a + N.of_nat (length vs) * sz) -> mem st' b = mem st b) /\
      (forall m, next st' < B ->
         (forall b, (a <= b < a + N.of_nat (length vs) * sz) \/ (next st <= b < next st') -> m b = mem st' b) ->
         load_elems (ld m) sz (length vs) a = Some vs).
  Proof.
    induction 1 as [|v vs Hv _ IH]; intros a st Hp Ha.
    - exists st. split; [reflexivity|]. split; [assumption|]. split; [lia|]. split; [reflexivity|]. reflexivity.
    - cbn [length] in *. rewrite Nat2N.inj_succ, N.mul_succ_l in *.
      set (n := N.of_nat (length vs)) in *.
      destruct (Hv a st Hp) as (st1 & E1 & Hp1 & Hn1 & Hf1 & Hl1); [lia|].
      destruct (IH (a + sz) st1 Hp1) as (st2 & E2 & Hp2 & Hn2 & Hf2 & Hl2); [lia|].
      exists st2. rewrite store_elems_cons, E1. split; [exact E2|]. split; [assumption|]. split; [lia|]. split.
      + intros b Hb Hout. rewrite Hf2 by lia. apply Hf1; lia.
      + intros m HB Hm. rewrite load_elems_S. rewrite (Hl1 m); [|lia|].
        * rewrite (Hl2 m); [reflexivity|lia|]. intros b Hb. apply Hm. lia.
        * intros b Hb. rewrite Hm by lia. apply Hf2; lia.
  Qed.
  (** one little-endian store *)
  Lemma st_store_ok st a n x sz : presets st = [] -> N.of_nat n <= sz ->
    let st' := st_store st a n x in
    presets st' = [] /\ next st <= next st' /\
    (forall b, b < next st -> ~ (a <= b < a + sz) -> mem st' b = mem st b) /\
    (forall m : N -> N, (forall b, (a <= b < a + sz) \/ (next st <= b < next st') -> m b = mem st' b) ->
       load_le m a n = x mod pow256 n).
  Proof.
    intros Hp Hn. cbn [st_store presets next mem]. split; [assumption|]. split; [lia|]. split.
    - intros b Hb Hout. apply store_le_other. lia.
    - intros m Hm. rewrite <- (load_le_store_le (mem st) a n x). apply load_le_ext.
      intros b Hb. apply Hm. lia.
  Qed.

  Lemma store_ptr_len_spec st a p len :
    let st' := store_ptr_len pw st a p len in
    presets st' = presets st /\ next st' = next st /\
    (forall b, ~ (a <= b < a + 2 * pw) -> mem st' b = mem st b) /\
    (forall m : N -> N, (forall b, a <= b < a + 2 * pw -> m b = mem st' b) ->
       load_le m a (pw_bytes pw) = p mod B /\ load_le m (a + pw) (pw_bytes pw) = len mod B).
  Proof.
    unfold store_ptr_len. cbn [st_store presets next mem].
    assert (Hb : N.of_nat (pw_bytes pw) = pw) by (unfold pw_bytes; apply N2Nat.id).
    split; [reflexivity|]. split; [reflexivity|]. split.
    - intros b Hout. rewrite !store_le_other by lia. reflexivity.
    - intros m Hm. unfold B. rewrite <- pow256_pw. split.
      + rewrite <- (load_le_store_le (mem st) a (pw_bytes pw) p). apply load_le_ext.
        intros b Hb'. rewrite Hm by lia. apply store_le_other. lia.
      + rewrite <- (load_le_store_le (store_le (mem st) a (pw_bytes pw) p) (a + pw) (pw_bytes pw) len).
        apply load_le_ext. intros b Hb'. apply Hm. lia.
  Qed.

  (** ** scalars *)
  Lemma scalar_mem_rt t n v : scalar_bytes t = Some n -> has_type t v = true ->
    exists x, scalar_bits t v = Some x /\ x < pow256 n /\ scalar_lift t x = Some v.
  Proof.
    intros Hn Hv.
    destruct t; try discriminate Hn; injection Hn as <-; destruct v; try discriminate Hv;
      cbn [has_type] in Hv; cbn [scalar_bits scalar_lift];
      try (apply in_range_spec in Hv).
    all: try match goal with |- context [wrapZ ?k ?z] =>
           exists (wrapZ k z); split; [reflexivity|]; split; [apply wrapZ_lt|]; do 2 f_equal end.
    all: try match goal with |- context [Some (Z.to_N ?z)] =>
           exists (Z.to_N z); split; [reflexivity|]; ev_consts;
           (split; [change (pow256 1) with 256; change (pow256 2) with 65536;
                    change (pow256 4) with 4294967296; change (pow256 8) with 18446744073709551616; lia|]) end.
    all: ev_consts.
    all: try solve [do 2 f_equal; lia].
    all: try solve [first [apply signed_8_8|apply signed_16_16|apply signed_32_32|apply signed_64_64]; lia].
    - exists (if b then 1 else 0). destruct b; (split; [reflexivity|]; split; reflexivity).
    - apply N.ltb_lt in Hv. exists bits. split; [reflexivity|]. split; [exact Hv|].
      rewrite N.mod_small by exact Hv. reflexivity.
    - apply N.ltb_lt in Hv. exists bits. split; [reflexivity|]. split; [exact Hv|].
      rewrite N.mod_small by exact Hv. reflexivity.
    - assert (Hr : (0 <= z < 1114112)%Z).
      { unfold is_scalar_value in Hv. apply orb_true_iff in Hv. destruct Hv as [Hv|Hv]; apply in_range_spec in Hv; lia. }
      exists (Z.to_N z). split; [reflexivity|]. split; [change (pow256 4) with 4294967296; lia|].
      rewrite N.mod_small by lia. rewrite Z2N.id by lia. rewrite Hv. reflexivity.
  Qed.
  Lemma mem_ok_scalar t n v : scalar_bytes t = Some n -> has_type t v = true ->
    mem_ok (N.of_nat n) (store pw t) (load pw t) v.
  Proof.
    intros Hn Hv a st Hp Ha.
    destruct (scalar_mem_rt t n v Hn Hv) as (x & Hx & Hlt & Hl).
    rewrite (store_scalar_eq pw t n v a st Hn), Hx.
    destruct (st_store_ok st a n x (N.of_nat n) Hp (N.le_refl _)) as (H1 & H2 & H3 & H4).
    eexists. split; [reflexivity|]. split; [exact H1|]. split; [exact H2|]. split; [exact H3|].
    intros m _ Hm. rewrite (load_scalar_eq pw t n m a Hn). rewrite (H4 m Hm).
    rewrite N.mod_small by exact Hlt. exact Hl.
  Qed.

  Lemma mem_ok_enum n v : bounded_ty (TEnum n) = true -> has_type (TEnum n) v = true ->
    mem_ok (elem_size pw (TEnum n)) (store pw (TEnum n)) (load pw (TEnum n)) v.
  Proof.
    intros Hb Hv a st Hp Ha. destruct v as [| | | | | |i [p|]|]; try discriminate Hv.
    change (i <? n = true) in Hv. change (n <=? 4294967296 = true) in Hb.
    change (elem_size pw (TEnum n)) with (disc_size n) in *.
    rewrite store_enum_eq, Hv. apply N.ltb_lt in Hv. apply N.leb_le in Hb.
    assert (Hds : N.of_nat (N.to_nat (disc_size n)) <= disc_size n) by (rewrite N2Nat.id; lia).
    destruct (st_store_ok st a (N.to_nat (disc_size n)) i (disc_size n) Hp Hds) as (H1 & H2 & H3 & H4).
    eexists. split; [reflexivity|]. split; [exact H1|]. split; [exact H2|]. split; [exact H3|].
    intros m _ Hm. rewrite load_enum_eq. rewrite (H4 m Hm).
    rewrite N.mod_small by (apply disc_fits; [assumption|exact Hb]).
    apply N.ltb_lt in Hv. rewrite Hv. reflexivity.
  Qed.

  Lemma mem_ok_flags n v : has_type (TFlags n) v = true ->
    mem_ok (elem_size pw (TFlags n)) (store pw (TFlags n)) (load pw (TFlags n)) v.
  Proof.
    intros Hv a st Hp Ha. destruct v as [| | | | | | |bs]; try discriminate Hv.
    change (N.of_nat (length bs) =? n = true) in Hv.
    change (elem_size pw (TFlags n)) with (flags_size n) in *.
    rewrite store_flags_eq, Hv. apply N.eqb_eq in Hv.
    assert (Hds : N.of_nat (N.to_nat (flags_size n)) <= flags_size n) by (rewrite N2Nat.id; lia).
    destruct (st_store_ok st a (N.to_nat (flags_size n)) (flags_bits bs) (flags_size n) Hp Hds) as (H1 & H2 & H3 & H4).
    eexists. split; [reflexivity|]. split; [exact H1|]. split; [exact H2|]. split; [exact H3|].
    intros m _ Hm. rewrite load_flags_eq. rewrite (H4 m Hm). subst n.
    rewrite N.mod_small by apply flags_bits_fits_mem. rewrite Nat2N.id, bits_flags_bits. reflexivity.
  Qed.

  Lemma mem_ok_string v : has_type TString v = true ->
    mem_ok (elem_size pw TString) (store pw TString) (load pw TString) v.
  Proof.
    intros Hv a st Hp Ha. destruct v as [| | |bs| | | |]; try discriminate Hv.
    change (forallb (fun b => b <? 256) bs = true) in Hv.
    change (elem_size pw TString) with (2 * pw) in *.
    rewrite store_string_eq, (st_alloc_bump st _ 1 Hp).
    set (p := align_to (next st) 1). set (len := N.of_nat (length bs)).
    assert (Hpge : next st <= p) by (apply align_to_ge; reflexivity).
    match goal with |- context [store_ptr_len pw ?s a p len] => set (st2 := s) end.
    destruct (store_ptr_len_spec st2 a p len) as (H1 & H2 & H3 & H4).
    eexists. split; [reflexivity|]. rewrite H1, H2. cbn [st2 presets next].
    split; [assumption|]. split; [lia|]. split.
    - intros b Hb Hout. rewrite H3 by lia. cbn [st2 mem]. apply store_bytes_at_other. lia.
    - intros m HB Hm. rewrite load_string_eq.
      destruct (H4 m) as [E1 E2]; [intros b Hb; apply Hm; lia|]. rewrite E1, E2.
      rewrite !N.mod_small by (fold len; lia). unfold len. rewrite Nat2N.id. f_equal. f_equal.
      apply bytes_readback; [exact Hv|]. intros k Hk.
      rewrite Hm by (fold len; lia). rewrite H3 by lia. cbn [st2 mem].
      apply store_bytes_at_nth. exact Hk.
  Qed.
  (** ** records / tuples *)
  Definition tmem_ok (t : ty) (v : val) : Prop := mem_ok (elem_size pw t) (store pw t) (load pw t) v.

  Lemma fields_ok fs vs : Forall2 tmem_ok fs vs ->
    forall s a st, presets st = [] -> a + rec_end pw fs s <= next st ->
    exists st', store_fields_t pw (store pw) a fs vs s st = Some st' /\ presets st' = [] /\ next st <= next st' /\
      (forall b, b < next st -> ~ (a + s <= b < a + rec_end pw fs s) -> mem st' b = mem st b) /\
      (forall m, next st' < B ->
         (forall b, (a + s <= b < a + rec_end pw fs s) \/ (next st <= b < next st') -> m b = mem st' b) ->
         load_fields_t pw (load pw) m a fs s = Some vs).
  Proof.
    induction 1 as [|f v fs vs Hv _ IH]; intros s a st Hp Ha.
    - exists st. split; [reflexivity|]. split; [assumption|]. split; [lia|]. split; reflexivity.
    - rewrite rec_end_cons in *. cbn [store_fields_t load_fields_t]. cbv zeta.
      set (o := align_to s (alignment pw f)) in *.
      assert (Ho : s <= o) by (apply align_to_ge, alignment_pos, pw_pos).
      pose proof (rec_end_ge pw fs pw_pos (o + elem_size pw f)) as Hre.
      set (R := rec_end pw fs (o + elem_size pw f)) in *.
      destruct (Hv (a + o) st Hp) as (st1 & E1 & Hp1 & Hn1 & Hf1 & Hl1); [lia|].
      destruct (IH (o + elem_size pw f) a st1 Hp1) as (st2 & E2 & Hp2 & Hn2 & Hf2 & Hl2); [fold R; lia|].
      fold R in Hf2, Hl2.
      exists st2. rewrite E1. split; [exact E2|]. split; [assumption|]. split; [lia|]. split.
      + intros b Hb Hout. rewrite Hf2 by lia. apply Hf1; lia.
      + intros m HB Hm. rewrite (Hl1 m); [|lia|].
        * rewrite (Hl2 m); [reflexivity|lia|]. intros b Hb. apply Hm. lia.
        * intros b Hb. rewrite Hm by lia. apply Hf2; lia.
  Qed.

  Lemma record_ok fs vs : Forall2 tmem_ok fs vs ->
    forall a st, presets st = [] -> a + record_size pw fs <= next st ->
    exists st', store_fields_t pw (store pw) a fs vs 0 st = Some st' /\ presets st' = [] /\ next st <= next st' /\
      (forall b, b < next st -> ~ (a <= b < a + record_size pw fs) -> mem st' b = mem st b) /\
      (forall m, next st' < B ->
         (forall b, (a <= b < a + record_size pw fs) \/ (next st <= b < next st') -> m b = mem st' b) ->
         load_fields_t pw (load pw) m a fs 0 = Some vs).
  Proof.
    intros H a st Hp Ha. pose proof (record_size_ge pw fs) as Hge.
    destruct (fields_ok fs vs H 0 a st Hp) as (st' & E & Hp' & Hn & Hf & Hl); [lia|].
    exists st'. split; [exact E|]. split; [assumption|]. split; [assumption|]. split.
    - intros b Hb Hout. apply Hf; lia.
    - intros m HB Hm. apply Hl; [assumption|]. intros b Hb. apply Hm. lia.
  Qed.

  (** ** variants *)
  Definition copt_ok (c : option ty) (p : option val) : Prop :=
    match c, p with
    | None, None => True
    | Some t, Some v => tmem_ok t v
    | _, _ => False
    end.

  Lemma variant_ok ds cs i p c :
    nth_error cs (N.to_nat i) = Some c -> copt_ok c p ->
    i < N.of_nat (length cs) -> i < pow256 (N.to_nat ds) ->
    forall a st, presets st = [] -> a + variant_size pw ds cs <= next st ->
    exists st', store_variant_t pw (store pw) ds cs i p a st = Some st' /\ presets st' = [] /\ next st <= next st' /\
      (forall b, b < next st -> ~ (a <= b < a + variant_size pw ds cs) -> mem st' b = mem st b) /\
      (forall m, next st' < B ->
         (forall b, (a <= b < a + variant_size pw ds cs) \/ (next st <= b < next st') -> m b = mem st' b) ->
         load_variant_t pw (load pw) m a ds cs = Some (VVar i p)).
  Proof.
    intros Hnth Hc Hi Hfit a st Hp Ha.
    pose proof (variant_size_ge pw ds cs) as Hvs. pose proof (payload_offset_ge pw ds cs) as Hpo.
    pose proof (case_size_le pw cs _ c Hnth) as Hcs.
    unfold store_variant_t, load_variant_t. cbv zeta.
    assert (Hi' : i <? N.of_nat (length cs) = true) by (apply N.ltb_lt; exact Hi). rewrite Hi'.
    rewrite (store_case_t_nth (store pw) cs _ c p _ _ Hnth).
    assert (Hds : N.of_nat (N.to_nat ds) <= payload_offset pw ds cs) by (rewrite N2Nat.id; lia).
    destruct (st_store_ok st a (N.to_nat ds) i (payload_offset pw ds cs) Hp Hds) as (H1 & H2 & H3 & H4).
    set (st0 := st_store st a (N.to_nat ds) i) in *.
    assert (Hn0 : next st0 = next st) by reflexivity.
    destruct c as [t|], p as [v|]; cbn [copt_ok] in Hc; try contradiction; cbn [store_opt_t omap] in *.
    - destruct (Hc (a + payload_offset pw ds cs) st0 H1) as (st' & E & Hp' & Hn & Hf & Hl); [lia|].
      exists st'. split; [exact E|]. split; [assumption|]. split; [lia|]. split.
      + intros b Hb Hout. rewrite Hf by lia. apply H3; lia.
      + intros m HB Hm.
        assert (Hd : load_le m a (N.to_nat ds) = i).
        { transitivity (i mod pow256 (N.to_nat ds)); [|apply N.mod_small; exact Hfit].
          rewrite <- (load_le_store_le (mem st) a (N.to_nat ds) i). apply load_le_ext.
          intros b Hb. rewrite N2Nat.id in Hb. rewrite Hm by lia. rewrite Hf by lia. reflexivity. }
        rewrite Hd, Hi'. rewrite (load_case_t_nth (load pw) m cs _ _ _ Hnth). cbn [load_opt_t].
        rewrite (Hl m); [reflexivity|assumption|]. intros b Hb. apply Hm. lia.
    - exists st0. split; [reflexivity|]. split; [assumption|]. split; [lia|]. split.
      + intros b Hb Hout. apply H3; lia.
      + intros m HB Hm. rewrite (H4 m) by (intros b Hb; apply Hm; lia).
        rewrite N.mod_small by exact Hfit. rewrite Hi'.
        rewrite (load_case_t_nth (load pw) m cs _ _ _ Hnth). reflexivity.
  Qed.
  (** ** lists (and the backing list of maps): allocation + element stores *)
  Lemma list_body_ok et sto ld vs st :
    0 < elem_size pw et -> Forall (mem_ok (elem_size pw et) sto ld) vs -> presets st = [] ->
    exists st1 st2,
      st_alloc st (N.of_nat (length vs) * elem_size pw et) (alignment pw et)
        = (align_to (next st) (alignment pw et), st1) /\
      store_elems sto (elem_size pw et) vs (align_to (next st) (alignment pw et)) st1 = Some st2 /\
      presets st2 = [] /\
      next st <= align_to (next st) (alignment pw et) /\
      align_to (next st) (alignment pw et) + N.of_nat (length vs) <= next st2 /\
      align_to (next st) (alignment pw et) mod alignment pw et = 0 /\
      (forall b, b < next st -> mem st2 b = mem st b) /\
      (forall m, next st2 < B -> (forall b, next st <= b < next st2 -> m b = mem st2 b) ->
         load_elems (ld m) (elem_size pw et) (length vs) (align_to (next st) (alignment pw et)) = Some vs).
  Proof.
    intros Hsz Hvs Hp. pose proof (alignment_pos pw et pw_pos) as Hal.
    rewrite (st_alloc_bump st _ _ Hp).
    set (p := align_to (next st) (alignment pw et)). set (sz := elem_size pw et) in *.
    set (n := N.of_nat (length vs)).
    assert (Hpge : next st <= p) by (apply align_to_ge; exact Hal).
    eexists. match goal with |- context [(p, ?s) = (p, _)] => set (st1 := s) end.
    destruct (store_elems_ok sz sto ld vs Hvs p st1) as (st2 & E2 & Hp2 & Hn2 & Hf2 & Hl2);
      [exact Hp|cbn [st1 next]; fold n; lia|].
    cbn [st1 next mem] in Hn2, Hf2, Hl2. fold n in Hn2, Hf2, Hl2.
    exists st2. split; [reflexivity|]. split; [exact E2|]. split; [assumption|]. split; [assumption|].
    split; [nia|]. split; [apply align_to_mod; exact Hal|]. split.
    - intros b Hb. apply Hf2; lia.
    - intros m HB Hm. apply Hl2; [assumption|]. intros b Hb. apply Hm. lia.
  Qed.

  Lemma list_ok et sto ld vs :
    0 < elem_size pw et -> Forall (mem_ok (elem_size pw et) sto ld) vs ->
    forall a st, presets st = [] -> a + 2 * pw <= next st ->
    exists st', store_list_t pw et sto vs a st = Some st' /\ presets st' = [] /\ next st <= next st' /\
      (forall b, b < next st -> ~ (a <= b < a + 2 * pw) -> mem st' b = mem st b) /\
      (forall m, next st' < B ->
         (forall b, (a <= b < a + 2 * pw) \/ (next st <= b < next st') -> m b = mem st' b) ->
         load_list_t pw m a et (ld m) = Some (VList vs)).
  Proof.
    intros Hsz Hvs a st Hp Ha.
    destruct (list_body_ok et sto ld vs st Hsz Hvs Hp) as (st1 & st2 & E1 & E2 & Hp2 & Hpge & Hn2 & Hmod & Hf2 & Hl2).
    unfold store_list_t, load_list_t. cbv zeta. rewrite E1, E2.
    set (p := align_to (next st) (alignment pw et)) in *. set (len := N.of_nat (length vs)) in *.
    destruct (store_ptr_len_spec st2 a p len) as (H1 & H2 & H3 & H4).
    eexists. split; [reflexivity|]. rewrite H1, H2. split; [assumption|]. split; [lia|]. split.
    - intros b Hb Hout. rewrite H3 by lia. apply Hf2. assumption.
    - intros m HB Hm. destruct (H4 m) as [E3 E4]; [intros b Hb; apply Hm; lia|]. rewrite E3, E4.
      rewrite (N.mod_small p B), (N.mod_small len B) by lia. rewrite Hmod. cbn [N.eqb]. unfold len. rewrite Nat2N.id.
      rewrite (Hl2 m); [reflexivity|assumption|]. intros b Hb. rewrite Hm by lia. apply H3. lia.
  Qed.

  (** ** map entries: [tuple<k, v>] *)
  Lemma entry_ok k e x y : tmem_ok k x -> tmem_ok e y ->
    mem_ok (elem_size pw (map_entry k e))
      (store_entry (store pw k) (store pw e) (entry_value_offset pw k e))
      (fun m => load_entry (load pw k m) (load pw e m) (entry_value_offset pw k e))
      (VRec [x; y]).
  Proof.
    intros Hk He a st Hp Ha.
    change (elem_size pw (map_entry k e)) with (record_size pw [k; e]) in *.
    pose proof (record_size_ge pw [k; e]) as Hge.
    change (rec_end pw [k; e] 0)
      with (align_to (align_to 0 (alignment pw k) + elem_size pw k) (alignment pw e) + elem_size pw e) in Hge.
    rewrite (align_to_0 _ (alignment_pos pw k pw_pos)), N.add_0_l in Hge.
    fold (entry_value_offset pw k e) in Hge. set (off := entry_value_offset pw k e) in *.
    assert (Hoff : elem_size pw k <= off) by (apply align_to_ge, alignment_pos, pw_pos).
    cbn [store_entry load_entry].
    destruct (Hk a st Hp) as (st1 & E1 & Hp1 & Hn1 & Hf1 & Hl1); [lia|].
    destruct (He (a + off) st1 Hp1) as (st2 & E2 & Hp2 & Hn2 & Hf2 & Hl2); [lia|].
    exists st2. rewrite E1. split; [exact E2|]. split; [assumption|]. split; [lia|]. split.
    - intros b Hb Hout. rewrite Hf2 by lia. apply Hf1; lia.
    - intros m HB Hm. unfold load_entry. rewrite (Hl1 m); [|lia|].
      + rewrite (Hl2 m); [reflexivity|lia|]. intros b Hb. apply Hm. lia.
      + intros b Hb. rewrite Hm by lia. apply Hf2; lia.
  Qed.
  (** ** the induction over types *)
  Definition P (t : ty) : Prop :=
    valid_ty t = true -> bounded_ty t = true -> forall v, has_type t v = true -> tmem_ok t v.

  Lemma fields_P fs : Forall P fs -> forallb valid_ty fs = true -> forallb bounded_ty fs = true ->
    forall vs, all2_t has_type fs vs = true -> Forall2 tmem_ok fs vs.
  Proof.
    induction 1 as [|f fs Hf _ IH]; intros Hv Hb [|v vs] Ht; cbn [all2_t] in Ht; try discriminate Ht.
    - constructor.
    - cbn [forallb] in Hv, Hb. apply andb_true_iff in Hv, Hb, Ht.
      destruct Hv, Hb, Ht. constructor; auto.
  Qed.

  Lemma cases_P cs i c : Forall (OptP P) cs -> forallb ovalid cs = true -> forallb obounded cs = true ->
    nth_error cs i = Some c -> forall p, opt_t has_type c p = true -> copt_ok c p.
  Proof.
    intros HP Hv Hb Hnth p Ht. apply nth_error_In in Hnth.
    rewrite Forall_forall in HP. rewrite forallb_forall in Hv, Hb.
    specialize (HP c Hnth). specialize (Hv c Hnth). specialize (Hb c Hnth).
    destruct c as [t|], p as [v|]; cbn in *; try discriminate; auto.
  Qed.

  Lemma elems_P t vs : P t -> valid_ty t = true -> bounded_ty t = true ->
    forallb (has_type t) vs = true -> Forall (mem_ok (elem_size pw t) (store pw t) (load pw t)) vs.
  Proof.
    intros HP Hv Hb Ht. rewrite forallb_forall in Ht. apply Forall_forall. intros v Hin.
    apply HP; auto.
  Qed.

  Theorem mem_roundtrip t : P t.
  Proof.
    induction t using ty_ind'; intros Hv Hb v Ht;
      try (match goal with |- tmem_ok ?t _ =>
             first [exact (mem_ok_scalar t 1%nat v eq_refl Ht) | exact (mem_ok_scalar t 2%nat v eq_refl Ht)
                   | exact (mem_ok_scalar t 4%nat v eq_refl Ht) | exact (mem_ok_scalar t 8%nat v eq_refl Ht)] end).
    - (* string *) exact (mem_ok_string v Ht).
    - (* list *)
      destruct v as [| | | |vs| | |]; try discriminate Ht.
      change (forallb (has_type t) vs = true) in Ht.
      intros a st Hp Ha.
      exact (list_ok t (store pw t) (load pw t) vs (elem_size_pos pw t pw_pos Hv)
               (elems_P t vs IHt Hv Hb Ht) a st Hp Ha).
    - (* fixed *)
      destruct v as [| | | |vs| | |]; try discriminate Ht.
      change ((N.of_nat (length vs) =? n) && forallb (has_type t) vs = true) in Ht.
      change (valid_ty t && (0 <? n) = true) in Hv.
      apply andb_true_iff in Ht, Hv. destruct Ht as [Hlen Ht], Hv as [Hv _].
      intros a st Hp Ha. rewrite store_fixed_eq, Hlen. apply N.eqb_eq in Hlen. subst n.
      change (elem_size pw (TFixed t (N.of_nat (length vs)))) with (N.of_nat (length vs) * elem_size pw t) in *.
      destruct (store_elems_ok _ _ _ vs (elems_P t vs IHt Hv Hb Ht) a st Hp Ha) as (st' & E & H1 & H2 & H3 & H4).
      exists st'. split; [exact E|]. split; [assumption|]. split; [assumption|]. split; [assumption|].
      intros m HB Hm. rewrite load_fixed_eq, Nat2N.id. rewrite (H4 m HB Hm). reflexivity.
    - (* map *)
      destruct v as [| | | |vs| | |]; try discriminate Ht.
      change (forallb (fun e => match e with VRec [a; b] => has_type t1 a && has_type t2 b | _ => false end) vs = true) in Ht.
      change (valid_ty t1 && valid_ty t2 = true) in Hv. change (bounded_ty t1 && bounded_ty t2 = true) in Hb.
      apply andb_true_iff in Hv, Hb. destruct Hv as [Hv1 Hv2], Hb as [Hb1 Hb2].
      intros a st Hp Ha.
      refine (list_ok (map_entry t1 t2) _ (fun m => load_entry (load pw t1 m) (load pw t2 m) (entry_value_offset pw t1 t2))
                vs _ _ a st Hp Ha).
      + change (0 < record_size pw [t1; t2]).
        pose proof (record_size_ge pw [t1; t2]) as Hge. rewrite rec_end_cons in Hge.
        pose proof (rec_end_ge pw [t2] pw_pos (align_to 0 (alignment pw t1) + elem_size pw t1)).
        pose proof (elem_size_pos pw t1 pw_pos Hv1). lia.
      + rewrite forallb_forall in Ht. apply Forall_forall. intros e Hin. specialize (Ht e Hin).
        destruct e as [| | | | |[|x [|y [|]]]| |]; try discriminate Ht.
        apply andb_true_iff in Ht. destruct Ht. apply entry_ok; [apply IHt1|apply IHt2]; assumption.
    - (* record *)
      destruct v as [| | | | |vs| |]; try discriminate Ht.
      rewrite has_type_record in Ht. rewrite valid_record in Hv. rewrite bounded_record in Hb.
      apply andb_true_iff in Hv. destruct Hv as [_ Hv].
      pose proof (fields_P fs H Hv Hb vs Ht) as HF.
      intros a st Hp Ha. rewrite elem_size_record in *.
      destruct (record_ok fs vs HF a st Hp Ha) as (st' & E & H1 & H2 & H3 & H4).
      exists st'. rewrite store_record_eq. split; [exact E|]. split; [assumption|]. split; [assumption|].
      split; [assumption|]. intros m HB Hm. rewrite load_record_eq, (H4 m HB Hm). reflexivity.
    - (* tuple *)
      destruct v as [| | | | |vs| |]; try discriminate Ht.
      rewrite has_type_tuple in Ht. rewrite valid_tuple in Hv. rewrite bounded_tuple in Hb.
      apply andb_true_iff in Hv. destruct Hv as [_ Hv].
      pose proof (fields_P ts H Hv Hb vs Ht) as HF.
      intros a st Hp Ha. rewrite elem_size_tuple in *.
      destruct (record_ok ts vs HF a st Hp Ha) as (st' & E & H1 & H2 & H3 & H4).
      exists st'. rewrite store_tuple_eq. split; [exact E|]. split; [assumption|]. split; [assumption|].
      split; [assumption|]. intros m HB Hm. rewrite load_tuple_eq, (H4 m HB Hm). reflexivity.
    - (* variant *)
      destruct v as [| | | | | |i p|]; try discriminate Ht.
      rewrite has_type_variant in Ht. rewrite valid_variant in Hv. rewrite bounded_variant in Hb.
      apply andb_true_iff in Hv, Hb, Ht. destruct Hv as [_ Hv], Hb as [Hn Hb], Ht as [Hi Ht].
      apply N.ltb_lt in Hi. apply N.leb_le in Hn.
      destruct (nthcase_t_nth _ _ _ _ Ht) as (c & Hnth & Hc).
      intros a st Hp Ha. rewrite elem_size_variant in *. rewrite store_variant_eq.
      destruct (variant_ok _ cs i p c Hnth (cases_P cs _ c H Hv Hb Hnth p Hc) Hi
                  (disc_fits _ i Hi Hn) a st Hp Ha) as (st' & E & H1 & H2 & H3 & H4).
      exists st'. split; [exact E|]. split; [assumption|]. split; [assumption|]. split; [assumption|].
      intros m HB Hm. rewrite load_variant_eq. exact (H4 m HB Hm).
    - (* enum *) exact (mem_ok_enum n v Hb Ht).
    - (* option *)
      destruct v as [| | | | | |i p|]; try discriminate Ht.
      rewrite has_type_option in Ht. destruct (nthcase_t_nth _ _ _ _ Ht) as (c & Hnth & Hc).
      assert (Hi : i < N.of_nat (length (cases_of_option t))).
      { assert (N.to_nat i < length (cases_of_option t))%nat by (apply nth_error_Some; congruence). lia. }
      assert (HF : Forall (OptP P) (cases_of_option t)) by (repeat constructor; exact IHt).
      assert (Hv' : forallb ovalid (cases_of_option t) = true) by (change (valid_ty t = true) in Hv; cbn [forallb cases_of_option ovalid]; rewrite Hv; reflexivity).
      assert (Hb' : forallb obounded (cases_of_option t) = true) by (change (bounded_ty t = true) in Hb; cbn [forallb cases_of_option obounded]; rewrite Hb; reflexivity).
      intros a st Hp Ha. rewrite elem_size_option in *. rewrite store_option_eq.
      destruct (variant_ok 1 _ i p c Hnth (cases_P _ _ c HF Hv' Hb' Hnth p Hc) Hi) with (a := a) (st := st)
        as (st' & E & H1 & H2 & H3 & H4); [change (pow256 (N.to_nat 1)) with 256; cbn [length cases_of_option cases_of_result] in Hi; lia|assumption|assumption|].
      exists st'. split; [exact E|]. split; [assumption|]. split; [assumption|]. split; [assumption|].
      intros m HB Hm. rewrite load_option_eq. exact (H4 m HB Hm).
    - (* result *)
      destruct v as [| | | | | |i p|]; try discriminate Ht.
      rewrite has_type_result in Ht. destruct (nthcase_t_nth _ _ _ _ Ht) as (c & Hnth & Hc).
      assert (Hi : i < N.of_nat (length (cases_of_result ok err))).
      { assert (N.to_nat i < length (cases_of_result ok err))%nat by (apply nth_error_Some; congruence). lia. }
      assert (HF : Forall (OptP P) (cases_of_result ok err)) by (repeat constructor; assumption).
      rewrite valid_result in Hv. rewrite bounded_result in Hb.
      assert (Hv' : forallb ovalid (cases_of_result ok err) = true) by (cbn [forallb cases_of_result]; rewrite andb_true_r; exact Hv).
      assert (Hb' : forallb obounded (cases_of_result ok err) = true) by (cbn [forallb cases_of_result]; rewrite andb_true_r; exact Hb).
      intros a st Hp Ha. rewrite elem_size_result in *. rewrite store_result_eq.
      destruct (variant_ok 1 _ i p c Hnth (cases_P _ _ c HF Hv' Hb' Hnth p Hc) Hi) with (a := a) (st := st)
        as (st' & E & H1 & H2 & H3 & H4); [change (pow256 (N.to_nat 1)) with 256; cbn [length cases_of_option cases_of_result] in Hi; lia|assumption|assumption|].
      exists st'. split; [exact E|]. split; [assumption|]. split; [assumption|]. split; [assumption|].
      intros m HB Hm. rewrite load_result_eq. exact (H4 m HB Hm).
    - (* flags *) exact (mem_ok_flags n v Ht).
  Qed.
End mem.

(** (B) memory form, stand-alone statement. *)
Theorem store_load_roundtrip pw t v a st :
  pw = 4 \/ pw = 8 -> valid_ty t = true -> bounded_ty t = true -> has_type t v = true ->
  presets st = [] -> a + elem_size pw t <= next st ->
  exists st', store pw t v a st = Some st' /\ presets st' = [] /\ next st <= next st' /\
    (forall b, b < next st -> ~ (a <= b < a + elem_size pw t) -> mem st' b = mem st b) /\
    (forall m, next st' < ptr_bound pw ->
       (forall b, (a <= b < a + elem_size pw t) \/ (next st <= b < next st') -> m b = mem st' b) ->
       load pw t m a = Some v).
Proof. intros Hpw Hv Hb Ht Hp Ha. exact (mem_roundtrip pw Hpw t Hv Hb v Ht a st Hp Ha). Qed.
